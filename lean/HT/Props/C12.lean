import HT.Model.Auth
/-!
# C12 — logins succeed exactly for configured credentials; gated commands stay gated

For the ssh simulator, LDAP and FTP services, an authentication attempt succeeds if and
only if the presented user/password pair is in the service's credential set (or the set
contains the wildcard entry), independently of earlier failed attempts […].  Operations
that require authentication — FTP file and directory commands, LDAP
add/modify/delete/rename/compare — are refused until a login has succeeded on the same
connection.

"Succeeds" = the connection becomes authenticated.  The FTP service's credential set is
its fixed user table; an LDAP bind with empty name and empty password is the anonymous
bind (answered with success, authenticates nobody).  The event clause (every attempt is
reported with the password presented and the user name as evaluated) is checked by the
correspondence oracle on every attempt.
-/
namespace HT.Auth

/-! ## ssh simulator -/

/-- An attempt is accepted iff the wildcard or exactly this user/password pair is configured. -/
theorem C12_ssh_iff (cs : List Cred) (u p : String) :
    sshCheck cs u p = true ↔ Cred.wildcard ∈ cs ∨ Cred.pair u p ∈ cs := by
  induction cs with
  | nil => simp [sshCheck]
  | cons c cs ih =>
    cases c with
    | wildcard => simp [sshCheck]
    | malformed => simp [sshCheck, ih]
    | pair u' p' =>
      simp only [sshCheck, Bool.or_eq_true, Bool.and_eq_true, decide_eq_true_eq, ih, List.mem_cons,
        reduceCtorEq, false_or, Cred.pair.injEq]
      constructor
      · rintro (⟨rfl, rfl⟩ | h | h)
        · exact Or.inr (Or.inl ⟨rfl, rfl⟩)
        · exact Or.inl h
        · exact Or.inr (Or.inr h)
      · rintro (h | ⟨rfl, rfl⟩ | h)
        · exact Or.inr (Or.inl h)
        · exact Or.inl ⟨rfl, rfl⟩
        · exact Or.inr (Or.inr h)

/-- The decision is a function of the credential set and the attempt alone: earlier attempts,
failed or not, cannot influence it (there is no state to carry). -/
theorem C12_ssh_history_independent (cs : List Cred) (history : List (String × String)) (u p : String) :
    ((history ++ [(u, p)]).map (fun a => sshCheck cs a.1 a.2)).getLast? = some (sshCheck cs u p) := by
  simp

/-! ## ldap -/

/-- A (non-anonymous) bind is answered with success iff the wildcard or exactly `name:password`,
with the name as the service evaluated it, is configured — whatever the connection's state. -/
theorem C12_ldap_iff (creds : List String) (s : LdapSt) (dn pw : String) (h : ¬ (dn = "" ∧ pw = "")) :
    (ldapBind creds s dn pw).2 = resSuccess ↔ "*" ∈ creds ∨ (dn ++ ":" ++ pw) ∈ creds := by
  unfold ldapBind
  simp only [h, if_false]
  by_cases hc : creds.any (fun u => u = "*" || u = dn ++ ":" ++ pw) = true
  · simp only [hc, if_true, true_iff]
    simp only [List.any_eq_true, Bool.or_eq_true, decide_eq_true_eq] at hc
    obtain ⟨u, hu, h1 | h1⟩ := hc
    · exact Or.inl (h1 ▸ hu)
    · exact Or.inr (h1 ▸ hu)
  · simp only [hc, Bool.false_eq_true, if_false]
    have hne : (if pw = "" ∧ dn ≠ "" then resUnwilling else resInvalidCred) ≠ resSuccess := by
      split <;> decide
    simp only [hne, false_iff]
    rintro (h1 | h1)
    · exact hc (List.any_eq_true.mpr ⟨"*", h1, by simp⟩)
    · exact hc (List.any_eq_true.mpr ⟨_, h1, by simp⟩)

/-- … and it authenticates the connection exactly then. -/
theorem C12_ldap_authenticates (creds : List String) (s : LdapSt) (dn pw : String) (h : ¬ (dn = "" ∧ pw = ""))
    (hok : (ldapBind creds s dn pw).2 = resSuccess) : isLogin (ldapBind creds s dn pw).1 = true := by
  unfold ldapBind at *
  simp only [h, if_false] at *
  by_cases hc : creds.any (fun u => u = "*" || u = dn ++ ":" ++ pw) = true
  · simp [hc, isLogin]
  · simp only [hc, Bool.false_eq_true, if_false] at hok
    split at hok <;> cases hok

/-- The result code does not depend on the connection's state (earlier attempts). -/
theorem C12_ldap_history_independent (creds : List String) (s s' : LdapSt) (dn pw : String) :
    (ldapBind creds s dn pw).2 = (ldapBind creds s' dn pw).2 := by
  unfold ldapBind; split
  · rfl
  · split <;> rfl

/-- Gated operations are refused until a bind has succeeded: after any sequence of failed
(non-anonymous or anonymous) binds on a fresh connection they are still refused. -/
theorem C12_ldap_gated (creds : List String) (attempts : List (String × String))
    (hfail : ∀ a ∈ attempts, ¬ ("*" ∈ creds ∨ (a.1 ++ ":" ++ a.2) ∈ creds)) :
    ldapGatedOp (attempts.foldl (fun s a => (ldapBind creds s a.1 a.2).1) LdapSt.init) = resUnwilling := by
  suffices ∀ s, isLogin s = false →
      isLogin (attempts.foldl (fun s a => (ldapBind creds s a.1 a.2).1) s) = false by
    unfold ldapGatedOp; simp [this LdapSt.init (by decide)]
  induction attempts with
  | nil => intro s h; exact h
  | cons a as ih =>
    intro s hs
    apply ih (fun x hx => hfail x (by simp [hx]))
    have hf := hfail a (by simp)
    have hany : creds.any (fun u => u = "*" || u = a.1 ++ ":" ++ a.2) = false := by
      rw [List.any_eq_false]
      intro u hu
      simp only [Bool.or_eq_true, decide_eq_true_eq, not_or]
      exact ⟨fun e => hf (Or.inl (e ▸ hu)), fun e => hf (Or.inr (e ▸ hu))⟩
    show isLogin (ldapBind creds s a.1 a.2).1 = false
    unfold ldapBind
    by_cases h0 : a.1 = "" ∧ a.2 = ""
    · simp [h0, isLogin]
    · simp [h0, hany, hs]

/-! ## ftp -/

/-- `PASS` logs in iff the pending user and the password are in the service's user table. -/
theorem C12_ftp_iff (s : FtpSt) (pw : String) (hp : pw ≠ "") (hcmd : ("PASS", false, true) ∈ HT.Gen.ftpCommands)
    (hfind : HT.Gen.ftpCommands.find? (fun c => c.1 = "PASS") = some ("PASS", false, true)) :
    (ftpStep s "PASS" pw).2 = 230 ↔ (s.reqUser = "anonymous" ∧ pw = "anonymous") := by
  unfold ftpStep
  simp only [hfind, hp, and_false, if_false, Bool.false_eq_true, false_and]
  simp only [show ¬ ("PASS" = "USER") by decide, if_false, if_true]
  unfold ftpCheckPasswd
  by_cases h1 : s.reqUser = "anonymous" <;> by_cases h2 : pw = "anonymous" <;> simp [h1, h2]

/-- Every file and directory command of the (regenerated) command table requires authentication. -/
theorem C12_ftp_table_gated :
    ∀ c ∈ ftpFileDirCommands, (HT.Gen.ftpCommands.find? (fun x => x.1 = c)).map (·.2.1) = some true := by
  decide

/-- The dispatcher refuses a command that requires authentication while nobody is logged in:
its `Execute` does not run (reply 530, or 553 when the required parameter is missing). -/
theorem C12_ftp_dispatch_gate (s : FtpSt) (cmd param : String) (rp : Bool) (hu : s.user = "")
    (hfind : HT.Gen.ftpCommands.find? (fun c => c.1 = cmd) = some (cmd, true, rp)) :
    (ftpStep s cmd param).2 = 530 ∨ (ftpStep s cmd param).2 = 553 := by
  unfold ftpStep
  simp only [hfind]
  by_cases h1 : (rp = true ∧ param = "")
  · simp [h1]
  · simp [h1, hu]

/-- The login state is changed by a successful `PASS` only: a step that does not answer 230
leaves `user` as it was. -/
theorem C12_ftp_login_only_by_pass (s : FtpSt) (cmd param : String) (h : (ftpStep s cmd param).2 ≠ 230) :
    (ftpStep s cmd param).1.user = s.user := by
  unfold ftpStep at *
  cases hf : HT.Gen.ftpCommands.find? (fun c => c.1 = cmd) with
  | none => rfl
  | some c =>
    obtain ⟨nm, ra, rp⟩ := c
    simp only [hf] at h ⊢
    by_cases h1 : (rp = true ∧ param = "")
    · simp [h1]
    · by_cases h2 : (ra = true ∧ s.user = "")
      · simp [h1, h2]
      · by_cases h3 : cmd = "USER"
        · simp [h1, h2, h3]
        · by_cases h4 : cmd = "PASS"
          · by_cases h5 : ftpCheckPasswd s.reqUser param = true
            · simp [h1, h2, h3, h4, h5] at h
            · simp [h1, h2, h3, h4, h5]
          · simp [h1, h2, h3, h4]

/-- non-vacuity -/
example : sshCheck [.malformed, .pair "root" "root", .wildcard] "x" "y" = true ∧
    sshCheck [.malformed, .pair "root" "root"] "x" "y" = false ∧ sshCheck [.pair "" "s"] "" "s" = true := by decide

example : ((ldapBind ["root:root"] LdapSt.init "root" "root").2, (ldapBind ["root:root"] LdapSt.init "root" "").2,
    (ldapBind ["root:root"] LdapSt.init "" "").2, (ldapBind ["*"] LdapSt.init "a" "b").2,
    (ldapBind [":s"] LdapSt.init "" "s").1.authenticated) = (0, 53, 0, 0, true) := by decide

end HT.Auth

/- OBLIGATIONS
HT.Auth.C12_ssh_iff
HT.Auth.C12_ssh_history_independent
HT.Auth.C12_ldap_iff
HT.Auth.C12_ldap_authenticates
HT.Auth.C12_ldap_history_independent
HT.Auth.C12_ldap_gated
HT.Auth.C12_ftp_iff
HT.Auth.C12_ftp_table_gated
HT.Auth.C12_ftp_dispatch_gate
HT.Auth.C12_ftp_login_only_by_pass
-/
