import HT.Props.C04
import HT.Model.Ldap
/-!
# C04 — ldap: one report per LDAPMessage, whatever the segmentation
-/
namespace HT.Ldap
open HT.Seg HT.Proto

theorem headOf_mono (t l : UInt8) (rest more : Bytes) (x : Option (UInt8 × Nat)) (r : Bytes)
    (h : headOf t l rest = some (x, r)) : headOf t l (rest ++ more) = some (x, r ++ more) := by
  unfold headOf at h ⊢
  by_cases h1 : t.toNat % 32 = 31
  · simp only [h1, if_true, Option.some.injEq, Prod.mk.injEq] at h ⊢
    exact ⟨h.1, by rw [h.2]⟩
  · simp only [h1, if_false] at h ⊢
    by_cases h2 : l.toNat < 128
    · simp only [h2, if_true, Option.some.injEq, Prod.mk.injEq] at h ⊢
      exact ⟨h.1, by rw [h.2]⟩
    · simp only [h2, if_false] at h ⊢
      by_cases h3 : (l.toNat - 128 = 0 ∨ 4 < l.toNat - 128)
      · simp only [h3, if_true, Option.some.injEq, Prod.mk.injEq] at h ⊢
        exact ⟨h.1, by rw [h.2]⟩
      · simp only [h3, if_false] at h ⊢
        by_cases h4 : rest.length < l.toNat - 128
        · simp [h4] at h
        · have h5 : ¬ (rest ++ more).length < l.toNat - 128 := by
            simp only [List.length_append]; omega
          simp only [h4, h5, if_false, Option.some.injEq, Prod.mk.injEq] at h ⊢
          have hle : l.toNat - 128 ≤ rest.length := by omega
          rw [List.take_append_of_le_length hle, List.drop_append_of_le_length hle]
          exact ⟨h.1, by rw [← h.2]⟩

theorem headOf_len (t l : UInt8) (rest : Bytes) (x : Option (UInt8 × Nat)) (r : Bytes)
    (h : headOf t l rest = some (x, r)) : r.length ≤ rest.length := by
  unfold headOf at h
  by_cases h1 : t.toNat % 32 = 31
  · simp only [h1, if_true, Option.some.injEq, Prod.mk.injEq] at h; rw [← h.2]; exact Nat.le_refl _
  · simp only [h1, if_false] at h
    by_cases h2 : l.toNat < 128
    · simp only [h2, if_true, Option.some.injEq, Prod.mk.injEq] at h; rw [← h.2]; exact Nat.le_refl _
    · simp only [h2, if_false] at h
      by_cases h3 : (l.toNat - 128 = 0 ∨ 4 < l.toNat - 128)
      · simp only [h3, if_true, Option.some.injEq, Prod.mk.injEq] at h; rw [← h.2]; exact Nat.le_refl _
      · simp only [h3, if_false] at h
        by_cases h4 : rest.length < l.toNat - 128
        · simp [h4] at h
        · simp only [h4, if_false, Option.some.injEq, Prod.mk.injEq] at h
          rw [← h.2]; simp only [List.length_drop]; omega

theorem berHead_mono : Mono berHead := by
  intro b x r more h
  cases b with
  | nil => simp [berHead] at h
  | cons t b' =>
    cases b' with
    | nil => simp [berHead] at h
    | cons l rest =>
      simp only [berHead, List.cons_append] at h ⊢
      exact headOf_mono t l rest more x r h

theorem berHead_progress : Progress berHead := by
  intro b x r h
  cases b with
  | nil => simp [berHead] at h
  | cons t b' =>
    cases b' with
    | nil => simp [berHead] at h
    | cons l rest =>
      simp only [berHead] at h
      have := headOf_len t l rest x r h
      simp only [List.length_cons]; omega

theorem berPacket_mono : Mono berPacket := by
  apply bind_mono _ _ berHead_mono
  intro h
  match h with
  | none => exact pure_mono _
  | some (t, 0) => exact pure_mono _
  | some (t, n + 1) => exact bind_mono _ _ (takeN_mono _) (fun _ => pure_mono _)

theorem berPacket_progress : Progress berPacket := by
  apply bind_progress _ _ berHead_progress
  intro h
  match h with
  | none => exact pure_nogrow _
  | some (t, 0) => exact pure_nogrow _
  | some (t, n + 1) => exact bind_nogrow _ _ (takeN_nogrow _) (fun _ => pure_nogrow _)

theorem ldap_mono (s : Bool) : Mono (ldap.next s) := by
  cases s
  · exact fail_mono
  · apply bind_mono _ _ berPacket_mono
    intro r
    match r with
    | none => exact pure_mono _
    | some (t, body) => exact pure_mono _

theorem ldap_progress (s : Bool) : Progress (ldap.next s) := by
  cases s
  · exact fail_progress
  · apply bind_progress _ _ berPacket_progress
    intro r
    match r with
    | none => exact pure_nogrow _
    | some (t, body) => exact pure_nogrow _

/-- ldap: the reports (message id, request type) of a connection are the same for every segmentation of the
client's byte stream. -/
theorem C04_ldap_segmentation (segs segs' : List Bytes) (h : segs.flatten = segs'.flatten) :
    eventsOf ldap true segs = eventsOf ldap true segs' :=
  C04_any_two_segmentations ldap ldap_mono ldap_progress true segs segs' h

/-- a bind request (message id 1), a delete (id 2) and an unbind (id 3) in one write: three reports, in order -/
example : (eventsOf ldap true [[0x30, 0x0c, 0x02, 0x01, 0x01, 0x60, 0x07, 0x02, 0x01, 0x03, 0x04, 0x00, 0x80, 0x00,
    0x30, 0x06, 0x02, 0x01, 0x02, 0x4a, 0x01, 0x78, 0x30, 0x05, 0x02, 0x01, 0x03, 0x42, 0x00]]).length = 3 := by
  decide

end HT.Ldap

/- OBLIGATIONS
HT.Ldap.C04_ldap_segmentation
-/
