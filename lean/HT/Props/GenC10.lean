import HT.Gen.Facts
import HT.Model.Limiter
/-!
Agreement of the models' constants and tables with facts regenerated from the source.
`HT.Gen.*` is rewritten by `/verif/extract` from /repo's working tree on every run (go/parser + go/ast);
each theorem here is re-checked by the kernel against what the code says now.  If a constant or table
changes in the source, the theorem that ties the model to it stops checking and the check reports the
broken tie.
-/
namespace HT.GenAgree

/-- burst and interval of the limiter model (nanoseconds) are those of `NewLimiter` -/
theorem C10_gen_limiter : HT.Gen.limiterBurst = HT.Lim.B4 ∧ HT.Gen.limiterIntervalMinutes * 60 * 1000000000 = HT.Lim.T10 := by decide

end HT.GenAgree

/- OBLIGATIONS
HT.GenAgree.C10_gen_limiter
-/
