import HT.Props.C03
import HT.Props.C04
import HT.Props.C04Http
/-!
# C03 ∘ C04 — per-connection framing machines are isolated

After the repairs, the handlers of ftp (command log), telnet, memcached, redis, smtp and http keep
everything they know about a connection in that connection's own state: protocol state and the
bytes buffered so far (`HT.Seg.St`).  Such a service is an `HT.Iso.Svc` without any shared slot, so
the isolation theorem applies with segments as the steps: however the segments of any number of
connections interleave, each connection produces the events of its own byte stream — and by the
segmentation theorem those are the events of that stream delivered in one piece.
-/
namespace HT.Iso
open HT.Seg

variable {S E : Type}

/-- a framing machine per connection, as a service whose sessions share nothing -/
def framed (p : Proto S E) (s0 : S) : Svc Unit (St S) Bytes (List E) :=
  { step := fun slot st seg => (slot, (feed p st seg).2, (feed p st seg).1)
    init := { s := s0, buf := [] } }

theorem runSolo_framed (p : Proto S E) (s0 : S) : ∀ (segs : List Bytes) (st : St S),
    ((runSolo (framed p s0) none st segs).2).flatten = (runSegs p st segs).1 := by
  intro segs
  induction segs with
  | nil => intro st; simp [runSolo, runSegs]
  | cons seg rest ih =>
    intro st
    simp only [runSolo, runSegs, framed, List.flatten_cons]
    have := ih (feed p st seg).2
    simp only [framed] at this
    rw [this]

/-- **Interleaved connections of a framed service.** For every schedule of segments of any number of
connections, the events connection `c` produces (before its end of stream) are those of its own
segments alone — and those of its byte stream in one piece. -/
theorem C03_framed_isolated (p : Proto S E) (hm : ∀ s, Mono (p.next s)) (hp : ∀ s, Progress (p.next s)) (s0 : S)
    (c : String) (sched : List (String × Bytes)) :
    (view c (runG (framed p s0) (fun a => a) (G.init (framed p s0)) sched).2).flatten
      = (feed p { s := s0, buf := [] } (inputsOf c sched).flatten).1 := by
  rw [C03_isolation (framed p s0) (fun a => a) c sched (fun _ _ h => h)]
  have h1 := runSolo_framed p s0 (inputsOf c sched) { s := s0, buf := [] }
  have hinit : (framed p s0).init = { s := s0, buf := [] } := rfl
  rw [hinit, h1]
  cases hs : inputsOf c sched with
  | nil =>
    simp only [runSegs, List.flatten_nil]
    rw [feed_nil_nil p hp s0]
  | cons a rest =>
    rw [runSegs_cons p hm hp rest a]
    simp

/-- instances: the services whose framing machines are modelled -/
theorem C03_smtp_connections_isolated (c : String) (sched : List (String × Bytes)) :
    (view c (runG (framed Proto.smtp Proto.smtpInit) (fun a => a) (G.init (framed Proto.smtp Proto.smtpInit)) sched).2).flatten
      = (feed Proto.smtp { s := Proto.smtpInit, buf := [] } (inputsOf c sched).flatten).1 :=
  C03_framed_isolated Proto.smtp Proto.smtp_mono Proto.smtp_progress Proto.smtpInit c sched

theorem C03_ftp_log_connections_isolated (c : String) (sched : List (String × Bytes)) :
    (view c (runG (framed Proto.ftp false) (fun a => a) (G.init (framed Proto.ftp false)) sched).2).flatten
      = (feed Proto.ftp { s := false, buf := [] } (inputsOf c sched).flatten).1 :=
  C03_framed_isolated Proto.ftp Proto.ftp_mono Proto.ftp_progress false c sched

theorem C03_http_connections_isolated (c : String) (sched : List (String × Bytes)) :
    (view c (runG (framed Relay.httpSvc .open) (fun a => a) (G.init (framed Relay.httpSvc .open)) sched).2).flatten
      = (feed Relay.httpSvc { s := .open, buf := [] } (inputsOf c sched).flatten).1 :=
  C03_framed_isolated Relay.httpSvc Relay.httpSvc_mono Relay.httpSvc_progress .open c sched

end HT.Iso

/- OBLIGATIONS
HT.Iso.C03_framed_isolated
HT.Iso.C03_smtp_connections_isolated
HT.Iso.C03_ftp_log_connections_isolated
HT.Iso.C03_http_connections_isolated
-/
