import HT.Props.C04Http
import HT.Props.C04Redis
/-!
# C04 — http: exactly one event per request, whatever the segmentation or pipelining

A request: `METHOD SP target SP version CRLF`, header lines `name: value CRLF`, an optional
`Content-Length: n CRLF`, an empty line, `n` body bytes.  The event carries method, target and the
first 1024 body bytes.
-/
namespace HT.Relay
open HT.Seg HT.Proto

def colon : UInt8 := 58
def tab : UInt8 := 9

theorem stripEOL_crlf (c : Bytes) : stripEOL (c ++ [cr, lf]) = c := by
  have e : c ++ [cr, lf] = (c ++ [cr]) ++ [lf] := by simp
  unfold stripEOL
  rw [e]
  simp [List.getLast?_append, List.dropLast_append_of_ne_nil, cr, lf]

/-- a line that carries no LF, terminated by CR LF, reads back as itself -/
theorem line_crlf (c rest : Bytes) (h : lf ∉ c) : line (c ++ cr :: lf :: rest) = some (c ++ [cr, lf], rest) := by
  have hc : lf ∉ c ++ [cr] := by
    intro hm
    rcases List.mem_append.mp hm with h1 | h1
    · exact h h1
    · simp [lf, cr] at h1
  have e : c ++ cr :: lf :: rest = (c ++ [cr]) ++ lf :: rest := by simp
  rw [e, line_render (c ++ [cr]) rest hc]
  simp

def renderLines' (ls : List Bytes) : Bytes := ls.flatMap (fun l => l ++ [cr, lf])

theorem lines_len_le (ls : List Bytes) : ls.length ≤ (renderLines' ls).length := by
  induction ls with
  | nil => simp [renderLines']
  | cons a as ih =>
    have : renderLines' (a :: as) = a ++ [cr, lf] ++ renderLines' as := by simp [renderLines']
    rw [this]
    simp only [List.length_append, List.length_cons, List.length_nil]
    omega

/-- the head lines (non-empty, no LF) followed by the empty line read back as themselves -/
theorem headLines_render (ls : List Bytes) (h : ∀ l ∈ ls, lf ∉ l ∧ l ≠ []) (rest : Bytes) :
    ∀ fuel, ls.length < fuel → headLines fuel (renderLines' ls ++ cr :: lf :: rest) = some (ls, rest) := by
  induction ls with
  | nil =>
    intro fuel hf
    cases fuel with
    | zero => omega
    | succ f =>
      have := line_crlf [] rest (by simp)
      simp only [List.nil_append] at this
      have hs : stripEOL [cr, lf] = [] := by decide
      unfold headLines
      simp only [renderLines', List.flatMap_nil, List.nil_append, bindP, this, hs]
      simp [pureP]
  | cons l ls ih =>
    intro fuel hf
    cases fuel with
    | zero => omega
    | succ f =>
      have hl := h l List.mem_cons_self
      have e : renderLines' (l :: ls) ++ cr :: lf :: rest = l ++ cr :: lf :: (renderLines' ls ++ cr :: lf :: rest) := by
        simp [renderLines']
      rw [e]
      unfold headLines
      simp only [bindP, line_crlf l _ hl.1, stripEOL_crlf]
      have hne : l.isEmpty = false := by
        cases l with
        | nil => exact absurd rfl hl.2
        | cons a as => rfl
      simp only [hne, Bool.false_eq_true, if_false]
      have hi := ih (fun x hx => h x (List.mem_cons_of_mem _ hx)) f (by simp only [List.length_cons] at hf; omega)
      simp only [bindP, hi, pureP]

/-- splitting at spaces gives back three space-free words -/
theorem splitOn_nosep (w : Bytes) (h : sp ∉ w) : splitOn sp w = [w] := by
  induction w with
  | nil => rfl
  | cons c cs ih =>
    have hc : (c == sp) = false := by
      have : c ≠ sp := fun e => h (by simp [e])
      simpa using this
    have := ih (fun hm => h (List.mem_cons_of_mem _ hm))
    simp [splitOn, this, hc]

theorem splitOn_word (w rest : Bytes) (h : sp ∉ w) : splitOn sp (w ++ sp :: rest) = w :: splitOn sp rest := by
  induction w with
  | nil =>
    simp only [List.nil_append, splitOn]
    cases hs : splitOn sp rest with
    | nil => simp [hs]
    | cons a as => simp [hs]
  | cons c cs ih =>
    have hc : (c == sp) = false := by
      have : c ≠ sp := fun e => h (by simp [e])
      simpa using this
    have := ih (fun hm => h (List.mem_cons_of_mem _ hm))
    simp only [List.cons_append, splitOn, this, hc, Bool.false_eq_true, if_false]

theorem splitOn_three (m t v : Bytes) (hm : sp ∉ m) (ht : sp ∉ t) (hv : sp ∉ v) :
    splitOn sp (m ++ sp :: (t ++ sp :: v)) = [m, t, v] := by
  rw [splitOn_word m _ hm, splitOn_word t _ ht, splitOn_nosep v hv]

/-- a header line `name: value` -/
def hdrLine (nv : Bytes × Bytes) : Bytes := nv.1 ++ colon :: sp :: nv.2

/-- "Content-Length" -/
def bContentLength : Bytes := [67, 111, 110, 116, 101, 110, 116, 45, 76, 101, 110, 103, 116, 104]

def clLine (n : Nat) : Bytes := bContentLength ++ colon :: sp :: natDigits n

theorem takeWhile_name (n rest : Bytes) (h : colon ∉ n) : (n ++ colon :: rest).takeWhile (· != 58) = n := by
  induction n with
  | nil => simp [colon]
  | cons c cs ih =>
    have hc : (c != 58) = true := by
      have : c ≠ colon := fun e => h (by simp [e])
      simpa [colon] using this
    simp [List.takeWhile, hc, ih (fun hm => h (List.mem_cons_of_mem _ hm))]

theorem dropWhile_name (n rest : Bytes) (h : colon ∉ n) : (n ++ colon :: rest).dropWhile (· != 58) = colon :: rest := by
  induction n with
  | nil => simp [colon]
  | cons c cs ih =>
    have hc : (c != 58) = true := by
      have : c ≠ colon := fun e => h (by simp [e])
      simpa [colon] using this
    simp [List.dropWhile, hc, ih (fun hm => h (List.mem_cons_of_mem _ hm))]

structure HRq where
  m : Bytes
  t : Bytes
  v : Bytes
  hdrs : List (Bytes × Bytes)
  body : Bytes

/-- header names: non-empty, no colon/LF, and not Content-Length in any case; values without LF -/
def hdrOk (nv : Bytes × Bytes) : Prop :=
  nv.1 ≠ [] ∧ colon ∉ nv.1 ∧ lf ∉ nv.1 ∧ lf ∉ nv.2 ∧ nv.1.map lower ≠ nContentLength

def HRq.ok (q : HRq) : Prop :=
  q.m ≠ [] ∧ sp ∉ q.m ∧ lf ∉ q.m ∧ sp ∉ q.t ∧ lf ∉ q.t ∧ sp ∉ q.v ∧ lf ∉ q.v ∧ (∀ h ∈ q.hdrs, hdrOk h)

def HRq.lines (q : HRq) : List Bytes :=
  (q.m ++ sp :: (q.t ++ sp :: q.v)) :: (q.hdrs.map hdrLine ++ (if q.body.isEmpty then [] else [clLine q.body.length]))

def HRq.bytes (q : HRq) : Bytes := renderLines' q.lines ++ [cr, lf] ++ q.body

theorem find_skip (hs : List (Bytes × Bytes)) (h : ∀ x ∈ hs, hdrOk x) (tail : List Bytes) :
    (hs.map hdrLine ++ tail).find? (fun l => (l.takeWhile (· != 58)).map lower == nContentLength)
      = tail.find? (fun l => (l.takeWhile (· != 58)).map lower == nContentLength) := by
  induction hs with
  | nil => rfl
  | cons x xs ih =>
    have hx := h x List.mem_cons_self
    have : ((hdrLine x).takeWhile (· != 58)).map lower = x.1.map lower := by
      unfold hdrLine; rw [takeWhile_name x.1 _ hx.2.1]
    have hne : ((x.1.map lower) == nContentLength) = false := by simpa using hx.2.2.2.2
    simp only [List.map_cons, List.cons_append, List.find?_cons, this, hne]
    exact ih (fun y hy => h y (List.mem_cons_of_mem _ hy))

theorem digits_ge48 : ∀ (fuel k : Nat) (d : UInt8), d ∈ digitsRev fuel k → 48 ≤ d.toNat := by
  intro fuel
  induction fuel with
  | zero => intro k d h; simp [digitsRev] at h
  | succ f ih =>
    intro k d h
    unfold digitsRev at h
    split at h
    · rename_i hk
      simp only [List.mem_singleton] at h
      rw [h, digit_toNat k hk]; omega
    · simp only [List.mem_cons] at h
      rcases h with h | h
      · rw [h, digit_toNat _ (Nat.mod_lt _ (by omega))]; omega
      · exact ih _ d h

theorem natDigits_ge48 (n : Nat) (d : UInt8) (h : d ∈ natDigits n) : 48 ≤ d.toNat :=
  digits_ge48 _ _ d (by simpa [natDigits] using h)

theorem natDigits_ne_nil (n : Nat) : natDigits n ≠ [] := by
  simpa [natDigits] using digitsRev_ne_nil (n + 1) n (by omega)

/-- trimming blanks around digits preceded by one space gives the digits -/
theorem trimSpaces_digits (n : Nat) : trimSpaces (sp :: natDigits n) = natDigits n := by
  have hnb : ∀ d ∈ natDigits n, (d == 32 || d == 9) = false := by
    intro d hd
    have := natDigits_ge48 n d hd
    have h1 : d ≠ 32 := by intro e; rw [e] at this; simp at this
    have h2 : d ≠ 9 := by intro e; rw [e] at this; simp at this
    simp [h1, h2]
  unfold trimSpaces
  have hsp : ((sp : UInt8) == 32 || sp == 9) = true := by decide
  cases hds : natDigits n with
  | nil => exact absurd hds (natDigits_ne_nil n)
  | cons d ds =>
    have hd := hnb d (by rw [hds]; exact List.mem_cons_self)
    simp only [List.dropWhile_cons, hsp, if_true, hd, Bool.false_eq_true, if_false]
    -- the reversed list starts with a digit too
    have hlast : ∀ x, (d :: ds).reverse.head? = some x → (x == 32 || x == 9) = false := by
      intro x hx
      have : x ∈ (d :: ds) := List.mem_reverse.mp (List.mem_of_mem_head? hx)
      exact hnb x (by rw [hds]; exact this)
    cases hr : (d :: ds).reverse with
    | nil => simp at hr
    | cons y ys =>
      have hy := hlast y (by rw [hr]; rfl)
      simp only [List.dropWhile_cons, hy, Bool.false_eq_true, if_false]
      rw [← hr]; simp

theorem headerValue_none (hs : List (Bytes × Bytes)) (h : ∀ x ∈ hs, hdrOk x) :
    headerValue nContentLength (hs.map hdrLine) = none := by
  unfold headerValue
  have := find_skip hs h []
  simp only [List.append_nil] at this
  rw [this]; rfl

theorem headerValue_cl (hs : List (Bytes × Bytes)) (h : ∀ x ∈ hs, hdrOk x) (n : Nat) :
    headerValue nContentLength (hs.map hdrLine ++ [clLine n]) = some (natDigits n) := by
  unfold headerValue
  rw [find_skip hs h [clLine n]]
  have hcolon : colon ∉ bContentLength := by decide
  have htw : ((clLine n).takeWhile (· != 58)).map lower = nContentLength := by
    unfold clLine
    rw [takeWhile_name _ _ hcolon]
    decide
  simp only [List.find?_cons, htw, beq_self_eq_true]
  unfold clLine
  rw [dropWhile_name _ _ hcolon]
  simp only [List.drop_succ_cons, List.drop_zero]
  rw [trimSpaces_digits]

theorem httpHead_render (q : HRq) (h : q.ok) (rest : Bytes) :
    httpHead (renderLines' q.lines ++ cr :: lf :: rest) = some (some (q.m, q.t, q.body.length), rest) := by
  obtain ⟨hmne, hm, hml, ht, htl, hv, hvl, hh⟩ := h
  have hlines : ∀ l ∈ q.lines, lf ∉ l ∧ l ≠ [] := by
    intro l hl
    unfold HRq.lines at hl
    rcases List.mem_cons.mp hl with rfl | hl
    · constructor
      · intro hmem
        simp only [List.mem_append, List.mem_cons] at hmem
        rcases hmem with h1 | h1 | h1 | h1 | h1
        · exact hml h1
        · simp [lf, sp] at h1
        · exact htl h1
        · simp [lf, sp] at h1
        · exact hvl h1
      · cases hq : q.m with
        | nil => exact absurd hq hmne
        | cons a as => simp
    · rcases List.mem_append.mp hl with hl | hl
      · obtain ⟨x, hx, rfl⟩ := List.mem_map.mp hl
        have hxo := hh x hx
        constructor
        · intro hmem
          unfold hdrLine at hmem
          simp only [List.mem_append, List.mem_cons] at hmem
          rcases hmem with h1 | h1 | h1 | h1
          · exact hxo.2.2.1 h1
          · simp [lf, colon] at h1
          · simp [lf, sp] at h1
          · exact hxo.2.2.2.1 h1
        · unfold hdrLine; simp
      · split at hl
        · simp at hl
        · simp only [List.mem_singleton] at hl
          subst hl
          constructor
          · intro hmem
            unfold clLine at hmem
            simp only [List.mem_append, List.mem_cons] at hmem
            rcases hmem with h1 | h1 | h1 | h1
            · revert h1; decide
            · simp [lf, colon] at h1
            · simp [lf, sp] at h1
            · exact natDigits_no_lf _ h1
          · unfold clLine; simp
  rw [httpHead_eq]
  simp only [bindP]
  rw [headLines_render q.lines hlines rest _ (by
    have := lines_len_le q.lines
    simp only [List.length_append, List.length_cons]
    omega)]
  simp only [pureP, headInfo, HRq.lines, splitOn_three q.m q.t q.v hm ht hv]
  by_cases hb : q.body.isEmpty = true
  · have hb0 : q.body.length = 0 := by simpa using hb
    simp only [hb, if_true, List.append_nil, headerValue_none q.hdrs hh, hb0]
  · simp only [hb, Bool.false_eq_true, if_false, headerValue_cl q.hdrs hh, digitsVal_natDigits]

def httpReqEv (q : HRq) : Ev := httpEv q.m q.t q.body

theorem http_req_steps (q : HRq) (h : q.ok) (rest : Bytes) :
    run httpSvc .open (q.bytes ++ rest) =
      (httpReqEv q :: (run httpSvc .open rest).1, (run httpSvc .open rest).2.1, (run httpSvc .open rest).2.2) := by
  have e : q.bytes ++ rest = renderLines' q.lines ++ cr :: lf :: (q.body ++ rest) := by simp [HRq.bytes]
  rw [e]
  cases hbody : q.body with
  | nil =>
    have hn : httpSvc.next .open (renderLines' q.lines ++ cr :: lf :: ([] ++ rest))
        = some (([httpEv q.m q.t []], .open), [] ++ rest) := by
      show bindP httpHead _ _ = _
      have := httpHead_render q h ([] ++ rest)
      simp only [hbody, List.length_nil, List.nil_append] at this ⊢
      simp only [bindP, this, pureP]
    rw [run_step httpSvc httpSvc_progress _ _ _ _ _ hn]
    simp [httpReqEv, hbody]
  | cons b bs =>
    have hn : httpSvc.next .open (renderLines' q.lines ++ cr :: lf :: ((b :: bs) ++ rest))
        = some (([], .body q.m q.t bs.length), (b :: bs) ++ rest) := by
      show bindP httpHead _ _ = _
      have := httpHead_render q h ((b :: bs) ++ rest)
      simp only [hbody, List.length_cons, List.cons_append] at this ⊢
      simp only [bindP, this, pureP]
    have hn2 : httpSvc.next (.body q.m q.t bs.length) ((b :: bs) ++ rest)
        = some (([httpEv q.m q.t (b :: bs)], .open), rest) := by
      show bindP (takeN (bs.length + 1)) _ _ = _
      have ht : takeN (bs.length + 1) ((b :: bs) ++ rest) = some (b :: bs, rest) := by
        unfold takeN
        have : ¬ ((b :: bs) ++ rest).length < bs.length + 1 := by simp only [List.length_append, List.length_cons]; omega
        simp only [this, if_false]
        have hlen : bs.length + 1 = (b :: bs).length := rfl
        rw [hlen, List.take_left, List.drop_left]
      simp only [bindP, ht, pureP]
    rw [run_step httpSvc httpSvc_progress _ _ _ _ _ hn, run_step httpSvc httpSvc_progress _ _ _ _ _ hn2]
    simp [httpReqEv, hbody]

theorem http_run (qs : List HRq) (h : ∀ q ∈ qs, q.ok) (rest : Bytes) :
    run httpSvc .open (qs.flatMap HRq.bytes ++ rest) =
      (qs.map httpReqEv ++ (run httpSvc .open rest).1, (run httpSvc .open rest).2.1, (run httpSvc .open rest).2.2) := by
  induction qs with
  | nil => simp
  | cons q qs ih =>
    have e : (q :: qs).flatMap HRq.bytes ++ rest = q.bytes ++ (qs.flatMap HRq.bytes ++ rest) := by simp
    rw [e, http_req_steps q (h q List.mem_cons_self), ih (fun x hx => h x (List.mem_cons_of_mem _ hx))]
    simp

/-- http: any sequence of requests (any headers other than Content-Length, any body), pipelined or not,
in any segmentation: exactly one event per request, in order, with method, target and the first
1024 bytes of the body. -/
theorem C04_http_exactly_once (qs : List HRq) (h : ∀ q ∈ qs, q.ok)
    (segs : List Bytes) (hs : segs.flatten = qs.flatMap HRq.bytes) :
    eventsOf httpSvc .open segs = qs.map httpReqEv := by
  rw [C04_segmentation_independence httpSvc httpSvc_mono httpSvc_progress .open segs, hs, events_one_piece]
  have := http_run qs h []
  simp only [List.append_nil] at this
  rw [this]
  have hn : httpSvc.next .open [] = none := next_nil_none httpSvc httpSvc_progress .open
  rw [run_none httpSvc .open [] hn]
  simp [httpSvc, httpSvcFinish]

end HT.Relay

/- OBLIGATIONS
HT.Relay.C04_http_exactly_once
-/
