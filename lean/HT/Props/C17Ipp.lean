import HT.Model.Ipp
import HT.Lemmas.Ipp
/-!
# C17 — IPP requests decode to what was encoded (IPP part)

Property theorems only; helper lemmas are in `HT.Lemmas.Ipp`.

Statement (properties.jsonl): an IPP request built from the supported attribute types
decodes to the operation, request id, attributes and document data that were encoded; the
reply echoes version, request id, charset and language; and a print job's printer URI, user,
job name and document appear unchanged in the event.

`Msg.wf` is what "built from the supported attribute types" means: group tags are delimiter
tags other than the end tag, every attribute has a tag the decoder supports, a non-empty name
shorter than 2^15, at least one value, integers that fit 32 bits and strings shorter than 2^15.
No bound on the number of groups, attributes, values or on the document.
-/
namespace HT.Ipp

/-- Round trip: every well-formed request, of any size, decodes to exactly what was encoded —
version, operation, request id, every group with every attribute and all its values, and the
document that follows the end-of-attributes tag. -/
theorem C17_ipp_roundtrip (m : Msg) (h : m.wf = true) : decode (encode m) = some m := by
  simp only [Msg.wf, Bool.and_eq_true, decide_eq_true_eq] at h
  obtain ⟨⟨hop, hrid⟩, hg⟩ := h
  unfold decode encode
  simp only [List.append_assoc]
  rw [rd16_enc16 _ hop]
  simp only
  rw [rd32_enc32 _ hrid]
  simp only
  rw [groups_encGroups m.data m.groups hg _ (Nat.lt_succ_self _)]

theorem encGroups_append (a b : List Group) : encGroups (a ++ b) = encGroups a ++ encGroups b := by
  induction a with
  | nil => rfl
  | cons g gs ih => simp [encGroups, ih]

/-- the first group of the reply: the request's operation-attributes group reduced to its
charset and natural-language attributes, values unchanged -/
theorem C17_ipp_reply_first_group (m : Msg) (og : Group) (h : opGroup m = some og) :
    replyGroups m = [{ tag := 1, vals := og.vals.filter isCharsetOrLang }] := by
  unfold replyGroups
  rw [h]
  have : og.tag = 1 := by
    have := List.find?_some h
    simpa using this
  simp [this]

theorem replyGroups_wf (m : Msg) (h : m.wf = true) : (replyGroups m).all Group.wf = true := by
  unfold replyGroups
  cases hog : opGroup m with
  | none => rfl
  | some og =>
    have hmem : og ∈ m.groups := List.mem_of_find?_eq_some hog
    simp only [Msg.wf, Bool.and_eq_true, List.all_eq_true] at h
    have hw := h.2 og hmem
    simp only [Group.wf, Bool.and_eq_true, List.all_eq_true] at hw
    simp only [List.all_cons, List.all_nil, Bool.and_true, Group.wf, Bool.and_eq_true, List.all_eq_true]
    exact ⟨hw.1, fun v hv => hw.2 v (List.mem_filter.mp hv).1⟩

/-- The reply, decoded by the same decoder, carries the request's version and request id, status 0,
the charset / language group first, then the operation's own groups (`extra`: nothing, the empty
printer group of CUPS-Get-Devices, or the printer description) and no document. -/
theorem C17_ipp_reply_echo (m : Msg) (h : m.wf = true) (g : Bytes) (extra : List Group)
    (hx : extra.all Group.wf = true) (hg : opPart m.op g = encGroups extra) :
    decode (reply m g) =
      some { maj := m.maj, min := m.min, op := 0, rid := m.rid, groups := replyGroups m ++ extra, data := [] } := by
  have hw : Msg.wf { maj := m.maj, min := m.min, op := 0, rid := m.rid, groups := replyGroups m ++ extra, data := [] } = true := by
    simp only [Msg.wf, Bool.and_eq_true, decide_eq_true_eq] at h ⊢
    refine ⟨⟨by omega, h.1.2⟩, ?_⟩
    rw [List.all_append, replyGroups_wf m (by simpa [Msg.wf] using h), hx]; rfl
  have := C17_ipp_roundtrip _ hw
  rw [← this]
  congr 1
  simp only [reply, encode, hg, encGroups_append, List.append_assoc]

/-- the operations whose reply has no group of its own / the empty printer group -/
theorem C17_ipp_opPart_plain (op : Nat) (g : Bytes) (h1 : op ≠ 0x000b) :
    opPart op g = encGroups (if op = 0x400b then [{ tag := 4, vals := [] }] else []) := by
  unfold opPart
  by_cases h2 : op = 0x400b
  · subst h2; simp [encGroups, encGroup, encVals]
  · simp [h1, h2, encGroups]

/-- `setPrintJobResponse` takes the first value of the last string attribute of that name -/
theorem C17_ipp_jobField_last (name : Bytes) (t : UInt8) (x : Bytes) (xs : List Bytes) (pre post : List Val)
    (hpost : ∀ v ∈ post, ∀ t' ys, v ≠ .strs t' name ys) :
    jobField (pre ++ .strs t name (x :: xs) :: post) name = x := by
  unfold jobField
  rw [List.foldl_append, List.foldl_cons]
  have h0 : jobStep name (List.foldl (jobStep name) [] pre) (.strs t name (x :: xs)) = x := by simp [jobStep]
  rw [h0]
  induction post with
  | nil => rfl
  | cons v vs ih =>
    rw [List.foldl_cons]
    have hv := hpost v List.mem_cons_self
    have step : jobStep name x v = x := by
      cases v with
      | strs t' n ys =>
        cases ys with
        | nil => rfl
        | cons y ys' =>
          by_cases hn : n = name
          · subst hn; exact absurd rfl (hv t' (y :: ys'))
          · simp [jobStep, hn]
      | _ => rfl
    rw [step]
    exact ih (fun v hv => hpost v (List.mem_cons_of_mem _ hv))

/-- A print job (operation 2), end to end through encode → decode → handler: the event carries the
document exactly, and the printer URI / user / job name are the values of those attributes of the
operation group (`C17_ipp_jobField_last` says which when a name repeats). -/
theorem C17_ipp_print_job_event (m : Msg) (h : m.wf = true) (hop : m.op = 2) (og : Group) (hog : opGroup m = some og) :
    (decode (encode m)).map evFields =
      some { uri := jobField og.vals nPrinterUri, user := jobField og.vals nUserName,
             job := jobField og.vals nJobName, data := m.data } := by
  rw [C17_ipp_roundtrip m h]
  simp [evFields, hop, hog]

/-- every operation: the event's `ipp.data` is the document -/
theorem C17_ipp_event_data (m : Msg) (h : m.wf = true) :
    (decode (encode m)).map (fun m' => (evFields m').data) = some m.data := by
  rw [C17_ipp_roundtrip m h]
  simp only [Option.map_some, evFields]
  split
  · split <;> rfl
  · rfl

/-! non-vacuity: a request using every supported value kind, several values, two groups and a document -/
def sample : Msg :=
  { maj := 2, min := 0, op := 2, rid := 77,
    groups := [
      { tag := 1, vals := [
          .strs 0x47 [97, 116, 116, 114, 105, 98, 117, 116, 101, 115, 45, 99, 104, 97, 114, 115, 101, 116] [[117, 116, 102, 45, 56]],
          .strs 0x48 [97, 116, 116, 114, 105, 98, 117, 116, 101, 115, 45, 110, 97, 116, 117, 114, 97, 108, 45, 108, 97, 110, 103, 117, 97, 103, 101] [[101, 110]],
          .strs 0x45 [112, 114, 105, 110, 116, 101, 114, 45, 117, 114, 105] [[105, 112, 112, 58, 47, 47, 104, 47, 112]],
          .strs 0x42 [114, 101, 113, 117, 101, 115, 116, 105, 110, 103, 45, 117, 115, 101, 114, 45, 110, 97, 109, 101] [[98, 111, 98], []],
          .ints 0x21 [99, 111, 112, 105, 101, 115] [1, 4294967295, 7],
          .bools 0x22 [102, 108, 97, 103] [true, false, true] ] },
      { tag := 2, vals := [ .range 0x33 [114] 1 100, .ints 0x23 [101] [3] ] } ],
    data := [0x25, 0x50, 0x44, 0x46, 3, 0x22, 0] }

example : sample.wf = true := by decide
example : decode (encode sample) = some sample := C17_ipp_roundtrip sample (by decide)
example : (evFields sample).uri = [105, 112, 112, 58, 47, 47, 104, 47, 112] ∧ (evFields sample).user = [98, 111, 98] := by decide

/-- record of the defects repaired by `fix:` commits (known-findings.txt), as the wire bytes that
went wrong: a boolean attribute followed by another attribute, a rangeOfInteger, a third integer -/
example : decode (encode { sample with groups := [{ tag := 1, vals := [.bools 0x22 [98] [false], .ints 0x21 [110] [5]] }] })
    = some { sample with groups := [{ tag := 1, vals := [.bools 0x22 [98] [false], .ints 0x21 [110] [5]] }] } :=
  C17_ipp_roundtrip _ (by decide)

end HT.Ipp

/- OBLIGATIONS
HT.Ipp.C17_ipp_roundtrip
HT.Ipp.C17_ipp_reply_first_group
HT.Ipp.C17_ipp_reply_echo
HT.Ipp.C17_ipp_opPart_plain
HT.Ipp.C17_ipp_jobField_last
HT.Ipp.C17_ipp_print_job_event
HT.Ipp.C17_ipp_event_data
-/
