import HT.Props.C16
import HT.Model.Handoff
import HT.Props.C14Handoff
import HT.Gen.Facts
/-!
# C16 — the write path and the reader's wake-up

"… bytes the service writes return to the agent tagged with that connection's addresses, in
order."  `agentConnection.Write` splits a write into messages of at most `maxPayload` bytes
(`HT.Gen.agentMaxPayload`, regenerated from listener/agent/connection.go); every such message fits
the 16-bit length fields, so the agent decodes the frame stream back into exactly these messages,
and their payloads concatenate to what was written — for writes of any size.

"… the bytes of its data messages reach the service …": the session loop signals the connection's
reader without blocking; with the channel capacity the source has (`HT.Gen.agentSignalCap`) the
reader gets the bytes under every schedule (the model of `HT.Handoff`, shared with C14).
-/
namespace HT.Agent

theorem chunksAux_flatten (m : Nat) : ∀ (f : Nat) (b : Bytes), (chunksAux m f b).flatten = b := by
  intro f
  induction f with
  | zero => intro b; simp [chunksAux]
  | succ f ih =>
    intro b
    unfold chunksAux
    split
    · simp
    · simp only [List.flatten_cons, ih, List.take_append_drop]

/-- What the messages of one write carry, concatenated, is what was written. -/
theorem C16_write_chunks_in_order (m : Nat) (b : Bytes) : (chunks m b).flatten = b :=
  chunksAux_flatten m b.length b

theorem chunksAux_bound (m : Nat) (hm : 0 < m) : ∀ (f : Nat) (b : Bytes), b.length ≤ f →
    ∀ c ∈ chunksAux m f b, c.length ≤ m := by
  intro f
  induction f with
  | zero =>
    intro b hb c hc
    simp only [chunksAux, List.mem_singleton] at hc
    subst hc; omega
  | succ f ih =>
    intro b hb c hc
    unfold chunksAux at hc
    split at hc
    · simp only [List.mem_singleton] at hc; subst hc; assumption
    · rename_i hlen
      simp only [List.mem_cons] at hc
      rcases hc with h | h
      · subst h; simp only [List.length_take]; omega
      · exact ih (b.drop m) (by simp only [List.length_drop]; omega) c h

/-- No message carries more than `maxPayload` bytes. -/
theorem C16_write_chunks_bounded (m : Nat) (hm : 0 < m) (b : Bytes) : ∀ c ∈ chunks m b, c.length ≤ m :=
  chunksAux_bound m hm b.length b (Nat.le_refl _)

theorem encAddr_length (a : AAddr) : (encAddr a).length = a.ip.length + 5 := by
  simp [encAddr, encData, enc16]

/-- a data message with addresses of at most 16 bytes and a payload of at most `maxPayload` bytes fits its frame -/
theorem data_fits (l r : AAddr) (p : Bytes) (hl : l.ip.length ≤ 16) (hr : r.ip.length ≤ 16)
    (hp : p.length ≤ HT.Gen.agentMaxPayload) : (encBody (.data l r p)).length < 65536 := by
  have : HT.Gen.agentMaxPayload ≤ 65491 := by decide
  simp only [encBody, List.length_append, encAddr_length, encData, enc16, List.length_cons, List.length_nil]
  omega

theorem decFrames_frames : ∀ (ms : List Msg) (fuel : Nat), ms.length ≤ fuel →
    (∀ m ∈ ms, m.wf ∧ (encBody m).length < 65536) → decFrames fuel (ms.flatMap frame) = some ms := by
  intro ms
  induction ms with
  | nil => intro fuel _ _; cases fuel <;> simp [decFrames]
  | cons m ms ih =>
    intro fuel hf h
    cases fuel with
    | zero => simp at hf
    | succ fuel =>
      have hm := h m (by simp)
      have hne : (frame m ++ List.flatMap frame ms).isEmpty = false := by simp [frame]
      simp only [List.flatMap_cons, decFrames, hne, Bool.false_eq_true, if_false]
      rw [C16_frame_roundtrip m _ hm.1 hm.2]
      simp only [ih fuel (by simp at hf; omega) (fun x hx => h x (by simp [hx])), Option.map_some]

/-- The frames of one write, of any size, decode to data messages for the connection's addresses whose payloads
are the consecutive pieces of what was written. -/
theorem C16_write_relayed_in_order (l r : AAddr) (b : Bytes) (hl : l.wf) (hr : r.wf)
    (hl16 : l.ip.length ≤ 16) (hr16 : r.ip.length ≤ 16) :
    let ms := (chunks HT.Gen.agentMaxPayload b).map (fun c => Msg.data l r c)
    decFrames ms.length (ms.flatMap frame) = some ms ∧ (chunks HT.Gen.agentMaxPayload b).flatten = b := by
  intro ms
  refine ⟨?_, C16_write_chunks_in_order _ b⟩
  apply decFrames_frames ms ms.length (Nat.le_refl _)
  intro m hm
  simp only [ms, List.mem_map] at hm
  obtain ⟨c, hc, rfl⟩ := hm
  have hb := C16_write_chunks_bounded HT.Gen.agentMaxPayload (by decide) b c hc
  have hmx : HT.Gen.agentMaxPayload ≤ 65491 := by decide
  exact ⟨⟨hl, hr, by omega⟩, data_fits l r c hl16 hr16 hb⟩

/-- non-vacuity (small numbers): a 70-byte write with a 32-byte limit is three messages -/
example : ((chunks 32 (List.replicate 70 0)).map List.length) = [32, 32, 6] := by decide

end HT.Agent

namespace HT.Handoff

theorem GenC16_signal_kept : decide (HT.Gen.agentSignalCap ≥ 1) = true := by decide

/-- The reader of a virtual connection gets the bytes of a data message under every schedule of the session loop
and the reader. -/
theorem C16_handoff_delivers (sch : List Bool) :
    (finish (decide (HT.Gen.agentSignalCap ≥ 1)) (run (decide (HT.Gen.agentSignalCap ≥ 1)) sch init)).r = .fin true := by
  rw [GenC16_signal_kept]
  exact inv_finish _ (inv_run sch init inv_init)

end HT.Handoff

/- OBLIGATIONS
HT.Agent.C16_write_chunks_in_order
HT.Agent.C16_write_chunks_bounded
HT.Agent.C16_write_relayed_in_order
HT.Handoff.C16_handoff_delivers
HT.Handoff.GenC16_signal_kept
-/
