import HT.Model.Iso
/-!
# C03 — connections are isolated; events name the connection that caused them

Statement (properties.jsonl): what a client receives on its connection, and the events recorded for
it, depend only on that connection's own traffic and the configuration — never on other
connections that are open at the same time or were served earlier.

The theorem is about every service whose sessions share at most a table with one slot per key and
whose steps touch only their own local state and the slot of their own key (`HT.Iso.Svc`): for every
schedule — any number of sessions, any interleaving at step granularity, any history before — a
session whose key no other session of the schedule has sees exactly what it sees alone on a fresh
service.  The tftp upload table and the ldap session state are instances; the two counterexamples
record the shapes the repaired defects had (one slot for everybody; a key that two clients share).
-/
namespace HT.Iso

variable {Sess K V L I O : Type} [DecidableEq Sess] [DecidableEq K]

/-- From any global state: the outputs of session `s`, the final slot of its key and its final local
state are those of `s` alone with its own inputs — whatever the other sessions do and however the
steps interleave — provided no other session of the schedule has its key. -/
theorem C03_isolation_from (svc : Svc V L I O) (keyOf : Sess → K) (s : Sess) :
    ∀ (sched : List (Sess × I)) (g : G Sess K V L),
      (∀ x ∈ sched, keyOf x.1 = keyOf s → x.1 = s) →
      view s (runG svc keyOf g sched).2 = (runSolo svc (g.tab (keyOf s)) (g.loc s) (inputsOf s sched)).2
      ∧ (runG svc keyOf g sched).1.tab (keyOf s) = (runSolo svc (g.tab (keyOf s)) (g.loc s) (inputsOf s sched)).1.1
      ∧ (runG svc keyOf g sched).1.loc s = (runSolo svc (g.tab (keyOf s)) (g.loc s) (inputsOf s sched)).1.2 := by
  intro sched
  induction sched with
  | nil => intro g _; simp [runG, view, inputsOf, runSolo]
  | cons xi rest ih =>
    intro g h
    obtain ⟨x, i⟩ := xi
    have hrest : ∀ y ∈ rest, keyOf y.1 = keyOf s → y.1 = s := fun y hy => h y (List.mem_cons_of_mem _ hy)
    by_cases hx : x = s
    · subst hx
      have ih' := ih (stepG svc keyOf g x i).1 hrest
      have e1 : (stepG svc keyOf g x i).1.tab (keyOf x) = (svc.step (g.tab (keyOf x)) (g.loc x) i).1 := by
        simp [stepG]
      have e2 : (stepG svc keyOf g x i).1.loc x = (svc.step (g.tab (keyOf x)) (g.loc x) i).2.1 := by
        simp [stepG]
      rw [e1, e2] at ih'
      simp only [runG, view, inputsOf, List.filter_cons, decide_true, if_true, List.map_cons, runSolo]
      refine ⟨?_, ih'.2.1, ih'.2.2⟩
      have := ih'.1
      simp only [view, inputsOf] at this
      rw [this]
      simp [stepG]
    · have hk : keyOf x ≠ keyOf s := fun hk => hx (h (x, i) List.mem_cons_self hk)
      have ih' := ih (stepG svc keyOf g x i).1 hrest
      have e1 : (stepG svc keyOf g x i).1.tab (keyOf s) = g.tab (keyOf s) := by
        simp [stepG, Ne.symm hk]
      have e2 : (stepG svc keyOf g x i).1.loc s = g.loc s := by
        simp [stepG, Ne.symm hx]
      rw [e1, e2] at ih'
      have hd : decide (x = s) = false := by simp [hx]
      simp only [runG, view, inputsOf, List.filter_cons, hd, Bool.false_eq_true, if_false]
      exact ih'

/-- **Isolation.** On a freshly built service, under every schedule (histories of earlier sessions
included: they are a prefix of the schedule), a session whose key is its own sees what it sees alone. -/
theorem C03_isolation (svc : Svc V L I O) (keyOf : Sess → K) (s : Sess) (sched : List (Sess × I))
    (h : ∀ x ∈ sched, keyOf x.1 = keyOf s → x.1 = s) :
    view s (runG svc keyOf (G.init svc) sched).2 = (runSolo svc none svc.init (inputsOf s sched)).2 :=
  (C03_isolation_from svc keyOf s sched (G.init svc) h).1

/-- two schedules that contain the same steps of `s` in the same order look the same to `s` -/
theorem C03_any_two_schedules (svc : Svc V L I O) (keyOf : Sess → K) (s : Sess) (a b : List (Sess × I))
    (ha : ∀ x ∈ a, keyOf x.1 = keyOf s → x.1 = s) (hb : ∀ x ∈ b, keyOf x.1 = keyOf s → x.1 = s)
    (hi : inputsOf s a = inputsOf s b) :
    view s (runG svc keyOf (G.init svc) a).2 = view s (runG svc keyOf (G.init svc) b).2 := by
  rw [C03_isolation svc keyOf s a ha, C03_isolation svc keyOf s b hb, hi]

/-- tftp: uploads are keyed by the client's address (IP and port): every client, under every
interleaving of any number of clients' datagrams, gets the replies and the events of its own
transfer alone. -/
theorem C03_tftp_isolated (s : String) (sched : List (String × TIn)) :
    view s (runG tftp (fun a => a) (G.init tftp) sched).2 = (runSolo tftp none () (inputsOf s sched)).2 :=
  C03_isolation tftp (fun a => a) s sched (fun _ _ h => h)

/-- ldap: bind state, gate and search answers of a connection depend on its own requests only. -/
theorem C03_ldap_isolated (creds : List String) (s : String) (sched : List (String × LIn)) :
    view s (runG (ldap creds) (fun a => a) (G.init (ldap creds)) sched).2
      = (runSolo (ldap creds) none Auth.LdapSt.init (inputsOf s sched)).2 :=
  C03_isolation (ldap creds) (fun a => a) s sched (fun _ _ h => h)

/-- ftp: login state and working directory of a session depend on its own commands only — whatever
the other sessions do in between (logins, directory changes), in every interleaving. -/
theorem C03_ftp_isolated (dirs : List String) (s : String) (sched : List (String × (String × String))) :
    view s (runG (ftpSvc dirs) (fun a => a) (G.init (ftpSvc dirs)) sched).2
      = (runSolo (ftpSvc dirs) none { auth := Auth.FtpSt.init, cwd := "/" } (inputsOf s sched)).2 :=
  C03_isolation (ftpSvc dirs) (fun a => a) s sched (fun _ _ h => h)

/-! ## the shapes of the repaired defects (and of a key that is not the client's own) -/

/-- the ldap service as it was: the bind state lived in the one service object (every session's key
is the same slot) -/
def ldapShared (creds : List String) : Svc Auth.LdapSt Unit LIn Nat :=
  { step := fun slot _ i =>
      let st := slot.getD Auth.LdapSt.init
      let r := ldapStep creds none st i
      (some r.2.1, (), r.2.2)
    init := () }

/-- client "a" never binds, yet its modify request succeeds once client "b" has bound -/
theorem C03_counterexample_shared_bind_state :
    view "a" (runG (ldapShared ["root:pw"]) (fun (_ : String) => ()) (G.init (ldapShared ["root:pw"]))
      [("b", .bind "root" "pw"), ("a", .gated)]).2 = [0]
    ∧ (runSolo (ldapShared ["root:pw"]) none () [.gated]).2 = [53] := by decide

/-- tftp keyed by the source port only: two clients with different addresses and the same port -/
def portOf (a : String) : String := ((a.splitOn ":").getLast?).getD ""

theorem C03_counterexample_key_collision :
    view "10.0.0.1:69" (runG tftp (fun (a : String) => if a = "10.0.0.1:69" ∨ a = "10.0.0.2:69" then "69" else a) (G.init tftp)
      [("10.0.0.1:69", .wrq [97] [111]), ("10.0.0.2:69", .wrq [98] [111]), ("10.0.0.1:69", .data 1 [1, 2])]).2
    ≠ (runSolo tftp none () [.wrq [97] [111], .data 1 [1, 2]]).2 := by decide

/-! non-vacuity: a schedule of three clients in which the theorem's hypothesis holds and the view is not empty -/
example : view "a" (runG tftp (fun (a : String) => a) (G.init tftp)
    [("a", .wrq [120] [111]), ("b", .wrq [121] [111]), ("c", .data 1 [9]), ("b", .data 1 [7]), ("a", .data 1 [5, 6])]).2
    = [{ reply := [0, 4, 0, 0], events := [("tftp-write", [[120], [111]])] },
       { reply := [0, 4, 0, 1], events := [("tftp-write-file", [[120], [111], [5, 6]])] }] := by decide

end HT.Iso

/- OBLIGATIONS
HT.Iso.C03_isolation_from
HT.Iso.C03_isolation
HT.Iso.C03_any_two_schedules
HT.Iso.C03_tftp_isolated
HT.Iso.C03_ldap_isolated
HT.Iso.C03_ftp_isolated
HT.Iso.C03_counterexample_shared_bind_state
HT.Iso.C03_counterexample_key_collision
-/
