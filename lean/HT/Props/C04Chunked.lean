import HT.Props.C04Http
import HT.Model.Chunked
/-!
# C04 — http requests with chunked bodies: the reports do not depend on the segmentation
-/
namespace HT.Relay
open HT.Seg HT.Proto

theorem trailers_mono : ∀ fuel, Mono (trailers fuel) := by
  intro fuel
  induction fuel with
  | zero => exact fail_mono
  | succ f ih =>
    unfold trailers
    apply bind_mono _ _ line_mono
    intro l
    split
    · exact pure_mono _
    · exact ih

theorem trailers_nogrow : ∀ fuel, NoGrow (trailers fuel) := by
  intro fuel
  induction fuel with
  | zero => intro b x r h; simp [trailers] at h
  | succ f ih =>
    unfold trailers
    apply bind_nogrow _ _ line_nogrow
    intro l
    split
    · exact pure_nogrow _
    · exact ih

theorem trailers_fuel_succ : ∀ fuel, Ext (trailers fuel) (trailers (fuel + 1)) := by
  intro fuel
  induction fuel with
  | zero => intro b x h; simp [trailers] at h
  | succ f ih =>
    show Ext (trailers (f + 1)) (trailers (f + 1 + 1))
    unfold trailers
    apply ext_bind _ _ _ _ (ext_refl _)
    intro l
    split
    · exact ext_refl _
    · exact ih

theorem chunked_mono : ∀ fuel, Mono (chunked fuel) := by
  intro fuel
  induction fuel with
  | zero => exact fail_mono
  | succ f ih =>
    unfold chunked
    apply bind_mono _ _ line_mono
    intro raw
    split
    · exact pure_mono _
    · exact bind_mono _ _ (trailers_mono f) (fun _ => pure_mono _)
    · apply bind_mono _ _ (takeN_mono _)
      intro d
      apply bind_mono _ _ line_mono
      intro e
      split
      · exact bind_mono _ _ ih (fun _ => pure_mono _)
      · exact pure_mono _

theorem chunked_nogrow : ∀ fuel, NoGrow (chunked fuel) := by
  intro fuel
  induction fuel with
  | zero => intro b x r h; simp [chunked] at h
  | succ f ih =>
    unfold chunked
    apply bind_nogrow _ _ line_nogrow
    intro raw
    split
    · exact pure_nogrow _
    · exact bind_nogrow _ _ (trailers_nogrow f) (fun _ => pure_nogrow _)
    · apply bind_nogrow _ _ (takeN_nogrow _)
      intro d
      apply bind_nogrow _ _ line_nogrow
      intro e
      split
      · exact bind_nogrow _ _ ih (fun _ => pure_nogrow _)
      · exact pure_nogrow _

theorem chunked_progress : ∀ fuel, Progress (chunked fuel) := by
  intro fuel
  cases fuel with
  | zero => intro b x r h; simp [chunked] at h
  | succ f =>
    unfold chunked
    apply bind_progress _ _ line_progress
    intro raw
    split
    · exact pure_nogrow _
    · exact bind_nogrow _ _ (trailers_nogrow f) (fun _ => pure_nogrow _)
    · apply bind_nogrow _ _ (takeN_nogrow _)
      intro d
      apply bind_nogrow _ _ line_nogrow
      intro e
      split
      · exact bind_nogrow _ _ (chunked_nogrow f) (fun _ => pure_nogrow _)
      · exact pure_nogrow _

theorem chunked_fuel_succ : ∀ fuel, Ext (chunked fuel) (chunked (fuel + 1)) := by
  intro fuel
  induction fuel with
  | zero => intro b x h; simp [chunked] at h
  | succ f ih =>
    show Ext (chunked (f + 1)) (chunked (f + 1 + 1))
    unfold chunked
    apply ext_bind _ _ _ _ (ext_refl _)
    intro raw
    split
    · exact ext_refl _
    · exact ext_bind _ _ _ _ (trailers_fuel_succ f) (fun _ => ext_refl _)
    · apply ext_bind _ _ _ _ (ext_refl _)
      intro d
      apply ext_bind _ _ _ _ (ext_refl _)
      intro e
      split
      · exact ext_bind _ _ _ _ ih (fun _ => ext_refl _)
      · exact ext_refl _

theorem chunked_fuel_le (f : Nat) : ∀ k, Ext (chunked f) (chunked (f + k)) := by
  intro k
  induction k with
  | zero => exact ext_refl _
  | succ k ih => intro b x h; exact chunked_fuel_succ (f + k) b x (ih b x h)

theorem chunkedAll_mono : Mono chunkedAll := by
  intro b x r more h
  unfold chunkedAll at h ⊢
  have hm := chunked_mono (b.length + 1) b x r more h
  have he := chunked_fuel_le (b.length + 1) more.length (b ++ more) (x, r ++ more) hm
  have hl : (b ++ more).length + 1 = b.length + 1 + more.length := by simp only [List.length_append]; omega
  rw [hl]
  exact he

theorem chunkedAll_progress : Progress chunkedAll := by
  intro b x r h
  exact chunked_progress _ b x r h

theorem httpHeadC_mono : Mono httpHeadC := by
  intro b x r more h
  unfold httpHeadC at h ⊢
  have hm := bind_mono _ _ (headLines_mono (b.length + 1)) (fun ls => pure_mono (headInfoC ls)) b x r more h
  have he := ext_bind (headLines (b.length + 1)) (headLines (b.length + 1 + more.length))
    (fun ls => pureP (headInfoC ls)) (fun ls => pureP (headInfoC ls))
    (headLines_fuel_le _ _) (fun _ => ext_refl _) (b ++ more) (x, r ++ more) hm
  have hl : (b ++ more).length + 1 = b.length + 1 + more.length := by simp only [List.length_append]; omega
  rw [hl]
  exact he

theorem httpHeadC_progress : Progress httpHeadC := by
  intro b x r h
  unfold httpHeadC at h
  exact bind_progress _ _ (headLines_progress _) (fun _ => pure_nogrow _) b x r h

theorem httpSvcC_mono (s : HCSt) : Mono (httpSvcC.next s) := by
  cases s with
  | «open» =>
    apply bind_mono _ _ httpHeadC_mono
    intro r
    match r with
    | some (m, t, .len 0) => exact pure_mono _
    | some (m, t, .len (n + 1)) => exact pure_mono _
    | some (m, t, .chunks) => exact pure_mono _
    | none => exact pure_mono _
  | body m t n => exact bind_mono _ _ (takeN_mono _) (fun _ => pure_mono _)
  | chunk m t =>
    apply bind_mono _ _ chunkedAll_mono
    intro r
    match r with
    | some body => exact pure_mono _
    | none => exact pure_mono _
  | closed => exact fail_mono

theorem httpSvcC_progress (s : HCSt) : Progress (httpSvcC.next s) := by
  cases s with
  | «open» =>
    apply bind_progress _ _ httpHeadC_progress
    intro r
    match r with
    | some (m, t, .len 0) => exact pure_nogrow _
    | some (m, t, .len (n + 1)) => exact pure_nogrow _
    | some (m, t, .chunks) => exact pure_nogrow _
    | none => exact pure_nogrow _
  | body m t n => exact bind_progress _ _ (takeN_progress _ (by omega)) (fun _ => pure_nogrow _)
  | chunk m t =>
    apply bind_progress _ _ chunkedAll_progress
    intro r
    match r with
    | some body => exact pure_nogrow _
    | none => exact pure_nogrow _
  | closed => exact fail_progress

/-- http with content-length and chunked request bodies: the request events are the same for every segmentation
of the client's stream, pipelined or not. -/
theorem C04_http_chunked_segmentation (segs segs' : List Bytes) (h : segs.flatten = segs'.flatten) :
    eventsOf httpSvcC .open segs = eventsOf httpSvcC .open segs' :=
  C04_any_two_segmentations httpSvcC httpSvcC_mono httpSvcC_progress .open segs segs' h

/-- "POST /u HTTP/1.1", transfer-encoding: chunked, chunks "Wi" and "ki!" (the second with an extension), cut inside
the first chunk and before the last CRLF: one report with the decoded body -/
example : eventsOf httpSvcC .open [[80, 79, 83, 84, 32, 47, 117, 32, 72, 84, 84, 80, 47, 49, 46, 49, 13, 10, 84, 114, 97, 110, 115, 102, 101, 114, 45, 69, 110, 99, 111, 100, 105, 110, 103, 58, 32, 99, 104, 117, 110, 107, 101, 100, 13, 10, 13, 10, 50, 13, 10, 87], [105, 13, 10, 51, 59, 120, 61, 49, 13, 10, 107, 105, 33, 13, 10, 48, 13, 10], [13, 10]]
    = [httpEv [80, 79, 83, 84] [47, 117] [87, 105, 107, 105, 33]] := by
  decide

end HT.Relay

/- OBLIGATIONS
HT.Relay.C04_http_chunked_segmentation
-/
