import HT.Model.Handoff
import HT.Gen.Facts
/-!
# C14 (hand-off) — the pushed bytes reach the connection's handler under every schedule

"… reports the connection in an event … whose payload is a prefix of the client's byte stream
containing at least its first pushed segment."  The handler goroutine reads the socket once; the
receive loop writes the segment into the socket's buffer and signals the push without blocking.
With the signal channel as the source makes it (capacity `HT.Gen.canarySignalCap`, regenerated from
`listener/canary/socket.go` on every run) the read returns the pushed bytes under **every**
interleaving of the two goroutines; with an unbuffered channel (the code as it was) there is an
interleaving after which the reader stays parked for good (in the implementation: until the 60 s
timeout, after which the connection is reported with an empty payload).
-/
namespace HT.Handoff

def nonFin (r : RPc) : Bool := match r with | .fin _ => false | _ => true

/-- invariant of the capacity-1 protocol -/
def Inv (s : St) : Bool :=
  match s.w with
  | .write => !s.buf && !s.tok && nonFin s.r
  | .flush => !s.tok && ((s.buf && nonFin s.r) || (!s.buf && s.r == .fin true))
  | .fin => (s.r == .fin true && !s.buf) || (s.buf && s.tok && nonFin s.r)

theorem inv_init : Inv init = true := by decide

theorem inv_step (s : St) (b : Bool) (h : Inv s = true) : Inv (step true s b) = true := by
  obtain ⟨buf, tok, r, w⟩ := s
  cases b <;> cases buf <;> cases tok <;> cases w <;> cases r <;> first | (revert h; decide) | (rename_i g; cases g <;> revert h <;> decide)

theorem inv_run (sch : List Bool) : ∀ s, Inv s = true → Inv (run true sch s) = true := by
  induction sch with
  | nil => intro s h; exact h
  | cons b bs ih => intro s h; exact ih _ (inv_step s b h)

theorem inv_finish (s : St) (h : Inv s = true) : (finish true s).r = .fin true := by
  obtain ⟨buf, tok, r, w⟩ := s
  cases buf <;> cases tok <;> cases w <;> cases r <;> first | (revert h; decide) | (rename_i g; cases g <;> revert h <;> decide)

/-- The source's channel keeps a signal (regenerated fact). -/
theorem GenC14_signal_kept : decide (HT.Gen.canarySignalCap ≥ 1) = true := by decide

/-- Every schedule of the two goroutines, however long: once both have run to their end the
handler's read has returned the pushed bytes. -/
theorem C14_handoff_delivers (sch : List Bool) :
    (finish (decide (HT.Gen.canarySignalCap ≥ 1)) (run (decide (HT.Gen.canarySignalCap ≥ 1)) sch init)).r = .fin true := by
  rw [GenC14_signal_kept]
  exact inv_finish _ (inv_run sch init inv_init)

/-- the state in which the code as it was is stuck: bytes buffered, signal dropped, reader parked -/
def stuck : St := { buf := true, tok := false, r := .waiting, w := .fin }

theorem stuck_fix (b : Bool) : step false stuck b = stuck := by cases b <;> decide

/-- The code as it was (unbuffered channel): the reader finds the buffer empty, the segment is
written and the signal sent before the reader parks — dropped; the reader then parks and no
continuation of the schedule, however long, wakes it. -/
theorem C14_counterexample_handoff_unbuffered :
    run false [true, false, false, true] init = stuck ∧
    ∀ sch : List Bool, (run false sch stuck).r = .waiting := by
  refine ⟨by decide, ?_⟩
  intro sch
  have : run false sch stuck = stuck := by
    induction sch with
    | nil => rfl
    | cons b bs ih => simp only [run, List.foldl_cons, stuck_fix] at ih ⊢; exact ih
  rw [this]; rfl

/-- non-vacuity: a schedule in which the signal is sent while the reader is between its check and
its wait is among those the theorem covers, and it ends with the bytes delivered -/
example : (finish true (run true [true, false, false, true] init)).r = .fin true := by decide

end HT.Handoff

/- OBLIGATIONS
HT.Handoff.C14_handoff_delivers
HT.Handoff.C14_counterexample_handoff_unbuffered
HT.Handoff.GenC14_signal_kept
-/
