import HT.Props.C04Chunked
import HT.Props.C04HttpOnce
/-!
# C04 — chunked bodies decode to what was encoded, for every chunking

A body `b` sent as any sequence of non-empty chunks `cs` (`cs.flatten = b`), each framed as
`<size in hex> CR LF <bytes> CR LF`, followed by `0 CR LF CR LF`, is decoded by the chunked-body machine to exactly
`b`, and what follows on the stream is left untouched — for bodies and chunk counts of any size.
-/
namespace HT.Relay
open HT.Seg HT.Proto

/-- lower-case hexadecimal digit -/
def hexChar (d : Nat) : UInt8 := if d < 10 then UInt8.ofNat (48 + d) else UInt8.ofNat (87 + d)

/-- digits of `n` in base 16, least significant first; `fuel` bounds their number -/
def hexRev : Nat → Nat → Bytes
  | 0, _ => []
  | fuel + 1, n => if n < 16 then [hexChar n] else hexChar (n % 16) :: hexRev fuel (n / 16)

def natHex (n : Nat) : Bytes := (hexRev (n + 1) n).reverse

theorem hexChar_toNat (d : Nat) (h : d < 16) : (hexChar d).toNat = if d < 10 then 48 + d else 87 + d := by
  unfold hexChar
  split <;> simp [UInt8.toNat_ofNat'] <;> omega

theorem hexDigit_hexChar (d : Nat) (h : d < 16) : hexDigit (hexChar d) = some d := by
  unfold hexDigit
  rw [hexChar_toNat d h]
  by_cases h10 : d < 10
  · have : 48 ≤ 48 + d ∧ 48 + d ≤ 57 := by omega
    simp only [h10, if_true, this, and_self]
    congr 1; omega
  · have h1 : ¬ (48 ≤ 87 + d ∧ 87 + d ≤ 57) := by omega
    have h2 : 97 ≤ 87 + d ∧ 87 + d ≤ 102 := by omega
    simp only [h10, if_false, h1, h2, and_self, if_true]
    congr 1; omega

/-- value of hex digits given least significant first -/
def hvalRev : Bytes → Option Nat
  | [] => some 0
  | d :: ds => match hexDigit d, hvalRev ds with
    | some x, some v => some (v * 16 + x)
    | _, _ => none

theorem hvalRev_hexRev : ∀ (fuel n : Nat), n < fuel → hvalRev (hexRev fuel n) = some n := by
  intro fuel
  induction fuel with
  | zero => intro n h; omega
  | succ f ih =>
    intro n h
    unfold hexRev
    by_cases h16 : n < 16
    · simp only [h16, if_true, hvalRev, hexDigit_hexChar n h16]
      simp
    · simp only [h16, if_false, hvalRev]
      rw [hexDigit_hexChar _ (Nat.mod_lt _ (by omega)), ih (n / 16) (by omega)]
      simp only [Option.some.injEq]
      omega

/-- one step of `hexVal`'s fold -/
def hstep (acc : Option Nat) (c : UInt8) : Option Nat :=
  match acc, hexDigit c with
  | some n, some d => some (n * 16 + d)
  | _, _ => none

theorem hexVal_cons (d : UInt8) (ds : Bytes) : hexVal (d :: ds) = (d :: ds).foldl hstep (some 0) := by
  unfold hexVal
  congr 1

theorem foldl_hex (ds : Bytes) : ∀ (acc : Option Nat),
    ds.reverse.foldl hstep acc
    = match acc, hvalRev ds with
      | some a, some v => some (a * 16 ^ ds.length + v)
      | _, _ => none := by
  induction ds with
  | nil => intro acc; cases acc <;> simp [hvalRev]
  | cons d ds ih =>
    intro acc
    simp only [List.reverse_cons, List.foldl_append, List.foldl_cons, List.foldl_nil]
    rw [ih acc]
    cases acc with
    | none => simp [hstep]
    | some a =>
      simp only [hvalRev]
      cases hv : hvalRev ds with
      | none => cases hd : hexDigit d <;> simp [hstep, hd]
      | some v =>
        cases hd : hexDigit d with
        | none => simp [hstep, hd]
        | some x =>
          simp only [hstep, hd, List.length_cons, Option.some.injEq]
          rw [Nat.pow_succ]
          have : a * (16 ^ ds.length * 16) = a * 16 ^ ds.length * 16 := by rw [Nat.mul_assoc]
          omega

theorem hexRev_ne_nil (fuel n : Nat) (h : 0 < fuel) : hexRev fuel n ≠ [] := by
  cases fuel with
  | zero => omega
  | succ f => unfold hexRev; split <;> simp

theorem natHex_ne_nil (n : Nat) : natHex n ≠ [] := by
  simpa [natHex] using hexRev_ne_nil (n + 1) n (by omega)

theorem hexVal_natHex (n : Nat) : hexVal (natHex n) = some n := by
  have hne := natHex_ne_nil n
  unfold natHex at hne ⊢
  cases hl : (hexRev (n + 1) n).reverse with
  | nil => exact absurd hl hne
  | cons d ds =>
    rw [hexVal_cons, ← hl, foldl_hex (hexRev (n + 1) n) (some 0), hvalRev_hexRev (n + 1) n (by omega)]
    simp

/-- every character of the rendering is a hex digit: none is LF, `;`, a blank or a tab -/
theorem natHex_chars (n : Nat) (d : UInt8) (h : d ∈ natHex n) : 48 ≤ d.toNat := by
  have hall : ∀ (fuel k : Nat) (d : UInt8), d ∈ hexRev fuel k → 48 ≤ d.toNat := by
    intro fuel
    induction fuel with
    | zero => intro k d h; simp [hexRev] at h
    | succ f ih =>
      intro k d h
      unfold hexRev at h
      by_cases h16 : k < 16
      · simp only [h16, if_true, List.mem_singleton] at h
        rw [h, hexChar_toNat k h16]; split <;> omega
      · simp only [h16, if_false, List.mem_cons] at h
        rcases h with h | h
        · rw [h, hexChar_toNat _ (Nat.mod_lt _ (by omega))]; split <;> omega
        · exact ih _ d h
  exact hall (n + 1) n d (by simpa [natHex] using h)

theorem natHex_no_lf (n : Nat) : lf ∉ natHex n := by
  intro h; have := natHex_chars n lf h; simp [lf] at this

theorem dropWhile_none {p : UInt8 → Bool} (l : Bytes) (h : ∀ x ∈ l, p x = false) : l.dropWhile p = l := by
  cases l with
  | nil => rfl
  | cons a as => simp [List.dropWhile_cons, h a (by simp)]

theorem takeWhile_all {p : UInt8 → Bool} (l : Bytes) (h : ∀ x ∈ l, p x = true) : l.takeWhile p = l := by
  induction l with
  | nil => rfl
  | cons a as ih =>
    simp only [List.takeWhile_cons, h a (by simp), if_true]
    rw [ih (fun x hx => h x (by simp [hx]))]

theorem chunkSize_natHex (n : Nat) : chunkSize (natHex n) = some n := by
  unfold chunkSize
  have h1 : (natHex n).takeWhile (· != 59) = natHex n := by
    apply takeWhile_all
    intro x hx
    have := natHex_chars n x hx
    have hx59 : x ≠ 59 := by
      intro e; rw [e] at this
      -- 59 is ';': not a hex digit, but ≥ 48: use the digit classes instead
      have hd : hexDigit x ≠ none := by
        intro hn
        have hv := hexVal_natHex n
        -- a list containing a non-digit has no value
        have : ∀ (l : Bytes) (acc : Option Nat), x ∈ l → hexDigit x = none → l.foldl hstep acc = none := by
          intro l
          induction l with
          | nil => intro acc hm; simp at hm
          | cons a as ih =>
            intro acc hm hnone
            simp only [List.foldl_cons]
            rcases List.mem_cons.mp hm with h | h
            · subst h
              have : hstep acc x = none := by cases acc <;> simp [hstep, hnone]
              rw [this]
              clear ih hm
              induction as with
              | nil => rfl
              | cons b bs ihb => simp only [List.foldl_cons]; simpa [hstep] using ihb
            · exact ih _ h hnone
        cases hl : natHex n with
        | nil => rw [hl] at hx; simp at hx
        | cons d ds =>
          rw [hl, hexVal_cons, ← hl, this (natHex n) (some 0) hx hn] at hv
          simp at hv
      rw [e] at hd
      exact hd (by decide)
    simp [hx59]
  rw [h1]
  have h2 : trimSpaces (natHex n) = natHex n := by
    have hnb : ∀ d ∈ natHex n, (d == 32 || d == 9) = false := by
      intro d hd
      have := natHex_chars n d hd
      have h1 : d ≠ 32 := by intro e; rw [e] at this; simp at this
      have h2 : d ≠ 9 := by intro e; rw [e] at this; simp at this
      simp [h1, h2]
    unfold trimSpaces
    rw [dropWhile_none _ hnb, dropWhile_none _ (fun x hx => hnb x (List.mem_reverse.mp hx))]
    simp
  rw [h2]
  exact hexVal_natHex n

/-- the wire form of a chunked body -/
def renderChunks : List Bytes → Bytes
  | [] => [48, cr, lf, cr, lf]
  | c :: cs => natHex c.length ++ (cr :: lf :: (c ++ (cr :: lf :: renderChunks cs)))

theorem takeN_exact (d rest : Bytes) : takeN d.length (d ++ rest) = some (d, rest) := by
  unfold takeN
  simp

theorem line_empty_crlf (rest : Bytes) : line (cr :: lf :: rest) = some ([cr, lf], rest) := by
  have := line_crlf [] rest (by simp)
  simpa using this

theorem stripEOL_only_crlf : stripEOL [cr, lf] = [] := by decide

theorem chunked_last (f : Nat) (rest : Bytes) :
    chunked (f + 2) ([48, cr, lf, cr, lf] ++ rest) = some (some [], rest) := by
  have hl : line ([48, cr, lf, cr, lf] ++ rest) = some ([48, cr, lf], cr :: lf :: rest) := by
    have := line_crlf [48] (cr :: lf :: rest) (by decide)
    simpa using this
  have hs : chunkSize (stripEOL [48, cr, lf]) = some 0 := by decide
  unfold chunked
  simp only [bindP, hl, hs]
  unfold trailers
  simp only [bindP, line_empty_crlf, stripEOL_only_crlf, List.isEmpty_nil, if_true, pureP]

theorem chunked_render : ∀ (cs : List Bytes), (∀ c ∈ cs, c ≠ []) → ∀ (fuel : Nat) (rest : Bytes),
    cs.length + 2 ≤ fuel → chunked fuel (renderChunks cs ++ rest) = some (some cs.flatten, rest) := by
  intro cs
  induction cs with
  | nil =>
    intro _ fuel rest hf
    obtain ⟨f, rfl⟩ : ∃ f, fuel = f + 2 := ⟨fuel - 2, by simp at hf; omega⟩
    simpa [renderChunks] using chunked_last f rest
  | cons c cs ih =>
    intro hne fuel rest hf
    obtain ⟨f, rfl⟩ : ∃ f, fuel = f + 1 := ⟨fuel - 1, by simp at hf; omega⟩
    have hc : c ≠ [] := hne c (by simp)
    obtain ⟨k, hk⟩ : ∃ k, c.length = k + 1 := ⟨c.length - 1, by
      have : c.length ≠ 0 := by intro h0; exact hc (List.length_eq_zero_iff.mp h0)
      omega⟩
    have hl : line (renderChunks (c :: cs) ++ rest)
        = some (natHex c.length ++ [cr, lf], c ++ (cr :: lf :: (renderChunks cs ++ rest))) := by
      have := line_crlf (natHex c.length) (c ++ (cr :: lf :: (renderChunks cs ++ rest))) (natHex_no_lf _)
      simpa [renderChunks, List.append_assoc] using this
    have hs : chunkSize (stripEOL (natHex c.length ++ [cr, lf])) = some (k + 1) := by
      rw [stripEOL_crlf, chunkSize_natHex, hk]
    have ht : takeN (k + 1) (c ++ (cr :: lf :: (renderChunks cs ++ rest))) = some (c, cr :: lf :: (renderChunks cs ++ rest)) := by
      rw [← hk]; exact takeN_exact c _
    have hih := ih (fun x hx => hne x (by simp [hx])) f rest (by simp at hf; omega)
    unfold chunked
    simp only [bindP, hl, hs, ht, line_empty_crlf, stripEOL_only_crlf, List.isEmpty_nil, if_true, hih, pureP,
      Option.map_some, List.flatten_cons]

/-- Every chunking of every body: the machine decodes exactly the body and leaves what follows. -/
theorem C04_chunked_decodes_what_was_encoded (cs : List Bytes) (h : ∀ c ∈ cs, c ≠ []) (rest : Bytes) :
    chunkedAll (renderChunks cs ++ rest) = some (some cs.flatten, rest) := by
  unfold chunkedAll
  apply chunked_render cs h
  -- every chunk contributes at least its size line's CR LF to the length
  have hlen : ∀ (l : List Bytes), l.length + 2 ≤ (renderChunks l).length := by
    intro l
    induction l with
    | nil => simp [renderChunks]
    | cons a as ih => simp only [renderChunks, List.length_cons, List.length_append]; omega
  have := hlen cs
  simp only [List.length_append]; omega

/-- non-vacuity: "Wi" + "ki!" -/
example : renderChunks [[87, 105], [107, 105, 33]] = [50, cr, lf, 87, 105, cr, lf, 51, cr, lf, 107, 105, 33, cr, lf, 48, cr, lf, cr, lf] := by
  decide

end HT.Relay

/- OBLIGATIONS
HT.Relay.C04_chunked_decodes_what_was_encoded
-/
