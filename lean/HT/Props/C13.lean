import HT.Lemmas.JA3
/-!
# C13 — the recorded JA3 fingerprint is the specification's JA3 of the ClientHello sent

For every TLS ClientHello a client sends to the https service, the JA3 digest recorded
with the connection's events is the MD5 of the JA3 string the JA3 specification defines
for exactly that hello: decimal legacy version, cipher suites, extension types, elliptic
curves and point formats in wire order, with GREASE values left out of ciphers,
extensions and curves.  Hellos that differ only in their GREASE values get the same
digest, and the recorded server name equals the SNI sent.

The digest is `md5 ∘ utf8` of the string (a parameter here; the correspondence oracle
checks it with `crypto/md5`).  Well-formedness = field values in their wire ranges,
extension types other than the three the fingerprint reads are not 0/10/11, and at most
one supported-groups and one point-formats extension (where the specification is silent).
-/
namespace HT.JA3

def Hello.wf (h : Hello) : Prop :=
  (∀ e ∈ h.exts, e.wf) ∧ (groupsOf h.exts).length ≤ 1 ∧ (pointsOf h.exts).length ≤ 1

/-- The JA3 string the stack computes from the wire form of the hello is the specification's. -/
theorem C13_ja3_eq_spec (h : Hello) (hw : h.wf) :
    (parseExts (wire h) Info.empty).map (ja3 h.version h.ciphers) = some (ja3Spec h) := by
  unfold wire
  rw [parseExts_wire h.exts Info.empty hw.1]
  simp only [Option.map_some, Info.empty, List.nil_append]
  unfold ja3 ja3Spec
  simp only [lastOr_le_one _ hw.2.1, lastOr_le_one _ hw.2.2, flatMap_groups, flatMap_points]

/-- … hence for any digest function the recorded digest is the digest of the specification's string. -/
theorem C13_digest_eq_spec (md5 : String → String) (h : Hello) (hw : h.wf) :
    (parseExts (wire h) Info.empty).map (fun i => md5 (ja3 h.version h.ciphers i)) = some (md5 (ja3Spec h)) := by
  have := C13_ja3_eq_spec h hw
  cases hp : parseExts (wire h) Info.empty with
  | none => simp [hp] at this
  | some i => simp [hp] at this ⊢; rw [this]

/-- removing every GREASE value: from the cipher suites, the extension list and the groups -/
def Ext.keep : Ext → Bool
  | .other t _ => !isGrease t
  | _ => true

def Ext.strip : Ext → Ext
  | .groups gs => .groups (gs.filter (fun v => !isGrease v))
  | e => e

def stripGrease (h : Hello) : Hello :=
  { version := h.version
    ciphers := h.ciphers.filter (fun v => !isGrease v)
    exts := (h.exts.filter Ext.keep).map Ext.strip }

theorem filter_filter_same (l : List Nat) :
    (l.filter (fun v => !isGrease v)).filter (fun v => !isGrease v) = l.filter (fun v => !isGrease v) := by
  rw [List.filter_filter]; congr 1; funext v; simp

theorem strip_types (es : List Ext) :
    (((es.filter Ext.keep).map Ext.strip).map Ext.typ).filter (fun v => !isGrease v) =
      (es.map Ext.typ).filter (fun v => !isGrease v) := by
  induction es with
  | nil => rfl
  | cons e es ih =>
    cases e with
    | other t b =>
      by_cases hg : isGrease t = true
      · simp [List.filter_cons, hg, Ext.typ, Ext.keep] at ih ⊢; exact ih
      · simp [List.filter_cons, hg, Ext.typ, Ext.keep, Ext.strip] at ih ⊢; exact ih
    | sni n => simp [List.filter_cons, Ext.typ, Ext.keep, Ext.strip, isGrease] at ih ⊢; exact ih
    | groups gs => simp [List.filter_cons, Ext.typ, Ext.keep, Ext.strip, isGrease] at ih ⊢; exact ih
    | points ps => simp [List.filter_cons, Ext.typ, Ext.keep, Ext.strip, isGrease] at ih ⊢; exact ih

theorem strip_groups (es : List Ext) :
    (((es.filter Ext.keep).map Ext.strip).flatMap Ext.groupsIn).filter (fun v => !isGrease v) =
      (es.flatMap Ext.groupsIn).filter (fun v => !isGrease v) := by
  induction es with
  | nil => rfl
  | cons e es ih =>
    cases e with
    | other t b =>
      by_cases hg : isGrease t = true <;>
        simp [List.filter_cons, hg, List.flatMap_cons, Ext.keep, Ext.strip, Ext.groupsIn] at ih ⊢ <;> exact ih
    | sni n => simp [List.filter_cons, List.flatMap_cons, Ext.keep, Ext.strip, Ext.groupsIn] at ih ⊢; exact ih
    | groups gs =>
      simp only [List.filter_cons, Ext.keep, if_true, List.map_cons, Ext.strip, List.flatMap_cons, Ext.groupsIn,
        List.filter_append, filter_filter_same] at ih ⊢
      rw [ih]
    | points ps => simp [List.filter_cons, List.flatMap_cons, Ext.keep, Ext.strip, Ext.groupsIn] at ih ⊢; exact ih

theorem strip_points (es : List Ext) :
    ((es.filter Ext.keep).map Ext.strip).flatMap Ext.pointsIn = es.flatMap Ext.pointsIn := by
  induction es with
  | nil => rfl
  | cons e es ih =>
    cases e with
    | other t b =>
      by_cases hg : isGrease t = true <;>
        simp [List.filter_cons, hg, List.flatMap_cons, Ext.keep, Ext.strip, Ext.pointsIn] at ih ⊢ <;> exact ih
    | sni n => simp [List.filter_cons, List.flatMap_cons, Ext.keep, Ext.strip, Ext.pointsIn] at ih ⊢; exact ih
    | groups gs => simp [List.filter_cons, List.flatMap_cons, Ext.keep, Ext.strip, Ext.pointsIn] at ih ⊢; exact ih
    | points ps => simp [List.filter_cons, List.flatMap_cons, Ext.keep, Ext.strip, Ext.pointsIn] at ih ⊢; exact ih

/-- Hellos that differ only in their GREASE values have the same JA3 string (and digest):
the specification's string of a hello is that of the hello with every GREASE value removed. -/
theorem C13_grease_invariant (h : Hello) : ja3Spec (stripGrease h) = ja3Spec h := by
  unfold ja3Spec stripGrease
  simp only [filter_filter_same, strip_types, strip_groups, strip_points]

theorem C13_grease_invariant' (h1 h2 : Hello) (h : stripGrease h1 = stripGrease h2) :
    ja3Spec h1 = ja3Spec h2 := by
  rw [← C13_grease_invariant h1, ← C13_grease_invariant h2, h]

/-- The recorded server name equals the SNI sent (the last server-name extension's host name;
empty when there is none). -/
theorem C13_sni_exact (h : Hello) (hw : ∀ e ∈ h.exts, e.wf) :
    (parseExts (wire h) Info.empty).map (·.serverName) = some (lastOr (snisOf h.exts) []) := by
  unfold wire
  rw [parseExts_wire h.exts Info.empty hw]
  rfl

/-- Record of the defect repaired by a `fix:` commit: `JA3()` as it was kept GREASE values in
the cipher-suite and curve lists, so two hellos differing only in GREASE differed in JA3. -/
theorem C13_counterexample_grease_in_ciphers :
    ja3Old 771 [2570, 49195] { Info.empty with curves := [10794, 29] } ≠
    ja3Old 771 [6682, 49195] { Info.empty with curves := [14906, 29] } := by decide

/-- non-vacuity: a hello with GREASE in all three places meets `wf` -/
example : (⟨771, [2570, 49195, 49199], [.other 2570 [], .sni [97, 46, 98], .other 23 [], .groups [6682, 29, 23],
    .points [0], .other 2570 [0]]⟩ : Hello).wf := by
  refine ⟨?_, by decide, by decide⟩
  intro e he
  simp only [List.mem_cons, List.mem_nil_iff, or_false] at he
  rcases he with rfl | rfl | rfl | rfl | rfl | rfl <;> simp [Ext.wf] <;> decide

end HT.JA3

/- OBLIGATIONS
HT.JA3.C13_ja3_eq_spec
HT.JA3.C13_digest_eq_spec
HT.JA3.C13_grease_invariant
HT.JA3.C13_grease_invariant'
HT.JA3.C13_sni_exact
HT.JA3.C13_counterexample_grease_in_ciphers
-/
