import HT.Lemmas.RotFile
/-!
# C07 — the file channel keeps every event as one intact JSON line across rotations

Every event accepted by the file channel appears exactly once as one complete line in
the log file or one of its rotated predecessors, whatever the event sizes, the
configured maximum size and the moments at which rotation happens.  Rotation never
cuts or corrupts a line and never overwrites an earlier rotated file, a file exceeds
the maximum size only if it consists of a single line that is itself larger.

A batch handed to `Write` by the channel's writer is a concatenation of whole lines
(`json.Encoder.Encode` per event); `Aligned` states that.  "Sending never blocks
forever" is a property of the writer goroutine and is covered by the correspondence
run (unwritable destination), not by a theorem.
-/
namespace HT.Rot

/-- a whole history of writes (batches of any sizes) -/
def writes (max : Nat) (f : RF) (ps : List Bytes) : RF := ps.foldl (write max) f

/-- Exactly once, in order, unaltered: after any history of writes the rotated files followed
by the active file hold exactly the bytes written, in the order written — for every
maximum size, every batch size and every starting state. -/
theorem C07_stream_preserved (max : Nat) (ps : List Bytes) : ∀ (f : RF),
    contents (writes max f ps) = contents f ++ ps.flatten := by
  induction ps with
  | nil => intro f; simp [writes]
  | cons p ps ih =>
    intro f
    simp only [writes, List.foldl_cons] at ih ⊢
    rw [ih, write, writeLoop_contents]; simp [List.append_assoc]

/-- Rotation never cuts a line: if whole lines are written, every file consists of whole lines. -/
theorem C07_lines_intact (max : Nat) (ps : List Bytes) : ∀ (f : RF),
    AllAligned f → (∀ p ∈ ps, Aligned p) → AllAligned (writes max f ps) := by
  induction ps with
  | nil => intro f h _; exact h
  | cons p ps ih =>
    intro f hf hp
    simp only [writes, List.foldl_cons] at ih ⊢
    exact ih _ (writeLoop_aligned max _ f p hf (hp p (by simp))) (fun q hq => hp q (by simp [hq]))

/-- A file exceeds the maximum size only if it consists of a single line. -/
theorem C07_size_rule (max : Nat) (ps : List Bytes) : ∀ (f : RF),
    AllSizeOK max f → (∀ p ∈ ps, Aligned p) → AllSizeOK max (writes max f ps) := by
  induction ps with
  | nil => intro f h _; exact h
  | cons p ps ih =>
    intro f hf hp
    simp only [writes, List.foldl_cons] at ih ⊢
    exact ih _ (writeLoop_sizeOK max _ f p (write_mu f p) (hp p (by simp)) hf)
      (fun q hq => hp q (by simp [hq]))

/-- `Write` terminates: the loop's measure strictly decreases, and the fuel the model gives it
(`2·len + 2`) exceeds the measure, so the fuel-exhausted arm is never the one that answers
for a write of whole lines (it would break the size rule, which `C07_size_rule` excludes). -/
theorem C07_write_fuel_suffices (f : RF) (p : Bytes) : mu f p < 2 * p.length + 2 := write_mu f p

/-- An earlier rotated file is never overwritten: rotation only appends to the list of rotated
files, and the name chosen for the new one is not taken. -/
theorem C07_rotation_appends (f : RF) : (rotate f).rotated = f.rotated ++ [f.cur] := rfl

theorem C07_rotated_name_fresh (taken : List String) (base : String) (n : Nat) (name : String)
    (h : rotName taken base n = some name) : name ∉ taken :=
  rotName_fresh taken base n name h

/-! Record of the defect repaired by a `fix:` commit: the loop as it was wrote nothing,
rotated and skipped one byte when the first line of the batch did not fit. -/

def oldScan (p : Bytes) : Nat → Nat
  | 0 => 0
  | j + 1 => if p.getD (j + 1) 0 = NL then j + 1 else oldScan p j

def oldWriteLoop (max : Nat) : Nat → RF → Bytes → RF
  | 0, f, p => { f with cur := f.cur ++ p }
  | fuel + 1, f, p =>
    if f.cur.length + p.length > max then
      let j := oldScan p (max - f.cur.length)
      oldWriteLoop max fuel (rotate { f with cur := f.cur ++ p.take j }) (p.drop (j + 1))
    else { f with cur := f.cur ++ p }

theorem C07_counterexample_first_line_straddles_boundary :
    (oldWriteLoop 1024 5 { rotated := [], cur := mkLine 1000 } (mkLine 100)).cur.length = 99 := by
  decide +kernel

/-- non-vacuity: the same write with the repaired loop keeps all 100 bytes, in a new file -/
example : (write 1024 { rotated := [], cur := mkLine 1000 } (mkLine 100)) =
    { rotated := [mkLine 1000], cur := mkLine 100 } := by decide +kernel

example : AllAligned { rotated := [], cur := mkLine 1000 } ∧ Aligned (mkLine 100) ∧
    AllSizeOK 1024 { rotated := [], cur := mkLine 1000 } := by
  refine ⟨⟨Or.inr ?_, by simp⟩, Or.inr ?_, Or.inl ?_, by simp⟩
  · unfold EndsNL; decide +kernel
  · unfold EndsNL; decide +kernel
  · decide +kernel

end HT.Rot

/- OBLIGATIONS
HT.Rot.C07_stream_preserved
HT.Rot.C07_lines_intact
HT.Rot.C07_size_rule
HT.Rot.C07_write_fuel_suffices
HT.Rot.C07_rotation_appends
HT.Rot.C07_rotated_name_fresh
HT.Rot.C07_counterexample_first_line_straddles_boundary
-/
