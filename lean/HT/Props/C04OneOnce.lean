import HT.Props.C04HttpOnce
/-!
# C04 — the one-request services: the request is reported exactly once

elasticsearch, docker, eos, ethereum, cwmp (any configuration of the one-request machine): a connection that carries
one well-formed request — any headers other than Content-Length, any body — yields, in every segmentation, exactly
the report the configuration prescribes: one event with method, target and the recorded part of the body, or none
where the service reports nothing (no body where one is required, not a POST where only POSTs are read).
-/
namespace HT.Relay
open HT.Seg HT.Proto

/-- what the service reports for a request -/
def oneExpected (c : OneCfg) (q : HRq) : List Ev :=
  if q.body.isEmpty then (if c.needBody then [] else oneEvs c q.m q.t []) else oneEvs c q.m q.t q.body

theorem one_run (c : OneCfg) (q : HRq) (h : q.ok) :
    run (oneSvc c) .open q.bytes = (oneExpected c q, .closed, []) := by
  have e : q.bytes = renderLines' q.lines ++ cr :: lf :: (q.body ++ []) := by simp [HRq.bytes]
  have hclosed : run (oneSvc c) .closed [] = ([], .closed, []) := run_none (oneSvc c) .closed [] rfl
  rw [e]
  cases hbody : q.body with
  | nil =>
    have hn : (oneSvc c).next .open (renderLines' q.lines ++ cr :: lf :: ([] ++ []))
        = some ((if c.needBody then [] else oneEvs c q.m q.t [], .closed), []) := by
      show bindP httpHead _ _ = _
      have := httpHead_render q h ([] ++ [])
      simp only [hbody, List.length_nil, List.nil_append] at this ⊢
      simp only [bindP, this, pureP]
    rw [run_step (oneSvc c) (oneSvc_progress c) _ _ _ _ _ hn, hclosed]
    simp [oneExpected, hbody]
  | cons b bs =>
    have hn : (oneSvc c).next .open (renderLines' q.lines ++ cr :: lf :: ((b :: bs) ++ []))
        = some (([], .body q.m q.t bs.length), (b :: bs) ++ []) := by
      show bindP httpHead _ _ = _
      have := httpHead_render q h ((b :: bs) ++ [])
      simp only [hbody, List.length_cons, List.cons_append] at this ⊢
      simp only [bindP, this, pureP]
    have hn2 : (oneSvc c).next (.body q.m q.t bs.length) ((b :: bs) ++ [])
        = some ((oneEvs c q.m q.t (b :: bs), .closed), []) := by
      show bindP (takeN (bs.length + 1)) _ _ = _
      have ht : takeN (bs.length + 1) ((b :: bs) ++ []) = some (b :: bs, []) := by
        unfold takeN
        have : ¬ ((b :: bs) ++ ([] : Bytes)).length < bs.length + 1 := by simp
        simp only [this, if_false]
        have hlen : bs.length + 1 = (b :: bs).length := rfl
        rw [hlen, List.take_left, List.drop_left]
      simp only [bindP, ht, pureP]
    rw [run_step (oneSvc c) (oneSvc_progress c) _ _ _ _ _ hn, run_step (oneSvc c) (oneSvc_progress c) _ _ _ _ _ hn2, hclosed]
    simp [oneExpected, hbody]

/-- One request per connection, any segmentation: exactly the prescribed report. -/
theorem C04_onerequest_exactly_once (c : OneCfg) (q : HRq) (h : q.ok)
    (segs : List Bytes) (hs : segs.flatten = q.bytes) :
    eventsOf (oneSvc c) .open segs = oneExpected c q := by
  rw [C04_segmentation_independence (oneSvc c) (oneSvc_mono c) (oneSvc_progress c) .open segs, hs, events_one_piece,
    one_run c q h]
  simp [oneSvc, oneFinish]

end HT.Relay

/- OBLIGATIONS
HT.Relay.C04_onerequest_exactly_once
-/
