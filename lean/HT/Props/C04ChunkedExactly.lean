import HT.Props.C04ChunkedOnce
/-!
# C04 — http requests with chunked bodies: exactly one event per request

Any sequence of HTTP/1.1 requests whose bodies are sent chunked — any headers other than Content-Length and
Transfer-Encoding, any chunking of any body — pipelined or not, in any segmentation, yields exactly one event per
request, in order, carrying method, target and the first 1024 bytes of the decoded body.
-/
namespace HT.Relay
open HT.Seg HT.Proto

/-- "Transfer-Encoding" -/
def bTransferEncoding : Bytes := [84, 114, 97, 110, 115, 102, 101, 114, 45, 69, 110, 99, 111, 100, 105, 110, 103]

def teLine : Bytes := bTransferEncoding ++ colon :: sp :: vChunked

structure HRqC where
  m : Bytes
  t : Bytes
  hdrs : List (Bytes × Bytes)
  chunks : List Bytes

def hdrOkC (nv : Bytes × Bytes) : Prop := hdrOk nv ∧ nv.1.map lower ≠ nTransferEncoding

def HRqC.ok (q : HRqC) : Prop :=
  q.m ≠ [] ∧ sp ∉ q.m ∧ lf ∉ q.m ∧ sp ∉ q.t ∧ lf ∉ q.t ∧ (∀ h ∈ q.hdrs, hdrOkC h) ∧ (∀ c ∈ q.chunks, c ≠ [])

def HRqC.lines (q : HRqC) : List Bytes :=
  (q.m ++ sp :: (q.t ++ sp :: vHTTP11)) :: (q.hdrs.map hdrLine ++ [teLine])

def HRqC.bytes (q : HRqC) : Bytes := renderLines' q.lines ++ [cr, lf] ++ renderChunks q.chunks

theorem find_skip_name (nm : Bytes) (hs : List (Bytes × Bytes))
    (h : ∀ x ∈ hs, colon ∉ x.1 ∧ x.1.map lower ≠ nm) (tail : List Bytes) :
    (hs.map hdrLine ++ tail).find? (fun l => (l.takeWhile (· != 58)).map lower == nm)
      = tail.find? (fun l => (l.takeWhile (· != 58)).map lower == nm) := by
  induction hs with
  | nil => rfl
  | cons x xs ih =>
    have hx := h x List.mem_cons_self
    have : ((hdrLine x).takeWhile (· != 58)).map lower = x.1.map lower := by
      unfold hdrLine; rw [takeWhile_name x.1 _ hx.1]
    have hne : ((x.1.map lower) == nm) = false := by simpa using hx.2
    simp only [List.map_cons, List.cons_append, List.find?_cons, this, hne]
    exact ih (fun y hy => h y (List.mem_cons_of_mem _ hy))

theorem headerValue_te (hs : List (Bytes × Bytes)) (h : ∀ x ∈ hs, hdrOkC x) :
    headerValue nTransferEncoding (hs.map hdrLine ++ [teLine]) = some vChunked := by
  unfold headerValue
  rw [find_skip_name nTransferEncoding hs (fun x hx => ⟨(h x hx).1.2.1, (h x hx).2⟩) [teLine]]
  have hcolon : colon ∉ bTransferEncoding := by decide
  have htw : (teLine.takeWhile (· != 58)).map lower = nTransferEncoding := by
    unfold teLine
    rw [takeWhile_name _ _ hcolon]
    decide
  simp only [List.find?_cons, htw, beq_self_eq_true]
  unfold teLine
  rw [dropWhile_name _ _ hcolon]
  decide

theorem httpHeadC_render (q : HRqC) (h : q.ok) (rest : Bytes) :
    httpHeadC (renderLines' q.lines ++ cr :: lf :: rest) = some (some (q.m, q.t, .chunks), rest) := by
  obtain ⟨hmne, hm, hml, ht, htl, hh, _⟩ := h
  have hlines : ∀ l ∈ q.lines, lf ∉ l ∧ l ≠ [] := by
    intro l hl
    unfold HRqC.lines at hl
    rcases List.mem_cons.mp hl with rfl | hl
    · constructor
      · intro hmem
        simp only [List.mem_append, List.mem_cons] at hmem
        rcases hmem with h1 | h1 | h1 | h1 | h1
        · exact hml h1
        · simp [lf, sp] at h1
        · exact htl h1
        · simp [lf, sp] at h1
        · revert h1; decide
      · cases hq : q.m with
        | nil => exact absurd hq hmne
        | cons a as => simp
    · rcases List.mem_append.mp hl with hl | hl
      · obtain ⟨x, hx, rfl⟩ := List.mem_map.mp hl
        have hxo := (hh x hx).1
        constructor
        · intro hmem
          unfold hdrLine at hmem
          simp only [List.mem_append, List.mem_cons] at hmem
          rcases hmem with h1 | h1 | h1 | h1
          · exact hxo.2.2.1 h1
          · simp [lf, colon] at h1
          · simp [lf, sp] at h1
          · exact hxo.2.2.2.1 h1
        · unfold hdrLine; simp
      · simp only [List.mem_singleton] at hl
        subst hl
        exact ⟨by decide, by decide⟩
  unfold httpHeadC
  simp only [bindP]
  rw [headLines_render q.lines hlines rest _ (by
    have := lines_len_le q.lines
    simp only [List.length_append, List.length_cons]
    omega)]
  have hv : sp ∉ vHTTP11 := by decide
  have hlow : vChunked.map lower = vChunked := by decide
  simp only [pureP, headInfoC, HRqC.lines, splitOn_three q.m q.t vHTTP11 hm ht hv, headerValue_te q.hdrs hh]
  simp [hlow]

def httpReqEvC (q : HRqC) : Ev := httpEv q.m q.t q.chunks.flatten

theorem http_reqC_steps (q : HRqC) (h : q.ok) (rest : Bytes) :
    run httpSvcC .open (q.bytes ++ rest) =
      (httpReqEvC q :: (run httpSvcC .open rest).1, (run httpSvcC .open rest).2.1, (run httpSvcC .open rest).2.2) := by
  have e : q.bytes ++ rest = renderLines' q.lines ++ cr :: lf :: (renderChunks q.chunks ++ rest) := by
    simp [HRqC.bytes]
  rw [e]
  have hn : httpSvcC.next .open (renderLines' q.lines ++ cr :: lf :: (renderChunks q.chunks ++ rest))
      = some (([], .chunk q.m q.t), renderChunks q.chunks ++ rest) := by
    show bindP httpHeadC _ _ = _
    simp only [bindP, httpHeadC_render q h, pureP]
  have hn2 : httpSvcC.next (.chunk q.m q.t) (renderChunks q.chunks ++ rest)
      = some (([httpEv q.m q.t q.chunks.flatten], .open), rest) := by
    show bindP chunkedAll _ _ = _
    simp only [bindP, C04_chunked_decodes_what_was_encoded q.chunks h.2.2.2.2.2.2 rest, pureP]
  rw [run_step httpSvcC httpSvcC_progress _ _ _ _ _ hn, run_step httpSvcC httpSvcC_progress _ _ _ _ _ hn2]
  simp [httpReqEvC]

theorem http_runC (qs : List HRqC) (h : ∀ q ∈ qs, q.ok) (rest : Bytes) :
    run httpSvcC .open (qs.flatMap HRqC.bytes ++ rest) =
      (qs.map httpReqEvC ++ (run httpSvcC .open rest).1, (run httpSvcC .open rest).2.1, (run httpSvcC .open rest).2.2) := by
  induction qs with
  | nil => simp
  | cons q qs ih =>
    have e : (q :: qs).flatMap HRqC.bytes ++ rest = q.bytes ++ (qs.flatMap HRqC.bytes ++ rest) := by simp
    rw [e, http_reqC_steps q (h q List.mem_cons_self), ih (fun x hx => h x (List.mem_cons_of_mem _ hx))]
    simp

/-- http, chunked: any sequence of requests, any chunking of any body, pipelined or not, in any segmentation: exactly
one event per request, in order, with method, target and the first 1024 bytes of the decoded body. -/
theorem C04_http_chunked_exactly_once (qs : List HRqC) (h : ∀ q ∈ qs, q.ok)
    (segs : List Bytes) (hs : segs.flatten = qs.flatMap HRqC.bytes) :
    eventsOf httpSvcC .open segs = qs.map httpReqEvC := by
  rw [C04_segmentation_independence httpSvcC httpSvcC_mono httpSvcC_progress .open segs, hs, events_one_piece]
  have := http_runC qs h []
  simp only [List.append_nil] at this
  rw [this]
  have hn : httpSvcC.next .open [] = none := next_nil_none httpSvcC httpSvcC_progress .open
  rw [run_none httpSvcC .open [] hn]
  simp [httpSvcC, httpCFinish]

/-- the hypotheses are satisfiable: POST /u with one header and two chunks -/
example : (HRqC.ok { m := [80, 79, 83, 84], t := [47, 117], hdrs := [([72, 111, 115, 116], [104])], chunks := [[87, 105], [107]] }) := by
  refine ⟨by decide, by decide, by decide, by decide, by decide, ?_, ?_⟩
  · intro x hx
    simp only [List.mem_singleton] at hx
    subst hx
    exact ⟨⟨by decide, by decide, by decide, by decide, by decide⟩, by decide⟩
  · intro c hc
    simp only [List.mem_cons, List.mem_singleton] at hc
    rcases hc with rfl | rfl | hc
    · decide
    · decide
    · simp at hc

end HT.Relay

/- OBLIGATIONS
HT.Relay.C04_http_chunked_exactly_once
-/
