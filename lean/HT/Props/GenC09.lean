import HT.Gen.Facts
/-!
Agreement of the models' constants and tables with facts regenerated from the source.
`HT.Gen.*` is rewritten by `/verif/extract` from /repo's working tree on every run (go/parser + go/ast);
each theorem here is re-checked by the kernel against what the code says now.  If a constant or table
changes in the source, the theorem that ties the model to it stops checking and the check reports the
broken tie.
-/
namespace HT.GenAgree

/-- the two timeouts the silence bound of the check is built from: the idle timeout the server wraps
every connection with, and the ftp passive accept / data timeout -/
theorem C09_gen_timeouts : HT.Gen.idleTimeout = 30 ∧ HT.Gen.ftpPassiveTimeout = 30 := by decide

end HT.GenAgree

/- OBLIGATIONS
HT.GenAgree.C09_gen_timeouts
-/
