import HT.Gen.Facts
import HT.Model.Ipp
/-!
Agreement of the models' constants and tables with facts regenerated from the source.
`HT.Gen.*` is rewritten by `/verif/extract` from /repo's working tree on every run (go/parser + go/ast);
each theorem here is re-checked by the kernel against what the code says now.  If a constant or table
changes in the source, the theorem that ties the model to it stops checking and the check reports the
broken tie.
-/
namespace HT.GenAgree

/-- the decoder type the source's switch selects for a tag, as the model's kind -/
def kindOfName : String → Option HT.Ipp.Kind
  | "valInt" => some .int
  | "valBool" => some .bool
  | "valStr" => some .str
  | "valRangeInt" => some .range
  | _ => none

def genKind (t : Nat) : Option HT.Ipp.Kind :=
  match HT.Gen.ippKinds.find? (fun r => r.1 == t) with
  | some r => kindOfName r.2
  | none => none

/-- for every one of the 256 tag values the model's `kindOf` is what the switch of `attribGroup.decode`
does with the tag constants of message.go (kernel evaluation of the whole table) -/
theorem C17_gen_ipp_kinds : (List.range 256).all (fun t => HT.Ipp.kindOf (UInt8.ofNat t) == genKind t) = true := by
  decide +kernel

end HT.GenAgree

/- OBLIGATIONS
HT.GenAgree.C17_gen_ipp_kinds
-/
