import HT.Model.Confine
/-!
# C01 — no client traffic to an emulated service can terminate the honeypot process

Statement (properties.jsonl): for every service and every byte sequence, in any segmentation and on
any number of concurrent connections, the process keeps running and keeps serving; a failure while
handling one connection is confined to that connection; it never ends in an unrecovered panic, a
fatal runtime error, or memory growth that continues without further client input.

The proof part is the confinement argument and the two loops whose non-termination was unbounded
allocation: (1) whatever the order in which goroutines end, a process in which every ending is a
return, a panic under a recover, survives and has closed and reported every connection — so the
property reduces to "no fatal error and no panic outside a recover", which is what the lab runs look
for service by service; (2) the ssh payload loop ends for every payload (and did not).  The bound on
redis nesting is in `HT.Proto.rItem` (C04), the ipp group loop in `HT.Ipp.groups` (C17).
-/
namespace HT.Conf

/-- **Confinement.** Any number of connections and service goroutines ending in any order: if each
ending is confined, the process is alive, every handler that ended is accounted for, and every
recovered panic has been reported. -/
theorem C01_confined (es : List (Site × Outcome)) (h : ∀ e ∈ es, confined e = true) :
    ∀ p : Proc, p.alive = true →
      (run p es).alive = true ∧
      (run p es).ended = p.ended + (es.filter (fun e => e.1 == .handler)).length ∧
      (run p es).errors = p.errors + (es.filter (fun e => e.1 == .handler && e.2 == .panicked)).length := by
  induction es with
  | nil => intro p hp; simp [run, hp]
  | cons e es ih =>
    intro p hp
    have he := h e List.mem_cons_self
    have hrest : ∀ x ∈ es, confined x = true := fun x hx => h x (List.mem_cons_of_mem _ hx)
    obtain ⟨site, out⟩ := e
    simp only [run, List.foldl_cons]
    cases site with
    | handler =>
      cases out with
      | returned =>
        have := ih hrest { p with ended := p.ended + 1 } hp
        simp only [run] at this
        have hs : step p (Site.handler, Outcome.returned) = { p with ended := p.ended + 1 } := by simp [step, hp]
        rw [hs]
        refine ⟨this.1, ?_, ?_⟩
        · rw [this.2.1]; simp [List.filter_cons]; omega
        · rw [this.2.2]; simp [List.filter_cons]
      | panicked =>
        have := ih hrest { p with ended := p.ended + 1, errors := p.errors + 1 } hp
        simp only [run] at this
        have hs : step p (Site.handler, Outcome.panicked) = { p with ended := p.ended + 1, errors := p.errors + 1 } := by
          simp [step, hp]
        rw [hs]
        refine ⟨this.1, ?_, ?_⟩
        · rw [this.2.1]; simp [List.filter_cons]; omega
        · rw [this.2.2]; simp [List.filter_cons]; omega
      | fatal => simp [confined] at he
    | spawned r =>
      have hstep : ∀ o, confined (Site.spawned r, o) = true → step p (Site.spawned r, o) = p := by
        intro o ho
        cases o <;> cases r <;> simp_all [confined, step]
      rw [hstep out he]
      have := ih hrest p hp
      simp only [run] at this
      refine ⟨this.1, ?_, ?_⟩
      · rw [this.2.1]; simp [List.filter_cons]
      · rw [this.2.2]; simp [List.filter_cons]

/-- the converse: one unconfined ending, wherever it falls, and the process is gone for good -/
theorem C01_unconfined_kills (pre post : List (Site × Outcome)) (e : Site × Outcome)
    (hpre : ∀ x ∈ pre, confined x = true) (he : confined e = false) :
    (run Proc.init (pre ++ e :: post)).alive = false := by
  have h1 := (C01_confined pre hpre Proc.init rfl).1
  have hdead : (step (run Proc.init pre) e).alive = false := by
    obtain ⟨site, out⟩ := e
    cases site with
    | handler => cases out <;> simp_all [confined, step]
    | spawned r => cases r <;> cases out <;> simp_all [confined, step]
  have hstay : ∀ (es : List (Site × Outcome)) (p : Proc), p.alive = false → (run p es).alive = false := by
    intro es
    induction es with
    | nil => intro p hp; simpa [run] using hp
    | cons x xs ih => intro p hp; simp only [run, List.foldl_cons]; exact ih (step p x) (by simp [step, hp])
  simp only [run, List.foldl_append, List.foldl_cons]
  exact hstay post _ hdead

/-- vnc as it was: the frame pusher panics outside every recover -/
theorem C01_counterexample_unrecovered_pusher :
    (run Proc.init [(.handler, .returned), (.spawned false, .panicked), (.handler, .returned)]).alive = false := by decide

/-! ## the ssh payload loop -/

/-- For every payload the loop ends, within one iteration per four bytes plus two. -/
theorem C01_ssh_payload_loop_ends : ∀ (fuel : Nat) (b : Bytes) (err : Bool), b.length + 2 ≤ fuel →
    ∃ r, sshStrings true fuel err b = some r := by
  intro fuel
  induction fuel with
  | zero => intro b err h; omega
  | succ f ih =>
    intro b err h
    unfold sshStrings
    by_cases hb : b.isEmpty = true
    · simp [hb]
    · by_cases he : err = true
      · simp [he]
      · have he' : err = false := by simpa using he
        subst he'
        simp only [hb, Bool.false_eq_true, Bool.and_false, Bool.or_self, if_false]
        match b, h, hb with
        | a :: b2 :: c :: d :: rest, h, _ =>
          simp only
          split
          · obtain ⟨r, hr⟩ := ih rest true (by simp only [List.length_cons] at h; omega)
            exact ⟨[] :: r, by rw [hr]; rfl⟩
          · obtain ⟨r, hr⟩ := ih (rest.drop (((a.toNat * 256 + b2.toNat) * 256 + c.toNat) * 256 + d.toNat)) false
              (by simp only [List.length_cons, List.length_drop] at h ⊢; omega)
            exact ⟨_ :: r, by rw [hr]; rfl⟩
        | [x], h, _ =>
          -- the failed read sets the error; the next iteration stops
          match f, h with
          | f + 1, _ => exact ⟨[[]], by simp [sshStrings]⟩
        | [x, y], h, _ =>
          match f, h with
          | f + 1, _ => exact ⟨[[]], by simp [sshStrings]⟩
        | [x, y, z], h, _ =>
          match f, h with
          | f + 1, _ => exact ⟨[[]], by simp [sshStrings]⟩
        | [], _, hb => simp at hb

/-- As it was: a payload of one to three bytes keeps the loop running (and appending) for any fuel. -/
theorem C01_counterexample_ssh_payload_spins (x y : UInt8) : ∀ fuel err, sshStrings false fuel err [x, y] = none := by
  intro fuel
  induction fuel with
  | zero => intro err; rfl
  | succ f ih => intro err; simp [sshStrings, ih]

example : sshStrings true 10 false [0, 0, 0, 2, 105, 100, 0, 0, 0, 1, 120] = some [[105, 100], [120]] := by decide
example : sshStrings true 10 false [0, 0, 0, 2, 105, 100, 7] = some [[105, 100], []] := by decide

end HT.Conf

/- OBLIGATIONS
HT.Conf.C01_confined
HT.Conf.C01_unconfined_kills
HT.Conf.C01_counterexample_unrecovered_pusher
HT.Conf.C01_ssh_payload_loop_ends
HT.Conf.C01_counterexample_ssh_payload_spins
-/
