import HT.Model.Ipp
import HT.Model.Proto
/-!
# C01 — input-bounded work in the two recursive / looping decoders that used to run away

* ipp: the group loop of `ippMsg.decode` (`HT.Ipp.groups`) yields at most one group per input byte —
  the loop that used to append groups for ever on a body without end tag is bounded by the input.
* redis: `parseRedisDataDepth` (`HT.Proto.rItem`) refuses to descend below the configured number of
  levels without reading anything; the recursion is structural in that number.
-/
namespace HT.Ipp

theorem rd16_len (b : Bytes) (n : Nat) (r : Bytes) (h : rd16 b = some (n, r)) : r.length + 2 = b.length := by
  match b, h with
  | a :: c :: rest, h => simp [rd16] at h; simp [← h.2]

theorem rd32_len (b : Bytes) (n : Nat) (r : Bytes) (h : rd32 b = some (n, r)) : r.length + 4 = b.length := by
  match b, h with
  | a :: c :: d :: e :: rest, h => simp [rd32] at h; simp [← h.2]

theorem rd8_len (b : Bytes) (x : UInt8) (r : Bytes) (h : rd8 b = some (x, r)) : r.length + 1 = b.length := by
  match b, h with
  | a :: rest, h => simp [rd8] at h; simp [← h.2]

theorem rdData_len (b s r : Bytes) (h : rdData b = some (s, r)) : r.length + 2 ≤ b.length := by
  unfold rdData at h
  cases h16 : rd16 b with
  | none => simp [h16] at h
  | some p =>
    obtain ⟨l, r1⟩ := p
    have hl := rd16_len b l r1 h16
    simp only [h16] at h
    split at h
    · simp at h
    · split at h
      · simp at h
      · simp only [Option.some.injEq, Prod.mk.injEq] at h
        rw [← h.2]; simp only [List.length_drop]; omega

theorem rdInt_len (b : Bytes) (n : Nat) (r : Bytes) (h : rdInt b = some (n, r)) : r.length + 6 = b.length := by
  unfold rdInt at h
  cases h16 : rd16 b with
  | none => simp [h16] at h
  | some p =>
    obtain ⟨l, r1⟩ := p
    simp only [h16] at h
    have := rd16_len b l r1 h16
    have := rd32_len r1 n r h
    omega

theorem rdBool_len (b : Bytes) (x : Bool) (r : Bytes) (h : rdBool b = some (x, r)) : r.length + 3 = b.length := by
  unfold rdBool at h
  cases h16 : rd16 b with
  | none => simp [h16] at h
  | some p =>
    obtain ⟨l, r1⟩ := p
    simp only [h16] at h
    cases h8 : rd8 r1 with
    | none => simp [h8] at h
    | some q =>
      obtain ⟨y, r2⟩ := q
      simp only [h8, Option.some.injEq, Prod.mk.injEq] at h
      have := rd16_len b l r1 h16
      have := rd8_len r1 y r2 h8
      rw [← h.2]; omega

/-- the additional-values loop never hands back more than it was given -/
theorem more_len {α : Type} (rdV : Bytes → Option (α × Bytes)) (hv : ∀ b v r, rdV b = some (v, r) → r.length ≤ b.length)
    (tag : UInt8) : ∀ (f : Nat) (b : Bytes) (vs : List α) (r : Bytes), more rdV tag f b = some (vs, r) → r.length ≤ b.length := by
  intro f
  induction f with
  | zero => intro b vs r h; simp [more] at h
  | succ f ih =>
    intro b vs r h
    match b, h with
    | [], h => simp [more] at h
    | t :: rest, h =>
      unfold more at h
      split at h
      · simp only [Option.some.injEq, Prod.mk.injEq] at h; simp [← h.2]
      · cases h16 : rd16 rest with
        | none => simp [h16] at h
        | some p =>
          obtain ⟨l, r2⟩ := p
          simp only [h16] at h
          have h2 := rd16_len rest l r2 h16
          split at h
          · simp only [Option.some.injEq, Prod.mk.injEq] at h; simp [← h.2]
          · cases hV : rdV r2 with
            | none => simp [hV] at h
            | some q =>
              obtain ⟨v, r3⟩ := q
              simp only [hV] at h
              have h3 := hv r2 v r3 hV
              cases hm : more rdV tag f r3 with
              | none => simp [hm] at h
              | some w =>
                obtain ⟨vs', r4⟩ := w
                simp only [hm, Option.some.injEq, Prod.mk.injEq] at h
                have h4 := ih r3 vs' r4 hm
                rw [← h.2]
                simp only [List.length_cons]; omega

theorem decodeVal_len (k : Kind) (tag : UInt8) (f : Nat) (b : Bytes) (v : Val) (r : Bytes)
    (h : decodeVal k tag f b = some (v, r)) : r.length ≤ b.length := by
  unfold decodeVal at h
  cases hn : rdData b with
  | none => simp [hn] at h
  | some p =>
    obtain ⟨name, r0⟩ := p
    have h0 := rdData_len b name r0 hn
    simp only [hn] at h
    cases k with
    | int =>
      simp only at h
      cases h1 : rdInt r0 with
      | none => simp [h1] at h
      | some q =>
        obtain ⟨x, r1⟩ := q
        simp only [h1] at h
        have := rdInt_len r0 x r1 h1
        cases h2 : more rdInt tag f r1 with
        | none => simp [h2] at h
        | some w =>
          obtain ⟨vs, r2⟩ := w
          simp only [h2, Option.some.injEq, Prod.mk.injEq] at h
          have := more_len rdInt (fun b v r hh => by have := rdInt_len b v r hh; omega) tag f r1 vs r2 h2
          rw [← h.2]; omega
    | str =>
      simp only at h
      cases h1 : rdData r0 with
      | none => simp [h1] at h
      | some q =>
        obtain ⟨x, r1⟩ := q
        simp only [h1] at h
        have := rdData_len r0 x r1 h1
        cases h2 : more rdData tag f r1 with
        | none => simp [h2] at h
        | some w =>
          obtain ⟨vs, r2⟩ := w
          simp only [h2, Option.some.injEq, Prod.mk.injEq] at h
          have := more_len rdData (fun b v r hh => by have := rdData_len b v r hh; omega) tag f r1 vs r2 h2
          rw [← h.2]; omega
    | bool =>
      simp only at h
      cases h1 : rdBool r0 with
      | none => simp [h1] at h
      | some q =>
        obtain ⟨x, r1⟩ := q
        simp only [h1] at h
        have := rdBool_len r0 x r1 h1
        cases h2 : more rdBool tag f r1 with
        | none => simp [h2] at h
        | some w =>
          obtain ⟨vs, r2⟩ := w
          simp only [h2, Option.some.injEq, Prod.mk.injEq] at h
          have := more_len rdBool (fun b v r hh => by have := rdBool_len b v r hh; omega) tag f r1 vs r2 h2
          rw [← h.2]; omega
    | range =>
      simp only at h
      cases h1 : rd16 r0 with
      | none => simp [h1] at h
      | some q =>
        obtain ⟨l, r1⟩ := q
        simp only [h1] at h
        have := rd16_len r0 l r1 h1
        cases h2 : rd32 r1 with
        | none => simp [h2] at h
        | some w =>
          obtain ⟨lo, r2⟩ := w
          simp only [h2] at h
          have := rd32_len r1 lo r2 h2
          cases h3 : rd32 r2 with
          | none => simp [h3] at h
          | some u =>
            obtain ⟨hi, r3⟩ := u
            simp only [h3, Option.some.injEq, Prod.mk.injEq] at h
            have := rd32_len r2 hi r3 h3
            rw [← h.2]; omega

theorem groupVals_len : ∀ (f : Nat) (b : Bytes) (vs : List Val) (r : Bytes), groupVals f b = some (vs, r) → r.length ≤ b.length := by
  intro f
  induction f with
  | zero => intro b vs r h; simp [groupVals] at h
  | succ f ih =>
    intro b vs r h
    match b, h with
    | [], h => simp [groupVals] at h
    | t :: rest, h =>
      unfold groupVals at h
      split at h
      · simp only [Option.some.injEq, Prod.mk.injEq] at h; simp [← h.2]
      · cases hk : kindOf t with
        | none => simp [hk] at h
        | some k =>
          simp only [hk] at h
          cases hd : decodeVal k t f rest with
          | none => simp [hd] at h
          | some p =>
            obtain ⟨v, r2⟩ := p
            simp only [hd] at h
            have h2 := decodeVal_len k t f rest v r2 hd
            cases hg : groupVals f r2 with
            | none => simp [hg] at h
            | some q =>
              obtain ⟨vs', r3⟩ := q
              simp only [hg, Option.some.injEq, Prod.mk.injEq] at h
              have h3 := ih r2 vs' r3 hg
              rw [← h.2]; simp only [List.length_cons]; omega

/-- **The group loop is bounded by the input**: every group costs at least its tag byte, so the number
of groups plus the bytes left over never exceeds the bytes given — for every input and every fuel.
(As it was, a body without end tag made the loop append groups without bound.) -/
theorem C01_ipp_groups_bounded : ∀ (f : Nat) (b : Bytes) (gs : List Group) (r : Bytes),
    groups f b = some (gs, r) → gs.length + r.length + 1 ≤ b.length := by
  intro f
  induction f with
  | zero => intro b gs r h; simp [groups] at h
  | succ f ih =>
    intro b gs r h
    match b, h with
    | [], h => simp [groups] at h
    | t :: rest, h =>
      unfold groups at h
      split at h
      · simp only [Option.some.injEq, Prod.mk.injEq] at h
        rw [← h.1, ← h.2]; simp
      · cases hg : groupVals f rest with
        | none => simp [hg] at h
        | some p =>
          obtain ⟨vs, r2⟩ := p
          simp only [hg] at h
          have h2 := groupVals_len f rest vs r2 hg
          cases hr : groups f r2 with
          | none => simp [hr] at h
          | some q =>
            obtain ⟨gs', r3⟩ := q
            simp only [hr, Option.some.injEq, Prod.mk.injEq] at h
            have h3 := ih r2 gs' r3 hr
            rw [← h.1, ← h.2]; simp only [List.length_cons]; omega

/-- … and so is the whole decode: a decoded message has fewer groups than the body has bytes -/
theorem C01_ipp_decode_bounded (raw : Bytes) (m : Msg) (h : decode raw = some m) : m.groups.length < raw.length := by
  unfold decode at h
  match raw, h with
  | maj :: min :: r0, h =>
    simp only at h
    cases h16 : rd16 r0 with
    | none => simp [h16] at h
    | some p =>
      obtain ⟨op, r1⟩ := p
      simp only [h16] at h
      cases h32 : rd32 r1 with
      | none => simp [h32] at h
      | some q =>
        obtain ⟨rid, r2⟩ := q
        simp only [h32] at h
        cases hg : groups (r2.length + 1) r2 with
        | none => simp [hg] at h
        | some w =>
          obtain ⟨gs, d⟩ := w
          simp only [hg, Option.some.injEq] at h
          have := C01_ipp_groups_bounded _ r2 gs d hg
          have := rd16_len r0 op r1 h16
          have := rd32_len r1 rid r2 h32
          rw [← h]; simp only [List.length_cons]; omega

end HT.Ipp

namespace HT.Proto
open HT.Seg

/-- redis: below the last permitted level the parser rejects the request without consuming a byte;
`rItem` recurses structurally on the number of levels, `redisLevels = 33` at the top. -/
theorem C01_redis_nesting_bounded (b : Bytes) : rItem 0 b = some (none, b) := rfl

example : redisLevels = 33 := rfl

end HT.Proto

/- OBLIGATIONS
HT.Ipp.C01_ipp_groups_bounded
HT.Ipp.C01_ipp_decode_bounded
HT.Proto.C01_redis_nesting_bounded
-/
