import HT.Gen.Facts
import HT.Model.Proto
/-!
Agreement of the models' constants and tables with facts regenerated from the source.
`HT.Gen.*` is rewritten by `/verif/extract` from /repo's working tree on every run (go/parser + go/ast);
each theorem here is re-checked by the kernel against what the code says now.  If a constant or table
changes in the source, the theorem that ties the model to it stops checking and the check reports the
broken tie.
-/
namespace HT.GenAgree

/-- the redis nesting bound of the model is the source's `maxRedisDepth` (+ the top level) -/
theorem C04_gen_redis_levels : HT.Gen.maxRedisDepth + 1 = HT.Proto.redisLevels := by decide

/-- the storage commands the memcached model treats as carrying a data block are exactly the case
clauses of the source that fall through into the block reader, in order -/
theorem C04_gen_memcached_storage : HT.Gen.memcachedStorageBytes = HT.Proto.mcStorage := by decide

/-- smtp loop threshold and telnet line limit used by the models -/
theorem C04_gen_smtp_threshold : HT.Gen.smtpLoopThreshold = 100 := by decide
theorem C04_gen_telnet_maxline : HT.Gen.telnetMaxLine = 4096 := by decide

end HT.GenAgree

/- OBLIGATIONS
HT.GenAgree.C04_gen_redis_levels
HT.GenAgree.C04_gen_memcached_storage
HT.GenAgree.C04_gen_smtp_threshold
HT.GenAgree.C04_gen_telnet_maxline
-/
