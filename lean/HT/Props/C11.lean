import HT.Model.Path
/-!
# C11 — FTP clients cannot reach outside the service's filesystem root

For every sequence of FTP commands with arbitrary path arguments — relative, absolute, with
dot-dot components, repeated or trailing separators, after any directory changes — every file
or directory that is read, listed, created, renamed or deleted lies inside the FTP service's
filesystem root, and the working directory reported to the client never denotes a location
outside it.

Containment is lexical (the root is assumed free of symlinks leaving it).  Every driver
operation passes its path argument through `RealPath` (checked on the real service by the
correspondence run against a sentinel tree beside the root).  The theorems are stated on
component lists — what `strings.Split(path, "/")` yields; the string forms are defined from
them in `HT.Path`.
-/
namespace HT.Path

instance (c : String) : Decidable (plain c) := by unfold plain; exact inferInstance

theorem cleanStep_plain (out : List String) (c : String) (h : ∀ x ∈ out, plain x) :
    ∀ x ∈ cleanStep true out c, plain x := by
  unfold cleanStep
  split
  · exact h
  · split
    · cases out with
      | nil => intro x hx; simp at hx
      | cons top rest =>
        have ht := h top (by simp)
        have : ¬ (top = "..") := ht.2.2
        simp only [this, if_false]
        exact fun x hx => h x (by simp [hx])
    · rename_i h1 h2
      intro x hx
      rcases List.mem_cons.mp hx with rfl | hx
      · exact ⟨fun e => h1 (Or.inl e), fun e => h1 (Or.inr e), h2⟩
      · exact h x hx

theorem foldl_cleanStep_plain (comps : List String) : ∀ (out : List String), (∀ x ∈ out, plain x) →
    ∀ x ∈ comps.foldl (cleanStep true) out, plain x := by
  induction comps with
  | nil => intro out h; exact h
  | cons c cs ih => intro out h; exact ih _ (cleanStep_plain out c h)

/-- Cleaning a rooted path leaves no empty, "." or ".." component: a cleaned absolute path cannot
climb. -/
theorem C11_clean_rooted_no_dotdot (comps : List String) : ∀ c ∈ cleanComps true comps, plain c := by
  intro c hc
  unfold cleanComps at hc
  exact foldl_cleanStep_plain comps [] (by simp) c (List.mem_reverse.mp hc)

theorem foldl_cleanStep_of_plain (r : Bool) (comps : List String) (h : ∀ c ∈ comps, plain c) :
    ∀ (out : List String), comps.foldl (cleanStep r) out = comps.reverse ++ out := by
  induction comps with
  | nil => intro out; rfl
  | cons c cs ih =>
    intro out
    have hc := h c (by simp)
    have h1 : ¬ (c = "" ∨ c = ".") := by rintro (e | e); exact hc.1 e; exact hc.2.1 e
    simp only [List.foldl_cons, cleanStep, h1, if_false, hc.2.2]
    rw [ih (fun x hx => h x (by simp [hx]))]
    simp

/-- Cleaning is the identity on a path that is already clean. -/
theorem cleanComps_of_plain (r : Bool) (comps : List String) (h : ∀ c ∈ comps, plain c) :
    cleanComps r comps = comps := by
  unfold cleanComps
  rw [foldl_cleanStep_of_plain r comps h []]; simp

/-- `RealPath` always lies inside the root: for every working directory, every path argument
(relative or absolute, any components), the result is the root's components followed by
components that are neither empty, "." nor "..". -/
theorem C11_realPath_within_root (rootc cwdc pathc : List String) (pathAbs : Bool)
    (hroot : ∀ c ∈ rootc, plain c) :
    ∃ rest, realPathComps rootc cwdc pathc pathAbs = rootc ++ rest ∧ ∀ c ∈ rest, plain c := by
  unfold realPathComps
  refine ⟨if pathAbs then cleanComps true pathc else cleanComps true (cwdc ++ pathc), ?_, ?_⟩
  · apply cleanComps_of_plain
    intro c hc
    rcases List.mem_append.mp hc with h | h
    · exact hroot c h
    · split at h
      · exact C11_clean_rooted_no_dotdot _ c h
      · exact C11_clean_rooted_no_dotdot _ c h
  · intro c hc
    split at hc
    · exact C11_clean_rooted_no_dotdot _ c hc
    · exact C11_clean_rooted_no_dotdot _ c hc

/-- The working directory after any `ChangeDir` — `Rel(root, RealPath(path))` re-rooted at "/" —
is again a rooted, clean path without "..": the invariant holds after any directory changes,
so `C11_realPath_within_root` applies from every reachable working directory, and the
directory reported to the client denotes a location inside the root. -/
theorem C11_cwd_invariant (rootc cwdc pathc : List String) (pathAbs : Bool)
    (hroot : ∀ c ∈ rootc, plain c) :
    ∀ c ∈ (realPathComps rootc cwdc pathc pathAbs).drop rootc.length, plain c := by
  obtain ⟨rest, h1, h2⟩ := C11_realPath_within_root rootc cwdc pathc pathAbs hroot
  rw [h1]; simpa using h2

/-- by induction: after any sequence of directory changes (each one either succeeds, replacing
the working directory by the new one, or fails, leaving it) the working directory is clean -/
theorem C11_cwd_after_any_sequence (rootc : List String) (hroot : ∀ c ∈ rootc, plain c)
    (steps : List (List String × Bool × Bool)) :
    ∀ (cwdc : List String), (∀ c ∈ cwdc, plain c) →
    ∀ c ∈ steps.foldl (fun cwd s =>
        if s.2.2 then (realPathComps rootc cwd s.1 s.2.1).drop rootc.length else cwd) cwdc, plain c := by
  induction steps with
  | nil => intro cwdc h; exact h
  | cons s ss ih =>
    intro cwdc h
    apply ih
    show ∀ c ∈ (if s.2.2 then (realPathComps rootc cwdc s.1 s.2.1).drop rootc.length else cwdc), plain c
    by_cases hs : s.2.2 = true
    · simp only [hs, if_true]; exact C11_cwd_invariant rootc cwdc s.1 s.2.1 hroot
    · simp only [hs, Bool.false_eq_true, if_false]; exact h

/-- non-vacuity and the classic attempts -/
example : realPathComps ["srv", "ftp"] ["a"] ["..", "..", "..", "etc", "passwd"] false = ["srv", "ftp", "etc", "passwd"] ∧
    realPathComps ["srv", "ftp"] [] ["", "..", "sentinel"] true = ["srv", "ftp", "sentinel"] ∧
    realPathComps ["srv", "ftp"] ["a", "b"] ["..", "c", ".", "", "d"] false = ["srv", "ftp", "a", "c", "d"] := by
  decide

end HT.Path

/- OBLIGATIONS
HT.Path.C11_clean_rooted_no_dotdot
HT.Path.C11_realPath_within_root
HT.Path.C11_cwd_invariant
HT.Path.C11_cwd_after_any_sequence
-/
