import HT.Lemmas.Limiter
/-!
# C10 — UDP services cannot be used as traffic amplifiers

For each rate-limited UDP service (tftp, memcached, snmp, counterstrike), one source IP
address receives at most the limiter's burst of response datagrams (four) within the
limiter interval, however many datagrams it sends, from whatever source ports and with
whatever contents.  One source's requests never use up another source's allowance.

"Within the limiter interval" is read as: in every time window shorter than the
interval T (a window of length exactly T admits burst+1: the burst at its start and
the token refilled at its end — that is how a token bucket with these parameters is
specified).  Source ports do not occur in the model at all: the limiter's key is the
IP text.
-/
namespace HT.Lim

/-- Per datagram, whatever its commands: the service writes at most one reply per granted
`Allow`, and every grant takes one token's worth out of the source's bucket. -/
theorem C10_replies_le_grants (T B : Nat) (s : Bk) (t : Nat) (cmds : List Cmd) (h : s.last ≤ t) :
    (handle T B s t cmds).1 ≤ (handle T B s t cmds).2.1 := by
  cases hh : handle T B s t cmds with
  | mk r rest =>
    obtain ⟨g, s2⟩ := rest
    exact (handle_spec T B t cmds s r g s2 h hh).1

/-- The bound: for every history of datagrams (any number, any contents, any ports, any other
sources interleaved), one source receives at most `B` replies in any window shorter than `T`. -/
theorem C10_per_ip_bound (T B : Nat) (hT : 0 < T) (ip : String) (st : LimSt) (rs : List Req) (lo hi : Nat)
    (hlast : (st ip).last ≤ lo)
    (hwin : ∀ r ∈ rs, r.ip = ip → lo ≤ r.t ∧ r.t ≤ hi)
    (hsort : rs.Pairwise (fun a b => a.t ≤ b.t))
    (hshort : hi - lo < T) :
    repliesTo T B ip st rs ≤ B := by
  rw [repliesTo_own]
  have hc := repliesBk_conserve T B ((rs.filter (fun r => r.ip = ip)).map (fun r => (r.t, r.cmds)))
    (st ip) lo hi hlast
    (by
      intro x hx
      simp only [List.mem_map, List.mem_filter, decide_eq_true_eq] at hx
      obtain ⟨r, ⟨hr, hip⟩, rfl⟩ := hx
      exact hwin r hr hip)
    (by
      rw [List.pairwise_map]
      exact List.Pairwise.sublist List.filter_sublist hsort)
  have ha := avail_le T B (st ip) lo
  have : repliesBk T B (st ip) ((rs.filter (fun r => r.ip = ip)).map (fun r => (r.t, r.cmds))) * T
      < (B + 1) * T := by rw [Nat.add_mul]; omega
  exact Nat.lt_succ_iff.mp (Nat.lt_of_mul_lt_mul_right this)

/-- One source's requests never use up another source's allowance: what a source receives is a
function of its own datagrams alone. -/
theorem C10_independent_sources (T B : Nat) (ip : String) (st : LimSt) (rs rs' : List Req)
    (h : rs.filter (fun r => r.ip = ip) = rs'.filter (fun r => r.ip = ip)) :
    repliesTo T B ip st rs = repliesTo T B ip st rs' := by
  rw [repliesTo_own, repliesTo_own, h]

/-- non-vacuity: the premises hold for the limiter's real parameters, and the bound is tight -/
example : repliesTo T10 B4 "10.0.0.1" (initSt T10 B4)
    ((List.replicate 9 ⟨"10.0.0.1", 5, [⟨true, true⟩]⟩) ++ [⟨"10.0.0.2", 6, [⟨true, true⟩]⟩]) = 4 := by decide

example : repliesTo T10 B4 "10.0.0.2" (initSt T10 B4)
    ((List.replicate 9 ⟨"10.0.0.1", 5, [⟨true, true⟩]⟩) ++ [⟨"10.0.0.2", 6, [⟨true, true⟩]⟩]) = 1 := by decide

end HT.Lim

/- OBLIGATIONS
HT.Lim.C10_replies_le_grants
HT.Lim.C10_per_ip_bound
HT.Lim.C10_independent_sources
-/
