import HT.Props.C04Ldap
/-!
# C04 — ldap: exactly one report per LDAPMessage

Any sequence of LDAPMessages (message id 0..255, any protocol operation other than the unbind request whose tag is in
the low-tag-number form, operation contents up to 60000 bytes — lengths in the short and in the long BER form),
pipelined or not, in any segmentation: one report per message, in order, with its id and request type.
-/
namespace HT.Ldap
open HT.Seg HT.Proto

/-- definite BER length: short form below 128, else the long form with one or two length bytes -/
def encLen (n : Nat) : Bytes :=
  if n < 128 then [UInt8.ofNat n]
  else if n < 256 then [0x81, UInt8.ofNat n]
  else [0x82, UInt8.ofNat (n / 256), UInt8.ofNat (n % 256)]

def encTLV (t : UInt8) (v : Bytes) : Bytes := t :: (encLen v.length ++ v)

theorem u8n (k : Nat) : (UInt8.ofNat k).toNat = k % 256 := by simp [UInt8.toNat_ofNat']

theorem berHead_enc (t : UInt8) (v rest : Bytes) (ht : t.toNat % 32 ≠ 31) (hv : v.length < 65536) :
    berHead (encTLV t v ++ rest) = some (some (t, v.length), v ++ rest) := by
  unfold encTLV encLen
  by_cases h1 : v.length < 128
  · simp only [h1, if_true, List.cons_append, List.nil_append, berHead, headOf, ht, if_false, u8n]
    have hm : v.length % 256 = v.length := Nat.mod_eq_of_lt (by omega)
    simp only [hm, h1, if_true]
  · by_cases h2 : v.length < 256
    · simp only [h1, h2, if_true, if_false, List.cons_append, List.nil_append, berHead, headOf, ht]
      have e1 : (0x81 : UInt8).toNat = 129 := by decide
      simp only [e1]
      have c1 : ¬ (129 < 128) := by omega
      have c2 : ¬ (129 - 128 = 0 ∨ 4 < 129 - 128) := by omega
      have c3 : ¬ ((UInt8.ofNat v.length :: (v ++ rest)).length < 129 - 128) := by simp
      simp only [c1, c2, c3, if_false]
      have : beNat (List.take (129 - 128) (UInt8.ofNat v.length :: (v ++ rest))) = v.length := by
        simp [beNat, u8n]; omega
      rw [this]
      simp
    · simp only [h1, h2, if_false, List.cons_append, List.nil_append, berHead, headOf, ht]
      have e1 : (0x82 : UInt8).toNat = 130 := by decide
      simp only [e1]
      have c1 : ¬ (130 < 128) := by omega
      have c2 : ¬ (130 - 128 = 0 ∨ 4 < 130 - 128) := by omega
      have c3 : ¬ ((UInt8.ofNat (v.length / 256) :: UInt8.ofNat (v.length % 256) :: (v ++ rest)).length < 130 - 128) := by simp
      simp only [c1, c2, c3, if_false]
      have : beNat (List.take (130 - 128) (UInt8.ofNat (v.length / 256) :: UInt8.ofNat (v.length % 256) :: (v ++ rest))) = v.length := by
        simp [beNat, u8n]; omega
      rw [this]
      simp

theorem tlv_enc (t : UInt8) (v rest : Bytes) (ht : t.toNat % 32 ≠ 31) (hv : v.length < 65536) :
    tlv (encTLV t v ++ rest) = some (t, v, rest) := by
  unfold tlv
  rw [berHead_enc t v rest ht hv]
  simp

theorem berPacket_enc (t : UInt8) (v rest : Bytes) (ht : t.toNat % 32 ≠ 31) (hv : v.length < 65536) :
    berPacket (encTLV t v ++ rest) = some (some (t, v), rest) := by
  unfold berPacket
  simp only [bindP, berHead_enc t v rest ht hv]
  cases hl : v.length with
  | zero =>
    have : v = [] := List.length_eq_zero_iff.mp hl
    subst this
    simp [pureP]
  | succ n =>
    have htk : takeN (n + 1) (v ++ rest) = some (v, rest) := by
      unfold takeN
      have : ¬ (v ++ rest).length < n + 1 := by simp only [List.length_append]; omega
      simp only [this, if_false]
      rw [← hl, List.take_left, List.drop_left]
    simp only [bindP, htk, pureP]

/-- one LDAPMessage: id, the operation's tag and contents -/
structure LMsg where
  id : UInt8
  op : UInt8
  body : Bytes

def LMsg.ok (m : LMsg) : Prop := m.op.toNat % 32 ≠ 31 ∧ m.op ≠ 0x42 ∧ m.body.length < 60000

def LMsg.inner (m : LMsg) : Bytes := encTLV 0x02 [m.id] ++ encTLV m.op m.body

def LMsg.bytes (m : LMsg) : Bytes := encTLV 0x30 m.inner

def LMsg.ev (m : LMsg) : Ev := { kind := "ldap", fields := [natDec m.id.toNat, reqType m.op] }

theorem encLen_len (n : Nat) : (encLen n).length ≤ 3 := by
  unfold encLen; split <;> (try split) <;> simp

theorem inner_len (m : LMsg) (h : m.ok) : m.inner.length < 65536 := by
  have h1 := encLen_len m.body.length
  have h2 : encLen ([m.id] : Bytes).length = [1] := by
    show encLen 1 = [1]
    decide
  have h3 := h.2.2
  unfold LMsg.inner encTLV
  rw [h2]
  simp only [List.length_append, List.length_cons, List.length_nil]
  omega

theorem onPacket_msg (m : LMsg) (h : m.ok) : onPacket 0x30 m.inner = ([m.ev], true) := by
  unfold onPacket LMsg.inner
  have h30 : ¬ ((0x30 : UInt8) ≠ 0x30) := by decide
  simp only [h30, if_false]
  rw [tlv_enc 0x02 [m.id] (encTLV m.op m.body) (by decide) (by simp)]
  have := tlv_enc m.op m.body [] h.1 (by have := h.2.2; omega)
  simp only [List.append_nil] at this
  simp only [this]
  have hb : beNat [m.id] = m.id.toNat := by simp [beNat]
  split
  · rename_i heq
    simp only [Option.some.injEq, Prod.mk.injEq] at heq
    exact absurd heq.1.symm (by intro e; exact h.2.1 e.symm)
  · rename_i heq
    simp only [Option.some.injEq, Prod.mk.injEq] at heq
    obtain ⟨rfl, _, _⟩ := heq
    simp [LMsg.ev, hb]
  · rename_i heq; simp at heq

theorem ldap_msg_step (m : LMsg) (h : m.ok) (rest : Bytes) :
    ldap.next true (m.bytes ++ rest) = some (([m.ev], true), rest) := by
  show bindP berPacket _ _ = _
  unfold LMsg.bytes
  simp only [bindP, berPacket_enc 0x30 m.inner rest (by decide) (inner_len m h), pureP, onPacket_msg m h]

theorem ldap_run (ms : List LMsg) (h : ∀ m ∈ ms, m.ok) (rest : Bytes) :
    run ldap true (ms.flatMap LMsg.bytes ++ rest) =
      (ms.map LMsg.ev ++ (run ldap true rest).1, (run ldap true rest).2.1, (run ldap true rest).2.2) := by
  induction ms with
  | nil => simp
  | cons m ms ih =>
    have e : (m :: ms).flatMap LMsg.bytes ++ rest = m.bytes ++ (ms.flatMap LMsg.bytes ++ rest) := by simp
    rw [e, run_step ldap ldap_progress _ _ _ _ _ (ldap_msg_step m (h m List.mem_cons_self) _),
      ih (fun x hx => h x (List.mem_cons_of_mem _ hx))]
    simp

/-- ldap: any sequence of messages, pipelined or not, in any segmentation: exactly one report per message, in order. -/
theorem C04_ldap_exactly_once (ms : List LMsg) (h : ∀ m ∈ ms, m.ok)
    (segs : List Bytes) (hs : segs.flatten = ms.flatMap LMsg.bytes) :
    eventsOf ldap true segs = ms.map LMsg.ev := by
  rw [C04_segmentation_independence ldap ldap_mono ldap_progress true segs, hs, events_one_piece]
  have := ldap_run ms h []
  simp only [List.append_nil] at this
  rw [this]
  have hn : ldap.next true [] = none := next_nil_none ldap ldap_progress true
  rw [run_none ldap true [] hn]
  simp [ldap]

/-- the hypotheses are satisfiable: a delete request with a 200-byte name (long-form length) -/
example : (LMsg.ok { id := 7, op := 0x4a, body := List.replicate 200 110 }) := by
  refine ⟨by decide, by decide, ?_⟩
  show (List.replicate 200 (110 : UInt8)).length < 60000
  rw [List.length_replicate]
  omega

end HT.Ldap

/- OBLIGATIONS
HT.Ldap.C04_ldap_exactly_once
-/
