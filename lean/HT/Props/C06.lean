import HT.Lemmas.Server
/-!
# C06 — every event reaches exactly the channels whose filters admit it

An event put on the bus is delivered, in sending order, to each configured channel
once for every filter that names the channel and admits the event — a filter admits
an event when any one of its category expressions matches the event's category and
any one of its service expressions matches its service, an absent list admitting
everything — and to no other channel.  What one channel receives does not depend on
which other channels or filters are configured.

Regular-expression matching is a parameter `rx` (Go's `regexp`, trusted).  The sensor
token is attached by the innermost wrapper of every subscription; the correspondence
oracle checks it on every delivered event.
-/
namespace HT.Srv

/-- the specification: per event, per filter (in configuration order), one copy for every
time the filter names the channel — if the filter admits the event -/
def deliveriesSpec (rx : String → String → Bool) (fs : List Filter) (es : List Ev) (ch : String) : List Ev :=
  es.flatMap fun e => fs.flatMap fun f =>
    if admits rx f e then List.replicate (f.channels.count ch) e else []

/-- Exactly those deliveries, in exactly that order, for every configuration and event stream. -/
theorem C06_delivery_exact (rx : String → String → Bool) (defined : List String) (fs : List Filter)
    (es : List Ev) (ch : String) (hd : defined.contains ch = true) :
    received (sendAll rx (wire defined fs) es) ch = deliveriesSpec rx fs es ch := by
  rw [received_sendAll]
  unfold deliveriesSpec
  congr 1
  funext e
  exact received_send_wire rx defined e ch hd fs

/-- A channel that is not configured receives nothing. -/
theorem C06_no_other_channel (rx : String → String → Bool) (defined : List String) (fs : List Filter)
    (es : List Ev) (ch : String) (hd : defined.contains ch = false) :
    received (sendAll rx (wire defined fs) es) ch = [] := by
  rw [received_sendAll]
  have : ∀ e, received (send rx (wire defined fs) e) ch = [] := by
    intro e
    unfold received send
    simp only [List.map_eq_nil_iff, List.filter_eq_nil_iff, List.mem_map, List.mem_filter]
    rintro x ⟨s, ⟨hs, _⟩, rfl⟩
    simpa using wire_undefined defined fs ch hd s hs
  simp [this]

/-- An absent (empty) expression list admits everything. -/
theorem C06_absent_lists_admit (rx : String → String → Bool) (f : Filter) (e : Ev)
    (hc : f.categories = []) (hs : f.services = []) : admits rx f e = true := by
  simp [admits, hc, hs]

/-- Independence: what a channel receives is the same with all filters that do not name it
removed — and therefore does not depend on them, nor on which other channels exist. -/
theorem C06_independence (rx : String → String → Bool) (defined defined' : List String)
    (fs : List Filter) (es : List Ev) (ch : String)
    (hd : defined.contains ch = true) (hd' : defined'.contains ch = true) :
    received (sendAll rx (wire defined fs) es) ch =
      received (sendAll rx (wire defined' (fs.filter (fun f => decide (ch ∈ f.channels)))) es) ch := by
  rw [C06_delivery_exact rx defined fs es ch hd, C06_delivery_exact rx defined' _ es ch hd']
  unfold deliveriesSpec
  congr 1
  funext e
  induction fs with
  | nil => rfl
  | cons f fs ih =>
    by_cases hc : ch ∈ f.channels
    · simp only [List.filter_cons, hc, decide_true, if_true, List.flatMap_cons, ih]
    · have h0 : f.channels.count ch = 0 := List.count_eq_zero.mpr hc
      simp only [List.filter_cons, hc, decide_false, Bool.false_eq_true, if_false, List.flatMap_cons, ih, h0,
        List.replicate_zero, ite_self, List.nil_append]

/-- non-vacuity: two channels, three filters (one naming a channel twice, one an unknown channel) -/
example :
    let fs : List Filter := [⟨["c1", "c2"], [], ["ssh"]⟩, ⟨["c2", "c9", "c2"], ["nomatch"], []⟩, ⟨["c1"], [""], []⟩]
    let es : List Ev := [⟨"1", "ssh", "ssh"⟩, ⟨"2", "x", "ftp"⟩, ⟨"3", "", ""⟩]
    let rx : String → String → Bool := fun r v => r == v
    ((received (sendAll rx (wire ["c1", "c2"] fs) es) "c1").map (·.id),
     (received (sendAll rx (wire ["c1", "c2"] fs) es) "c2").map (·.id)) =
      (["1", "3"], ["1"]) := by decide

end HT.Srv

/- OBLIGATIONS
HT.Srv.C06_delivery_exact
HT.Srv.C06_no_other_channel
HT.Srv.C06_absent_lists_admit
HT.Srv.C06_independence
-/
