import HT.Props.C04
/-!
# C04 — redis: exactly one event per command array, whatever the segmentation

A command is an array of bulk strings `*k\r\n$len\r\n<s>\r\n…`; the event carries the first string.
-/
namespace HT.Proto
open HT.Seg

/-! ## decimal rendering -/

/-- digits of `n`, least significant first; `fuel` bounds the number of digits -/
def digitsRev : Nat → Nat → Bytes
  | 0, _ => []
  | fuel + 1, n => if n < 10 then [UInt8.ofNat (48 + n)] else UInt8.ofNat (48 + n % 10) :: digitsRev fuel (n / 10)

def natDigits (n : Nat) : Bytes := (digitsRev (n + 1) n).reverse

/-- value of digits given least significant first -/
def valRev : Bytes → Option Nat
  | [] => some 0
  | d :: ds =>
    if 48 ≤ d.toNat ∧ d.toNat ≤ 57 then (valRev ds).map (fun v => v * 10 + (d.toNat - 48)) else none

theorem digit_toNat (k : Nat) (h : k < 10) : (UInt8.ofNat (48 + k)).toNat = 48 + k := by
  simp [UInt8.toNat_ofNat']; omega

theorem valRev_digitsRev : ∀ (fuel n : Nat), n < fuel → valRev (digitsRev fuel n) = some n := by
  intro fuel
  induction fuel with
  | zero => intro n h; omega
  | succ f ih =>
    intro n h
    unfold digitsRev
    by_cases h10 : n < 10
    · simp only [h10, if_true, valRev, digit_toNat n h10]
      have : 48 ≤ 48 + n ∧ 48 + n ≤ 57 := by omega
      simp [this]
    · simp only [h10, if_false, valRev]
      have hd : n % 10 < 10 := Nat.mod_lt _ (by omega)
      rw [digit_toNat _ hd]
      have : 48 ≤ 48 + n % 10 ∧ 48 + n % 10 ≤ 57 := by omega
      simp only [this, and_self, if_true]
      rw [ih (n / 10) (by omega)]
      simp only [Option.map_some, Option.some.injEq]
      omega

/-- one step of `digitsVal`'s fold -/
def dstep (acc : Option Nat) (c : UInt8) : Option Nat :=
  match acc with
  | none => none
  | some n => if 48 ≤ c.toNat ∧ c.toNat ≤ 57 then some (n * 10 + (c.toNat - 48)) else none

theorem digitsVal_cons (d : UInt8) (ds : Bytes) : digitsVal (d :: ds) = (d :: ds).foldl dstep (some 0) := by
  unfold digitsVal
  congr 1

/-- the left fold over a reversed list is `valRev` of the list -/
theorem foldl_digits (ds : Bytes) : ∀ (acc : Option Nat),
    ds.reverse.foldl dstep acc
    = match acc, valRev ds with
      | some a, some v => some (a * 10 ^ ds.length + v)
      | _, _ => none := by
  induction ds with
  | nil => intro acc; cases acc <;> simp [valRev]
  | cons d ds ih =>
    intro acc
    simp only [List.reverse_cons, List.foldl_append, List.foldl_cons, List.foldl_nil]
    rw [ih acc]
    cases acc with
    | none => simp [dstep]
    | some a =>
      simp only [valRev]
      cases hv : valRev ds with
      | none => by_cases hd : 48 ≤ d.toNat ∧ d.toNat ≤ 57 <;> simp [hd, dstep]
      | some v =>
        by_cases hd : 48 ≤ d.toNat ∧ d.toNat ≤ 57
        · simp only [dstep, hd, and_self, if_true, Option.map_some, List.length_cons, Option.some.injEq]
          rw [Nat.pow_succ]
          have : a * (10 ^ ds.length * 10) = a * 10 ^ ds.length * 10 := by rw [Nat.mul_assoc]
          omega
        · simp [hd, dstep]

theorem digitsRev_ne_nil (fuel n : Nat) (h : 0 < fuel) : digitsRev fuel n ≠ [] := by
  cases fuel with
  | zero => omega
  | succ f => unfold digitsRev; split <;> simp

theorem digitsVal_natDigits (n : Nat) : digitsVal (natDigits n) = some n := by
  have hne : (digitsRev (n + 1) n).reverse ≠ [] := by
    simpa using digitsRev_ne_nil (n + 1) n (by omega)
  unfold natDigits
  cases hl : (digitsRev (n + 1) n).reverse with
  | nil => exact absurd hl hne
  | cons d ds =>
    rw [digitsVal_cons, ← hl, foldl_digits (digitsRev (n + 1) n) (some 0), valRev_digitsRev (n + 1) n (by omega)]
    simp

theorem parseUint_natDigits (n : Nat) (h : n < 2 ^ 64) : parseUint (natDigits n) = some n := by
  simp [parseUint, digitsVal_natDigits, h]

theorem natDigits_no_lf (n : Nat) : lf ∉ natDigits n := by
  intro hm
  have hall : ∀ (fuel k : Nat) (d : UInt8), d ∈ digitsRev fuel k → 48 ≤ d.toNat := by
    intro fuel
    induction fuel with
    | zero => intro k d h; simp [digitsRev] at h
    | succ f ih =>
      intro k d h
      unfold digitsRev at h
      split at h
      · rename_i hk
        simp only [List.mem_singleton] at h
        rw [h, digit_toNat k hk]; omega
      · simp only [List.mem_cons] at h
        rcases h with h | h
        · rw [h, digit_toNat _ (Nat.mod_lt _ (by omega))]; omega
        · exact ih _ d h
  have := hall (n + 1) n lf (by simpa [natDigits] using hm)
  simp [lf] at this

/-! ## commands -/

/-- a line that carries no LF reads back as itself (one CR before the LF is part of the terminator) -/
theorem scanLine_render (c rest : Bytes) (h : lf ∉ c) :
    scanLine (c ++ cr :: lf :: rest) = some (c, rest) := by
  have hc : lf ∉ c ++ [cr] := by
    intro hm
    rcases List.mem_append.mp hm with h1 | h1
    · exact h h1
    · simp [lf, cr] at h1
  have e : c ++ cr :: lf :: rest = (c ++ [cr]) ++ lf :: rest := by simp
  unfold scanLine
  rw [e]
  simp only [bindP, line_render (c ++ [cr]) rest hc, pureP]
  congr 2
  unfold stripEOL
  simp [List.getLast?_append, List.dropLast_append_of_ne_nil, cr, lf]

def bulkBytes (s : Bytes) : Bytes := [36] ++ natDigits s.length ++ [cr, lf] ++ s ++ [cr, lf]

/-- a command: the verb and its arguments, all sent as bulk strings -/
structure RCmd where
  verb : Bytes
  args : List Bytes

def RCmd.bytes (c : RCmd) : Bytes :=
  [42] ++ natDigits (c.args.length + 1) ++ [cr, lf] ++ bulkBytes c.verb ++ c.args.flatMap bulkBytes

/-- strings a bulk line can carry: anything without LF (the parser ignores the announced length and reads a line) -/
def okStr (s : Bytes) : Prop := lf ∉ s ∧ s.length < 2 ^ 64

def RCmd.ok (c : RCmd) : Prop := okStr c.verb ∧ (∀ a ∈ c.args, okStr a) ∧ c.args.length + 1 < 2 ^ 64

theorem rItem_bulk (levels : Nat) (s rest : Bytes) (h : okStr s) :
    rItem (levels + 1) (bulkBytes s ++ rest) = some (some (.bulk s), rest) := by
  have hd : lf ∉ ([36] ++ natDigits s.length : Bytes) := by
    intro hm
    rcases List.mem_append.mp hm with h1 | h1
    · simp [lf] at h1
    · exact natDigits_no_lf _ h1
  have e : bulkBytes s ++ rest = ([36] ++ natDigits s.length) ++ cr :: lf :: (s ++ cr :: lf :: rest) := by
    simp [bulkBytes]
  unfold rItem
  rw [e]
  simp only [bindP, scanLine_render _ _ hd]
  simp only [rAfter, List.singleton_append]
  have h36 : ((36 : UInt8) == 42) = false := by decide
  have h36b : ((36 : UInt8) == 43) = false := by decide
  have h36c : ((36 : UInt8) == 36) = true := by decide
  simp only [h36, h36b, h36c, Bool.false_eq_true, if_false, if_true, parseUint_natDigits _ h.2]
  simp only [bindP, scanLine_render s rest h.1, pureP]

theorem rItems_bulks (levels : Nat) (args : List Bytes) (h : ∀ a ∈ args, okStr a) (rest : Bytes) :
    rItemsWith (rItem (levels + 1)) args.length (args.flatMap bulkBytes ++ rest)
      = some (some (.arr (args.map .bulk)), rest) := by
  induction args with
  | nil => simp [rItemsWith, pureP]
  | cons a as ih =>
    have ha := h a List.mem_cons_self
    have e : (a :: as).flatMap bulkBytes ++ rest = bulkBytes a ++ (as.flatMap bulkBytes ++ rest) := by simp
    rw [e]
    simp only [List.length_cons, rItemsWith, bindP, rItem_bulk levels a _ ha]
    rw [ih (fun x hx => h x (List.mem_cons_of_mem _ hx))]
    simp [pureP]

theorem redis_cmd_step (c : RCmd) (h : c.ok) (rest : Bytes) :
    redis.next false (c.bytes ++ rest) = some (([{ kind := "redis", fields := [c.verb] }], false), rest) := by
  obtain ⟨hv, ha, hn⟩ := h
  have hd : lf ∉ ([42] ++ natDigits (c.args.length + 1) : Bytes) := by
    intro hm
    rcases List.mem_append.mp hm with h1 | h1
    · simp [lf] at h1
    · exact natDigits_no_lf _ h1
  have e : c.bytes ++ rest = ([42] ++ natDigits (c.args.length + 1)) ++ cr :: lf :: ((c.verb :: c.args).flatMap bulkBytes ++ rest) := by
    simp [RCmd.bytes]
  have hr : rItem redisLevels (c.bytes ++ rest) = some (some (.arr ((c.verb :: c.args).map .bulk)), rest) := by
    show rItem (32 + 1) (c.bytes ++ rest) = _
    unfold rItem
    rw [e]
    simp only [bindP, scanLine_render _ _ hd]
    simp only [rAfter, List.singleton_append]
    have h42 : ((42 : UInt8) == 42) = true := by decide
    simp only [h42, if_true, parseUint_natDigits _ hn]
    have := rItems_bulks 31 (c.verb :: c.args) (by
      intro a ham
      rcases List.mem_cons.mp ham with rfl | h2
      · exact hv
      · exact ha a h2) rest
    simpa using this
  show redisNext false (c.bytes ++ rest) = _
  simp only [redisNext, bindP, hr, pureP, redisStep, List.map_cons, Bool.not_true]

def redisEv (c : RCmd) : Ev := { kind := "redis", fields := [c.verb] }

theorem redis_run (cs : List RCmd) (h : ∀ c ∈ cs, c.ok) (rest : Bytes) :
    run redis false (cs.flatMap RCmd.bytes ++ rest) =
      (cs.map redisEv ++ (run redis false rest).1, (run redis false rest).2.1, (run redis false rest).2.2) := by
  induction cs with
  | nil => simp
  | cons c cs ih =>
    have e : (c :: cs).flatMap RCmd.bytes ++ rest = c.bytes ++ (cs.flatMap RCmd.bytes ++ rest) := by simp
    rw [e, run_step redis redis_progress false false _ _ _ (redis_cmd_step c (h c List.mem_cons_self) _),
      ih (fun x hx => h x (List.mem_cons_of_mem _ hx))]
    simp [redisEv]

/-- redis: any sequence of commands (each an array of bulk strings of any length and content without LF),
pipelined or not, in any segmentation: exactly one event per command, in order, carrying its verb. -/
theorem C04_redis_exactly_once (cs : List RCmd) (h : ∀ c ∈ cs, c.ok)
    (segs : List Bytes) (hs : segs.flatten = cs.flatMap RCmd.bytes) :
    eventsOf redis false segs = cs.map redisEv := by
  rw [C04_segmentation_independence redis redis_mono redis_progress false segs, hs, events_one_piece]
  have := redis_run cs h []
  simp only [List.append_nil] at this
  rw [this]
  have hn : redis.next false [] = none := next_nil_none redis redis_progress false
  rw [run_none redis false [] hn]
  have ht : redisTail 1 [] = [] := by
    simp [redisTail, rItemE, redisLevels, scanLineE, scanLine, bindP, line, lineAux]
  simp [redis, redisFinish, ht]

example : natDigits 0 = [48] ∧ natDigits 1024 = [49, 48, 50, 52] := by decide

end HT.Proto

/- OBLIGATIONS
HT.Proto.C04_redis_exactly_once
HT.Proto.digitsVal_natDigits
-/
