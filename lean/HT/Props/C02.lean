import HT.Lemmas.Canary
/-!
# C02 — no frame on the wire can terminate the raw (canary) listener

For every sequence of link-layer frames delivered to the raw listener the
listener keeps processing subsequent frames: a later well-formed probe still
yields its event.  Malformed frames are dropped; they never crash the process.

The receive loop has no `recover`, so a fault anywhere in `recvStep` ends the
process: "keeps processing" is `recvLoop … = .ok _`.
-/
namespace HT.Can
open HT.Pkt

/-- Every parser returns (a value or an error) on every byte string: none can panic. -/
theorem C02_parsers_total (b : Bytes) :
    NoFault (ipv4Parse b) ∧ NoFault (tcpParse b) ∧ NoFault (udpParse b) ∧ NoFault (icmpParse b) :=
  ⟨ipv4Parse_total b, tcpParse_total b, udpParse_total b, icmpParse_total b⟩

/-- One frame of at least a link-layer header, in any listener state (any table
contents incl. a full one), any configuration (with or without ARP/route entries):
the step returns. -/
theorem C02_recvStep_no_fault (cfg : Cfg) (st : St) (now : Nat) (frame : Bytes) (d : Drawn)
    (h : 14 ≤ frame.length) : ∃ r, recvStep cfg st now frame d = .ok r :=
  recvStep_total cfg st now frame d h

/-- Every frame history of any length: the loop is still running afterwards. -/
theorem C02_recvLoop_alive (cfg : Cfg) (st : St) (fs : List (Bytes × Nat × Drawn))
    (h : ∀ x ∈ fs, 14 ≤ x.1.length) : ∃ st', recvLoop cfg st fs = .ok st' :=
  recvLoop_total cfg fs st h

/-- Whether a UDP datagram is accepted (handed to the UDP handler, which reports it)
does not depend on the listener's state: a probe the listener accepts is accepted
after *every* frame history.  `udpAccepted` is the state-free acceptance test
(well-formed Ethernet/IPv4/UDP headers, addressed to one of the listener's IPs). -/
theorem C02_probe_after (cfg : Cfg) (st : St) (fs : List (Bytes × Nat × Drawn))
    (h : ∀ x ∈ fs, 14 ≤ x.1.length) (probe : Bytes) (now : Nat) (d : Drawn)
    (hp : udpAccepted cfg probe = true) :
    ∃ st', recvLoop cfg st fs = .ok st' ∧ recvStep cfg st' now probe d = .ok (st', .udp true) := by
  obtain ⟨st', h'⟩ := recvLoop_total cfg fs st h
  exact ⟨st', h', udp_accepted_any_state cfg st' now probe d hp⟩

/-- non-vacuity: a concrete well-formed probe to 127.0.0.1:9999 meets `udpAccepted` -/
example : udpAccepted { myIPs := [[127, 0, 0, 1]], arp := [] }
    ([0,0,0,0,0,0,0,0,0,0,0,0,8,0] ++ [69,0,0,31,0,0,0,0,64,17,0,0,10,0,0,1,127,0,0,1] ++
     [19,136,39,15,0,11,0,0] ++ [1,2,3]) = true := by decide

/-- The state table never grows beyond its capacity (a flood is absorbed by slot
reuse or by dropping the attempt, never by a fault). -/
theorem C02_table_bounded (cfg : Cfg) (st : St) (now : Nat) (s : TCB)
    (h : st.slots.length ≤ cfg.cap) : (add cfg st now s).1.slots.length ≤ cfg.cap :=
  add_bounded cfg st now s h

/-! Records of the defects repaired by `fix:` commits (known-findings.txt): the
parsers as they were (`…Raw`) panic on these frames. -/

theorem C02_counterexample_ipv4_totallen_lt_20 :
    isPanic (ipv4ParseRaw ([69, 0, 0, 10] ++ List.replicate 16 0)) = true := by decide

theorem C02_counterexample_tcp_segment_lt_20 :
    isPanic (tcpParseRaw (List.replicate 10 0)) = true := by decide

theorem C02_counterexample_tcp_option_kind_without_length :
    isPanic (tcpParseRaw (List.replicate 12 0 ++ [96, 2] ++ List.replicate 6 0 ++ [1, 1, 1, 2])) = true := by
  decide

end HT.Can

/- OBLIGATIONS
HT.Can.C02_parsers_total
HT.Can.C02_recvStep_no_fault
HT.Can.C02_recvLoop_alive
HT.Can.C02_probe_after
HT.Can.C02_table_bounded
HT.Can.C02_counterexample_ipv4_totallen_lt_20
HT.Can.C02_counterexample_tcp_segment_lt_20
HT.Can.C02_counterexample_tcp_option_kind_without_length
-/
