import HT.Model.Identity
/-!
# C18 — sensor identity survives restarts and interrupted first starts

Across any number of restarts on the same data directory, the sensor token attached to events,
the SSH host key, the TLS certificates presented by the ftp, smtp and ldap services and the agent
server key stay the same as first generated.  A start after the process was killed at any moment
of an earlier start-up comes up with a well-formed, non-empty identity and keeps it from then on.

The key-value store's `Set` is atomic and durable (badger's and the kernel's crash consistency
are assumed); generated ids are well-formed (xid, assumed).
-/
namespace HT.Id

/-- Whatever the token file holds — absent, empty, any prefix of a token, any garbage a kill or
anything else left there — a start comes up with a well-formed token. -/
theorem C18_start_wellformed (d : Disk) (g : List Char) (hg : wfToken g = true) :
    wfToken (start d g).2 = true := by
  unfold start
  cases d with
  | none => exact hg
  | some c => by_cases h : wfToken c = true <;> simp [h, hg]

/-- … and keeps it: every later start uses the same token, whatever id it generates itself. -/
theorem C18_restart_stable (d : Disk) (g g' : List Char) (hg : wfToken g = true) :
    (start (start d g).1 g').2 = (start d g).2 ∧ (start (start d g).1 g').1 = (start d g).1 := by
  unfold start
  cases d with
  | none => simp [hg]
  | some c => by_cases h : wfToken c = true <;> simp [h, hg]

/-- Restart histories of any length: all starts report the token of the first one. -/
theorem C18_history_stable (gs : List (List Char)) : ∀ (d : Disk) (g : List Char),
    wfToken g = true → (∀ x ∈ gs, wfToken x = true) →
    ∀ t ∈ (starts (start d g).1 gs).2, t = (start d g).2 := by
  induction gs with
  | nil => intro d g _ _ t ht; simp [starts] at ht
  | cons x xs ih =>
    intro d g hg hall t ht
    have hs := C18_restart_stable d g x hg
    simp only [starts] at ht
    rcases List.mem_cons.mp ht with h | h
    · rw [h]; exact hs.1
    · rw [hs.2] at h
      exact ih d g hg (fun y hy => hall y (by simp [hy])) t h

/-- A kill at any moment of a start leaves the file as it was or complete (temporary file +
rename); but the two theorems above do not even need that: they hold for *every* content. This
corollary spells out the crash clause for a first start. -/
theorem C18_crash_then_start (g1 g2 g3 : List Char) (h2 : wfToken g2 = true) (d' : Disk)
    (_hd : d' = none ∨ d' = some g1 ∨ ∃ k, d' = some (g1.take k)) :
    wfToken (start d' g2).2 = true ∧ (start (start d' g2).1 g3).2 = (start d' g2).2 :=
  ⟨C18_start_wellformed d' g2 h2, (C18_restart_stable d' g2 g3 h2).1⟩

/-- Record of the defect repaired by a `fix:` commit: the start as it was adopted an empty (or
cut-short) token file as the identity. -/
theorem C18_counterexample_empty_token (g : List Char) :
    (startOld (some []) g).2 = [] ∧ wfToken (startOld (some []) g).2 = false := by
  simp [startOld, wfToken]

/-- A stored secret (ssh host key, agent key pair) never changes once stored. -/
theorem C18_secret_stable (stored : Option Nat) (g g' : Nat) :
    (loadOrGen (loadOrGen stored g).1 g').2 = (loadOrGen stored g).2 := by
  cases stored <;> rfl

/-- Key and certificate: after a kill at any point of the first start (nothing stored, key only,
both), the next start completes the pair — with the stored key, and a certificate for that
key — and from then on every start presents the same key and certificate. -/
theorem C18_cert_crash_safe (s0 : KC) (hs0 : s0 = { key := none, cert := none }) (gk gs gk' gs' gk'' gs'' : Nat)
    (s : KC) (hs : s ∈ certCrashStates s0 gk gs) :
    let r := certStart s gk' gs'
    r.2.2.1 = r.2.1 ∧                                   -- the certificate is for the key in use
    (s.key.isSome → r.2.1 = gk) ∧                       -- a stored key is kept
    (certStart r.1 gk'' gs'').2 = r.2 := by             -- stable from then on
  subst hs0
  simp only [certCrashStates, certStart, List.mem_cons, List.mem_nil_iff, or_false] at hs
  rcases hs with rfl | rfl | rfl <;> simp [certStart]

/-- non-vacuity: a well-formed token exists and the decisions distinguish the cases -/
example : wfToken "9m4e2mr0ui3e8a215n4g".toList = true ∧ wfToken "9m4e2mr0ui3e8a215n4".toList = false ∧
    wfToken [] = false ∧ wfToken "9m4e2mr0ui3e8a215n4w".toList = false := by decide

end HT.Id

/- OBLIGATIONS
HT.Id.C18_start_wellformed
HT.Id.C18_restart_stable
HT.Id.C18_history_stable
HT.Id.C18_crash_then_start
HT.Id.C18_counterexample_empty_token
HT.Id.C18_secret_stable
HT.Id.C18_cert_crash_safe
-/
