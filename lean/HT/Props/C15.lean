import HT.Model.Relay
import HT.Lemmas.Seg
import HT.Lemmas.Proto
import HT.Props.C04
/-!
# C15 — proxy services relay requests and replies unchanged to the configured backend

Statement (properties.jsonl): every client request reaches the configured backend with the same
content and every backend reply reaches the client unchanged and in order, whatever the
segmentation; each relayed request is recorded; the proxy opens connections to no address other
than the configured backend.

Proved here: the stream relay writes exactly the concatenation of what it read, for every
segmentation; the forward director's target is a function of the configuration and the
connection's own port only (host never anything but the configured one) — and the stateful variant
is not; the http proxy's request framing is a monotone machine, so which requests are relayed, and
in which order, does not depend on segmentation or pipelining.  That the re-serialised request and
the reply carry the same content is decided by the backend fixtures of the check.
-/
namespace HT.Relay
open HT.Seg HT.Proto

/-! ## stream relay -/

theorem copy_from (segs : List Bytes) : ∀ acc, segs.foldl copyStep acc = acc ++ segs.flatten := by
  induction segs with
  | nil => intro acc; simp
  | cons s ss ih => intro acc; simp [List.foldl_cons, copyStep, ih]

/-- the backend receives exactly the bytes the client sent, in order, nothing lost or repeated -/
theorem C15_copy_exact (segs : List Bytes) : copyRelay segs = segs.flatten := by
  simpa [copyRelay] using copy_from segs []

theorem C15_copy_any_segmentation (a b : List Bytes) (h : a.flatten = b.flatten) : copyRelay a = copyRelay b := by
  rw [C15_copy_exact, C15_copy_exact, h]

/-! ## forward director -/

/-- the host dialled is the configured one — the part before the port when the configuration carries a port —
for every connection; the port is the configured one, or else the connection's own -/
theorem C15_dial_target (cfg : List Char) (port : Nat) :
    dialTarget cfg port =
      match Srv.splitHostPort cfg with
      | some (h, p) => (h, p)
      | none => (cfg, (toString port).toList) := rfl

/-- with a port in the configuration every connection is sent to the same address -/
theorem C15_dial_fixed (cfg h p : List Char) (hc : Srv.splitHostPort cfg = some (h, p)) (port port' : Nat) :
    dialTarget cfg port = dialTarget cfg port' := by
  simp [dialTarget, hc]

/-- the shape of a director that remembers its first target: the second connection, on another port,
is sent to the first one's port -/
theorem C15_counterexample_cached_target :
    let cfg := "127.0.0.2".toList
    let r1 := dialCached cfg none 8081
    let r2 := dialCached cfg r1.2 8082
    r2.1 ≠ dialTarget cfg 8082 := by decide

/-! ## http proxy: which requests are relayed -/

theorem headLines_mono : ∀ fuel, Mono (headLines fuel) := by
  intro fuel
  induction fuel with
  | zero => exact fail_mono
  | succ f ih =>
    unfold headLines
    apply bind_mono _ _ line_mono
    intro l
    simp only
    split
    · exact pure_mono _
    · exact bind_mono _ _ ih (fun _ => pure_mono _)

theorem headLines_nogrow : ∀ fuel, NoGrow (headLines fuel) := by
  intro fuel
  induction fuel with
  | zero => intro b x r h; simp [headLines] at h
  | succ f ih =>
    unfold headLines
    apply bind_nogrow _ _ line_nogrow
    intro l
    simp only
    split
    · exact pure_nogrow _
    · exact bind_nogrow _ _ ih (fun _ => pure_nogrow _)

theorem headLines_progress : ∀ fuel, Progress (headLines fuel) := by
  intro fuel
  cases fuel with
  | zero => intro b x r h; simp [headLines] at h
  | succ f =>
    unfold headLines
    apply bind_progress _ _ line_progress
    intro l
    simp only
    split
    · exact pure_nogrow _
    · exact bind_nogrow _ _ (headLines_nogrow f) (fun _ => pure_nogrow _)

theorem headLines_fuel_succ : ∀ fuel, Ext (headLines fuel) (headLines (fuel + 1)) := by
  intro fuel
  induction fuel with
  | zero => intro b x h; simp [headLines] at h
  | succ f ih =>
    show Ext (headLines (f + 1)) (headLines (f + 1 + 1))
    unfold headLines
    apply ext_bind _ _ _ _ (ext_refl _)
    intro l
    simp only
    split
    · exact ext_refl _
    · exact ext_bind _ _ _ _ ih (fun _ => ext_refl _)

theorem headLines_fuel_le (f : Nat) : ∀ k, Ext (headLines f) (headLines (f + k)) := by
  intro k
  induction k with
  | zero => exact ext_refl _
  | succ k ih => intro b x h; exact headLines_fuel_succ (f + k) b x (ih b x h)

/-- what follows the head -/
def afterHead (ls : List Bytes) : P (Option HReq) :=
  match ls with
  | [] => pureP none
  | rl :: hs =>
    match splitOn sp rl with
    | [m, t, _] =>
      match headerValue nContentLength hs with
      | none => pureP (some { method := m, target := t, body := [] })
      | some v =>
        match digitsVal v with
        | none => pureP none
        | some n => if n = 0 then pureP (some { method := m, target := t, body := [] })
                    else bindP (takeN n) (fun body => pureP (some { method := m, target := t, body := body }))
    | _ => pureP none

theorem httpUnit_eq (b : Bytes) : httpUnit b = bindP (headLines (b.length + 1)) afterHead b := rfl

theorem afterHead_mono (ls : List Bytes) : Mono (afterHead ls) := by
  unfold afterHead
  split
  · exact pure_mono _
  · split
    · split
      · exact pure_mono _
      · split
        · exact pure_mono _
        · split
          · exact pure_mono _
          · exact bind_mono _ _ (takeN_mono _) (fun _ => pure_mono _)
    · exact pure_mono _

theorem afterHead_nogrow (ls : List Bytes) : NoGrow (afterHead ls) := by
  unfold afterHead
  split
  · exact pure_nogrow _
  · split
    · split
      · exact pure_nogrow _
      · split
        · exact pure_nogrow _
        · split
          · exact pure_nogrow _
          · exact bind_nogrow _ _ (takeN_nogrow _) (fun _ => pure_nogrow _)
    · exact pure_nogrow _

theorem httpUnit_mono : Mono httpUnit := by
  intro b x r more h
  rw [httpUnit_eq] at h ⊢
  have hm := bind_mono _ _ (headLines_mono (b.length + 1)) afterHead_mono b x r more h
  have he := ext_bind (headLines (b.length + 1)) (headLines (b.length + 1 + more.length)) afterHead afterHead
    (headLines_fuel_le _ _) (fun _ => ext_refl _) (b ++ more) (x, r ++ more) hm
  have hl : (b ++ more).length + 1 = b.length + 1 + more.length := by simp only [List.length_append]; omega
  rw [hl]
  exact he

theorem httpUnit_progress : Progress httpUnit := by
  intro b x r h
  rw [httpUnit_eq] at h
  exact bind_progress _ _ (headLines_progress _) afterHead_nogrow b x r h

theorem http_mono (s : HSt) : Mono (httpProxy.next s) := by
  cases s
  · apply bind_mono _ _ httpUnit_mono
    intro r
    cases r <;> exact pure_mono _
  · exact fail_mono

theorem http_progress (s : HSt) : Progress (httpProxy.next s) := by
  cases s
  · apply bind_progress _ _ httpUnit_progress
    intro r
    cases r <;> exact pure_nogrow _
  · exact fail_progress

/-- which requests the proxy relays, and in which order, is the same for every segmentation of the
client's byte stream — pipelined in one write or a byte at a time -/
theorem C15_http_requests_any_segmentation (segs segs' : List Bytes) (h : segs.flatten = segs'.flatten) :
    eventsOf httpProxy .open segs = eventsOf httpProxy .open segs' :=
  C04_any_two_segmentations httpProxy http_mono http_progress .open segs segs' h

/-! non-vacuity: two pipelined requests, the first with a body, cut inside the body -/
example : eventsOf httpProxy .open
    [[80, 79, 83, 84, 32, 47, 97, 32, 72, 13, 10, 67, 111, 110, 116, 101, 110, 116, 45, 76, 101, 110, 103, 116, 104, 58, 32, 50, 13, 10, 13, 10, 120],
     [121, 71, 69, 84, 32, 47, 98, 32, 72, 13, 10, 13, 10]]
    = [{ method := [80, 79, 83, 84], target := [47, 97], body := [120, 121] }, { method := [71, 69, 84], target := [47, 98], body := [] }] := by
  decide

end HT.Relay

/- OBLIGATIONS
HT.Relay.C15_copy_exact
HT.Relay.C15_copy_any_segmentation
HT.Relay.C15_dial_target
HT.Relay.C15_dial_fixed
HT.Relay.C15_counterexample_cached_target
HT.Relay.C15_http_requests_any_segmentation
-/
