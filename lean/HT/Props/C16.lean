import HT.Lemmas.Agent
/-!
# C16 — the agent tunnel relays each remote connection's bytes in order, to it alone

For every sequence of agent protocol messages on an agent session, each announced remote
connection is surfaced to the services with the announced local and remote addresses; the bytes
of its data messages reach the service in order, exactly once and only on that connection; […]
an end-of-stream message or the agent disconnecting ends exactly the affected connections.
Every protocol message decodes to what was encoded.

The session model is sequential: the hand-off between the session goroutine and a service's
reader (signal without blocking, buffer first on wake-up) is the part a schedule could break;
it is covered by the correspondence run and by the `fix:` for the buffered-bytes-at-EOF case
(partial, see DESIGN.md).
-/
namespace HT.Agent

def Msg.wf : Msg → Prop
  | .hello l r => l.wf ∧ r.wf
  | .data l r p => l.wf ∧ r.wf ∧ p.length < 65536
  | .dgram l r p => l.wf ∧ r.wf ∧ p.length < 65536
  | .eof l r => l.wf ∧ r.wf
  | .ping => True

/-- Every protocol message decodes to what was encoded: all message types, IPv4 and IPv6 (any
address length), every port, every payload length that fits the 16-bit length field. -/
theorem C16_codec_roundtrip (m : Msg) (h : m.wf) : decBody (typeByte m).toNat (encBody m) = some m := by
  cases m with
  | ping => rfl
  | hello l r =>
    simp only [Msg.wf] at h
    have := decAddr_encAddr r [] h.2
    simp only [List.append_nil] at this
    simp [decBody, typeByte, encBody, decAddr_encAddr l _ h.1, this]
  | eof l r =>
    simp only [Msg.wf] at h
    have := decAddr_encAddr r [] h.2
    simp only [List.append_nil] at this
    simp [decBody, typeByte, encBody, decAddr_encAddr l _ h.1, this]
  | data l r p =>
    simp only [Msg.wf] at h
    have hd := decData_encData p [] h.2.2
    simp only [List.append_nil] at hd
    simp [decBody, typeByte, encBody, List.append_assoc, decAddr_encAddr l _ h.1, decAddr_encAddr r _ h.2.1, hd]
  | dgram l r p =>
    simp only [Msg.wf] at h
    have hd := decData_encData p [] h.2.2
    simp only [List.append_nil] at hd
    simp [decBody, typeByte, encBody, List.append_assoc, decAddr_encAddr l _ h.1, decAddr_encAddr r _ h.2.1, hd]

/-- … and a frame is parsed off the stream exactly, leaving the following frames untouched. -/
theorem C16_frame_roundtrip (m : Msg) (rest : Bytes) (h : m.wf) (hl : (encBody m).length < 65536) :
    decFrame (frame m ++ rest) = some (m, rest) := by
  simp only [frame, List.cons_append, decFrame, List.append_assoc]
  rw [dec16_enc16 _ hl]
  simp [C16_codec_roundtrip m h]

/-! ### the handshake messages -/

def Hs.wf (h : Hs) : Prop :=
  h.ver < 65536 ∧ h.version.length < 65536 ∧ h.short.length < 65536 ∧ h.commit.length < 65536 ∧ h.token.length < 65536

/-- `Handshake` (protocol version, version, short and long commit id, token): decodes to what was encoded for
strings of every length the 16-bit length field can carry. -/
theorem C16_handshake_roundtrip (h : Hs) (hw : h.wf) : decHs (encHs h) = some h := by
  obtain ⟨h0, h1, h2, h3, h4⟩ := hw
  have ht := decData_encData h.token [] h4
  simp only [List.append_nil] at ht
  unfold decHs encHs
  simp only [dec16_enc16 _ h0, decData_encData _ _ h1, decData_encData _ _ h2, decData_encData _ _ h3, ht]

theorem decAddrs_encAddrs : ∀ (as : List AAddr), (∀ a ∈ as, a.wf) → decAddrs as.length (encAddrs as) = some as := by
  intro as
  induction as with
  | nil => intro _; rfl
  | cons a as ih =>
    intro h
    simp only [List.length_cons, encAddrs, decAddrs]
    rw [decAddr_encAddr a _ (h a (by simp))]
    simp only [ih (fun x hx => h x (by simp [hx])), Option.map_some]

/-- `HandshakeResponse` (the addresses the agent is to listen on): any list the count byte can carry. -/
theorem C16_handshake_response_roundtrip (as : List AAddr) (hn : as.length < 256) (hw : ∀ a ∈ as, a.wf) :
    decResp (encResp as) = some as := by
  unfold decResp encResp
  simp only [u8, Nat.mod_eq_of_lt hn]
  exact decAddrs_encAddrs as hw

theorem sameAddr_iff (a b : AAddr) : sameAddr a b = true ↔ a.ip = b.ip ∧ a.port = b.port := by
  simp [sameAddr]

/-- a message that is not about the pair (l, r) leaves the connections of that pair untouched -/
theorem step_other (s : List VConn) (l r : AAddr) (m : Msg) (h : about l r m = false) :
    (step s m).filter (pairOf l r) = s.filter (pairOf l r) := by
  cases m with
  | ping => rfl
  | hello l' r' =>
    simp only [about] at h
    have : pairOf l r { l := l', r := r', buf := [], closed := false } = false := by simpa [pairOf] using h
    simp [step, List.filter_append, List.filter_cons, this]
  | dgram l' r' p =>
    simp only [about] at h
    have : pairOf l r { l := l', r := r', buf := p, closed := true } = false := by simpa [pairOf] using h
    simp [step, List.filter_append, List.filter_cons, this]
  | data l' r' p =>
    apply updFirst_filter_other
    · intro c hc
      simp only [about, Bool.and_eq_false_iff] at h
      simp only [hits, Bool.and_eq_true, Bool.not_eq_true', sameAddr_iff] at hc
      simp only [pairOf, Bool.and_eq_false_iff]
      rcases h with h | h
      · left; rw [Bool.eq_false_iff]; intro e; rw [sameAddr_iff] at e
        apply (Bool.eq_false_iff.mp h); rw [sameAddr_iff]
        exact ⟨hc.1.2.1 ▸ e.1, hc.1.2.2 ▸ e.2⟩
      · right; rw [Bool.eq_false_iff]; intro e; rw [sameAddr_iff] at e
        apply (Bool.eq_false_iff.mp h); rw [sameAddr_iff]
        exact ⟨hc.2.1 ▸ e.1, hc.2.2 ▸ e.2⟩
    · intro c; rfl
  | eof l' r' =>
    apply updFirst_filter_other
    · intro c hc
      simp only [about, Bool.and_eq_false_iff] at h
      simp only [hits, Bool.and_eq_true, Bool.not_eq_true', sameAddr_iff] at hc
      simp only [pairOf, Bool.and_eq_false_iff]
      rcases h with h | h
      · left; rw [Bool.eq_false_iff]; intro e; rw [sameAddr_iff] at e
        apply (Bool.eq_false_iff.mp h); rw [sameAddr_iff]
        exact ⟨hc.1.2.1 ▸ e.1, hc.1.2.2 ▸ e.2⟩
      · right; rw [Bool.eq_false_iff]; intro e; rw [sameAddr_iff] at e
        apply (Bool.eq_false_iff.mp h); rw [sameAddr_iff]
        exact ⟨hc.2.1 ▸ e.1, hc.2.2 ▸ e.2⟩
    · intro c; rfl

/-- a message about the pair acts on the pair's connections alone, as if no others existed -/
theorem step_same (s : List VConn) (l r : AAddr) (m : Msg) (h : about l r m = true) :
    (step s m).filter (pairOf l r) = step (s.filter (pairOf l r)) m := by
  cases m with
  | ping => simp [about] at h
  | hello l' r' =>
    simp only [about] at h
    have : pairOf l r { l := l', r := r', buf := [], closed := false } = true := by simpa [pairOf] using h
    simp [step, List.filter_append, List.filter_cons, this]
  | dgram l' r' p =>
    simp only [about] at h
    have : pairOf l r { l := l', r := r', buf := p, closed := true } = true := by simpa [pairOf] using h
    simp [step, List.filter_append, List.filter_cons, this]
  | data l' r' p =>
    apply updFirst_filter_same
    · intro c hc
      simp only [about, Bool.and_eq_true, sameAddr_iff] at h
      simp only [hits, Bool.and_eq_true, Bool.not_eq_true', sameAddr_iff] at hc
      simp only [pairOf, Bool.and_eq_true, sameAddr_iff]
      exact ⟨⟨hc.1.2.1.trans h.1.1, hc.1.2.2.trans h.1.2⟩, ⟨hc.2.1.trans h.2.1, hc.2.2.trans h.2.2⟩⟩
    · intro c; rfl
  | eof l' r' =>
    apply updFirst_filter_same
    · intro c hc
      simp only [about, Bool.and_eq_true, sameAddr_iff] at h
      simp only [hits, Bool.and_eq_true, Bool.not_eq_true', sameAddr_iff] at hc
      simp only [pairOf, Bool.and_eq_true, sameAddr_iff]
      exact ⟨⟨hc.1.2.1.trans h.1.1, hc.1.2.2.trans h.1.2⟩, ⟨hc.2.1.trans h.2.1, hc.2.2.trans h.2.2⟩⟩
    · intro c; rfl

/-- Demultiplexing is exact: after any message sequence — any interleaving of any number of
connections' messages — what the connections of an address pair have received (and whether they
have ended) is what the messages carrying that pair's addresses alone produce, in their order. -/
theorem C16_demux_exact (l r : AAddr) (ms : List Msg) : ∀ (s : List VConn),
    (run s ms).filter (pairOf l r) = run (s.filter (pairOf l r)) (ms.filter (about l r)) := by
  induction ms with
  | nil => intro s; rfl
  | cons m ms ih =>
    intro s
    simp only [run, List.foldl_cons] at ih ⊢
    rw [ih]
    by_cases h : about l r m = true
    · rw [step_same s l r m h]; simp [List.filter_cons, h]
    · have h' : about l r m = false := by simpa using h
      rw [step_other s l r m h']; simp [List.filter_cons, h']

/-- An end-of-stream message ends the connection it names and touches no connection with other
addresses; the agent disconnecting ends every connection. -/
theorem C16_eof_ends_exactly (s : List VConn) (l r l' r' : AAddr) (h : about l' r' (.eof l r) = false) :
    (step s (.eof l r)).filter (pairOf l' r') = s.filter (pairOf l' r') :=
  step_other s l' r' (.eof l r) h

theorem C16_disconnect_ends_all (s : List VConn) : ∀ c ∈ disconnect s, c.closed = true := by
  intro c hc
  simp only [disconnect, List.mem_map] at hc
  obtain ⟨x, _, rfl⟩ := hc
  rfl

/-- non-vacuity: two interleaved connections and stray data -/
example :
    let a : AAddr := ⟨false, [10, 0, 0, 1], 22⟩
    let b : AAddr := ⟨false, [1, 2, 3, 4], 40000⟩
    let c : AAddr := ⟨false, [1, 2, 3, 4], 40001⟩
    (run [] [.hello a b, .data a c [9], .hello a c, .data a b [1, 2], .data a c [7], .eof a b, .data a b [3]]).map
      (fun v => (v.buf, v.closed)) = [([1, 2], true), ([7], false)] := by decide

example : (Msg.data ⟨false, [10, 0, 0, 1], 22⟩ ⟨true, List.replicate 16 1, 65535⟩ [1, 2, 3]).wf := by
  simp [Msg.wf, AAddr.wf]

end HT.Agent

/- OBLIGATIONS
HT.Agent.C16_codec_roundtrip
HT.Agent.C16_frame_roundtrip
HT.Agent.C16_handshake_roundtrip
HT.Agent.C16_handshake_response_roundtrip
HT.Agent.C16_demux_exact
HT.Agent.C16_eof_ends_exactly
HT.Agent.C16_disconnect_ends_all
-/
