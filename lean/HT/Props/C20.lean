import HT.Lemmas.Knock
/-!
# C20 — a port scan is reported once, listing exactly the ports probed

For any burst of connection attempts from one source to one of the sensor's
addresses, the raw listener emits a port-scan event for that source and
destination whose port list is exactly the set of distinct protocol/port pairs
probed, each listed once.  Simultaneous bursts from different sources are
reported separately, each exactly once per burst.
-/
namespace HT.Knock

/-! ## the grouping container -/

/-- `Each` visits exactly the items present when it started, once each and in order —
whatever the callback does to the set meanwhile (remove the visited item, remove
others, add). -/
theorem C20_each_visits_all_once {α : Type} [DecidableEq α] (s : USet α)
    (f : USet α → Nat → α → USet α) :
    (s.each (fun c i x => (f c i x, [x]))).2 = s.items :=
  each_go_visits (β := α) f s.items s 0

/-- Adding keeps the set free of `uniqueFunc`-equal pairs … -/
theorem C20_add_keeps_unique {α : Type} [DecidableEq α] (eq : α → α → Bool) (s : USet α) (x : α)
    (h : s.items.Pairwise (fun a b => eq b a = false)) :
    (s.add eq x).1.items.Pairwise (fun a b => eq b a = false) := by
  unfold USet.add
  cases hf : s.items.find? (fun y => eq x y) with
  | some y => simpa using h
  | none =>
    simp only [List.find?_eq_none] at hf
    simp only [List.pairwise_append]
    refine ⟨h, by simp, ?_⟩
    intro a ha b hb
    simp at hb; subst hb
    simpa using hf a ha

/-- … and is idempotent (for a reflexive `uniqueFunc`): the second `Add` returns the item
the first one returned and changes nothing. -/
theorem C20_add_idem {α : Type} [DecidableEq α] (eq : α → α → Bool) (hrefl : ∀ a, eq a a = true)
    (s : USet α) (x : α) :
    ((s.add eq x).1.add eq x).1.items = (s.add eq x).1.items := by
  unfold USet.add
  cases hf : s.items.find? (fun y => eq x y) with
  | some y => simp [hf]
  | none =>
    have : (s.items ++ [x]).find? (fun y => eq x y) = some x := by
      rw [List.find?_append, hf]; simp [hrefl]
    simp [this]

/-- After `Remove(x)` the item is gone (items of a set are pairwise distinct). -/
theorem C20_remove_then_absent {α : Type} [DecidableEq α] (s : USet α) (x : α) (h : s.items.Nodup) :
    x ∉ (s.remove x).items := by
  unfold USet.remove
  exact fun hm => (List.Nodup.mem_erase_iff h).mp hm |>.1 rfl

/-- Record of the defect repaired by a `fix:` commit: with `Each` walking the shared backing
array, report-and-remove over three due groups visited A, C, C. -/
theorem C20_counterexample_third_group_reported_twice :
    (USetOld.tickAll ({ arr := #[some 'A', some 'B', some 'C', none], len := 3 } : USetOld Char)).2
      = ['A', 'C', 'C'] := by decide

/-! ## the detector, over every knock history -/

/-- One group per source/destination pair that knocked, no more, no fewer. -/
theorem C20_one_group_per_source (ks : List (Key × Probe × Nat)) :
    (keys (run ks)).Nodup ∧ ∀ k, k ∈ keys (run ks) ↔ ∃ x ∈ ks, x.1 = k := by
  have h := keys_runFrom ks []
  simp only [keys, List.map_nil] at h
  have hr : run ks = runFrom [] ks := rfl
  rw [hr]
  constructor
  · show (keys (runFrom [] ks)).Nodup
    unfold keys; rw [h]; exact foldl_addU_nodup _ _ List.nodup_nil
  · intro k
    show k ∈ keys (runFrom [] ks) ↔ _
    unfold keys; rw [h, mem_foldl_addU]
    simp

/-- The port list of a group is exactly the set of distinct protocol/port pairs its source
probed: no duplicates, nothing missing, nothing extra. -/
theorem C20_ports_exact (ks : List (Key × Probe × Nat)) (g : Group) (hg : g ∈ run ks) :
    g.probes.Nodup ∧ ∀ p, p ∈ g.probes ↔ ∃ x ∈ ks, x.1 = g.key ∧ x.2.1 = p := by
  have hk := (C20_one_group_per_source ks).1
  have hp := probesOf_of_mem (run ks) g hg hk
  have hr := probesOf_runFrom ks g.key []
  have hr' : probesOf (run ks) g.key =
      ((ks.filter (fun x => x.1 = g.key)).map (·.2.1)).foldl addU [] := by
    have : probesOf [] g.key = [] := rfl
    rw [this] at hr; exact hr
  rw [← hp, hr']
  constructor
  · exact foldl_addU_nodup _ _ List.nodup_nil
  · intro p
    rw [mem_foldl_addU]
    simp only [List.not_mem_nil, false_or, List.mem_map, List.mem_filter, decide_eq_true_eq]
    constructor
    · rintro ⟨x, ⟨hx, hk⟩, rfl⟩; exact ⟨x, hx, hk, rfl⟩
    · rintro ⟨x, hx, hk, rfl⟩; exact ⟨x, ⟨hx, hk⟩, rfl⟩

/-- At the tick that follows a burst (every group idle for 5 s) every group is reported
exactly once, with its port list, and the detector is empty afterwards — so no later
tick reports any of them again. -/
theorem C20_reported_once (gs : List Group) (now later : Nat) (h : ∀ g ∈ gs, due g now = true) :
    (tick gs now).2 = gs.map (fun g => { key := g.key, ports := g.probes, duration := g.last - g.start }) ∧
    (tick gs now).1 = [] ∧ (tick (tick gs now).1 later).2 = [] := by
  have h1 : gs.filter (fun g => due g now) = gs := List.filter_eq_self.mpr (by simpa using h)
  have h2 : gs.filter (fun g => ¬ due g now) = [] := by
    rw [List.filter_eq_nil_iff]; intro g hg; simp [h g hg]
  simp only [tick, h1, h2, List.filter_nil, List.map_nil, and_self, and_true]

/-- A tick never reports a group it keeps: due groups leave, the others stay untouched. -/
theorem C20_tick_partition (gs : List Group) (now : Nat) :
    (∀ g ∈ (tick gs now).1, g ∈ gs ∧ due g now = false) ∧
    ((tick gs now).2.map (·.key)) = (gs.filter (fun g => due g now)).map (·.key) := by
  constructor
  · intro g hg
    simp only [tick, List.mem_filter] at hg
    exact ⟨hg.1, by simpa using hg.2⟩
  · simp [tick, List.map_map, Function.comp_def]

/-- non-vacuity: two interleaved sources, mixed protocols and repeated ports -/
example :
    let a : Key := { srcMac := [], dstMac := [], srcIP := [10,0,0,1], dstIP := [127,0,0,1] }
    let b : Key := { a with srcIP := [10,0,0,2] }
    let gs := run [(a, .tcp 80, 0), (b, .udp 53, 1), (a, .udp 80, 2), (a, .tcp 80, 3), (b, .icmp, 4), (b, .udp 53, 5)]
    (tick gs 5005).2.map (fun r => (r.key.srcIP, r.ports)) =
      [([10,0,0,1], [.tcp 80, .udp 80]), ([10,0,0,2], [.udp 53, .icmp])] := by decide

end HT.Knock

/- OBLIGATIONS
HT.Knock.C20_each_visits_all_once
HT.Knock.C20_add_keeps_unique
HT.Knock.C20_add_idem
HT.Knock.C20_remove_then_absent
HT.Knock.C20_counterexample_third_group_reported_twice
HT.Knock.C20_one_group_per_source
HT.Knock.C20_ports_exact
HT.Knock.C20_reported_once
HT.Knock.C20_tick_partition
-/
