import HT.Lemmas.Tcp
import HT.Lemmas.Checksum
/-!
# C14 — raw-listener TCP handshake, acks and checksums hold for all sequence numbers

For any client initial sequence number, port pair and in-order segmentation of the
client's data, the raw listener answers a SYN with a SYN-ACK acknowledging ISN+1,
becomes established on the client's ACK, acknowledges exactly the bytes received so
far (modulo 2^32), answers a FIN […].  Every frame it emits is addressed back to the
sender with correct IPv4 header and TCP checksums, and simultaneous connections
from different peers or ports do not disturb each other.

Sequence numbers are `UInt32`; every statement below is for *all* 2^32 values.
The event/payload clause depends on the hand-off to the handler goroutine and is
covered by the correspondence run and its oracle (partial, see DESIGN.md).
-/
namespace HT.Can
open HT.Pkt

/-- SYN → SYN-ACK acknowledging ISN+1, sent from the state whose SND.NXT is ISS+1; the
connection moves to SYN-RECEIVED with SND.UNA = ISS and SND.NXT = ISS+2. -/
theorem C14_synack (cfg : Cfg) (s : TCB) (now : Nat) (h : Tcp)
    (hst : s.st = .listen) (hsyn : hasFlag h.ctrl SYN = true) :
    let s1 : TCB := { s with t := now, una := s.iss, nxt := s.iss + 1, rcv := UInt32.ofNat h.seq + 1 }
    (segStep cfg s now h).s = { s1 with id := s.id + 1, nxt := s.iss + 2, st := .synRcvd } ∧
    (segStep cfg s now h).eff = (send cfg s1 (SYN + ACK) []).2 :=
  seg_syn cfg s now h hst hsyn

/-- The client's ACK of the SYN-ACK (ack = ISS+2 = SND.NXT) establishes the connection for
**every** server ISS — including 2^32−2 and 2^32−1, where SND.NXT wraps below SND.UNA. -/
theorem C14_established_on_ack (cfg : Cfg) (s : TCB) (now : Nat) (h : Tcp)
    (hst : s.st = .synRcvd) (hd : IsData h) (hack : UInt32.ofNat h.ack = s.nxt) :
    (segStep cfg s now h).s.st = .estab ∧ (segStep cfg s now h).s.hdl = .waiting := by
  have := seg_establish cfg s now h hst hd (by rw [hack]; exact ackOk_self _ _)
  exact ⟨this.1, this.2.2⟩

/-- Record of the defect repaired by a `fix:` commit: the comparison as it was
(`SND.UNA ≤ SEG.ACK ≤ SND.NXT` on plain 32-bit values) rejects the correct ACK when the
ISS is 2^32−2. -/
theorem C14_counterexample_iss_wrap :
    let iss : UInt32 := 0xFFFFFFFE
    (decide (iss ≤ iss + 2) && decide (iss + 2 ≤ iss + 2)) = false := by decide

/-- Each in-order data segment is acknowledged with exactly RCV.NXT + its length (mod 2^32),
in a frame built from the connection's own addresses and ports. -/
theorem C14_ack_exact (cfg : Cfg) (s : TCB) (now : Nat) (h : Tcp)
    (hst : s.st = .estab) (hd : IsData h) (hp : 0 < h.payload.length) :
    ∃ s1 : TCB, s1.rcv = s.rcv + UInt32.ofNat h.payload.length ∧ s1.nxt = s.nxt ∧
      s1.srcIP = s.srcIP ∧ s1.dstIP = s.dstIP ∧ s1.srcPort = s.srcPort ∧ s1.dstPort = s.dstPort ∧
      (segStep cfg s now h).eff = (send cfg s1 ACK []).2 :=
  (seg_data cfg s now h hst hd).2.2.2.2.2.2.2.2 hp

/-- After any list of in-order data segments (any lengths, any count) the connection is still
established and RCV.NXT = start + Σ lengths modulo 2^32. -/
theorem C14_acks_exact_run (cfg : Cfg) (now : Nat) (s : TCB) (hs : List Tcp)
    (hst : s.st = .estab) (hall : ∀ h ∈ hs, IsData h) :
    (dataRun cfg now s hs).st = .estab ∧
    (dataRun cfg now s hs).rcv = s.rcv + UInt32.ofNat (totalLen hs) :=
  dataRun_rcv cfg now hs s hst hall

/-- A FIN, with or without data, is answered by a FIN|ACK acknowledging seq + len + 1. -/
theorem C14_fin_answered (cfg : Cfg) (s : TCB) (now : Nat) (h : Tcp)
    (hst : s.st = .estab) (hack : hasFlag h.ctrl ACK = true) (hsyn : hasFlag h.ctrl SYN = false)
    (hrst : hasFlag h.ctrl RST = false) (hfin : hasFlag h.ctrl FIN = true) :
    ∃ (s1 : TCB) (e1 : List Eff),
      s1.rcv = UInt32.ofNat h.seq + UInt32.ofNat h.payload.length + 1 ∧ s1.nxt = s.nxt ∧
      s1.srcIP = s.srcIP ∧ s1.dstIP = s.dstIP ∧ s1.srcPort = s.srcPort ∧ s1.dstPort = s.dstPort ∧
      (segStep cfg s now h).eff = e1 ++ (send cfg s1 (FIN + ACK) []).2 :=
  (seg_fin_estab cfg s now h hst hack hsyn hrst hfin).2.2

/-- Every packet `send` emits carries a valid IPv4 header checksum … -/
theorem C14_ip_checksum_valid (s : TCB) (n : Nat) :
    fold16 (words (setAt (ipHdr s n) 10 (u16be (cksum (words (ipHdr s n)))))) = 65535 :=
  ip_checksum_valid s n

/-- … and a valid TCP checksum over pseudo header, header and payload of any length/parity. -/
theorem C14_tcp_checksum_valid (s : TCB) (flags : Nat) (payload : Bytes) :
    let seg := tcpHdr s flags ++ payload
    let pseudo := words s.dstIP + words s.srcIP + 6 + seg.length
    fold16 (pseudo + words (setAt seg 16 (u16be (cksum (pseudo + words seg))))) = 65535 :=
  tcp_checksum_valid s flags payload

/-- The state a segment is attributed to has exactly the segment's 4-tuple (either direction). -/
theorem C14_lookup_exact (slots : List (Option TCB)) (a b : Bytes) (sp dp : Nat) (i : Nat)
    (h : getIdx slots a b sp dp = some i) :
    ∃ s, slots[i]? = some (some s) ∧ tupleMatch s a b sp dp = true :=
  getIdx_spec slots a b sp dp i h

/-- Record of the defect repaired by a `fix:` commit: per-field matching attributed a
segment of P:80→S:1000 to the state of P:1000→S:80. -/
theorem C14_counterexample_lookup_port_swap :
    let sSrcPort := 1000; let sDstPort := 80; let segSp := 80; let segDp := 1000
    (¬ (sSrcPort ≠ segSp ∧ sDstPort ≠ segSp) ∧ ¬ (sDstPort ≠ segDp ∧ sSrcPort ≠ segDp)) ∧
    ¬ (sSrcPort = segSp ∧ sDstPort = segDp) := by decide

/-- Simultaneous connections do not disturb each other: a segment that does not open a
connection changes no slot other than the one its 4-tuple resolves to. -/
theorem C14_connections_independent (cfg : Cfg) (st st' : St) (now : Nat) (src dst data : Bytes)
    (d : Drawn) (eff : List Eff) (h : Tcp) (perr : Bool)
    (hp : tcpParse data = .ok (h, perr))
    (hns : ¬ (hasFlag h.ctrl SYN = true ∧ ¬ hasFlag h.ctrl ACK = true))
    (hr : handleTCP cfg st now src dst data d = .ok (st', eff)) :
    st'.slots.length = st.slots.length ∧
    ∀ j, getIdx st.slots src dst h.sport h.dport ≠ some j → st'.slots[j]? = st.slots[j]? :=
  handleTCP_other_slots cfg st st' now src dst data d eff h perr hp hns hr

/-- non-vacuity: a concrete SYN / ACK / data / FIN exchange with ISS = 2^32−1 runs through
the states the theorems speak about. -/
example :
    let cfg : Cfg := { myIPs := [[127,0,0,1]], arp := [[10,0,0,1]] }
    let s0 := newTCB [10,0,0,1] 1000 [127,0,0,1] 8080 { iss := 0xFFFFFFFF, id := 7 } 0
    let seg (seq ack ctrl : Nat) (p : Bytes) : Tcp :=
      { sport := 1000, dport := 8080, seq := seq, ack := ack, dataOff := 5, ecn := 0, ctrl := ctrl,
        window := 0, checksum := 0, urgent := 0, options := [], padding := [], payload := p }
    let s1 := (segStep cfg s0 0 (seg 4294967295 0 2 [])).s
    let s2 := (segStep cfg s1 0 (seg 0 1 16 [])).s
    let s3 := (segStep cfg s2 0 (seg 0 1 16 [1, 2, 3])).s
    let s4 := (segStep cfg s3 0 (seg 3 1 17 [4])).s
    (s1.st, s1.rcv, s2.st, s3.rcv, s4.st, s4.rcv) = (.synRcvd, 0, .estab, 3, .closeWait, 5) := by decide

end HT.Can

/- OBLIGATIONS
HT.Can.C14_synack
HT.Can.C14_established_on_ack
HT.Can.C14_counterexample_iss_wrap
HT.Can.C14_ack_exact
HT.Can.C14_acks_exact_run
HT.Can.C14_fin_answered
HT.Can.C14_ip_checksum_valid
HT.Can.C14_tcp_checksum_valid
HT.Can.C14_lookup_exact
HT.Can.C14_counterexample_lookup_port_swap
HT.Can.C14_connections_independent
-/
