import HT.Model.Seg
import HT.Model.Proto
import HT.Lemmas.Seg
import HT.Lemmas.Proto
/-!
# C04 — every client command is captured exactly once, however the stream is segmented

Property theorems only; helper lemmas are in `HT.Lemmas.Seg` and `HT.Lemmas.Proto`.

Statement (properties.jsonl): for the line- and message-oriented services, each complete command a
client sends produces exactly one corresponding event carrying that command's decoded fields, in
the order sent; the set and order of events does not depend on how the client's byte stream is split
into segments, nor on whether several requests are pipelined in one write.
-/
namespace HT.Seg

variable {S E : Type}

/-- **Segmentation independence**, for every framing machine whose unit parser is monotone and
progresses: any segmentation of a byte stream — any number of segments, any cut points, empty
segments included — yields the events, the final protocol state and the unconsumed bytes of the
same bytes delivered in one piece. -/
theorem C04_segmentation_independence (p : Proto S E) (hm : ∀ s, Mono (p.next s)) (hp : ∀ s, Progress (p.next s))
    (s0 : S) (segs : List Bytes) :
    eventsOf p s0 segs = eventsOf p s0 [segs.flatten] := by
  unfold eventsOf
  cases segs with
  | nil =>
    simp only [List.flatten_nil, runSegs]
    rw [feed_nil_nil p hp s0]
    simp
  | cons a rest =>
    rw [runSegs_cons p hm hp rest a, runSegs_cons p hm hp [] (List.flatten (a :: rest))]
    simp

/-- two segmentations of the same bytes cannot be told apart -/
theorem C04_any_two_segmentations (p : Proto S E) (hm : ∀ s, Mono (p.next s)) (hp : ∀ s, Progress (p.next s))
    (s0 : S) (segs segs' : List Bytes) (h : segs.flatten = segs'.flatten) :
    eventsOf p s0 segs = eventsOf p s0 segs' := by
  rw [C04_segmentation_independence p hm hp s0 segs, C04_segmentation_independence p hm hp s0 segs', h]

end HT.Seg

namespace HT.Proto
open HT.Seg

/-! ## the services are such machines -/

theorem C04_ftp_segmentation (segs segs' : List Bytes) (h : segs.flatten = segs'.flatten) :
    eventsOf ftp false segs = eventsOf ftp false segs' :=
  C04_any_two_segmentations ftp ftp_mono ftp_progress false segs segs' h

theorem C04_telnet_segmentation (segs segs' : List Bytes) (h : segs.flatten = segs'.flatten) :
    eventsOf telnet .user segs = eventsOf telnet .user segs' :=
  C04_any_two_segmentations telnet telnet_mono telnet_progress .user segs segs' h

theorem C04_memcached_segmentation (segs segs' : List Bytes) (h : segs.flatten = segs'.flatten) :
    eventsOf memcached .idle segs = eventsOf memcached .idle segs' :=
  C04_any_two_segmentations memcached memcached_mono memcached_progress .idle segs segs' h

theorem C04_redis_segmentation (segs segs' : List Bytes) (h : segs.flatten = segs'.flatten) :
    eventsOf redis false segs = eventsOf redis false segs' :=
  C04_any_two_segmentations redis redis_mono redis_progress false segs segs' h

theorem C04_smtp_segmentation (segs segs' : List Bytes) (h : segs.flatten = segs'.flatten) :
    eventsOf smtp smtpInit segs = eventsOf smtp smtpInit segs' :=
  C04_any_two_segmentations smtp smtp_mono smtp_progress smtpInit segs segs' h

/-! ## exactly one event per command, in order -/

/-- the whole stream in one piece -/
def run {S E : Type} (p : Proto S E) (s : S) (b : Bytes) : List E × S × Bytes := drain p (b.length + 1) s b

theorem drain_succ {S E : Type} (p : Proto S E) (n : Nat) (s s' : S) (b r : Bytes) (ev : List E)
    (h : p.next s b = some ((ev, s'), r)) :
    drain p (n + 1) s b = (ev ++ (drain p n s' r).1, (drain p n s' r).2.1, (drain p n s' r).2.2) := by
  simp [drain, h]

theorem run_step {S E : Type} (p : Proto S E) (hp : ∀ s, Progress (p.next s)) (s s' : S) (b r : Bytes) (ev : List E)
    (h : p.next s b = some ((ev, s'), r)) :
    run p s b = (ev ++ (run p s' r).1, (run p s' r).2.1, (run p s' r).2.2) := by
  have hl := hp s b (ev, s') r h
  show drain p (b.length + 1) s b = _
  rw [drain_succ p b.length s s' b r ev h, drain_fuel p hp b.length (r.length + 1) s' r hl (Nat.lt_succ_self _)]
  rfl

theorem run_none {S E : Type} (p : Proto S E) (s : S) (b : Bytes) (h : p.next s b = none) : run p s b = ([], s, b) := by
  simp [run, drain, h]

theorem events_one_piece {S E : Type} (p : Proto S E) (s0 : S) (b : Bytes) :
    eventsOf p s0 [b] = (run p s0 b).1 ++ p.finish (run p s0 b).2.1 (run p s0 b).2.2 := by
  simp [eventsOf, runSegs, feed, run]

theorem lineAux_render (c rest : Bytes) (h : lf ∉ c) : ∀ acc, lineAux acc (c ++ lf :: rest) = some (acc.reverse ++ c ++ [lf], rest) := by
  induction c with
  | nil => intro acc; simp [lineAux, lf]
  | cons x xs ih =>
    intro acc
    have hx : (x == 10) = false := by
      simp only [List.mem_cons, not_or] at h
      have : x ≠ lf := fun e => h.1 e.symm
      simpa [lf] using this
    have hxs : lf ∉ xs := fun hm => h (List.mem_cons_of_mem _ hm)
    simp only [List.cons_append, lineAux, hx, Bool.false_eq_true, if_false]
    rw [ih hxs (x :: acc)]
    simp

theorem line_render (c rest : Bytes) (h : lf ∉ c) : line (c ++ lf :: rest) = some (c ++ [lf], rest) := by
  have := lineAux_render c rest h []
  simpa [line] using this

/-- the bytes of a sequence of command lines, each terminated by LF (a CR before it belongs to the line) -/
def renderLines (cmds : List Bytes) : Bytes := cmds.flatMap (fun c => c ++ [lf])

def ftpEv (c : Bytes) : Ev := { kind := "ftp", fields := [trimCRLF (c ++ [lf])] }

theorem ftp_run (cmds : List Bytes) (h : ∀ c ∈ cmds, lf ∉ c ∧ ftpIsQuit (c ++ [lf]) = false) (rest : Bytes) :
    run ftp false (renderLines cmds ++ rest) =
      (cmds.map ftpEv ++ (run ftp false rest).1, (run ftp false rest).2.1, (run ftp false rest).2.2) := by
  induction cmds with
  | nil => simp [renderLines]
  | cons c cs ih =>
    have hc := h c List.mem_cons_self
    have e : renderLines (c :: cs) ++ rest = c ++ lf :: (renderLines cs ++ rest) := by simp [renderLines]
    rw [e]
    have hn : ftp.next false (c ++ lf :: (renderLines cs ++ rest))
        = some (([ftpEv c], false), renderLines cs ++ rest) := by
      show bindP line _ _ = _
      simp [bindP, line_render c _ hc.1, pureP, hc.2, ftpEv]
    rw [run_step ftp ftp_progress false false _ _ _ hn, ih (fun x hx => h x (List.mem_cons_of_mem _ hx))]
    simp

/-- ftp: any number of command lines (none of them QUIT), in any segmentation: exactly one event per
line, in order, carrying the line without its terminator. -/
theorem C04_ftp_exactly_once (cmds : List Bytes) (h : ∀ c ∈ cmds, lf ∉ c ∧ ftpIsQuit (c ++ [lf]) = false)
    (segs : List Bytes) (hs : segs.flatten = renderLines cmds) :
    eventsOf ftp false segs = cmds.map ftpEv := by
  rw [C04_segmentation_independence ftp ftp_mono ftp_progress false segs, hs, events_one_piece]
  have := ftp_run cmds h []
  simp only [List.append_nil] at this
  rw [this, run_none ftp false [] (by simp [ftp, ftpNext, bindP, line, lineAux])]
  simp [ftp]

/-- ftp: QUIT is reported and ends the session — nothing after it is. -/
theorem C04_ftp_quit_ends (cmds : List Bytes) (h : ∀ c ∈ cmds, lf ∉ c ∧ ftpIsQuit (c ++ [lf]) = false)
    (q : Bytes) (hq : lf ∉ q ∧ ftpIsQuit (q ++ [lf]) = true) (after : Bytes)
    (segs : List Bytes) (hs : segs.flatten = renderLines cmds ++ (q ++ lf :: after)) :
    eventsOf ftp false segs = cmds.map ftpEv ++ [ftpEv q] := by
  rw [C04_segmentation_independence ftp ftp_mono ftp_progress false segs, hs, events_one_piece]
  rw [ftp_run cmds h]
  have hn : ftp.next false (q ++ lf :: after) = some (([ftpEv q], true), after) := by
    show bindP line _ _ = _
    simp [bindP, line_render q _ hq.1, pureP, hq.2, ftpEv]
  rw [run_step ftp ftp_progress false true _ _ _ hn, run_none ftp true after rfl]
  simp [ftp]

/-! telnet: user name, password, commands -/

def telnetCmdEv (c : Bytes) : Ev := { kind := "telnet-cmd", fields := [telnetClean (c ++ [lf])] }

theorem telnet_run (cmds : List Bytes) (h : ∀ c ∈ cmds, lf ∉ c) (rest : Bytes) :
    run telnet .session (renderLines cmds ++ rest) =
      (cmds.map telnetCmdEv ++ (run telnet .session rest).1, (run telnet .session rest).2.1, (run telnet .session rest).2.2) := by
  induction cmds with
  | nil => simp [renderLines]
  | cons c cs ih =>
    have hc := h c List.mem_cons_self
    have e : renderLines (c :: cs) ++ rest = c ++ lf :: (renderLines cs ++ rest) := by simp [renderLines]
    rw [e]
    have hn : telnet.next .session (c ++ lf :: (renderLines cs ++ rest))
        = some (([telnetCmdEv c], .session), renderLines cs ++ rest) := by
      show bindP line _ _ = _
      simp [bindP, line_render c _ hc, pureP, telnetCmdEv]
    rw [run_step telnet telnet_progress .session .session _ _ _ hn, ih (fun x hx => h x (List.mem_cons_of_mem _ hx))]
    simp

/-- telnet: the first two lines are reported once as the login attempt, every later line once as a
command, in order, in any segmentation (fields: the printable characters of the line). -/
theorem C04_telnet_exactly_once (u p : Bytes) (cmds : List Bytes) (hu : lf ∉ u) (hpw : lf ∉ p) (h : ∀ c ∈ cmds, lf ∉ c)
    (segs : List Bytes) (hs : segs.flatten = (u ++ lf :: (p ++ lf :: renderLines cmds))) :
    eventsOf telnet .user segs =
      { kind := "telnet-auth", fields := [telnetClean (u ++ [lf]), telnetClean (p ++ [lf])] } :: cmds.map telnetCmdEv := by
  rw [C04_segmentation_independence telnet telnet_mono telnet_progress .user segs, hs, events_one_piece]
  have h1 : telnet.next .user (u ++ lf :: (p ++ lf :: renderLines cmds))
      = some (([], .pass (telnetClean (u ++ [lf]))), p ++ lf :: renderLines cmds) := by
    show bindP line _ _ = _
    simp [bindP, line_render u _ hu, pureP]
  have h2 : telnet.next (.pass (telnetClean (u ++ [lf]))) (p ++ lf :: renderLines cmds)
      = some (([{ kind := "telnet-auth", fields := [telnetClean (u ++ [lf]), telnetClean (p ++ [lf])] }], .session), renderLines cmds) := by
    show bindP line _ _ = _
    simp [bindP, line_render p _ hpw, pureP]
  rw [run_step telnet telnet_progress _ _ _ _ _ h1, run_step telnet telnet_progress _ _ _ _ _ h2]
  have := telnet_run cmds h []
  simp only [List.append_nil] at this
  rw [this, run_none telnet .session [] (by simp [telnet, telnetNext, bindP, line, lineAux])]
  simp [telnet]

/-! memcached: plain commands and storage commands with their data block -/

/-- a unit of the memcached stream: a command line, and for a storage command its data block
(value and the two terminator bytes) -/
structure MUnit where
  l : Bytes                  -- the command line without LF
  block : Option Bytes       -- the data block of a storage command

def MUnit.bytes (u : MUnit) : Bytes := u.l ++ [lf] ++ (u.block.getD [])

def mcCmdEv (l : Bytes) : Ev := { kind := "mc-cmd", fields := [stripEOL (l ++ [lf])] }

/-- the events a unit must produce: one for the command line; for a storage command one more, with
key, flags, expiry, size and the first 80 bytes of the value -/
def MUnit.events (u : MUnit) : List Ev :=
  match u.block, (mcAfterLine (u.l ++ [lf])).2 with
  | some blk, .block cmd key flags exp bytes count =>
    [mcCmdEv u.l, { kind := "mc-store", fields := [cmd, key, flags, exp, bytes, blk.take (min count 80)] }]
  | _, _ => [mcCmdEv u.l]

/-- the unit is well formed: no LF inside the line; a plain command has no block; a storage command
has a block of exactly the announced size plus terminator -/
def MUnit.ok (u : MUnit) : Bool :=
  !u.l.contains lf &&
  match u.block, (mcAfterLine (u.l ++ [lf])).2 with
  | none, .idle => true
  | some blk, .block _ _ _ _ _ count => blk.length == count + 2
  | _, _ => false

theorem mcAfterLine_ev (l : Bytes) : (mcAfterLine l).1 = [{ kind := "mc-cmd", fields := [stripEOL l] }] := by
  unfold mcAfterLine
  simp only
  split
  · split
    · split
      · split
        · split <;> rfl
        · rfl
      · rfl
    · rfl
  · rfl

theorem memcached_run (us : List MUnit) (h : ∀ u ∈ us, u.ok = true) (rest : Bytes) :
    run memcached .idle (us.flatMap MUnit.bytes ++ rest) =
      (us.flatMap MUnit.events ++ (run memcached .idle rest).1, (run memcached .idle rest).2.1, (run memcached .idle rest).2.2) := by
  induction us with
  | nil => simp
  | cons u us ih =>
    have hu := h u List.mem_cons_self
    have ih' := ih (fun x hx => h x (List.mem_cons_of_mem _ hx))
    simp only [MUnit.ok, Bool.and_eq_true, Bool.not_eq_true', List.contains_eq_mem, decide_eq_false_iff_not] at hu
    obtain ⟨hlf, hk⟩ := hu
    have e : (u :: us).flatMap MUnit.bytes ++ rest = u.l ++ lf :: (u.block.getD [] ++ (us.flatMap MUnit.bytes ++ rest)) := by
      simp [MUnit.bytes]
    rw [e]
    have hn : memcached.next .idle (u.l ++ lf :: (u.block.getD [] ++ (us.flatMap MUnit.bytes ++ rest)))
        = some ((mcAfterLine (u.l ++ [lf])), u.block.getD [] ++ (us.flatMap MUnit.bytes ++ rest)) := by
      show bindP line _ _ = _
      simp [bindP, line_render u.l _ hlf, pureP]
    have hn' : memcached.next .idle (u.l ++ lf :: (u.block.getD [] ++ (us.flatMap MUnit.bytes ++ rest)))
        = some (((mcAfterLine (u.l ++ [lf])).1, (mcAfterLine (u.l ++ [lf])).2), u.block.getD [] ++ (us.flatMap MUnit.bytes ++ rest)) := hn
    rw [run_step memcached memcached_progress _ _ _ _ _ hn', mcAfterLine_ev]
    cases hb : u.block with
    | none =>
      rw [hb] at hk
      cases hst : (mcAfterLine (u.l ++ [lf])).2 with
      | idle =>
        simp only [Option.getD_none, List.nil_append]
        rw [ih']
        simp [MUnit.events, hb, hst, mcCmdEv]
      | block a b c d e f => rw [hst] at hk; simp at hk
      | closed => rw [hst] at hk; simp at hk
    | some blk =>
      rw [hb] at hk
      cases hst : (mcAfterLine (u.l ++ [lf])).2 with
      | idle => rw [hst] at hk; simp at hk
      | closed => rw [hst] at hk; simp at hk
      | block cmd key flags exp bytes count =>
        rw [hst] at hk
        simp only [beq_iff_eq] at hk
        simp only [Option.getD_some]
        have hn2 : memcached.next (.block cmd key flags exp bytes count) (blk ++ (us.flatMap MUnit.bytes ++ rest))
            = some (([{ kind := "mc-store", fields := [cmd, key, flags, exp, bytes, blk.take (min count 80)] }], .idle),
                us.flatMap MUnit.bytes ++ rest) := by
          show bindP (takeN (count + 2)) _ _ = _
          have ht : takeN (count + 2) (blk ++ (us.flatMap MUnit.bytes ++ rest)) = some (blk, us.flatMap MUnit.bytes ++ rest) := by
            unfold takeN
            have : ¬ (blk ++ (us.flatMap MUnit.bytes ++ rest)).length < count + 2 := by
              simp only [List.length_append]; omega
            simp only [this, if_false]
            rw [← hk, List.take_left, List.drop_left]
          simp [bindP, ht, pureP]
        rw [run_step memcached memcached_progress _ _ _ _ _ hn2, ih']
        simp [MUnit.events, hb, hst, mcCmdEv]

/-- memcached: any sequence of plain and storage commands, pipelined or not, in any segmentation:
one command event per command line, and for each storage command exactly one storage event with
the first 80 bytes of its value — whatever the value contains and wherever the stream is cut. -/
theorem C04_memcached_exactly_once (us : List MUnit) (h : ∀ u ∈ us, u.ok = true)
    (segs : List Bytes) (hs : segs.flatten = us.flatMap MUnit.bytes) :
    eventsOf memcached .idle segs = us.flatMap MUnit.events := by
  rw [C04_segmentation_independence memcached memcached_mono memcached_progress .idle segs, hs, events_one_piece]
  have := memcached_run us h []
  simp only [List.append_nil] at this
  rw [this, run_none memcached .idle [] (by simp [memcached, mcNext, bindP, line, lineAux])]
  simp [memcached]

/-! non-vacuity -/
example : ftpIsQuit [85, 83, 69, 82, 32, 97, 13, 10] = false ∧ ftpIsQuit [113, 117, 105, 116, 13, 10] = true := by decide

/-- "set k 0 0 3" followed by "abc\r\n" is a well-formed storage unit; its value contains protocol text -/
example : (⟨[115, 101, 116, 32, 107, 32, 48, 32, 48, 32, 51, 13], some [10, 103, 10, 13, 10]⟩ : MUnit).ok = true := by decide

example : eventsOf ftp false [[78, 79], [79, 80, 13, 10, 81], [85, 73, 84, 10, 88, 10]]
    = [{ kind := "ftp", fields := [[78, 79, 79, 80]] }, { kind := "ftp", fields := [[81, 85, 73, 84]] }] := by decide

end HT.Proto

/- OBLIGATIONS
HT.Seg.C04_segmentation_independence
HT.Seg.C04_any_two_segmentations
HT.Proto.C04_ftp_segmentation
HT.Proto.C04_telnet_segmentation
HT.Proto.C04_memcached_segmentation
HT.Proto.C04_redis_segmentation
HT.Proto.C04_smtp_segmentation
HT.Proto.C04_ftp_exactly_once
HT.Proto.C04_ftp_quit_ends
HT.Proto.C04_telnet_exactly_once
HT.Proto.C04_memcached_exactly_once
-/
