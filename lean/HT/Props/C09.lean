import HT.Model.Release
/-!
# C09 — handlers finish and release everything once the peer is gone

Statement (properties.jsonl): after a client disconnects, its datagram has been consumed, or it has
stayed silent for the idle timeout, the handler returns within a bounded time for every possible
input, and every goroutine, listening socket and descriptor created on the connection's behalf is
released; after N sequential connections the process holds the same as before them.

What is proved here is the logic the runtime observations rest on: the read loop over a datagram
connection ends after a bounded number of reads for every datagram and buffer size (and never did
with the connection as it was), and the ledger of what an ftp or smtp session acquires is balanced
for every command sequence and every history of sessions (and was not).  That the real handlers
follow these models — and the services that have no model here — is decided by the runs of the
check (time to return, goroutines by creating function, descriptors).
-/
namespace HT.Rel

/-! ## the read loop over a datagram -/

/-- For every datagram length and every buffer size > 0 the loop makes at most `left + 1` reads and ends. -/
theorem C09_udp_loop_ends (chunk : Nat) (hc : 0 < chunk) :
    ∀ (fuel left : Nat), left + 1 ≤ fuel → ∃ k, readLoop readNew chunk fuel left = some k ∧ k ≤ left + 1 := by
  intro fuel
  induction fuel with
  | zero => intro left h; omega
  | succ f ih =>
    intro left h
    by_cases h0 : left = 0
    · subst h0
      exact ⟨1, by simp [readLoop, readNew], by omega⟩
    · have hm : 0 < min left chunk := by omega
      have hlt : left - min left chunk < left := by omega
      obtain ⟨k, hk, hle⟩ := ih (left - min left chunk) (by omega)
      refine ⟨k + 1, ?_, by omega⟩
      simp [readLoop, readNew, h0, hk]

/-- … and the exact count: one read per buffer-full, one more for the end of stream. -/
theorem C09_udp_loop_count_small (chunk : Nat) (left : Nat) (h : left ≤ chunk) (h0 : 0 < left) :
    readLoop readNew chunk 3 left = some 2 := by
  have hm : min left chunk = left := by omega
  have hne : left ≠ 0 := by omega
  simp [readLoop, readNew, hne, hm]

/-- As it was: the connection never reported an end, so for every datagram, buffer size and amount
of fuel the loop is still running. -/
theorem readOld_ne_eof (left chunk : Nat) : (readOld left chunk).1 ≠ .eof := by
  unfold readOld
  split <;> simp

theorem C09_counterexample_udp_never_ends (chunk : Nat) :
    ∀ (fuel left : Nat), readLoop readOld chunk fuel left = none := by
  intro fuel
  induction fuel with
  | zero => intro left; rfl
  | succ f ih =>
    intro left
    have hne := readOld_ne_eof left chunk
    show (match readOld left chunk with
      | (.eof, _) => some 1
      | (_, left') => (readLoop readOld chunk f left').map (· + 1)) = none
    rcases h : readOld left chunk with ⟨r, l'⟩
    rw [h] at hne
    cases r <;> simp_all

/-! ## the ledger -/

theorem Held.eq_of (a b : Held) (h1 : a.goroutines = b.goroutines) (h2 : a.listeners = b.listeners) : a = b := by
  cases a; cases b; simp_all

def Held.add (a b : Held) : Held := { goroutines := a.goroutines + b.goroutines, listeners := a.listeners + b.listeners }

theorem foldl_apply (ops : List Op) : ∀ h : Held, ops.foldl apply h = h.add (held ops) := by
  induction ops with
  | nil => intro h; simp [held, Held.add, Held.zero]
  | cons o os ih =>
    intro h
    simp only [List.foldl_cons, held]
    rw [ih (apply h o), ih (apply Held.zero o)]
    cases o <;> simp [apply, Held.add, Held.zero, held] <;> omega

theorem held_append (a b : List Op) : held (a ++ b) = (held a).add (held b) := by
  unfold held
  rw [List.foldl_append, foldl_apply b]
  rfl

/-- what closing the data socket will give back -/
def owed (d : DSock) : Held := held (closeSock d)

theorem ftpCmds_invariant : ∀ (cmds : List FCmd) (d : DSock),
    (held (ftpCmds d cmds).1).add (owed (ftpCmds d cmds).2) = owed d := by
  intro cmds
  induction cmds with
  | nil => intro d; simp [ftpCmds, held, Held.add, Held.zero, owed]
  | cons c cs ih =>
    intro d
    simp only [ftpCmds, held_append]
    have h2 := ih (ftpCmd d c).2
    have h1 : (held (ftpCmd d c).1).add (owed (ftpCmd d c).2) = owed d := by
      cases c <;> cases d <;> decide
    -- combine the two equalities componentwise
    have g1 := congrArg Held.goroutines h1
    have l1 := congrArg Held.listeners h1
    have g2 := congrArg Held.goroutines h2
    have l2 := congrArg Held.listeners h2
    simp only [Held.add] at g1 l1 g2 l2
    apply Held.eq_of <;> simp only [Held.add] <;> omega

/-- **Every ftp session is balanced**: whatever the client sends — any number of passive-mode
requests, connected to or not, transfers, anything else, in any order — when the session ends every
goroutine and listening socket opened on its behalf has been released. -/
theorem C09_ftp_session_releases (cmds : List FCmd) : held (ftpSession cmds) = Held.zero := by
  unfold ftpSession
  simp only [held_append]
  have h := ftpCmds_invariant cmds .none
  have e1 : held [Op.spawn] = { goroutines := 1, listeners := 0 } := by decide
  have e2 : held [Op.exit] = { goroutines := -1, listeners := 0 } := by decide
  have e3 : owed .none = Held.zero := by decide
  rw [e1, e2]
  rw [e3] at h
  have g := congrArg Held.goroutines h
  have l := congrArg Held.listeners h
  simp only [Held.add, Held.zero, owed] at g l
  apply Held.eq_of <;> simp only [Held.add, Held.zero] <;> omega

/-- while the session runs it holds at most its reporter, one pending acceptor and one passive port -/
theorem C09_ftp_bounded_during (cmds : List FCmd) :
    (held ([Op.spawn] ++ (ftpCmds .none cmds).1)).goroutines ≤ 2 ∧
    (held ([Op.spawn] ++ (ftpCmds .none cmds).1)).listeners ≤ 1 := by
  have h := ftpCmds_invariant cmds .none
  have e3 : owed .none = Held.zero := by decide
  rw [e3] at h
  have e1 : held [Op.spawn] = { goroutines := 1, listeners := 0 } := by decide
  rw [held_append, e1]
  have ho : ∀ d, -1 ≤ (owed d).goroutines ∧ -1 ≤ (owed d).listeners := by intro d; cases d <;> decide
  have := ho (ftpCmds .none cmds).2
  have g := congrArg Held.goroutines h
  have l := congrArg Held.listeners h
  simp only [Held.add, Held.zero] at g l ⊢
  constructor <;> omega

/-- histories: any number of sessions, each balanced, leave nothing behind -/
theorem C09_history_releases (sessions : List (List Op)) (h : ∀ s ∈ sessions, held s = Held.zero) :
    held sessions.flatten = Held.zero := by
  induction sessions with
  | nil => rfl
  | cons s ss ih =>
    simp only [List.flatten_cons, held_append]
    rw [h s List.mem_cons_self, ih (fun x hx => h x (List.mem_cons_of_mem _ hx))]
    rfl

theorem C09_ftp_history_releases (sessions : List (List FCmd)) :
    held (sessions.map ftpSession).flatten = Held.zero :=
  C09_history_releases _ (by
    intro s hs
    obtain ⟨cmds, _, rfl⟩ := List.mem_map.mp hs
    exact C09_ftp_session_releases cmds)

theorem C09_smtp_session_releases (n : Nat) : held (smtpSession n) = Held.zero := by unfold smtpSession; decide

/-! ## as it was -/

theorem ftpCmdsOld_pasv (k : Nat) : ∀ d, d ≠ .connected →
    held (ftpCmdsOld d (List.replicate k .pasv)).1 = { goroutines := k, listeners := k } := by
  induction k with
  | zero => intro d _; rfl
  | succ k ih =>
    intro d _
    simp only [List.replicate_succ, ftpCmdsOld, ftpCmdOld, held_append]
    rw [ih .listening (by decide)]
    have : held [Op.listen, Op.spawn] = { goroutines := 1, listeners := 1 } := by decide
    rw [this]
    apply Held.eq_of <;> simp only [Held.add] <;> omega

/-- As it was: a session that asks for `k` passive ports without using them leaves `k` listening
sockets and `k + 1` goroutines behind — without bound. -/
theorem C09_counterexample_ftp_leak (k : Nat) :
    held (ftpSessionOld (List.replicate k .pasv)) = { goroutines := k + 1, listeners := k } := by
  unfold ftpSessionOld
  rw [held_append, ftpCmdsOld_pasv k .none (by decide)]
  have : held [Op.spawn] = { goroutines := 1, listeners := 0 } := by decide
  rw [this]
  apply Held.eq_of <;> simp only [Held.add] <;> omega

theorem C09_counterexample_smtp_leak (n : Nat) : held (smtpSessionOld n) = { goroutines := 1, listeners := 0 } := by unfold smtpSessionOld; decide

/-! non-vacuity -/
example : held (ftpSession [.pasv, .pasv, .connect, .transfer, .pasv, .other]) = Held.zero := by decide
example : readLoop readNew 512 10 1400 = some 4 := by decide

end HT.Rel

/- OBLIGATIONS
HT.Rel.C09_udp_loop_ends
HT.Rel.C09_udp_loop_count_small
HT.Rel.C09_counterexample_udp_never_ends
HT.Rel.C09_ftp_session_releases
HT.Rel.C09_ftp_bounded_during
HT.Rel.C09_history_releases
HT.Rel.C09_ftp_history_releases
HT.Rel.C09_smtp_session_releases
HT.Rel.C09_counterexample_ftp_leak
HT.Rel.C09_counterexample_smtp_leak
-/
