import HT.Model.Event
/-!
# C05 — recorded payloads are byte-exact and every emitted event serialises

For any bytes received from a client, the event's hexadecimal payload field decodes to
exactly those bytes and its length field equals their count; addresses and ports
recorded from a connection equal the connection's.  […] the JSON contains every key
stored in the event; merging key-value data into an event keeps the keys it already
has, whereas copying overwrites them.

JSON serialisability of the value types the services store is checked by the
correspondence run (every captured event is marshalled with both channel code paths);
`encoding/json` itself is not modelled.
-/
namespace HT.Ev

theorem nib_roundtrip (n : Nat) (h : n < 16) : nibVal (hexNib n) = some n := by
  have : n = 0 ∨ n = 1 ∨ n = 2 ∨ n = 3 ∨ n = 4 ∨ n = 5 ∨ n = 6 ∨ n = 7 ∨ n = 8 ∨ n = 9 ∨ n = 10 ∨
      n = 11 ∨ n = 12 ∨ n = 13 ∨ n = 14 ∨ n = 15 := by omega
  rcases this with h | h | h | h | h | h | h | h | h | h | h | h | h | h | h | h <;> subst h <;> decide

/-- The hexadecimal field decodes to exactly the bytes received — every byte string, any length,
any content (invalid UTF-8, NUL, control bytes). -/
theorem C05_hex_roundtrip (bs : Bytes) : hexDecode (hexEncode bs) = some bs := by
  induction bs with
  | nil => rfl
  | cons b bs ih =>
    simp only [hexEncode, hexDecode, ih]
    rw [nib_roundtrip _ (by have := b.toNat_lt; omega), nib_roundtrip _ (by omega)]
    simp only
    congr 2
    have : b.toNat / 16 * 16 + b.toNat % 16 = b.toNat := by omega
    rw [this]; simp

theorem get_store_same (e : Event) (k : String) (v : Val) : get? (store e k v) k = some v := by
  simp [store, get?]

theorem get_store_other (e : Event) (k k' : String) (v : Val) (h : k' ≠ k) :
    get? (store e k v) k' = get? e k' := by
  unfold store get?
  have hne : ¬ (k = k') := fun e => h e.symm
  simp only [List.find?_cons, hne, decide_false]
  congr 1
  rw [List.find?_filter]
  congr 1
  funext kv
  by_cases hk : kv.1 = k'
  · simp [hk, h]
  · simp [hk]

/-- `payload-hex` decodes to the data, `payload-length` is its length. -/
theorem C05_payload_exact (e : Event) (data : Bytes) :
    (∃ s, get? (payload e data) "payload-hex" = some (.str s) ∧ hexDecode s.toList = some data) ∧
    get? (payload e data) "payload-length" = some (.int data.length) := by
  unfold payload
  refine ⟨⟨String.ofList (hexEncode data), ?_, ?_⟩, get_store_same _ _ _⟩
  · rw [get_store_other _ _ _ _ (by decide), get_store_same]
  · simp [C05_hex_roundtrip]

/-- Addresses and ports recorded from a TCP or UDP connection equal the connection's; other
address kinds record nothing. -/
theorem addr_exact (pre : String) (hne : pre ++ "-ip" ≠ pre ++ "-port") (e : Event) (ip : String) (port : Nat) :
    get? (addrOpt pre e (.tcp ip port)) (pre ++ "-ip") = some (.str ip) ∧
    get? (addrOpt pre e (.tcp ip port)) (pre ++ "-port") = some (.int port) ∧
    get? (addrOpt pre e (.udp ip port)) (pre ++ "-ip") = some (.str ip) ∧
    get? (addrOpt pre e (.udp ip port)) (pre ++ "-port") = some (.int port) ∧
    addrOpt pre e .other = e := by
  refine ⟨?_, get_store_same _ _ _, ?_, get_store_same _ _ _, rfl⟩
  · simp only [addrOpt]; rw [get_store_other _ _ _ _ hne, get_store_same]
  · simp only [addrOpt]; rw [get_store_other _ _ _ _ hne, get_store_same]

theorem C05_addr_exact (e : Event) (ip : String) (port : Nat) :
    get? (sourceAddr e (.tcp ip port)) "source-ip" = some (.str ip) ∧
    get? (sourceAddr e (.tcp ip port)) "source-port" = some (.int port) ∧
    get? (sourceAddr e (.udp ip port)) "source-ip" = some (.str ip) ∧
    get? (sourceAddr e (.udp ip port)) "source-port" = some (.int port) ∧
    sourceAddr e .other = e ∧
    get? (destinationAddr e (.tcp ip port)) "destination-ip" = some (.str ip) ∧
    get? (destinationAddr e (.tcp ip port)) "destination-port" = some (.int port) ∧
    get? (destinationAddr e (.udp ip port)) "destination-ip" = some (.str ip) ∧
    get? (destinationAddr e (.udp ip port)) "destination-port" = some (.int port) ∧
    destinationAddr e .other = e := by
  have h1 := addr_exact "source" (by decide) e ip port
  have h2 := addr_exact "destination" (by decide) e ip port
  exact ⟨h1.1, h1.2.1, h1.2.2.1, h1.2.2.2.1, h1.2.2.2.2, h2.1, h2.2.1, h2.2.2.1, h2.2.2.2.1, h2.2.2.2.2⟩

theorem has_iff (e : Event) (k : String) : has e k = true ↔ (get? e k).isSome = true := by
  unfold has get?
  induction e with
  | nil => simp
  | cons x xs ih =>
    by_cases h : x.1 = k
    · simp [List.find?_cons, h]
    · simp [List.find?_cons, h] at ih ⊢

/-- Merging keeps every key the event already has (with its value, whatever its type) … -/
theorem C05_merge_keeps (data : List (String × Val)) : ∀ (e : Event) (k : String) (v : Val),
    get? e k = some v → get? (mergeFrom e data) k = some v := by
  induction data with
  | nil => intro e k v h; exact h
  | cons d ds ih =>
    intro e k v h
    simp only [mergeFrom, List.foldl_cons] at ih ⊢
    apply ih
    by_cases hh : has e d.1 = true
    · simp [hh, h]
    · simp only [hh, Bool.false_eq_true, if_false]
      have hne : k ≠ d.1 := by
        intro hk; subst hk
        have := (has_iff e d.1).mpr (by simp [h])
        exact hh this
      rw [get_store_other _ _ _ _ hne]; exact h

/-- … whereas copying overwrites: after `CopyFrom` every key of the data has the data's value
(the last one, should a key be listed twice). -/
theorem C05_copy_overwrites (data : List (String × Val)) (e : Event) (k : String) (v : Val)
    (hk : (data.reverse.find? (·.1 = k)).map (·.2) = some v) : get? (copyFrom e data) k = some v := by
  unfold copyFrom
  rw [← List.foldr_reverse]
  generalize data.reverse = r at hk
  induction r with
  | nil => simp at hk
  | cons d ds ih =>
    simp only [List.foldr_cons]
    by_cases hd : d.1 = k
    · subst hd
      simp only [List.find?_cons, decide_true, Option.map_some, Option.some.injEq] at hk
      subst hk
      exact get_store_same _ _ _
    · have : k ≠ d.1 := fun e => hd e.symm
      rw [get_store_other _ _ _ _ this]
      apply ih
      simpa [List.find?_cons, hd] using hk

/-- The JSON object's keys are exactly the stored keys: storing makes the key present and no
key is present twice. -/
theorem C05_keys (e : Event) (k : String) (v : Val) (h : (keys e).Nodup) :
    k ∈ keys (store e k v) ∧ (keys (store e k v)).Nodup ∧
    ∀ k', k' ∈ keys (store e k v) ↔ (k' = k ∨ k' ∈ keys e) := by
  unfold keys store
  refine ⟨by simp, ?_, ?_⟩
  · simp only [List.map_cons, List.nodup_cons]
    refine ⟨?_, ?_⟩
    · simp only [List.mem_map, List.mem_filter]
      rintro ⟨kv, ⟨_, h2⟩, h3⟩
      simp at h2; exact h2 h3
    · exact List.Nodup.sublist (List.Sublist.map _ List.filter_sublist) h
  · intro k'
    simp only [List.map_cons, List.mem_cons, List.mem_map, List.mem_filter]
    constructor
    · rintro (h1 | ⟨kv, ⟨h2, _⟩, rfl⟩)
      · exact Or.inl h1
      · exact Or.inr ⟨kv, h2, rfl⟩
    · rintro (h1 | ⟨kv, h2, rfl⟩)
      · exact Or.inl h1
      · by_cases hk : kv.1 = k
        · exact Or.inl hk
        · exact Or.inr ⟨kv, ⟨h2, by simpa using hk⟩, rfl⟩

/-- non-vacuity -/
example : hexEncode [0, 255, 16, 10] = "00ff100a".toList ∧ hexDecode "00ff100a".toList = some [0, 255, 16, 10] := by
  decide

end HT.Ev

/- OBLIGATIONS
HT.Ev.C05_hex_roundtrip
HT.Ev.C05_payload_exact
HT.Ev.C05_addr_exact
HT.Ev.C05_merge_keeps
HT.Ev.C05_copy_overwrites
HT.Ev.C05_keys
-/
