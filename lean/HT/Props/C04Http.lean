import HT.Props.C15
/-!
# C04 — the http service (request framing shared with the http proxy of C15)
-/
namespace HT.Relay
open HT.Seg HT.Proto

theorem httpHead_eq (b : Bytes) : httpHead b = bindP (headLines (b.length + 1)) (fun ls => pureP (headInfo ls)) b := rfl

theorem httpHead_mono : Mono httpHead := by
  intro b x r more h
  rw [httpHead_eq] at h ⊢
  have hm := bind_mono _ _ (headLines_mono (b.length + 1)) (fun ls => pure_mono (headInfo ls)) b x r more h
  have he := ext_bind (headLines (b.length + 1)) (headLines (b.length + 1 + more.length))
    (fun ls => pureP (headInfo ls)) (fun ls => pureP (headInfo ls))
    (headLines_fuel_le _ _) (fun _ => ext_refl _) (b ++ more) (x, r ++ more) hm
  have hl : (b ++ more).length + 1 = b.length + 1 + more.length := by simp only [List.length_append]; omega
  rw [hl]
  exact he

theorem httpHead_progress : Progress httpHead := by
  intro b x r h
  rw [httpHead_eq] at h
  exact bind_progress _ _ (headLines_progress _) (fun _ => pure_nogrow _) b x r h

theorem httpSvc_mono (s : HSSt) : Mono (httpSvc.next s) := by
  cases s with
  | «open» =>
    apply bind_mono _ _ httpHead_mono
    intro r
    match r with
    | some (m, t, 0) => exact pure_mono _
    | some (m, t, n + 1) => exact pure_mono _
    | none => exact pure_mono _
  | body m t n => exact bind_mono _ _ (takeN_mono _) (fun _ => pure_mono _)
  | closed => exact fail_mono

theorem httpSvc_progress (s : HSSt) : Progress (httpSvc.next s) := by
  cases s with
  | «open» =>
    apply bind_progress _ _ httpHead_progress
    intro r
    match r with
    | some (m, t, 0) => exact pure_nogrow _
    | some (m, t, n + 1) => exact pure_nogrow _
    | none => exact pure_nogrow _
  | body m t n => exact bind_progress _ _ (takeN_progress _ (by omega)) (fun _ => pure_nogrow _)
  | closed => exact fail_progress

/-- http: the request events (method, target, first 1024 body bytes) are the same for every
segmentation of the client's stream, pipelined or not -/
theorem C04_http_segmentation (segs segs' : List Bytes) (h : segs.flatten = segs'.flatten) :
    eventsOf httpSvc .open segs = eventsOf httpSvc .open segs' :=
  C04_any_two_segmentations httpSvc httpSvc_mono httpSvc_progress .open segs segs' h

theorem oneSvc_mono (c : OneCfg) (s : HSSt) : Mono ((oneSvc c).next s) := by
  cases s with
  | «open» =>
    apply bind_mono _ _ httpHead_mono
    intro r
    match r with
    | some (m, t, 0) => exact pure_mono _
    | some (m, t, n + 1) => exact pure_mono _
    | none => exact pure_mono _
  | body m t n => exact bind_mono _ _ (takeN_mono _) (fun _ => pure_mono _)
  | closed => exact fail_mono

theorem oneSvc_progress (c : OneCfg) (s : HSSt) : Progress ((oneSvc c).next s) := by
  cases s with
  | «open» =>
    apply bind_progress _ _ httpHead_progress
    intro r
    match r with
    | some (m, t, 0) => exact pure_nogrow _
    | some (m, t, n + 1) => exact pure_nogrow _
    | none => exact pure_nogrow _
  | body m t n => exact bind_progress _ _ (takeN_progress _ (by omega)) (fun _ => pure_nogrow _)
  | closed => exact fail_progress

/-- elasticsearch, docker, eos, ethereum, cwmp (any configuration of the one-request machine): the reported request
does not depend on how the client's stream is segmented. -/
theorem C04_onerequest_segmentation (c : OneCfg) (segs segs' : List Bytes) (h : segs.flatten = segs'.flatten) :
    eventsOf (oneSvc c) .open segs = eventsOf (oneSvc c) .open segs' :=
  C04_any_two_segmentations (oneSvc c) (oneSvc_mono c) (oneSvc_progress c) .open segs segs' h

/-- … and at most one request is reported per connection: after the first request the machine is closed. -/
theorem C04_onerequest_closed (c : OneCfg) (b : Bytes) : (oneSvc c).next .closed b = none := rfl

end HT.Relay

/- OBLIGATIONS
HT.Relay.C04_http_segmentation
HT.Relay.C04_onerequest_segmentation
-/
