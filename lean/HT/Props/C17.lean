import HT.Model.Decoder
import HT.Lemmas.Decoder
/-!
# C17 — the binary decoder stays in bounds (decoder part)

Property theorems only; helper lemmas are in `HT.Lemmas.Decoder`.

Statement (properties.jsonl): the bounds-checked binary decoder never reads
outside its buffer and never fails abruptly for any sequence of operations with
any size arguments: a primitive read that does not fit returns zero, records an
error and consumes nothing, and one that fits returns exactly the big-endian
value at the cursor and advances by its size.
-/
namespace HT.Dec

/-- Every operation, with every argument, from every in-bounds state: no panic,
and the cursor stays in bounds. -/
theorem C17_step_no_panic (d : Dec) (op : Op) (h : d.Inv) :
    ∃ r, step d op = .ok r ∧ r.2.Inv ∧ r.2.data = d.data :=
  step_ok d op h

/-- Every operation *sequence* (any length) from a fresh decoder over any buffer:
no panic, cursor in bounds at the end. -/
theorem C17_run_no_panic (b : Bytes) (ops : List Op) :
    ∃ r, run (new b) ops = .ok r ∧ r.2.Inv ∧ r.2.data = b := by
  have := run_ok ops (new b) (new_inv b)
  simpa [new] using this

/-- A primitive read that fits returns exactly the big-endian value at the cursor
and advances by its size (`n = 1, 2, 4` for Byte, Int16, Int32/Uint32). -/
theorem C17_read_fits (d : Dec) (n : Nat) (h : d.Inv) (hf : d.off + n ≤ d.len) :
    readN d n = .ok (beNat ((d.data.drop d.off.toNat).take n), { d with off := d.off + n }) :=
  readN_fits d n h hf

/-- A primitive read that does not fit returns zero, records an error and
consumes nothing. -/
theorem C17_read_short (d : Dec) (n : Nat) (h : d.Inv) (hf : ¬ d.off + n ≤ d.len) :
    readN d n = .ok (0, { d with err := true }) :=
  readN_short d n h hf

/-- The same for the two peeks, which never move the cursor. -/
theorem C17_peek_fits (d : Dec) (n : Nat) (h : d.Inv) (hf : d.off + n ≤ d.len) :
    peekN d n = .ok (beNat ((d.data.drop d.off.toNat).take n), d) :=
  peekN_fits d n h hf

theorem C17_peek_short (d : Dec) (n : Nat) (h : d.Inv) (hf : ¬ d.off + n ≤ d.len) :
    peekN d n = .ok (0, { d with err := true }) :=
  peekN_short d n h hf

/-- `Copy(n)` that fits returns exactly the `n` bytes at the cursor and advances;
one that does not fit — including every negative `n` — returns nil, records an
error and consumes nothing. -/
theorem C17_copy_fits (d : Dec) (n : Int) (h : d.Inv) (h0 : 0 ≤ n) (hf : d.off + n ≤ d.len) :
    copy d n = .ok (some ((d.data.drop d.off.toNat).take n.toNat), { d with off := d.off + n }) :=
  copy_fits d n h h0 hf

theorem C17_copy_short (d : Dec) (n : Int) (h : d.Inv) (hf : n < 0 ∨ ¬ d.off + n ≤ d.len) :
    copy d n = .ok (none, { d with err := true }) :=
  copy_short d n h hf

/-- Go's `int` is 64-bit and `offset + size` may wrap; the guard decides the same
way as with unbounded integers for every in-bounds cursor and every 64-bit
argument, so modelling `int` as `Int` loses nothing here. -/
theorem C17_int_overflow_irrelevant (off len size : Int)
    (h0 : 0 ≤ off) (h1 : off ≤ len) (h2 : len < 9223372036854775808)
    (hs : -9223372036854775808 ≤ size ∧ size < 9223372036854775808) :
    (0 ≤ wrap64 (off + size) ∧ wrap64 (off + size) ≤ len) ↔ (0 ≤ off + size ∧ off + size ≤ len) :=
  wrap64_guard off len size h0 h1 h2 hs

/-- Record of the defect repaired by the `fix:` commit (known-findings.txt): the
code as it was (`copyRaw`, no sign check) panics on a negative size that keeps
`offset + size` inside the buffer. -/
theorem C17_counterexample_copy_negative_size :
    isPanic (copyRaw { off := 3, data := [1, 2, 3, 4], err := false } (-2)) = true := by decide

/-- … and `Data()` reached it with any length prefix ≥ 0x8000 once the cursor
is far enough into the buffer. -/
theorem C17_counterexample_data_length_ge_0x8000 :
    isPanic (dataRaw { off := 1, data := [0, 0xff, 0xff, 9], err := false }) = true := by decide

/-- non-vacuity: the hypotheses of the read theorems are met by a real state -/
example : (new [1, 2, 3]).Inv ∧ (new [1, 2, 3]).off + (2 : Nat) ≤ (new [1, 2, 3]).len := by
  decide

example : (run (new [0, 2, 0xab, 0xcd, 7]) [.data, .byte, .byte]).toOption.map (·.1)
    = some [.str (some [0xab, 0xcd]), .num 7, .num 0] := by decide

end HT.Dec

/- OBLIGATIONS
HT.Dec.C17_step_no_panic
HT.Dec.C17_run_no_panic
HT.Dec.C17_read_fits
HT.Dec.C17_read_short
HT.Dec.C17_peek_fits
HT.Dec.C17_peek_short
HT.Dec.C17_copy_fits
HT.Dec.C17_copy_short
HT.Dec.C17_int_overflow_irrelevant
HT.Dec.C17_counterexample_copy_negative_size
HT.Dec.C17_counterexample_data_length_ge_0x8000
-/
