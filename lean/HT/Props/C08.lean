import HT.Lemmas.Server
/-!
# C08 — connections go to the first configured service that accepts them, stream intact

A connection to a configured port is handed to exactly one service: the port's only
service, or else the first service in configured order that either has no payload
detector or whose detector accepts the first bytes the client sent; ports match on
protocol, port number and, when one is configured, address.  The chosen service reads
the client's byte stream complete and in order from its first byte — including the
bytes inspected for detection — and connections that match no port or no detector are
closed without any service seeing them.

"The first bytes the client sent" are the bytes of the first read (at most 1024), which
is what the detectors are shown.
-/
namespace HT.Srv

/-- The port's only service gets the connection, whatever it sends. -/
theorem C08_single_service (s : Svc) (peek : Option Bytes) : findService [s] peek = some (s, .raw) := rfl

/-- With several services: the first one that has no detector or whose detector accepts the
peeked bytes — and no service if none does. -/
theorem C08_chosen_is_first_acceptor (a b : Svc) (rest : List Svc) (p : Bytes) :
    (findService (a :: b :: rest) (some p)).map (·.1) = firstAcceptor p (a :: b :: rest) :=
  scan_first_acceptor p _ false

/-- The chosen service is always one of the services configured for that port. -/
theorem C08_chosen_is_configured (cs : List Svc) (peek : Option Bytes) (r : Svc × Via)
    (h : findService cs peek = some r) : r.1 ∈ cs :=
  findService_mem cs peek r h

/-- No port entry matches → no service sees the connection. -/
theorem C08_no_port_closed (peek : Option Bytes) : findService [] peek = none := rfl

/-- The chosen service reads the client's bytes complete and in order from the first byte, for
every segmentation, whether or not bytes were taken off the connection for detection. -/
theorem C08_stream_intact (segs : List Bytes) (via : Via) : serviceView segs via = segs.flatten :=
  serviceView_intact segs via

/-- At most one configured port entry matches a concrete local address (so the choice of the
entry does not depend on map iteration order). -/
theorem C08_unique_candidates (t : Table) (h : Incomparable t) (l : Addr) (hl : l.ip ≠ none)
    (i j : Nat) (hi : i < t.length) (hj : j < t.length) (hij : i < j)
    (h1 : compareAddr t[i].1 l = true) (h2 : compareAddr t[j].1 l = true) : False := by
  have hc := compareAddr_concrete_trans t[i].1 t[j].1 l hl h1 h2
  have := List.pairwise_iff_getElem.mp h i j hi hj hij
  rw [this] at hc; cases hc

/-- Record of the defect repaired by a `fix:` commit: after a detector-bearing service rejected,
a following detector-less service was given the raw connection, from which the peeked bytes
were already gone. -/
theorem C08_counterexample_peeked_bytes_lost :
    let segs : List Bytes := [[1, 2, 3], [4]]
    -- what the raw connection still holds after the peek
    segs.flatten.drop ((firstRead segs).getD []).length ≠ segs.flatten := by decide

/-- non-vacuity -/
example :
    let get : Svc := ⟨"get", some [71, 69, 84]⟩
    let plain : Svc := ⟨"plain", none⟩
    (findService [get, plain] (firstRead [[71], [69, 84]]), findService [get, plain] (firstRead [[71, 69, 84, 32]])) =
      (some (plain, .peeked), some (get, .peeked)) := by decide

end HT.Srv

/- OBLIGATIONS
HT.Srv.C08_single_service
HT.Srv.C08_chosen_is_first_acceptor
HT.Srv.C08_chosen_is_configured
HT.Srv.C08_no_port_closed
HT.Srv.C08_stream_intact
HT.Srv.C08_unique_candidates
HT.Srv.C08_counterexample_peeked_bytes_lost
-/
