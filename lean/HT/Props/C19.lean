import HT.Lemmas.Server
/-!
# C19 — exactly the well-formed port entries that name a service are listened on

For any configuration, the listener is asked to listen on exactly those port entries
that parse as protocol/port or protocol/host:port with protocol tcp or udp and a port
in 0..65535 and that name at least one defined service; when two entries denote the
same protocol and port with compatible addresses, the first wins and later ones are
ignored; unknown service names are skipped without affecting the others.  A connection
to a listened port can reach only the services listed for that entry.
-/
namespace HT.Srv

/-- The port parser accepts exactly the non-empty strings of decimal digits whose value is at most
65535 — for every string, not only the 65 536 canonical numerals. -/
theorem C19_port_parse (s : List Char) (n : Nat) :
    parsePort s = some n ↔
      s ≠ [] ∧ s.all Char.isDigit = true ∧ digitsValue s = n ∧ n ≤ 65535 := by
  unfold parsePort
  cases s with
  | nil => simp
  | cons c cs =>
    simp only [List.isEmpty_cons, Bool.false_eq_true, if_false, ne_eq, reduceCtorEq, not_false_eq_true, true_and]
    by_cases hd : (c :: cs).all Char.isDigit = true
    · rw [if_pos hd]
      by_cases hv : digitsValue (c :: cs) ≤ 65535
      · rw [if_pos hv]
        constructor
        · intro h; cases h; exact ⟨hd, rfl, hv⟩
        · rintro ⟨_, h3, _⟩; rw [h3]
      · rw [if_neg hv]
        constructor
        · intro h; cases h
        · rintro ⟨_, h3, h4⟩; rw [h3] at hv; exact absurd h4 hv
    · rw [if_neg hd]
      constructor
      · intro h; cases h
      · rintro ⟨h2, _⟩; exact absurd h2 hd

/-- One port string of one entry adds at most one row, only if it parses, names at least one
defined service (unknown names dropped, the others kept in order) and no earlier row is
for a compatible address; otherwise the table is unchanged. -/
theorem C19_listened_exact_step (defined services : List String) (t : Table) (ps : String) :
    ∃ l, addPort defined services t ps = t ++ l ∧ l.length ≤ 1 ∧
      ∀ kv ∈ l, toAddr ps = .ok kv.1 ∧ kv.2 = services.filter (fun s => defined.contains s) ∧ kv.2 ≠ [] ∧
        t.any (fun x => compareAddr x.1 kv.1) = false :=
  addPort_extends defined services t ps

/-- The first entry wins: processing further entries only appends rows; no row is ever changed
or removed. -/
theorem C19_first_wins (defined : List String) (es1 es2 : List PortEntry) :
    ∃ l, buildTable defined (es1 ++ es2) = buildTable defined es1 ++ l := by
  unfold buildTable
  rw [List.foldl_append]
  exact foldl_addEntry_prefix defined es2 _

/-- No two listened entries denote the same protocol and port with compatible addresses. -/
theorem C19_no_duplicates (defined : List String) (es : List PortEntry) :
    Incomparable (buildTable defined es) :=
  buildTable_incomparable defined es

/-- Unknown service names are skipped: every row names defined services only, at least one. -/
theorem C19_unknown_skipped (defined : List String) (es : List PortEntry) :
    ∀ kv ∈ buildTable defined es, kv.2 ≠ [] ∧ ∀ s ∈ kv.2, s ∈ defined :=
  buildTable_rowsOK defined es

/-- A connection to a listened port can reach only the services listed for that entry. -/
theorem C19_reach_only_listed (cs : List Svc) (peek : Option Bytes) (r : Svc × Via)
    (h : findService cs peek = some r) : r.1 ∈ cs :=
  findService_mem cs peek r h

/-- non-vacuity / boundary cases of the port parser and the host:port splitter -/
example : (parsePort ['0', '8', '0'], parsePort ['6', '5', '5', '3', '5'], parsePort ['6', '5', '5', '3', '6'],
           parsePort ['+', '8', '0'], parsePort []) = (some 80, some 65535, none, none, none) := by decide

example : splitHostPort ['1', '.', '2', ':', '8', '0'] = some (['1', '.', '2'], ['8', '0']) ∧
    splitHostPort ['8', '0'] = none ∧ splitHostPort [':', ':', '1', ':', '8', '0'] = none ∧
    splitHostPort ['[', ':', ':', '1', ']', ':', '8'] = some ([':', ':', '1'], ['8']) := by
  refine ⟨by decide, by decide, by decide, by decide⟩

end HT.Srv

/- OBLIGATIONS
HT.Srv.C19_port_parse
HT.Srv.C19_listened_exact_step
HT.Srv.C19_first_wins
HT.Srv.C19_no_duplicates
HT.Srv.C19_unknown_skipped
HT.Srv.C19_reach_only_listed
-/
