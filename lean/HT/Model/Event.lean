import HT.Base
/-!
# Model of events

`event/event.go`, `event/map.go`: an event is a key → value map (`sync.Map`), options store
into it; `Payload`, `SourceAddr`/`DestinationAddr`, `MergeFrom`, `CopyFrom`, `ToMap`.
Values are modelled by their shape only (`Val`).
-/
namespace HT.Ev

/-- the value shapes the services store -/
inductive Val where
  | str (s : String)
  | bytes (b : Bytes)       -- a Go string holding arbitrary bytes (e.g. `payload`)
  | int (n : Int)
  | other (tag : String)
  deriving Repr, DecidableEq

/-- the event: an association list kept duplicate-free by `store` -/
abbrev Event := List (String × Val)

/-- `Event.Store` : overwrite or add (the map has one value per key; order is immaterial) -/
def store (e : Event) (k : String) (v : Val) : Event := (k, v) :: e.filter (fun kv => kv.1 ≠ k)

def get? (e : Event) (k : String) : Option Val := (e.find? (·.1 = k)).map (·.2)

def has (e : Event) (k : String) : Bool := e.any (·.1 = k)

/-! ## hexadecimal -/

def hexNib (n : Nat) : Char := if n < 10 then Char.ofNat (n + 48) else Char.ofNat (n + 87)

def nibVal (c : Char) : Option Nat :=
  if 48 ≤ c.toNat ∧ c.toNat ≤ 57 then some (c.toNat - 48)
  else if 97 ≤ c.toNat ∧ c.toNat ≤ 102 then some (c.toNat - 87)
  else none

/-- `hex.EncodeToString` -/
def hexEncode : Bytes → List Char
  | [] => []
  | b :: bs => hexNib (b.toNat / 16) :: hexNib (b.toNat % 16) :: hexEncode bs

/-- `hex.DecodeString` on lower-case input -/
def hexDecode : List Char → Option Bytes
  | [] => some []
  | [_] => none
  | a :: b :: rest =>
    match nibVal a, nibVal b, hexDecode rest with
    | some x, some y, some r => some (UInt8.ofNat (x * 16 + y) :: r)
    | _, _, _ => none

/-- `event.Payload(data)` -/
def payload (e : Event) (data : Bytes) : Event :=
  store (store (store e "payload" (.bytes data)) "payload-hex" (.str (String.ofList (hexEncode data))))
    "payload-length" (.int data.length)

/-- the address kinds of `SourceAddr` / `DestinationAddr` -/
inductive Addr where
  | tcp (ip : String) (port : Nat)
  | udp (ip : String) (port : Nat)
  | other
  deriving Repr, DecidableEq

def addrOpt (prefix_ : String) (e : Event) (a : Addr) : Event :=
  match a with
  | .tcp ip port => store (store e (prefix_ ++ "-ip") (.str ip)) (prefix_ ++ "-port") (.int port)
  | .udp ip port => store (store e (prefix_ ++ "-ip") (.str ip)) (prefix_ ++ "-port") (.int port)
  | .other => e

def sourceAddr := addrOpt "source"
def destinationAddr := addrOpt "destination"

/-- `MergeFrom(data)`: only keys the event lacks are stored -/
def mergeFrom (e : Event) (data : List (String × Val)) : Event :=
  data.foldl (fun e kv => if has e kv.1 then e else store e kv.1 kv.2) e

/-- `CopyFrom(data)`: every key is stored, overwriting -/
def copyFrom (e : Event) (data : List (String × Val)) : Event :=
  data.foldl (fun e kv => store e kv.1 kv.2) e

/-- `ToMap` / `MarshalJSON`: the keys of the JSON object -/
def keys (e : Event) : List String := e.map (·.1)

/-! ## line protocol
`ev payload <hex>` → `hex=<payload-hex> len=<n> dec=<decoded hex>`
`ev addr <src|dst> <tcp|udp|other> <ip> <port>` → `ip=… port=…` or `-`
`ev merge|copy <k=v,…|-> <k=v,…|->` → resulting `k=v,…` sorted by key -/

def kvs (s : String) : List (String × Val) :=
  if s = "-" then [] else (s.splitOn ",").filterMap fun p =>
    match p.splitOn "=" with
    | [k, v] => some (k, Val.str v)
    | _ => none

def valStr : Val → String
  | .str s => s
  | .bytes b => hex b
  | .int n => toString n
  | .other t => t

def insertSorted (x : String × String) : List (String × String) → List (String × String)
  | [] => [x]
  | y :: ys => if x.1 < y.1 then x :: y :: ys else y :: insertSorted x ys

def showEvent (e : Event) : String :=
  let sorted := (e.map fun kv => (kv.1, valStr kv.2)).foldl (fun acc x => insertSorted x acc) []
  if sorted.isEmpty then "-" else ",".intercalate (sorted.map fun kv => kv.1 ++ "=" ++ kv.2)

def driver (args : List String) : String :=
  match args with
  | ["payload", h] =>
    match unhex h with
    | some b =>
      let e := payload [] b
      let hx := match get? e "payload-hex" with | some (.str s) => s | _ => "?"
      let ln := match get? e "payload-length" with | some (.int n) => toString n | _ => "?"
      let dec := match hexDecode hx.toList with | some d => hex d | none => "undecodable"
      s!"hex={if hx = "" then "-" else hx} len={ln} dec={dec}"
    | none => "bad-op"
  | ["addr", side, kind, ip, port] =>
    let a := match kind, port.toNat? with
      | "tcp", some p => Addr.tcp ip p
      | "udp", some p => Addr.udp ip p
      | _, _ => Addr.other
    showEvent (addrOpt (if side = "src" then "source" else "destination") [] a)
  | ["merge", ex, data] => showEvent (mergeFrom (kvs ex) (kvs data))
  | ["copy", ex, data] => showEvent (copyFrom (kvs ex) (kvs data))
  | _ => "bad-op"

end HT.Ev
