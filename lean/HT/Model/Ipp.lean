import HT.Base
/-!
# Model of the IPP message codec and request handler

`services/ipp/{message,group,values}.go` as after the `fix:` commits in known-findings.txt:
`ippMsg.decode` / `attribGroup.decode` / the four value decoders (with their one-byte
look-ahead for additional values), `encode`, and `ippHandler` with the fields `Handle` puts
in the event.

The decoder (`services/decoder`) keeps a sticky error and the IPP code returns it at the end,
so "some read failed" and "decode returns an error" coincide; the model therefore reads from
the list of remaining bytes in the `Option` monad.  `Seek(-1)`/`Seek(-2)` (un-reading the
look-ahead) is the model returning the list it was given.  32- and 16-bit integers are kept as
their unsigned bit patterns (the Go code never does arithmetic on them; the sign only matters
for the length of `Data()`, where a negative length is an error).
-/
namespace HT.Ipp

/-! ## readers and writers -/

def rd8 : Bytes → Option (UInt8 × Bytes)
  | a :: r => some (a, r)
  | [] => none

def rd16 : Bytes → Option (Nat × Bytes)
  | a :: b :: r => some (a.toNat * 256 + b.toNat, r)
  | _ => none

def rd32 : Bytes → Option (Nat × Bytes)
  | a :: b :: c :: d :: r => some (((a.toNat * 256 + b.toNat) * 256 + c.toNat) * 256 + d.toNat, r)
  | _ => none

/-- `Data()`: signed 16-bit length, then that many bytes -/
def rdData (b : Bytes) : Option (Bytes × Bytes) :=
  match rd16 b with
  | some (l, r) => if l ≥ 32768 then none else if r.length < l then none else some (r.take l, r.drop l)
  | none => none

def enc16 (n : Nat) : Bytes := [UInt8.ofNat (n / 256), UInt8.ofNat (n % 256)]
def enc32 (n : Nat) : Bytes :=
  [UInt8.ofNat (n / 16777216), UInt8.ofNat (n / 65536 % 256), UInt8.ofNat (n / 256 % 256), UInt8.ofNat (n % 256)]
def encData (s : Bytes) : Bytes := enc16 s.length ++ s

/-! ## values -/

inductive Val where
  | ints (tag : UInt8) (name : Bytes) (vals : List Nat)
  | strs (tag : UInt8) (name : Bytes) (vals : List Bytes)
  | bools (tag : UInt8) (name : Bytes) (vals : List Bool)
  | range (tag : UInt8) (name : Bytes) (lo hi : Nat)
  deriving Repr, DecidableEq

inductive Kind where | int | bool | str | range
  deriving Repr, DecidableEq

/-- the `switch vtag` of `attribGroup.decode` -/
def kindOf (t : UInt8) : Option Kind :=
  if t == 0x21 || t == 0x23 then some .int
  else if t == 0x22 then some .bool
  else if t == 0x33 then some .range
  else if t == 0x44 || t == 0x47 || t == 0x45 || t == 0x48 || t == 0x49 || t == 0x41 || t == 0x42 then some .str
  else none

/-- value readers: the (ignored) 16-bit value length, then the value -/
def rdInt (b : Bytes) : Option (Nat × Bytes) :=
  match rd16 b with
  | some (_, r) => rd32 r
  | none => none

def rdBool (b : Bytes) : Option (Bool × Bytes) :=
  match rd16 b with
  | some (_, r) => match rd8 r with
    | some (x, r2) => some (x == 1, r2)
    | none => none
  | none => none

/-- the additional-values loop shared by `valInt/valStr/valBool.decode`:
read the next tag; while it repeats and the name length is zero, read one more value; un-read
what was looked at -/
def more {α : Type} (rdV : Bytes → Option (α × Bytes)) (tag : UInt8) : Nat → Bytes → Option (List α × Bytes)
  | 0, _ => none
  | _ + 1, [] => none
  | f + 1, t :: r =>
    if t != tag then some ([], t :: r)
    else match rd16 r with
      | none => none
      | some (l, r2) =>
        if l != 0 then some ([], t :: r)
        else match rdV r2 with
          | none => none
          | some (v, r3) =>
            match more rdV tag f r3 with
            | none => none
            | some (vs, r4) => some (v :: vs, r4)

/-- one attribute, the tag already read -/
def decodeVal (k : Kind) (tag : UInt8) (fuel : Nat) (b : Bytes) : Option (Val × Bytes) :=
  match rdData b with
  | none => none
  | some (name, r) =>
    match k with
    | .int =>
      match rdInt r with
      | none => none
      | some (v, r2) => match more rdInt tag fuel r2 with
        | none => none
        | some (vs, r3) => some (.ints tag name (v :: vs), r3)
    | .str =>
      match rdData r with
      | none => none
      | some (v, r2) => match more rdData tag fuel r2 with
        | none => none
        | some (vs, r3) => some (.strs tag name (v :: vs), r3)
    | .bool =>
      match rdBool r with
      | none => none
      | some (v, r2) => match more rdBool tag fuel r2 with
        | none => none
        | some (vs, r3) => some (.bools tag name (v :: vs), r3)
    | .range =>
      match rd16 r with
      | none => none
      | some (_, r1) => match rd32 r1 with
        | none => none
        | some (lo, r2) => match rd32 r2 with
          | none => none
          | some (hi, r3) => some (.range tag name lo hi, r3)

structure Group where
  tag : UInt8
  vals : List Val
  deriving Repr, DecidableEq

/-- `attribGroup.decode`: attributes until a delimiter tag (≤ 5), which is put back -/
def groupVals : Nat → Bytes → Option (List Val × Bytes)
  | 0, _ => none
  | _ + 1, [] => none
  | f + 1, t :: r =>
    if t.toNat ≤ 5 then some ([], t :: r)
    else match kindOf t with
      | none => none
      | some k =>
        match decodeVal k t f r with
        | none => none
        | some (v, r2) =>
          match groupVals f r2 with
          | none => none
          | some (vs, r3) => some (v :: vs, r3)

/-- the group loop of `ippMsg.decode`: until the end-of-attributes tag (3) -/
def groups : Nat → Bytes → Option (List Group × Bytes)
  | 0, _ => none
  | _ + 1, [] => none
  | f + 1, t :: r =>
    if t == 3 then some ([], r)
    else match groupVals f r with
      | none => none
      | some (vs, r2) =>
        match groups f r2 with
        | none => none
        | some (gs, r3) => some ({ tag := t, vals := vs } :: gs, r3)

structure Msg where
  maj : UInt8
  min : UInt8
  op : Nat          -- operation id in a request, status code in a reply (16-bit pattern)
  rid : Nat         -- request id (32-bit pattern)
  groups : List Group
  data : Bytes      -- whatever follows the end-of-attributes tag
  deriving Repr, DecidableEq

/-- `ippMsg.decode` -/
def decode (raw : Bytes) : Option Msg :=
  match raw with
  | maj :: min :: r0 =>
    match rd16 r0 with
    | none => none
    | some (op, r1) =>
      match rd32 r1 with
      | none => none
      | some (rid, r2) =>
        match groups (r2.length + 1) r2 with
        | none => none
        | some (gs, d) => some { maj := maj, min := min, op := op, rid := rid, groups := gs, data := d }
  | _ => none

/-! ## encoding (`encode` of the value types, the group and the message; also what a client sends) -/

def encInt (n : Nat) : Bytes := enc16 4 ++ enc32 n
def encBool (b : Bool) : Bytes := enc16 1 ++ [if b then 1 else 0]

def encRest {α : Type} (tag : UInt8) (encOne : α → Bytes) : List α → Bytes
  | [] => []
  | v :: vs => tag :: (enc16 0 ++ encOne v) ++ encRest tag encOne vs

def encAttr {α : Type} (tag : UInt8) (name : Bytes) (encOne : α → Bytes) : List α → Bytes
  | [] => []
  | v :: vs => tag :: (encData name ++ encOne v) ++ encRest tag encOne vs

def encVal : Val → Bytes
  | .ints tag name vals => encAttr tag name encInt vals
  | .strs tag name vals => encAttr tag name encData vals
  | .bools tag name vals => encAttr tag name encBool vals
  | .range tag name lo hi => tag :: (encData name ++ enc16 8 ++ enc32 lo ++ enc32 hi)

def encVals : List Val → Bytes
  | [] => []
  | v :: vs => encVal v ++ encVals vs

def encGroup (g : Group) : Bytes := g.tag :: encVals g.vals

def encGroups : List Group → Bytes
  | [] => []
  | g :: gs => encGroup g ++ encGroups gs

/-- the bytes of a request: header, groups, end tag, document -/
def encode (m : Msg) : Bytes :=
  m.maj :: m.min :: (enc16 m.op ++ enc32 m.rid ++ encGroups m.groups ++ 3 :: m.data)

/-! ## the handler -/

def Val.tag : Val → UInt8
  | .ints t _ _ => t | .strs t _ _ => t | .bools t _ _ => t | .range t _ _ _ => t

def Val.name : Val → Bytes
  | .ints _ n _ => n | .strs _ n _ => n | .bools _ n _ => n | .range _ n _ _ => n

/-- the first operation-attributes group (tag 1) -/
def opGroup (m : Msg) : Option Group := m.groups.find? (fun g => g.tag == 1)

def isCharsetOrLang (v : Val) : Bool := v.tag == 0x47 || v.tag == 0x48

/-- the groups of the reply before the end tag; `modelG` stands for the encoded printer
description (a package-level value the service constructor appends to) -/
def replyGroups (m : Msg) : List Group :=
  match opGroup m with
  | some g => [{ tag := g.tag, vals := g.vals.filter isCharsetOrLang }]
  | none => []

def opPart (op : Nat) (modelG : Bytes) : Bytes :=
  if op == 0x000b then modelG
  else if op == 0x400b then [4]
  else []

/-- `ippHandler(...).encode()` -/
def reply (m : Msg) (modelG : Bytes) : Bytes :=
  m.maj :: m.min :: (enc16 0 ++ enc32 m.rid ++ encGroups (replyGroups m) ++ opPart m.op modelG ++ [3])

/-- the header and first group of the reply as a message of its own (used to state the echo) -/
def replyMsg (m : Msg) : Msg :=
  { maj := m.maj, min := m.min, op := 0, rid := m.rid, groups := replyGroups m, data := [] }

/-- one step of the loop of `setPrintJobResponse` for one attribute name -/
def jobStep (name : Bytes) (acc : Bytes) (v : Val) : Bytes :=
  match v with
  | .strs _ n (x :: _) => if n == name then x else acc
  | _ => acc

/-- `setPrintJobResponse`: the first value of the last string attribute of the given name -/
def jobField (vals : List Val) (name : Bytes) : Bytes := vals.foldl (jobStep name) []

structure EvFields where
  uri : Bytes
  user : Bytes
  job : Bytes
  data : Bytes
  deriving Repr, DecidableEq

/-- the attribute names as bytes ("printer-uri", "requesting-user-name", "job-name") -/
def nPrinterUri : Bytes := [112, 114, 105, 110, 116, 101, 114, 45, 117, 114, 105]
def nUserName : Bytes := [114, 101, 113, 117, 101, 115, 116, 105, 110, 103, 45, 117, 115, 101, 114, 45, 110, 97, 109, 101]
def nJobName : Bytes := [106, 111, 98, 45, 110, 97, 109, 101]

def evFields (m : Msg) : EvFields :=
  if m.op == 2 then
    match opGroup m with
    | some g => { uri := jobField g.vals nPrinterUri, user := jobField g.vals nUserName,
                  job := jobField g.vals nJobName, data := m.data }
    | none => { uri := [], user := [], job := [], data := m.data }
  else { uri := [], user := [], job := [], data := m.data }

/-! ## well-formed requests (what the property's generator produces) -/

def nameOk (n : Bytes) : Bool := 0 < n.length && n.length < 32768

def Val.wf : Val → Bool
  | .ints tag name vals => kindOf tag == some .int && nameOk name && !vals.isEmpty && vals.all (· < 4294967296)
  | .strs tag name vals => kindOf tag == some .str && nameOk name && !vals.isEmpty && vals.all (·.length < 32768)
  | .bools tag name vals => kindOf tag == some .bool && nameOk name && !vals.isEmpty
  | .range tag name lo hi => kindOf tag == some .range && nameOk name && lo < 4294967296 && hi < 4294967296

def Group.wf (g : Group) : Bool := g.tag.toNat ≤ 5 && g.tag != 3 && g.vals.all Val.wf

def Msg.wf (m : Msg) : Bool := m.op < 65536 && m.rid < 4294967296 && m.groups.all Group.wf

/-! ## line protocol
`ipp dec <hex>` → rendering of the decoded message or `error`
`ipp reply <hex> <model group hex>` → `<reply hex> <uri hex> <user hex> <job hex> <data hex>` or `error` -/

def hexOr (b : Bytes) : String := hex b

def showVal : Val → String
  | .ints t n vs => s!"i{t.toNat}:{hex n}=" ++ ",".intercalate (vs.map toString)
  | .strs t n vs => s!"s{t.toNat}:{hex n}=" ++ ",".intercalate (vs.map hex)
  | .bools t n vs => s!"b{t.toNat}:{hex n}=" ++ ",".intercalate (vs.map b01)
  | .range t n lo hi => s!"r{t.toNat}:{hex n}={lo}-{hi}"

def showGroup (g : Group) : String := s!"g{g.tag.toNat}[" ++ ";".intercalate (g.vals.map showVal) ++ "]"

def showMsg (m : Msg) : String :=
  " ".intercalate ([s!"v{m.maj.toNat}.{m.min.toNat}", s!"op={m.op}", s!"rid={m.rid}"] ++ m.groups.map showGroup ++ ["data=" ++ hex m.data])

def driver (args : List String) : String :=
  match args with
  | ["dec", h] =>
    match unhex h with
    | none => "bad-op"
    | some b => match decode b with
      | none => "error"
      | some m => showMsg m
  | ["reply", h, mg] =>
    match unhex h, unhex mg with
    | some b, some g => match decode b with
      | none => "error"
      | some m =>
        let e := evFields m
        " ".intercalate [hex (reply m g), "u" ++ hex e.uri, "n" ++ hex e.user, "j" ++ hex e.job, "d" ++ hex e.data]
    | _, _ => "bad-op"
  | _ => "bad-op"

end HT.Ipp
