import HT.Base
/-!
# Models of the raw listener's packet parsers

`listener/canary/{ethernet,ipv4,tcp,udp,icmp}`: one function per Go `Unmarshal`,
guards in source order.  Result `Except Fault (Option α)`: `.error .panic` where
the Go code panics (index/slice out of range), `.ok none` where it returns an
error, `.ok (some h)` on success.
-/
namespace HT.Pkt

/-- big-endian 16-bit field at offset `i`; callers have checked the length -/
def be16 (b : Bytes) (i : Nat) : Nat := (b.getD i 0).toNat * 256 + (b.getD (i + 1) 0).toNat
def be32 (b : Bytes) (i : Nat) : Nat :=
  ((b.getD i 0).toNat * 256 + (b.getD (i + 1) 0).toNat) * 65536 +
  ((b.getD (i + 2) 0).toNat * 256 + (b.getD (i + 3) 0).toNat)

/-! ## ethernet -/
structure Eth where
  dst : Bytes
  src : Bytes
  typ : Nat
  payload : Bytes
  deriving Repr, DecidableEq

/-- `ethernet.Frame.Unmarshal`: no length check — `data[12:14]` panics below 14 bytes -/
def ethParse (b : Bytes) : Except Fault Eth :=
  if 14 ≤ b.length then
    .ok { dst := b.take 6, src := (b.drop 6).take 6, typ := be16 b 12, payload := b.drop 14 }
  else .error .panic

/-! ## IPv4 -/
structure IPv4 where
  version : Nat
  hdrlen : Nat
  totalLen : Nat
  proto : Nat
  src : Bytes
  dst : Bytes
  options : Bytes
  payload : Bytes
  deriving Repr, DecidableEq

/-- `ipv4.Header.Unmarshal` (the non-BSD arm of the `runtime.GOOS` switch).
`guardTotalLen` is the check `TotalLen < HeaderLen → error` added by the fix:
without it `b[20:TotalLen]` panics for `TotalLen < 20`. -/
def ipv4ParseG (guardTotalLen : Bool) (b : Bytes) : Except Fault (Option IPv4) :=
  if b.length < 20 then .ok none
  else
    let hdrlen := ((b.getD 0 0).toNat % 16) * 4
    if hdrlen > b.length then .ok none
    else
      let totalLen := be16 b 2
      let options := if hdrlen - 20 > 0 then ((b.drop 20).take (hdrlen - 20)) else []
      if totalLen > b.length then .ok none
      else if guardTotalLen ∧ totalLen < 20 then .ok none
      else do
        let payload ← slice b 20 totalLen
        pure (some { version := (b.getD 0 0).toNat / 16, hdrlen := hdrlen, totalLen := totalLen,
                     proto := (b.getD 9 0).toNat,
                     src := (b.drop 12).take 4, dst := (b.drop 16).take 4,
                     options := options, payload := payload })

def ipv4Parse := ipv4ParseG true
def ipv4ParseRaw := ipv4ParseG false

/-! ## UDP, ICMP -/
structure Udp where
  sport : Nat
  dport : Nat
  length : Nat
  checksum : Nat
  payload : Bytes
  deriving Repr, DecidableEq

def udpParse (b : Bytes) : Except Fault (Option Udp) :=
  if b.length < 8 then .ok none
  else if b.length ≠ be16 b 4 then .ok none
  else .ok (some { sport := be16 b 0, dport := be16 b 2, length := be16 b 4, checksum := be16 b 6,
                   payload := b.drop 8 })

structure Icmp where
  typeCode : Nat
  checksum : Nat
  id : Nat
  seq : Nat
  deriving Repr, DecidableEq

def icmpParse (b : Bytes) : Except Fault (Option Icmp) :=
  if b.length < 8 then .ok none
  else .ok (some { typeCode := be16 b 0, checksum := be16 b 2, id := be16 b 4, seq := be16 b 6 })

/-! ## TCP -/
structure TcpOpt where
  kind : Nat
  len : Nat
  data : Bytes
  deriving Repr, DecidableEq

structure Tcp where
  sport : Nat
  dport : Nat
  seq : Nat
  ack : Nat
  dataOff : Nat
  ecn : Nat
  ctrl : Nat
  window : Nat
  checksum : Nat
  urgent : Nat
  options : List TcpOpt
  padding : Bytes
  payload : Bytes
  deriving Repr, DecidableEq

/-- outcome of the option loop -/
inductive OptRes where
  | done (opts : List TcpOpt) (padding : Bytes)
  | err (opts : List TcpOpt)            -- `return fmt.Errorf(...)`, options parsed so far kept
  deriving Repr, DecidableEq

/-- The option loop of `tcp.Header.Unmarshal` over the option bytes, structural on
fuel (each turn consumes at least one byte, so `data.length` turns suffice).
`guardLen` is the check for a lone kind byte added by the fix: without it
`data[1]` panics when one byte is left and the kind is neither 0 nor 1. -/
def optLoop (guardLen : Bool) : Nat → Bytes → List TcpOpt → Except Fault OptRes
  | 0, _, acc => .ok (.done acc.reverse [])
  | fuel + 1, data, acc =>
    match data with
    | [] => .ok (.done acc.reverse [])
    | k :: rest =>
      if k.toNat = 0 then .ok (.done ({ kind := 0, len := 1, data := [] } :: acc).reverse rest)
      else if k.toNat = 1 then optLoop guardLen fuel rest ({ kind := 1, len := 1, data := [] } :: acc)
      else
        match rest with
        | [] => if guardLen then .ok (.err ({ kind := k.toNat, len := 0, data := [] } :: acc).reverse)
                else .error .panic
        | l :: _ =>
          if l.toNat < 2 then .ok (.err ({ kind := k.toNat, len := l.toNat, data := [] } :: acc).reverse)
          else if l.toNat > data.length then
            .ok (.err ({ kind := k.toNat, len := l.toNat, data := [] } :: acc).reverse)
          else
            optLoop guardLen fuel (data.drop l.toNat)
              ({ kind := k.toNat, len := l.toNat, data := (data.drop 2).take (l.toNat - 2) } :: acc)

/-- `tcp.Header.Unmarshal`.  Returns the header as filled in so far and whether an
error was returned (the caller `UnmarshalWithChecksum` may discard the error).
`guard` = the two length checks added by the fix (segment shorter than 20 bytes;
lone option kind byte). -/
def tcpParseG (guard : Bool) (b : Bytes) : Except Fault (Tcp × Bool) :=
  if b.length < 20 then
    if guard then
      .ok ({ sport := 0, dport := 0, seq := 0, ack := 0, dataOff := 0, ecn := 0, ctrl := 0, window := 0,
             checksum := 0, urgent := 0, options := [], padding := [], payload := [] }, true)
    else .error .panic
  else
    let h : Tcp := { sport := be16 b 0, dport := be16 b 2, seq := be32 b 4, ack := be32 b 8,
                     dataOff := (b.getD 12 0).toNat / 16, ecn := ((b.getD 13 0).toNat / 64) % 8,
                     ctrl := (b.getD 13 0).toNat % 64, window := be16 b 14, checksum := be16 b 16,
                     urgent := be16 b 18, options := [], padding := [], payload := [] }
    if h.dataOff < 5 then .ok (h, true)
    else
      let dataStart := h.dataOff * 4
      if dataStart > b.length then .ok (h, true)
      else
        let h := { h with payload := b.drop dataStart }
        let optBytes := (b.drop 20).take (dataStart - 20)
        match optLoop guard optBytes.length optBytes [] with
        | .error f => .error f
        | .ok (.done opts pad) => .ok ({ h with options := opts, padding := pad }, false)
        | .ok (.err opts) => .ok ({ h with options := opts }, true)

def tcpParse := tcpParseG true
def tcpParseRaw := tcpParseG false

/-! ## TCP checksum (`tcp.csum`) -/

/-- sum of the 16-bit big-endian words of `data`, skipping the word at byte offset 16,
an odd trailing byte counted as the high byte -/
def wordSum : Nat → Bytes → Nat
  | _, [] => 0
  | _, [x] => x.toNat * 256
  | i, x :: y :: rest => (if i = 16 then 0 else x.toNat * 256 + y.toNat) + wordSum (i + 2) rest

def fold16 (n : Nat) : Nat :=
  if _h : n ≤ 65535 then n else fold16 (n / 65536 + n % 65536)
termination_by n
decreasing_by omega

/-- `csum(data, src, dst)`; all arithmetic is far below 2^32 for segments ≤ 64 KiB so
`uint32` never wraps (proved in `HT.Lemmas.Checksum`). -/
def tcpCsum (data src dst : Bytes) : Nat :=
  let s := be16 src 0 + be16 src 2 + be16 dst 0 + be16 dst 2 + 6 + data.length + wordSum 0 data
  65535 - fold16 s

/-! ## line protocol -/

def optsStr (os : List TcpOpt) : String :=
  "[" ++ ",".intercalate (os.map fun o => s!"{o.kind}:{o.len}:{hex o.data}") ++ "]"

def exceptStr {α : Type} (f : α → String) : Except Fault (Option α) → String
  | .error e => faultStr e
  | .ok none => "err"
  | .ok (some a) => "ok " ++ f a

def ethStr (r : Except Fault Eth) : String :=
  match r with
  | .error e => faultStr e
  | .ok e => s!"ok dst={hex e.dst} src={hex e.src} type={e.typ} pay={hex e.payload}"

def ipv4Str (h : IPv4) : String :=
  s!"v={h.version} hl={h.hdrlen} tl={h.totalLen} p={h.proto} src={hex h.src} dst={hex h.dst} opts={hex h.options} pay={hex h.payload}"

def udpStr (h : Udp) : String :=
  s!"sp={h.sport} dp={h.dport} len={h.length} ck={h.checksum} pay={hex h.payload}"

def icmpStr (h : Icmp) : String := s!"tc={h.typeCode} ck={h.checksum} id={h.id} seq={h.seq}"

def tcpStr (r : Except Fault (Tcp × Bool)) : String :=
  match r with
  | .error e => faultStr e
  | .ok (h, err) =>
    (if err then "err " else "ok ") ++
    s!"sp={h.sport} dp={h.dport} seq={h.seq} ack={h.ack} off={h.dataOff} ecn={h.ecn} ctrl={h.ctrl} win={h.window} ck={h.checksum} urg={h.urgent} opts={optsStr h.options} pad={hex h.padding} pay={hex h.payload}"

def driver (args : List String) : String :=
  match args with
  | ["eth", h] => match unhex h with | some b => ethStr (ethParse b) | none => "bad-op"
  | ["ipv4", h] => match unhex h with | some b => exceptStr ipv4Str (ipv4Parse b) | none => "bad-op"
  | ["udp", h] => match unhex h with | some b => exceptStr udpStr (udpParse b) | none => "bad-op"
  | ["icmp", h] => match unhex h with | some b => exceptStr icmpStr (icmpParse b) | none => "bad-op"
  | ["tcp", h] => match unhex h with | some b => tcpStr (tcpParse b) | none => "bad-op"
  | ["csum", h, s, d] =>
    match unhex h, unhex s, unhex d with
    | some b, some s, some d => toString (tcpCsum b s d)
    | _, _, _ => "bad-op"
  | _ => "bad-op"

end HT.Pkt
