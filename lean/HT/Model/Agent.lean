import HT.Base
/-!
# Model of the agent tunnel

`listener/agent/{messages,encoder,decoder}.go` (the message codec: little-endian 16-bit lengths,
address = protocol byte + length-prefixed IP + 16-bit port), `conn2.go` (framing: type byte,
16-bit length, body) and the session loop of `agent.go` with `connections.go` /
`connection.go` (the table of virtual connections, delivery of data, end of stream) — as after
the `fix:` commits in known-findings.txt.
-/
namespace HT.Agent

/-! ## codec -/

structure AAddr where
  udp : Bool            -- protocol byte 17 (udp) or 6 (tcp)
  ip : Bytes
  port : Nat
  deriving Repr, DecidableEq

inductive Msg where
  | hello (l r : AAddr)
  | data (l r : AAddr) (p : Bytes)
  | dgram (l r : AAddr) (p : Bytes)
  | eof (l r : AAddr)
  | ping
  deriving Repr, DecidableEq

def enc16 (n : Nat) : Bytes := [UInt8.ofNat (n % 256), UInt8.ofNat (n / 256)]
def encData (b : Bytes) : Bytes := enc16 b.length ++ b
def encAddr (a : AAddr) : Bytes := [if a.udp then 17 else 6] ++ encData a.ip ++ enc16 a.port

def typeByte : Msg → UInt8
  | .hello _ _ => 0 | .data _ _ _ => 1 | .eof _ _ => 4 | .ping => 5 | .dgram _ _ _ => 6

def encBody : Msg → Bytes
  | .hello l r => encAddr l ++ encAddr r
  | .data l r p => encAddr l ++ encAddr r ++ encData p
  | .dgram l r p => encAddr l ++ encAddr r ++ encData p
  | .eof l r => encAddr l ++ encAddr r
  | .ping => []

/-- a frame on the wire: type, body length, body -/
def frame (m : Msg) : Bytes := typeByte m :: (enc16 (encBody m).length ++ encBody m)

/-- readers: value and the rest of the input -/
def dec16 : Bytes → Option (Nat × Bytes)
  | a :: b :: rest => some (a.toNat + 256 * b.toNat, rest)
  | _ => none

def decData (b : Bytes) : Option (Bytes × Bytes) :=
  match dec16 b with
  | some (n, rest) => if rest.length < n then none else some (rest.take n, rest.drop n)
  | none => none

def decAddr : Bytes → Option (AAddr × Bytes)
  | p :: rest =>
    if p.toNat ≠ 6 ∧ p.toNat ≠ 17 then none
    else match decData rest with
      | some (ip, rest2) =>
        match dec16 rest2 with
        | some (port, rest3) => some ({ udp := p.toNat = 17, ip := ip, port := port }, rest3)
        | none => none
      | none => none
  | [] => none

def decBody (t : Nat) (b : Bytes) : Option Msg :=
  if t = 5 then some .ping
  else match decAddr b with
    | some (l, r1) =>
      match decAddr r1 with
      | some (r, r2) =>
        if t = 0 then some (.hello l r)
        else if t = 4 then some (.eof l r)
        else if t = 1 ∨ t = 6 then
          match decData r2 with
          | some (p, _) => some (if t = 1 then .data l r p else .dgram l r p)
          | none => none
        else none
      | none => none
    | none => none

/-- parse one frame off the front of the stream -/
def decFrame : Bytes → Option (Msg × Bytes)
  | t :: rest =>
    match dec16 rest with
    | some (n, rest2) => if rest2.length < n then none else (decBody t.toNat (rest2.take n)).map (·, rest2.drop n)
    | none => none
  | [] => none

/-! ### the two handshake messages (`Handshake`, `HandshakeResponse`) -/

structure Hs where
  ver : Nat
  version : Bytes
  short : Bytes
  commit : Bytes
  token : Bytes
  deriving Repr, DecidableEq

def encHs (h : Hs) : Bytes :=
  enc16 h.ver ++ (encData h.version ++ (encData h.short ++ (encData h.commit ++ encData h.token)))

def decHs (b : Bytes) : Option Hs :=
  match dec16 b with
  | none => none
  | some (ver, r0) =>
    match decData r0 with
    | none => none
    | some (version, r1) =>
      match decData r1 with
      | none => none
      | some (short, r2) =>
        match decData r2 with
        | none => none
        | some (commit, r3) =>
          match decData r3 with
          | none => none
          | some (token, _) => some { ver := ver, version := version, short := short, commit := commit, token := token }

def encAddrs : List AAddr → Bytes
  | [] => []
  | a :: as => encAddr a ++ encAddrs as

/-- `HandshakeResponse`: a count byte, then that many addresses -/
def encResp (as : List AAddr) : Bytes := UInt8.ofNat as.length :: encAddrs as

def decAddrs : Nat → Bytes → Option (List AAddr)
  | 0, _ => some []
  | n + 1, b =>
    match decAddr b with
    | none => none
    | some (a, rest) => (decAddrs n rest).map (a :: ·)

def decResp : Bytes → Option (List AAddr)
  | n :: rest => decAddrs n.toNat rest
  | [] => none

/-- parse a byte stream frame by frame (`fuel` ≥ the number of frames) -/
def decFrames : Nat → Bytes → Option (List Msg)
  | 0, b => if b.isEmpty then some [] else none
  | fuel + 1, b =>
    if b.isEmpty then some []
    else match decFrame b with
      | some (m, rest) => (decFrames fuel rest).map (m :: ·)
      | none => none

/-! ### the write path: `agentConnection.Write` splits what a service writes into messages -/

/-- the payloads one `Write(b)` is sent as: at most `m` bytes each, in order; an empty write is one empty message -/
def chunksAux (m : Nat) : Nat → Bytes → List Bytes
  | 0, b => [b]
  | f + 1, b => if b.length ≤ m then [b] else b.take m :: chunksAux m f (b.drop m)

def chunks (m : Nat) (b : Bytes) : List Bytes := chunksAux m b.length b

/-! ## the session: table of virtual connections -/

/-- how the table compares addresses (`Addr.String()`): IP and port -/
def sameAddr (a b : AAddr) : Bool := a.ip = b.ip && a.port = b.port

structure VConn where
  l : AAddr
  r : AAddr
  buf : Bytes          -- every byte surfaced to the service so far, in order
  closed : Bool
  deriving Repr, DecidableEq

/-- the connection a message for (l, r) is delivered to: the first live one with these addresses -/
def hits (l r : AAddr) (c : VConn) : Bool := !c.closed && sameAddr c.l l && sameAddr c.r r

/-- apply `f` to the first element satisfying `q` -/
def updFirst (q : VConn → Bool) (f : VConn → VConn) : List VConn → List VConn
  | [] => []
  | c :: cs => if q c then f c :: cs else c :: updFirst q f cs

/-- one message through the session loop (datagrams surface as their own one-shot connection) -/
def step (s : List VConn) : Msg → List VConn
  | .hello l r => s ++ [{ l := l, r := r, buf := [], closed := false }]
  | .data l r p => updFirst (hits l r) (fun c => { c with buf := c.buf ++ p }) s
  | .eof l r => updFirst (hits l r) (fun c => { c with closed := true }) s
  | .dgram l r p => s ++ [{ l := l, r := r, buf := p, closed := true }]
  | .ping => s

def run (s : List VConn) (ms : List Msg) : List VConn := ms.foldl step s

/-- the agent disconnecting ends every open connection -/
def disconnect (s : List VConn) : List VConn := s.map fun c => { c with closed := true }

/-- is the message about the address pair (l, r)? -/
def about (l r : AAddr) : Msg → Bool
  | .hello l' r' => sameAddr l' l && sameAddr r' r
  | .data l' r' _ => sameAddr l' l && sameAddr r' r
  | .dgram l' r' _ => sameAddr l' l && sameAddr r' r
  | .eof l' r' => sameAddr l' l && sameAddr r' r
  | .ping => false

def pairOf (l r : AAddr) (c : VConn) : Bool := sameAddr c.l l && sameAddr c.r r

/-! ## line protocol
`agent <msg> …` with msg = `h:<lip>:<lport>:<rip>:<rport>` | `d:<…>:<payload hex>` | `u:<…>:<hex>` | `e:<…>` | `p`
output: per virtual connection in creation order `<received hex>/<closed>`; then `x` (agent disconnects) is implicit -/

def parseAddr (ip port : String) (udp : Bool) : Option AAddr :=
  match unhex ip, port.toNat? with
  | some i, some p => some { udp := udp, ip := i, port := p }
  | _, _ => none

def parseMsg (s : String) : Option Msg :=
  match s.splitOn ":" with
  | ["p"] => some .ping
  | ["h", li, lp, ri, rp] => do let l ← parseAddr li lp false; let r ← parseAddr ri rp false; pure (.hello l r)
  | ["e", li, lp, ri, rp] => do let l ← parseAddr li lp false; let r ← parseAddr ri rp false; pure (.eof l r)
  | ["d", li, lp, ri, rp, p] => do
    let l ← parseAddr li lp false; let r ← parseAddr ri rp false; let b ← unhex p; pure (.data l r b)
  | ["u", li, lp, ri, rp, p] => do
    let l ← parseAddr li lp true; let r ← parseAddr ri rp true; let b ← unhex p; pure (.dgram l r b)
  | _ => none

/-! ### codec line protocol
`agentcodec hello A A | eof A A | tcp A A P | udp A A P | ping | hs <ver> P P P P | hr A…` with
`A = t/<ip hex or ->/<port>` or `u/…`, `P = <hex>` or `-`.
output: `<encoding> => <the decoded message in the same syntax>`; byte strings longer than 32 bytes are shown as
`#<length>.<Σ (i+1)·bᵢ mod 2³²>` -/

def wsum (b : Bytes) : Nat :=
  (b.foldl (fun (acc : Nat × Nat) x => (acc.1 + 1, (acc.2 + (acc.1 + 1) * x.toNat) % 4294967296)) (0, 0)).2

def hexd (b : Bytes) : String :=
  if b.isEmpty then "-" else if b.length ≤ 32 then hex b else s!"#{b.length}.{wsum b}"

def addrStr (a : AAddr) : String := (if a.udp then "u/" else "t/") ++ hexd a.ip ++ s!"/{a.port}"

def parseCAddr (s : String) : Option AAddr :=
  match s.splitOn "/" with
  | [k, ip, port] =>
    let ipb := if ip = "-" then some [] else unhex ip
    match ipb, port.toNat? with
    | some i, some p => if k = "t" then some { udp := false, ip := i, port := p } else if k = "u" then some { udp := true, ip := i, port := p } else none
    | _, _ => none
  | _ => none

def parseP (s : String) : Option Bytes := if s = "-" then some [] else unhex s

def msgStr : Msg → String
  | .hello l r => s!"hello {addrStr l} {addrStr r}"
  | .eof l r => s!"eof {addrStr l} {addrStr r}"
  | .data l r p => s!"tcp {addrStr l} {addrStr r} {hexd p}"
  | .dgram l r p => s!"udp {addrStr l} {addrStr r} {hexd p}"
  | .ping => "ping"

def codecDriver (args : List String) : String :=
  let viaMsg (m : Option Msg) : String :=
    match m with
    | none => "bad-op"
    | some m =>
      let e := encBody m
      hexd e ++ " => " ++ (match decBody (typeByte m).toNat e with | some m' => msgStr m' | none => "fail")
  match args with
  | ["ping"] => viaMsg (some .ping)
  | ["hello", l, r] => viaMsg (do let l ← parseCAddr l; let r ← parseCAddr r; pure (.hello l r))
  | ["eof", l, r] => viaMsg (do let l ← parseCAddr l; let r ← parseCAddr r; pure (.eof l r))
  | ["tcp", l, r, p] => viaMsg (do let l ← parseCAddr l; let r ← parseCAddr r; let p ← parseP p; pure (.data l r p))
  | ["udp", l, r, p] => viaMsg (do let l ← parseCAddr l; let r ← parseCAddr r; let p ← parseP p; pure (.dgram l r p))
  | ["hs", ver, a, b, c, d] =>
    match ver.toNat?, parseP a, parseP b, parseP c, parseP d with
    | some ver, some a, some b, some c, some d =>
      let e := encHs { ver := ver, version := a, short := b, commit := c, token := d }
      hexd e ++ " => " ++ (match decHs e with
        | some h => s!"hs {h.ver} {hexd h.version} {hexd h.short} {hexd h.commit} {hexd h.token}"
        | none => "fail")
    | _, _, _, _, _ => "bad-op"
  | "hr" :: as =>
    match as.mapM parseCAddr with
    | none => "bad-op"
    | some as =>
      let e := encResp as
      hexd e ++ " => " ++ (match decResp e with
        | some as' => " ".intercalate ("hr" :: as'.map addrStr)
        | none => "fail")
  | ["write", m, n] =>
    -- the message payload lengths of a Write of n bytes
    match m.toNat?, n.toNat? with
    | some m, some n => " ".intercalate ((chunks m (List.replicate n 0)).map (fun c => toString c.length))
    | _, _ => "bad-op"
  | _ => "bad-op"

def driver (args : List String) : String :=
  match args.mapM parseMsg with
  | none => "bad-op"
  | some ms =>
    -- the messages go through the codec too: encode, re-parse the byte stream frame by frame
    let stream := ms.flatMap frame
    let rec parseAll (fuel : Nat) (b : Bytes) (acc : List Msg) : Option (List Msg) :=
      match fuel with
      | 0 => some acc.reverse
      | fuel + 1 =>
        if b.isEmpty then some acc.reverse
        else match decFrame b with
          | some (m, rest) => parseAll fuel rest (m :: acc)
          | none => none
    match parseAll (ms.length + 1) stream [] with
    | none => "codec-failure"
    | some ms' =>
      let s := run [] ms'
      " ".intercalate (s.map fun c => hex c.buf ++ "/" ++ b01 c.closed)

end HT.Agent
