/-!
# Hand-off of pushed bytes to a reader goroutine

The shape shared by `listener/canary/socket.go` (`Socket.flush` / `Socket.Read`, channel `rchan`) and
`listener/agent` (`receive` / `agentConnection.Read`, channel `in`):

* the **writer** (receive loop) puts bytes into the connection's buffer, then signals with a
  *non-blocking* send (`select { case ch <- x: default: }`);
* the **reader** (the connection's handler goroutine) looks into the buffer; if it is empty it waits
  for the signal (or a long timeout) and then reads the buffer once more.

Two threads, every interleaving of their atomic steps (a schedule is a `List Bool`: `true` = the
reader moves, `false` = the writer moves; a thread that cannot move stutters).  The channel has
capacity 1 (`kept = true`: a signal sent while nobody waits is kept) or 0 (`kept = false`: it is
delivered only to a reader that is already parked, otherwise dropped).
-/
namespace HT.Handoff

/-- reader: about to check the buffer | found it empty, not yet parked | parked in the wait |
returned (`true` = with the pushed bytes) -/
inductive RPc where
  | check | checked | waiting | fin (got : Bool)
  deriving Repr, DecidableEq

inductive WPc where
  | write | flush | fin
  deriving Repr, DecidableEq

structure St where
  buf : Bool        -- the pushed bytes are in the buffer
  tok : Bool        -- a signal is kept in the channel
  r : RPc
  w : WPc
  deriving Repr, DecidableEq

def init : St := { buf := false, tok := false, r := .check, w := .write }

/-- one step of the reader -/
def stepR (s : St) : St :=
  match s.r with
  | .check => if s.buf then { s with buf := false, r := .fin true } else { s with r := .checked }
  | .checked => if s.tok then { s with tok := false, buf := false, r := .fin s.buf } else { s with r := .waiting }
  | .waiting => if s.tok then { s with tok := false, buf := false, r := .fin s.buf } else s
  | .fin _ => s

/-- one step of the writer -/
def stepW (kept : Bool) (s : St) : St :=
  match s.w with
  | .write => { s with buf := true, w := .flush }
  | .flush =>
    if kept then { s with tok := true, w := .fin }
    else if s.r = .waiting then { s with buf := false, r := .fin s.buf, w := .fin }   -- rendezvous with the parked reader
    else { s with w := .fin }                                                        -- nobody parked: dropped
  | .fin => s

def step (kept : Bool) (s : St) (reader : Bool) : St := if reader then stepR s else stepW kept s

def run (kept : Bool) (sch : List Bool) (s : St) : St := sch.foldl (step kept) s

/-- let both threads run to their end (no thread has more than three steps) -/
def finish (kept : Bool) (s : St) : St := stepR (stepR (stepR (stepW kept (stepW kept s))))

/-- line protocol: `handoff <cap 0|1> <schedule of r/w letters>` → the reader's final state -/
def driver (args : List String) : String :=
  match args with
  | [cap, sch] =>
    let kept : Bool := cap == "1"
    let sched : List Bool := if sch = "-" then [] else sch.toList.map (fun c => c == 'r')
    let s := finish kept (run kept sched init)
    match s.r with
    | .fin true => "delivered"
    | .fin false => "returned-empty"
    | .waiting => "blocked"
    | _ => "running"
  | _ => "bad-op"

end HT.Handoff
