import HT.Base
/-!
# Model of the FTP service's path handling

`services/filesystem/htfs.go` (`RealPath`, `ChangeDir`) over a port of the Unix
`path/filepath` functions it uses (`Clean`, `Join`, `IsAbs`, `Rel` for a target below its
base).  Paths are handled as component lists; the string forms are obtained by splitting
on and joining with "/".
-/
namespace HT.Path

/-- one step of `filepath.Clean`'s scan; `out` is the stack of kept components, top first -/
def cleanStep (rooted : Bool) (out : List String) (c : String) : List String :=
  if c = "" ∨ c = "." then out
  else if c = ".." then
    match out with
    | top :: rest => if top = ".." then ".." :: out else rest
    | [] => if rooted then [] else [".."]
  else c :: out

/-- the components `filepath.Clean` keeps -/
def cleanComps (rooted : Bool) (comps : List String) : List String :=
  (comps.foldl (cleanStep rooted) []).reverse

def render (rooted : Bool) (comps : List String) : String :=
  if rooted then "/" ++ "/".intercalate comps
  else if comps.isEmpty then "." else "/".intercalate comps

def isAbs (s : String) : Bool := s.startsWith "/"

/-- `filepath.Clean` -/
def clean (s : String) : String :=
  if s = "" then "." else render (isAbs s) (cleanComps (isAbs s) (s.splitOn "/"))

/-- `filepath.Join(a, b)`: empty elements are ignored, the result is cleaned -/
def join (a b : String) : String :=
  if a = "" ∧ b = "" then ""
  else if a = "" then clean b
  else if b = "" then clean a
  else clean (a ++ "/" ++ b)

/-- `Htfs.RealPath` -/
def realPath (root cwd path : String) : String :=
  let abspath := if isAbs path then clean path else join cwd path
  join root abspath

/-- `filepath.Rel(root, target)` for a cleaned `target` at or below the cleaned `root` -/
def relBelow (root target : String) : String :=
  if target = root then "."
  else (target.drop (root.length + 1)).toString

/-- the working directory after a successful `ChangeDir(path)` -/
def changeDir (root cwd path : String) : String :=
  join "/" (relBelow root (realPath root cwd path))

/-! ## component level (what the theorems are about) -/

/-- a component that survives cleaning unchanged -/
def plain (c : String) : Prop := c ≠ "" ∧ c ≠ "." ∧ c ≠ ".."

/-- components of the cleaned form of `a/b…` given as component lists -/
def realPathComps (rootc cwdc pathc : List String) (pathAbs : Bool) : List String :=
  let absc := if pathAbs then cleanComps true pathc else cleanComps true (cwdc ++ pathc)
  cleanComps true (rootc ++ absc)

/-! ## line protocol (strings hex-encoded)
`path clean <s>` | `path join <a> <b>` | `path real <root> <cwd> <p>` | `path cd <root> <cwd> <p>` -/

def unhexStr (s : String) : String :=
  match unhex s with
  | some b => String.fromUTF8! (ByteArray.mk b.toArray)
  | none => ""

def hexStr (s : String) : String := hex s.toUTF8.toList

def driver (args : List String) : String :=
  match args with
  | ["clean", s] => hexStr (clean (unhexStr s))
  | ["join", a, b] => hexStr (join (unhexStr a) (unhexStr b))
  | ["real", r, c, p] => hexStr (realPath (unhexStr r) (unhexStr c) (unhexStr p))
  | ["cd", r, c, p] => hexStr (changeDir (unhexStr r) (unhexStr c) (unhexStr p))
  | _ => "bad-op"

end HT.Path
