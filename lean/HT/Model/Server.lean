import HT.Base
/-!
# Model of the server's configuration processing and dispatch

`server/honeytrap.go`: `ToAddr`, `compareAddr`, the port loop of `Run`, `findService`
with `peekConnection` (server/peek-connection.go), the filter wiring of `Run` with
`pushers/filters.go` and `pushers/eventbus` — as after the `fix:` commits in
known-findings.txt.
-/
namespace HT.Srv

/-! ## addresses -/

inductive Proto where | tcp | udp deriving Repr, DecidableEq

/-- a `*net.TCPAddr` / `*net.UDPAddr`: `ip = none` is the nil (wildcard) IP; an IP is its
canonical text form -/
structure Addr where
  proto : Proto
  ip : Option String
  port : Nat
  deriving Repr, DecidableEq

/-- `compareAddr`: same kind, same port, and equal IPs unless either is nil -/
def compareAddr (a b : Addr) : Bool :=
  a.proto = b.proto && a.port = b.port &&
    (match a.ip, b.ip with
     | none, _ => true
     | _, none => true
     | some x, some y => x = y)

/-! ## `ToAddr` -/

def lastIndex (c : Char) (s : List Char) : Option Nat :=
  let idxs := (List.range s.length).filter (fun i => s.getD i ' ' = c)
  idxs.getLast?

/-- `net.SplitHostPort` -/
def splitHostPort (hp : List Char) : Option (List Char × List Char) :=
  match lastIndex ':' hp with
  | none => none
  | some i =>
    if hp.head? = some '[' then
      match hp.findIdx? (· = ']') with
      | none => none
      | some e =>
        if e + 1 = hp.length then none
        else if e + 1 = i then
          let host := (hp.take e).drop 1
          if (hp.drop 1).contains '[' then none
          else if (hp.drop (e + 1)).contains ']' then none
          else some (host, hp.drop (i + 1))
        else none
    else
      let host := hp.take i
      if host.contains ':' then none
      else if hp.contains '[' then none
      else if hp.contains ']' then none
      else some (host, hp.drop (i + 1))

/-- `strconv.ParseUint(s, 10, 16)`: a non-empty string of decimal digits with value ≤ 65535 -/
def digitsValue (s : List Char) : Nat := s.foldl (fun acc c => acc * 10 + (c.toNat - '0'.toNat)) 0

def parsePort (s : List Char) : Option Nat :=
  if s.isEmpty then none
  else if s.all Char.isDigit then
    if digitsValue s ≤ 65535 then some (digitsValue s) else none
  else none

/-- a dotted quad in canonical form (what the harness generates); other host texts are
outside the model (`ToAddr` would ask the resolver) -/
def isCanonicalV4 (h : List Char) : Bool :=
  let parts := (String.ofList h).splitOn "."
  parts.length = 4 && parts.all fun p =>
    let cs := p.toList
    !cs.isEmpty && cs.all Char.isDigit && cs.length ≤ 3 && (cs.length = 1 || cs.head? ≠ some '0') &&
      (cs.foldl (fun acc c => acc * 10 + (c.toNat - '0'.toNat)) 0) ≤ 255

inductive ToAddrRes where
  | ok (a : Addr)
  | err                -- an error is returned: the entry is skipped
  | unmodelled         -- host needs the resolver
  deriving Repr, DecidableEq

def toAddr (input : String) : ToAddrRes :=
  match input.splitOn "/" with
  | [proto, rest] =>
    let (host, port) := match splitHostPort rest.toList with
      | some (h, p) => (h, p)
      | none => ([], rest.toList)
    match parsePort port with
    | none => .err
    | some n =>
      let mk (p : Proto) : ToAddrRes :=
        if host.isEmpty then .ok { proto := p, ip := none, port := n }
        else if isCanonicalV4 host then .ok { proto := p, ip := some (String.ofList host), port := n }
        else if host = "::1".toList then .ok { proto := p, ip := some "::1", port := n }
        else .unmodelled
      if proto = "tcp" then mk .tcp else if proto = "udp" then mk .udp else .err
  | _ => .err

/-! ## the port loop of `Run` -/

structure PortEntry where
  port : String                 -- "" when absent
  ports : Option (List String)  -- none when absent
  services : List String
  deriving Repr

abbrev Table := List (Addr × List String)     -- insertion order; keys pairwise incomparable

/-- one port string of one entry -/
def addPort (defined : List String) (services : List String) (t : Table) (portStr : String) : Table :=
  match toAddr portStr with
  | .ok a =>
    let svcs := services.filter (fun s => defined.contains s)
    if svcs.isEmpty then t
    else if t.any (fun kv => compareAddr kv.1 a) then t
    else t ++ [(a, svcs)]
  | _ => t

def addEntry (defined : List String) (t : Table) (e : PortEntry) : Table :=
  if e.port = "" ∧ e.ports.isNone then t
  else
    let ports := (e.ports.getD []) ++ (if e.port ≠ "" then [e.port] else [])
    ports.foldl (addPort defined e.services) t

/-- the port table `Run` builds = the addresses handed to the listener, in order -/
def buildTable (defined : List String) (es : List PortEntry) : Table := es.foldl (addEntry defined) []

/-! ## `findService` -/

/-- a service: its name and, if it implements `CanHandle`, the prefix its detector accepts -/
structure Svc where
  name : String
  detector : Option Bytes
  deriving Repr, DecidableEq

def accepts (d : Bytes) (payload : Bytes) : Bool := d.isPrefixOf payload

/-- the connection as the chosen service gets it -/
inductive Via where | raw | peeked deriving Repr, DecidableEq

/-- the scan over several candidates: `peek` is what the one-time `Peek` of ≤ 1024 bytes returned
(`none` = the read failed: client closed or stayed silent for 30 s) -/
def scan (peek : Option Bytes) : List Svc → Bool → Option (Svc × Via)
  | [], _ => none
  | s :: rest, peeked =>
    match s.detector with
    | none => some (s, if peeked then .peeked else .raw)
    | some d =>
      match peek with
      | none => none
      | some p => if accepts d p then some (s, .peeked) else scan peek rest true

def findService (cands : List Svc) (peek : Option Bytes) : Option (Svc × Via) :=
  match cands with
  | [] => none
  | [s] => some (s, .raw)
  | _ => scan peek cands false

/-- what one `Read` of at most 1024 bytes returns from the client's segments -/
def firstRead (segs : List Bytes) : Option Bytes :=
  match segs.filter (fun s => !s.isEmpty) with
  | [] => none
  | s :: _ => some (s.take 1024)

/-- the byte stream the chosen service reads until EOF: through the peek wrapper the buffered
bytes come first, then the rest of the connection -/
def serviceView (segs : List Bytes) (via : Via) : Bytes :=
  match via with
  | .raw => segs.flatten
  | .peeked =>
    match firstRead segs with
    | none => segs.flatten
    | some b => b ++ segs.flatten.drop b.length

/-! ## filters and the bus -/

/-- the regular expressions of the harness alphabet: alternatives of optionally anchored literals -/
def matchAlt (alt : String) (v : String) : Bool :=
  let a := alt.toList
  let pre := a.head? = some '^'
  let a := if pre then a.drop 1 else a
  let suf := a.getLast? = some '$'
  let a := if suf then a.dropLast else a
  let vs := v.toList
  if pre && suf then vs = a
  else if pre then a.isPrefixOf vs
  else if suf then a.isSuffixOf vs
  else (List.range (vs.length + 1)).any (fun i => a.isPrefixOf (vs.drop i))

def rxMatch (rx : String) (v : String) : Bool := (rx.splitOn "|").any (fun alt => matchAlt alt v)

structure Filter where
  channels : List String
  services : List String
  categories : List String
  deriving Repr

/-- an event as the filters see it: `Get` of a missing or non-string field is "" -/
structure Ev where
  id : String
  category : String
  service : String
  deriving Repr, DecidableEq

def admits (rx : String → String → Bool) (f : Filter) (e : Ev) : Bool :=
  (f.categories.isEmpty || f.categories.any (fun r => rx r e.category)) &&
  (f.services.isEmpty || f.services.any (fun r => rx r e.service))

/-- one subscription per (filter, channel name) occurrence naming a defined channel -/
def wire (defined : List String) (fs : List Filter) : List (String × Filter) :=
  fs.flatMap fun f => (f.channels.filter (fun c => defined.contains c)).map (fun c => (c, f))

/-- deliveries of one event: channel names, in subscription order -/
def send (rx : String → String → Bool) (subs : List (String × Filter)) (e : Ev) : List (String × Ev) :=
  (subs.filter (fun s => admits rx s.2 e)).map (fun s => (s.1, e))

def sendAll (rx : String → String → Bool) (subs : List (String × Filter)) (es : List Ev) : List (String × Ev) :=
  es.flatMap (send rx subs)

/-- what one channel receives, in order -/
def received (ds : List (String × Ev)) (ch : String) : List Ev := (ds.filter (·.1 = ch)).map (·.2)

end HT.Srv
