import HT.Model.Packet
/-!
# Model of the raw listener's receive path

`listener/canary/canary_linux.go` (`Start` receive-loop dispatch, `handleTCP`,
`send`, `updateTCPChecksum`), `state.go` (`StateTable.Add/Get/Remove`,
`State.close`), `socket.go` (ring buffer write, flush hand-off) — as the code is
after the `fix:` commits listed in known-findings.txt.  Sequence numbers are
`UInt32` because the property is about wrap-around.

Not modelled (see DESIGN.md): the Go scheduler (the per-connection handler
goroutine is run to its next blocking point right after the step that wakes it,
which is what the lock-step harness observes), data races on the ring buffer,
the decoded-port protocol handlers, real time (time is an input).
-/
namespace HT.Can
open HT.Pkt

inductive SS where
  | closed | listen | synRcvd | synSent | estab | finWait1 | finWait2
  | closing | timeWait | closeWait | lastAck
  deriving Repr, DecidableEq, Inhabited

def SS.num : SS → Nat
  | .closed => 0 | .listen => 1 | .synRcvd => 2 | .synSent => 3 | .estab => 4 | .finWait1 => 5
  | .finWait2 => 6 | .closing => 7 | .timeWait => 8 | .closeWait => 9 | .lastAck => 10

/-- handler goroutine of an established connection on an undecoded port -/
inductive Hdl where
  | none       -- not started
  | waiting    -- blocked in `Socket.Read` (select on the flush channel)
  | done
  deriving Repr, DecidableEq, Inhabited

structure TCB where
  srcIP : Bytes
  srcPort : Nat
  dstIP : Bytes
  dstPort : Nat
  id : UInt32
  st : SS
  una : UInt32
  nxt : UInt32
  iss : UInt32
  rcv : UInt32
  t : Nat
  rbuf : Bytes
  hdl : Hdl
  deriving Repr, DecidableEq, Inhabited

/-- capacity of the state table (`type StateTable [65535]*State`) -/
def tableCap : Nat := 65535
/-- capacity of a socket's receive ring -/
def ringCap : Nat := 4096

structure Cfg where
  myIPs : List Bytes        -- addresses of the listener's interfaces (`isMe`)
  arp : List Bytes          -- peers (or gateways of a matching route) with an ARP entry
  cap : Nat := tableCap
  deriving Repr

/-- The table: a prefix of the slot array; slots beyond the prefix are nil. -/
structure St where
  slots : List (Option TCB)
  deriving Repr, Inhabited

def St.init : St := { slots := [] }

/-! ## flags -/
def FIN := 1
def SYN := 2
def RST := 4
def PSH := 8
def ACK := 16
def hasFlag (ctrl f : Nat) : Bool := (ctrl / f) % 2 = 1

/-! ## state table -/

def tupleMatch (s : TCB) (srcIP dstIP : Bytes) (sp dp : Nat) : Bool :=
  (s.srcPort = sp && s.dstPort = dp && s.srcIP = srcIP && s.dstIP = dstIP) ||
  (s.srcPort = dp && s.dstPort = sp && s.srcIP = dstIP && s.dstIP = srcIP)

/-- `StateTable.Get`: index of the first slot whose state matches -/
def getIdx (slots : List (Option TCB)) (srcIP dstIP : Bytes) (sp dp : Nat) : Option Nat :=
  slots.findIdx? fun o => match o with
    | some s => tupleMatch s srcIP dstIP sp dp
    | none => false

/-- first reusable slot: nil or TIME-WAIT -/
def freeIdx (slots : List (Option TCB)) : Option Nat :=
  slots.findIdx? fun o => match o with
    | some s => s.st = .timeWait
    | none => true

/-- `StateTable.Add`: first nil/TIME-WAIT slot, else a slot idle for more than 30 s,
else the connection attempt is not tracked (returns `none` as its index). -/
def add (cfg : Cfg) (st : St) (now : Nat) (s : TCB) : St × Option Nat :=
  match freeIdx st.slots with
  | some i => ({ slots := st.slots.set i (some s) }, some i)
  | none =>
    if st.slots.length < cfg.cap then ({ slots := st.slots ++ [some s] }, some st.slots.length)
    else
      match st.slots.findIdx? (fun o => match o with
          | some x => now - x.t > 30000
          | none => true) with
      | some i => ({ slots := st.slots.set i (some s) }, some i)
      | none => (st, none)

/-! ## frames -/

def u16be (n : Nat) : Bytes := [UInt8.ofNat (n / 256 % 256), UInt8.ofNat (n % 256)]
def u32be (n : UInt32) : Bytes :=
  let v := n.toNat
  [UInt8.ofNat (v / 16777216 % 256), UInt8.ofNat (v / 65536 % 256), UInt8.ofNat (v / 256 % 256), UInt8.ofNat (v % 256)]

/-- sum of big-endian 16-bit words, an odd trailing byte as the high byte -/
def words : Bytes → Nat
  | [] => 0
  | [x] => x.toNat * 256
  | x :: y :: rest => x.toNat * 256 + y.toNat + words rest

/-- one's-complement checksum field for a word sum `s` -/
def cksum (s : Nat) : Nat := 65535 - fold16 s

/-- TCP header as `tcp.Header.Marshal` builds it for `send` (no options), checksum zero -/
def tcpHdr (s : TCB) (flags : Nat) : Bytes :=
  u16be s.dstPort ++ u16be s.srcPort ++ u32be s.nxt ++ u32be s.rcv ++
  [80, UInt8.ofNat flags] ++ u16be 65535 ++ [0, 0] ++ [0, 0]

/-- IPv4 header as `send` builds it, checksum zero -/
def ipHdr (s : TCB) (tcpLen : Nat) : Bytes :=
  [69, 0] ++ u16be (20 + tcpLen) ++ u16be (s.id.toNat % 65536) ++ [0, 0] ++ [128, 6] ++ [0, 0] ++
  s.dstIP ++ s.srcIP

def setAt (b : Bytes) (i : Nat) (v : Bytes) : Bytes := b.take i ++ v ++ b.drop (i + v.length)

/-- the IP packet `send` queues: header checksums filled in by the model of
`updateTCPChecksum` and of the inline IPv4 checksum loop -/
def packet (s : TCB) (flags : Nat) (payload : Bytes) : Bytes :=
  let seg := tcpHdr s flags ++ payload
  let pseudo := words s.dstIP + words s.srcIP + 6 + seg.length
  let seg := setAt seg 16 (u16be (cksum (pseudo + words seg)))
  let ip := ipHdr s seg.length
  let ip := setAt ip 10 (u16be (cksum (words ip)))
  ip ++ seg

/-- observable effects of a step -/
inductive Eff where
  | tx (pkt : Bytes)            -- IP packet queued on the transmit ring
  | noArp                       -- reply dropped: no ARP/gateway entry
  | event (srcIP : Bytes) (sp : Nat) (dstIP : Bytes) (dp : Nat) (payload : Bytes)
  deriving Repr, DecidableEq

/-- `c.send(state, payload, flags)`; the IP id advances even when the reply is dropped -/
def send (cfg : Cfg) (s : TCB) (flags : Nat) (payload : Bytes) : TCB × List Eff :=
  let eff := if cfg.arp.contains s.srcIP then [Eff.tx (packet s flags payload)] else [Eff.noArp]
  ({ s with id := s.id + 1 }, eff)

/-- `State.close()` as called by the handler through `Socket.Close` -/
def closeByHandler (cfg : Cfg) (s : TCB) : TCB × List Eff :=
  let (s, e) := send cfg s (FIN + ACK) []
  ({ s with nxt := s.nxt + 1, st := .finWait1 }, e)

/-- the handler goroutine for an undecoded port, run from its wake-up to its end:
one `Read` of at most 2048 bytes, `Close`, then the event -/
def runHandler (cfg : Cfg) (s : TCB) : TCB × List Eff :=
  let got := s.rbuf.take 2048
  let s := { s with rbuf := s.rbuf.drop 2048, hdl := .done }
  let (s, e) := closeByHandler cfg s
  (s, e ++ [Eff.event s.srcIP s.srcPort s.dstIP s.dstPort got])

/-- ring-buffer write: bytes beyond the free space are dropped -/
def ringWrite (buf p : Bytes) : Bytes := buf ++ p.take (ringCap - buf.length)

/-- ack acceptable: `SEG.ACK - SND.UNA ≤ SND.NXT - SND.UNA` in 32-bit arithmetic -/
def ackOk (una nxt ack : UInt32) : Bool := ack - una ≤ nxt - una

/-- result of processing one segment for a found/created state -/
structure R where
  s : TCB
  eff : List Eff
  remove : Bool := false        -- `stateTable.Remove(state)`
  flushed : Bool := false       -- a flush signal was sent on the socket

/-- segment text: in ESTABLISHED / FIN-WAIT-1 / FIN-WAIT-2 the payload goes to the socket's
ring, RCV.NXT advances over it, and a non-empty segment is acknowledged -/
def textStage (cfg : Cfg) (s : TCB) (h : Tcp) : TCB × List Eff :=
  if s.st = .estab ∨ s.st = .finWait1 ∨ s.st = .finWait2 then
    let s := { s with rbuf := ringWrite s.rbuf h.payload, rcv := s.rcv + UInt32.ofNat h.payload.length }
    if h.payload.length > 0 then send cfg s ACK [] else (s, [])
  else (s, [])

/-- was a flush signal sent by the text stage (PSH in a data-accepting state)? -/
def textFlushed (s : TCB) (h : Tcp) : Bool :=
  (s.st = .estab ∨ s.st = .finWait1 ∨ s.st = .finWait2) ∧ hasFlag h.ctrl PSH

/-- FIN processing, after the text stage -/
def finStage (cfg : Cfg) (s : TCB) (h : Tcp) : TCB × List Eff × Bool :=
  let s := { s with rcv := UInt32.ofNat h.seq + UInt32.ofNat h.payload.length }
  if s.st = .synRcvd ∨ s.st = .estab then
    let s := { s with rcv := s.rcv + 1 }
    let (s, e) := send cfg s (FIN + ACK) []
    ({ s with nxt := s.nxt + 1, st := .closeWait }, e, true)
  else if s.st = .finWait1 then
    let s := { s with rcv := s.rcv + 1 }
    let (s, e) := send cfg s ACK []
    ({ s with st := .closing }, e, false)
  else if s.st = .finWait2 then
    let s := { s with rcv := s.rcv + 1 }
    let (s, e) := send cfg s ACK []
    ({ s with st := .timeWait }, e, false)
  else (s, [], false)

/-- ACK-field processing for a segment that passed the RST/SYN/ACK-bit checks:
CLOSING → TIME-WAIT, the SYN-RECEIVED acceptance test (none = segment dropped),
SND.UNA update, FIN-WAIT-1 → FIN-WAIT-2 when our FIN is acknowledged -/
def ackStage (s : TCB) (ack : UInt32) : Option TCB :=
  let s := if s.st = .closing then { s with st := .timeWait } else s
  if s.st = .synRcvd ∧ ¬ ackOk s.una s.nxt ack then none
  else
    let s := if s.st = .synRcvd then { s with st := .estab, hdl := .waiting } else s
    let s := if ackOk s.una s.nxt ack then { s with una := ack } else s
    let s := if s.st = .finWait1 ∧ ack = s.nxt then { s with st := .finWait2 } else s
    some s

/-- everything after the RST/SYN/ACK-bit checks -/
def ackedStep (cfg : Cfg) (s : TCB) (h : Tcp) : R :=
  let rm1 := (if s.st = .closing then SS.timeWait else s.st) = .closeWait
  match ackStage s (UInt32.ofNat h.ack) with
  | none => { s := s, eff := [], remove := rm1 }
  | some s1 =>
    let (s2, e1) := textStage cfg s1 h
    let fl := textFlushed s1 h
    if hasFlag h.ctrl FIN then
      let (s3, e2, fl2) := finStage cfg s2 h
      { s := s3, eff := e1 ++ e2, remove := rm1, flushed := fl || fl2 }
    else { s := s2, eff := e1, remove := rm1, flushed := fl }

/-- `handleTCP` from "state.t = time.Now()" on, for the state `s`. -/
def segStep (cfg : Cfg) (s : TCB) (now : Nat) (h : Tcp) : R :=
  let s := { s with t := now }
  if s.st = .listen ∧ hasFlag h.ctrl SYN then
    let s := { s with una := s.iss, nxt := s.iss + 1, rcv := UInt32.ofNat h.seq + 1 }
    let (s, e) := send cfg s (SYN + ACK) []
    { s := { s with nxt := s.nxt + 1, st := .synRcvd }, eff := e }
  else if hasFlag h.ctrl RST ∧ s.st = .synRcvd then
    { s := { s with st := .listen }, eff := [] }
  else if hasFlag h.ctrl RST ∧ (s.st = .closeWait ∨ s.st = .timeWait) then
    { s := { s with st := .closed }, eff := [], remove := true }
  else if hasFlag h.ctrl SYN then { s := s, eff := [] }
  else if ¬ hasFlag h.ctrl ACK then { s := s, eff := [] }
  else ackedStep cfg s h

/-- after the step releases the state lock, a waiting handler that was signalled runs -/
def wake (cfg : Cfg) (r : R) : TCB × List Eff :=
  if r.flushed ∧ r.s.hdl = .waiting then
    let (s, e) := runHandler cfg r.s
    (s, r.eff ++ e)
  else (r.s, r.eff)

/-- values the implementation draws when it creates a state -/
structure Drawn where
  iss : UInt32
  id : UInt32
  deriving Repr

def newTCB (srcIP : Bytes) (sp : Nat) (dstIP : Bytes) (dp : Nat) (d : Drawn) (now : Nat) : TCB :=
  { srcIP := srcIP, srcPort := sp, dstIP := dstIP, dstPort := dp, id := d.id, st := .listen,
    una := 0, nxt := 0, iss := d.iss, rcv := 0, t := now, rbuf := [], hdl := .none }

/-- `handleTCP(eh, iph, data)` -/
def handleTCP (cfg : Cfg) (st : St) (now : Nat) (srcIP dstIP : Bytes) (data : Bytes) (d : Drawn) :
    Except Fault (St × List Eff) :=
  match tcpParse data with
  | .error f => .error f
  | .ok (h, perr) =>
    let ckBad := tcpCsum data dstIP srcIP ≠ h.checksum
    if perr ∧ ¬ ckBad then .ok (st, [])          -- parse error returned (not shadowed by a checksum error)
    else if ¬ cfg.myIPs.contains dstIP then .ok (st, [])
    else if h.sport = 22 ∨ h.dport = 22 then .ok (st, [])
    else
      let found := getIdx st.slots srcIP dstIP h.sport h.dport
      -- a SYN without ACK always creates a fresh state
      let (st, cur, tracked) :=
        if hasFlag h.ctrl SYN ∧ ¬ hasFlag h.ctrl ACK then
          let s := newTCB srcIP h.sport dstIP h.dport d now
          let (st', i) := add cfg st now s
          (st', some s, i)
        else (st, found.bind (fun i => (st.slots.getD i none)), found)
      match cur with
      | none => .ok (st, [])
      | some s =>
        let r := segStep cfg s now h
        let (s', eff) := wake cfg r
        let st := match tracked with
          | some i => { slots := st.slots.set i (if r.remove then none else some s') }
          | none => st
        .ok (st, eff)

/-- what the receive loop does with one frame (`doARP` is false in every reachable
configuration; UDP and ICMP handlers only parse, filter on `isMe` and hand over
to recovering goroutines / the knock channel: modelled as the parse) -/
inductive Disp where
  | dropped                       -- not IPv4, parse error, other protocol
  | tcp (eff : List Eff)
  | udp (accepted : Bool)
  | icmp (accepted : Bool)
  deriving Repr

def recvStep (cfg : Cfg) (st : St) (now : Nat) (frame : Bytes) (d : Drawn) :
    Except Fault (St × Disp) := do
  let eh ← ethParse frame
  if eh.typ ≠ 2048 then pure (st, .dropped)
  else
    match ← ipv4Parse eh.payload with
    | none => pure (st, .dropped)
    | some ip =>
      if ip.proto = 6 then do
        let (st', eff) ← handleTCP cfg st now ip.src ip.dst ip.payload d
        pure (st', .tcp eff)
      else if ip.proto = 17 then do
        let u ← udpParse ip.payload
        pure (st, .udp (u.isSome && cfg.myIPs.contains ip.dst))
      else if ip.proto = 1 then do
        let i ← icmpParse ip.payload
        pure (st, .icmp (i.isSome && cfg.myIPs.contains ip.dst))
      else pure (st, .dropped)

/-! ## line protocol

`can <myip hex> <arp 0|1> op op …`  with ops

* `f:<frame hex>:<now ms>:<iss>:<id>` — a frame through `recvStep` (iss/id: the values the
  implementation drew if the frame created a state, else 0)
* `rb:<srcip>:<sp>:<dstip>:<dp>:<iss>` — rebase the send sequence space of a connection (hook)
* `ri:<srcip>:<sp>:<dstip>:<dp>:<id>` — set the IPv4 identification counter of a connection (hook)

Output per op: effects, then the TCB the frame's 4-tuple resolves to afterwards. -/

def effStr : Eff → String
  | .tx p => "tx=" ++ hex p
  | .noArp => ""
  | .event s sp d dp p => s!"ev={hex s}:{sp}>{hex d}:{dp}:{hex p}"

def tcbStr (o : Option TCB) : String :=
  match o with
  | none => "-"
  | some s => s!"st={s.st.num},una={s.una.toNat},nxt={s.nxt.toNat},rcv={s.rcv.toNat},id={s.id.toNat % 65536}"

def lookupStr (st : St) (srcIP dstIP : Bytes) (sp dp : Nat) : String :=
  tcbStr ((getIdx st.slots srcIP dstIP sp dp).bind fun i => st.slots.getD i none)

def occupied (st : St) : Nat := (st.slots.filter Option.isSome).length

def rebase (st : St) (srcIP dstIP : Bytes) (sp dp : Nat) (iss : UInt32) : St :=
  match getIdx st.slots srcIP dstIP sp dp with
  | none => st
  | some i =>
    match st.slots.getD i none with
    | none => st
    | some s =>
      let d := iss - s.iss
      { slots := st.slots.set i (some { s with iss := s.iss + d, una := s.una + d, nxt := s.nxt + d }) }

/-- hook `VerifSetID`: the connection's IPv4 identification counter as if `id` had been drawn -/
def setId (st : St) (srcIP dstIP : Bytes) (sp dp : Nat) (id : UInt32) : St :=
  match getIdx st.slots srcIP dstIP sp dp with
  | none => st
  | some i =>
    match st.slots.getD i none with
    | none => st
    | some s => { slots := st.slots.set i (some { s with id := id }) }

def frameTuple (frame : Bytes) : Option (Bytes × Bytes × Nat × Nat) :=
  match ethParse frame with
  | .ok eh =>
    match ipv4Parse eh.payload with
    | .ok (some ip) =>
      if ip.proto = 6 ∧ ip.payload.length ≥ 4 then some (ip.src, ip.dst, be16 ip.payload 0, be16 ip.payload 2)
      else none
    | _ => none
  | _ => none

def dispStr : Disp → String
  | .dropped => "drop"
  | .tcp eff => "tcp " ++ " ".intercalate ((eff.map effStr).filter (· ≠ ""))
  | .udp _ => "udp"
  | .icmp _ => "icmp"

def runOps (cfg : Cfg) : St → List String → List String
  | _, [] => []
  | st, op :: ops =>
    match op.splitOn ":" with
    | ["f", fh, now, iss, id] =>
      match unhex fh, now.toNat?, iss.toNat?, id.toNat? with
      | some fr, some now, some iss, some id =>
        match recvStep cfg st now fr { iss := UInt32.ofNat iss, id := UInt32.ofNat id } with
        | .error f => [faultStr f]
        | .ok (st', d) =>
          let look := match frameTuple fr with
            | some (s, dd, sp, dp) => lookupStr st' s dd sp dp
            | none => "-"
          let line := match d with
            | .tcp _ => dispStr d ++ " | " ++ look ++ s!" n={occupied st'}"
            | _ => dispStr d
          line :: runOps cfg st' ops
      | _, _, _, _ => ["bad-op"]
    | ["rb", s, sp, d, dp, iss] =>
      match unhex s, sp.toNat?, unhex d, dp.toNat?, iss.toNat? with
      | some s, some sp, some d, some dp, some iss =>
        "rb" :: runOps cfg (rebase st s d sp dp (UInt32.ofNat iss)) ops
      | _, _, _, _, _ => ["bad-op"]
    | ["ri", s, sp, d, dp, id] =>
      match unhex s, sp.toNat?, unhex d, dp.toNat?, id.toNat? with
      | some s, some sp, some d, some dp, some id =>
        "ri" :: runOps cfg (setId st s d sp dp (UInt32.ofNat id)) ops
      | _, _, _, _, _ => ["bad-op"]
    | _ => ["bad-op"]

def driver (args : List String) : String :=
  match args with
  | my :: arp :: ops =>
    match unhex my with
    | some my =>
      -- the peer address with an ARP entry is 10.0.0.0/8-style: any address when arp=1
      let cfg : Cfg := { myIPs := [my], arp := [] }
      let cfg := if arp = "1" then { cfg with arp := [[10,0,0,1],[10,0,0,2],[10,0,0,3],[10,0,0,4],[10,9,8,7],[127,0,0,1]] } else cfg
      " ; ".intercalate (runOps cfg St.init ops)
    | none => "bad-op"
  | _ => "bad-op"


/-! ## `canloop`: the receive loop over a frame history, then a UDP probe

`canloop <myip> <arp> <fill> step…` with `x:<frame>` raw frames and
`c:<peer>:<sport>:<dport>:<isn>:<flag words…>` scripted connections (the model draws ISS 0). -/

def clientSeg (peer my : Bytes) (sp dp : Nat) (seq ack : UInt32) (flags : Nat) (payload : Bytes) : Bytes :=
  let h := u16be sp ++ u16be dp ++ u32be seq ++ u32be ack ++ [80, UInt8.ofNat flags] ++ u16be 29200 ++ [0, 0, 0, 0]
  let seg := h ++ payload
  let seg := setAt seg 16 (u16be (tcpCsum seg peer my))
  let ip := [69, 0] ++ u16be (20 + seg.length) ++ [0, 0, 0, 0, 64, 6, 0, 0] ++ peer ++ my
  [2, 0, 0, 0, 0, 1, 2, 0, 0, 0, 0, 153, 8, 0] ++ ip ++ seg

def flagWord : String → Option (Nat × Bytes)
  | "psh" => some (24, "hello".toUTF8.toList)
  | "ack" => some (16, [])
  | "data" => some (16, "xy".toUTF8.toList)
  | "rst" => some (4, [])
  | "rstack" => some (20, [])
  | "fin" => some (1, [])
  | "finack" => some (17, [])
  | "syn" => some (2, [])
  | "synack" => some (18, [])
  | _ => none

def loopStep (cfg : Cfg) (my : Bytes) (st : St) (step : String) : Except Fault St :=
  let feed (st : St) (fr : Bytes) : Except Fault St := do
    let (st', _) ← recvStep cfg st 0 fr { iss := 0, id := 0 }
    pure st'
  match step.splitOn ":" with
  | ["x", h] => match unhex h with
    | some fr => if 14 ≤ fr.length then feed st fr else pure st
    | none => pure st
  | "c" :: peer :: sp :: dp :: isn :: flags =>
    match unhex peer, sp.toNat?, dp.toNat?, isn.toNat? with
    | some peer, some sp, some dp, some isn => do
      let isn := UInt32.ofNat isn
      let st ← feed st (clientSeg peer my sp dp isn 0 2 [])
      let srv : UInt32 := 2     -- ISS 0: SYN-ACK carries seq 1, SND.NXT = 2
      let st ← feed st (clientSeg peer my sp dp (isn + 1) srv 16 [])
      let rec go (st : St) (seq : UInt32) : List String → Except Fault St
        | [] => pure st
        | w :: ws => match flagWord w with
          | some (fl, pl) => do
            let st ← feed st (clientSeg peer my sp dp seq srv fl pl)
            go st (seq + UInt32.ofNat pl.length) ws
          | none => go st seq ws
      go st (isn + 1) flags
    | _, _, _, _ => pure st
  | _ => pure st

def loopDriver (args : List String) : String :=
  match args with
  | my :: arp :: fill :: steps =>
    match unhex my with
    | some my =>
      let cfg : Cfg := { myIPs := [my], arp := if arp = "1" then [[10,0,0,1],[10,0,0,2],[10,0,0,3],[10,0,0,4],[10,9,8,7]] else [],
                         cap := if fill = "1" then 0 else tableCap }
      let rec run (st : St) : List String → Except Fault St
        | [] => pure st
        | s :: ss => do let st' ← loopStep cfg my st s; run st' ss
      match run St.init steps with
      | .error f => "crashed " ++ faultStr f
      | .ok st =>
        let probe := clientSeg [10,9,8,7] my 4000 9999 0 0 0 []   -- placeholder replaced below
        let udp : Bytes := [2,0,0,0,0,1,2,0,0,0,0,153,8,0] ++
          ([69,0] ++ u16be 33 ++ [0,0,0,0,64,17,0,0] ++ [10,9,8,7] ++ my) ++
          (u16be 4000 ++ u16be 9999 ++ u16be 13 ++ [0,0]) ++ "probe".toUTF8.toList
        let _ := probe
        match recvStep cfg st 0 udp { iss := 0, id := 0 } with
        | .ok (_, .udp true) => "alive probe=1"
        | .ok _ => "alive probe=0"
        | .error f => "crashed " ++ faultStr f
    | none => "bad-op"
  | _ => "bad-op"

end HT.Can
