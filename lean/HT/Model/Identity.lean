import HT.Base
/-!
# Model of the sensor's persistent identity

`server/options.go` (`WithToken`), and the load-or-generate functions of
`services/{ssh,ftp,smtp,ldap}/storage.go` and `listener/agent/storage.go` over a key-value
store whose `Set` is atomic (badger, assumed) — as after the `fix:` commit in known-findings.txt.
-/
namespace HT.Id

/-- a well-formed token: 20 characters of the xid alphabet `0-9a-v` (`xid.FromString` succeeds) -/
def wfToken (s : List Char) : Bool :=
  s.length = 20 && s.all (fun c => (48 ≤ c.toNat && c.toNat ≤ 57) || (97 ≤ c.toNat && c.toNat ≤ 118))

/-- the token file: absent or its content -/
abbrev Disk := Option (List Char)

/-- `WithToken` with freshly generated id `g`: (disk afterwards, token in use) -/
def start (d : Disk) (g : List Char) : Disk × List Char :=
  match d with
  | some c => if wfToken c then (d, c) else (some g, g)
  | none => (some g, g)

/-- `WithToken` as it was: whatever the file holds is the token -/
def startOld (d : Disk) (g : List Char) : Disk × List Char :=
  match d with
  | some c => (d, c)
  | none => (some g, g)

/-- a restart history: the generated ids of the successive starts -/
def starts (d : Disk) : List (List Char) → Disk × List (List Char)
  | [] => (d, [])
  | g :: gs =>
    let (d', t) := start d g
    let (d'', ts) := starts d' gs
    (d'', t :: ts)

/-! ## key-value items -/

/-- a single stored secret (ssh host key, agent key pair): load or generate-and-store -/
def loadOrGen (stored : Option Nat) (g : Nat) : Option Nat × Nat :=
  match stored with
  | some k => (stored, k)
  | none => (some g, g)

/-- key + certificate of the ftp/smtp/ldap services: two separate `Set`s, key first -/
structure KC where
  key : Option Nat
  cert : Option (Nat × Nat)     -- (the key it certifies, a serial drawn when it was generated)
  deriving Repr, DecidableEq

/-- `Certificate()`: missing parts are generated and stored -/
def certStart (s : KC) (gKey gSerial : Nat) : KC × (Nat × (Nat × Nat)) :=
  let k := s.key.getD gKey
  let c := s.cert.getD (k, gSerial)
  ({ key := some k, cert := some c }, (k, c))

/-- the on-disk states a kill can leave during `certStart` (each `Set` is atomic) -/
def certCrashStates (s : KC) (gKey gSerial : Nat) : List KC :=
  [s, { s with key := some (s.key.getD gKey) }, (certStart s gKey gSerial).1]

/-! ## line protocol
`idtok <state> <n>` with state = `absent` | hex of the file content; `n` starts follow.
output: `kept` (the file's token is used) or `new`, then `stable` -/

def driver (args : List String) : String :=
  match args with
  | [st, _n] =>
    -- `tmp<hex>`: the token file is absent and a kill left the temporary file of the atomic write behind
    -- (with any content): it is overwritten, the start is a first start
    let d : Disk := if st = "absent" || st.startsWith "tmp" then none else (unhex st).map (fun b => b.map (fun x => Char.ofNat x.toNat))
    match d with
    | some c => if wfToken c then "kept stable" else "new stable"
    | none => "new stable"
  | _ => "bad-op"

end HT.Id
