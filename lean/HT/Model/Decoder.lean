import HT.Base
/-!
# Model of `services/decoder/decoder.go`

One Lean function per Go method, in the same order of guards.  Go `int` is
modelled as `Int` (see `HT.Props.C17` for why 64-bit wrap-around gives the same
result).  A method that can panic returns `Except Fault _`.
-/
namespace HT

structure Dec where
  off  : Int
  data : Bytes
  err  : Bool          -- `lasterror != nil`
  deriving Repr, DecidableEq

namespace Dec

def new (data : Bytes) : Dec := { off := 0, data := data, err := false }

def len (d : Dec) : Int := d.data.length

def available (d : Dec) : Int := d.len - d.off

/-- `HasBytes(size) == nil`, nested exactly as in the source -/
def hasBytes (d : Dec) (size : Int) : Bool :=
  if 0 ≤ d.off + size then (if d.off + size ≤ d.len then true else false) else false

/-- common shape of `Byte/Int16/Int32/Uint32`: read `n` bytes big-endian, advance -/
def readN (d : Dec) (n : Nat) : Except Fault (Nat × Dec) :=
  if d.hasBytes n then do
    let s ← slice d.data d.off (d.off + n)
    pure (beNat s, { d with off := d.off + n })
  else pure (0, { d with err := true })

/-- common shape of `PeekByte/PeekInt16` -/
def peekN (d : Dec) (n : Nat) : Except Fault (Nat × Dec) :=
  if d.hasBytes n then do
    let s ← slice d.data d.off (d.off + n)
    pure (beNat s, d)
  else pure (0, { d with err := true })

def byte (d : Dec) := readN d 1
def int16 (d : Dec) : Except Fault (Int × Dec) := do
  let (v, d') ← readN d 2
  pure (toSigned 16 v, d')
def int32 (d : Dec) : Except Fault (Int × Dec) := do
  let (v, d') ← readN d 4
  pure (toSigned 32 v, d')
def uint32 (d : Dec) := readN d 4
def peekByte (d : Dec) := peekN d 1
def peekInt16 (d : Dec) : Except Fault (Int × Dec) := do
  let (v, d') ← peekN d 2
  pure (toSigned 16 v, d')

/-- `Copy(size)`; `guarded` = the source rejects a negative size before `make`
(true after the `fix:` commit recorded in known-findings.txt; the unfixed code
is `copyRaw`). -/
def copy (d : Dec) (size : Int) : Except Fault (Option Bytes × Dec) :=
  if size < 0 then pure (none, { d with err := true })
  else if d.hasBytes size then do
    let n ← mkSlice size
    let s ← slice d.data d.off (d.off + size)
    pure (some (s.take n), { d with off := d.off + size })
  else pure (none, { d with err := true })

/-- `Copy` as it was before the fix: no guard on the sign of `size`. -/
def copyRaw (d : Dec) (size : Int) : Except Fault (Option Bytes × Dec) :=
  if d.hasBytes size then do
    let n ← mkSlice size
    let s ← slice d.data d.off (d.off + size)
    pure (some (s.take n), { d with off := d.off + size })
  else pure (none, { d with err := true })

def seek (d : Dec) (pos : Int) : Dec :=
  if d.hasBytes pos then { d with off := d.off + pos } else { d with err := true }

/-- `Data()` = `Int16` then `Copy(int(l))` -/
def data' (d : Dec) : Except Fault (Option Bytes × Dec) := do
  let (l, d1) ← int16 d
  copy d1 l

/-- `Data()` over the unfixed `Copy` -/
def dataRaw (d : Dec) : Except Fault (Option Bytes × Dec) := do
  let (l, d1) ← int16 d
  copyRaw d1 l

/-! ## operations as data, for op sequences -/

inductive Op where
  | byte | int16 | int32 | uint32 | peekByte | peekInt16
  | copy (n : Int) | seek (n : Int) | data | avail
  deriving Repr, DecidableEq

/-- observable result of one op -/
inductive Out where
  | num (v : Int)
  | bytes (b : Option Bytes)
  | str (b : Option Bytes)      -- a Go `string(...)`: nil and empty coincide
  | unit
  deriving Repr, DecidableEq

def step (d : Dec) : Op → Except Fault (Out × Dec)
  | .byte => do let (v, d') ← byte d; pure (.num v, d')
  | .int16 => do let (v, d') ← int16 d; pure (.num v, d')
  | .int32 => do let (v, d') ← int32 d; pure (.num v, d')
  | .uint32 => do let (v, d') ← uint32 d; pure (.num v, d')
  | .peekByte => do let (v, d') ← peekByte d; pure (.num v, d')
  | .peekInt16 => do let (v, d') ← peekInt16 d; pure (.num v, d')
  | .copy n => do let (b, d') ← copy d n; pure (.bytes b, d')
  | .seek n => pure (.unit, seek d n)
  | .data => do let (b, d') ← data' d; pure (.str b, d')
  | .avail => pure (.num d.available, d)

/-- run an op sequence; stops at the first fault -/
def run (d : Dec) : List Op → Except Fault (List Out × Dec)
  | [] => pure ([], d)
  | o :: os => do
    let (r, d') ← step d o
    let (rs, d'') ← run d' os
    pure (r :: rs, d'')

/-! ## line protocol: `dec <hex> op op …` -/

def parseOp (s : String) : Option Op :=
  match s.splitOn ":" with
  | ["byte"] => some .byte
  | ["i16"] => some .int16
  | ["i32"] => some .int32
  | ["u32"] => some .uint32
  | ["pb"] => some .peekByte
  | ["pi16"] => some .peekInt16
  | ["data"] => some .data
  | ["avail"] => some .avail
  | ["copy", n] => n.toInt?.map .copy
  | ["seek", n] => n.toInt?.map .seek
  | _ => none

def outStr : Out → String
  | .num v => toString v
  | .bytes none => "nil"
  | .bytes (some b) => hex b
  | .str none => "s-"
  | .str (some b) => "s" ++ hex b
  | .unit => "_"

/-- run, reporting the outputs produced before a fault as well -/
def runTrace (d : Dec) : List Op → List String × Dec × Option Fault
  | [] => ([], d, none)
  | o :: os =>
    match step d o with
    | .error f => ([], d, some f)
    | .ok (r, d') =>
      let (rs, d'', f) := runTrace d' os
      (outStr r :: rs, d'', f)

def driver (args : List String) : String :=
  match args with
  | h :: ops =>
    match unhex h, ops.mapM parseOp with
    | some b, some os =>
      let (outs, d, f) := runTrace (new b) os
      let tail := match f with
        | some f => faultStr f
        | none => s!"off={d.off} err={b01 d.err}"
      " ".intercalate (outs ++ [tail])
    | _, _ => "bad-op"
  | _ => "bad-op"

end Dec
end HT
