import HT.Base
/-!
# Where a failure ends: the connection or the process

`server/honeytrap.go` (`handle`: one goroutine per connection, deferred recover, close) and the
goroutines services start themselves (`services/vnc/rfb.go` frame pusher, ftp/smtp reporters);
the request-payload loops of `services/ssh/ssh-simulator.go` / `ssh-jail.go` — as after the `fix:`
commits in known-findings.txt (`fixed := false` gives the code as it was).
-/
namespace HT.Conf

/-- how a goroutine working for a connection ends -/
inductive Outcome where
  | returned                 -- normally or with an error value
  | panicked                 -- a Go panic (index, nil, explicit)
  | fatal                    -- a runtime fatal error: stack exhaustion, concurrent map access, out of memory
  deriving Repr, DecidableEq

/-- which goroutine: the connection's handler (under the server's recover) or one a service started -/
inductive Site where
  | handler
  | spawned (recovers : Bool)
  deriving Repr, DecidableEq

structure Proc where
  alive : Bool
  ended : Nat        -- connections whose handler has ended (closed, reported)
  errors : Nat       -- error events raised for recovered panics
  deriving Repr, DecidableEq

def Proc.init : Proc := { alive := true, ended := 0, errors := 0 }

/-- one goroutine ends -/
def step (p : Proc) (e : Site × Outcome) : Proc :=
  if !p.alive then p
  else match e with
    | (.handler, .returned) => { p with ended := p.ended + 1 }
    | (.handler, .panicked) => { p with ended := p.ended + 1, errors := p.errors + 1 }
    | (.spawned _, .returned) => p
    | (.spawned true, .panicked) => p
    | (.spawned false, .panicked) => { p with alive := false }
    | (_, .fatal) => { p with alive := false }

def run (p : Proc) (es : List (Site × Outcome)) : Proc := es.foldl step p

/-- an ending that the process survives -/
def confined : Site × Outcome → Bool
  | (_, .fatal) => false
  | (.spawned false, .panicked) => false
  | _ => true

/-! ## the length-prefixed strings of an ssh request payload (`env`, `exec`) -/

/-- the loop `for { if Available()==0 [|| LastError()!=nil] {break}; payloads = append(payloads, String()) }`;
`none` = still looping when the fuel is used up -/
def sshStrings (fixed : Bool) : Nat → Bool → Bytes → Option (List Bytes)
  | 0, _, _ => none
  | fuel + 1, err, b =>
    if b.isEmpty || (fixed && err) then some []
    else match b with
      | a :: b2 :: c :: d :: rest =>
        let len := ((a.toNat * 256 + b2.toNat) * 256 + c.toNat) * 256 + d.toNat
        -- `Copy(int(len))`: a length with the top bit set is negative
        if len ≥ 2147483648 ∨ rest.length < len then (sshStrings fixed fuel true rest).map ([] :: ·)
        else (sshStrings fixed fuel err (rest.drop len)).map (rest.take len :: ·)
      | _ => (sshStrings fixed fuel true b).map ([] :: ·)       -- fewer than four bytes: the read fails, nothing is consumed

/-! ## line protocol
`conf ssh <payload hex>` → the strings as `hex,hex,...` | `-` | `spin` -/

def driver (args : List String) : String :=
  match args with
  | ["ssh", h] =>
    match unhex h with
    | none => "bad-op"
    | some b =>
      match sshStrings true (b.length + 2) false b with
      | none => "spin"
      | some l => if l.isEmpty then "none" else ",".intercalate (l.map hex)
  | _ => "bad-op"

end HT.Conf
