import HT.Model.Server
/-! Line protocol for the server models (C06, C08, C19); not part of any theorem.

* `srv <defined,…> <entry> … | <proto> <ip|*> <port> <seg hex> …`
   entry = `<port|->;<p1,p2|->;<s1,s2|->`; a service named `d<hex>` has a detector accepting
   payloads with that prefix, any other name has none
* `bus <ch,…> <chs;svcs;cats> … | <id;cat;svc> …`   (`-` = absent/empty list, `~` = missing field)
-/
namespace HT.Srv

def csv (s : String) : List String := if s = "-" then [] else s.splitOn ","

def parseEntry (s : String) : Option PortEntry :=
  match s.splitOn ";" with
  | [p, ps, sv] => some { port := if p = "-" then "" else p,
                          ports := if ps = "-" then none else some (if ps = "" then [] else ps.splitOn ","),
                          services := csv sv }
  | _ => none

def addrStr (a : Addr) : String :=
  (match a.proto with | .tcp => "tcp" | .udp => "udp") ++ "/" ++ (a.ip.getD "*") ++ ":" ++ toString a.port

def tableStr (t : Table) : String :=
  " ".intercalate (t.map fun kv => addrStr kv.1 ++ "=[" ++ ",".intercalate kv.2 ++ "]")

def svcOf (name : String) : Svc :=
  if name.startsWith "d" then
    match unhex (name.drop 1).toString with
    | some b => { name := name, detector := some b }
    | none => { name := name, detector := none }
  else { name := name, detector := none }

def splitBar (ws : List String) : List String × List String :=
  (ws.takeWhile (· ≠ "|"), (ws.dropWhile (· ≠ "|")).drop 1)

def srvDriver (args : List String) : String :=
  match args with
  | defined :: rest =>
    let (es, conn) := splitBar rest
    match es.mapM parseEntry with
    | none => "bad-op"
    | some entries =>
      let t := buildTable (csv defined) entries
      let ts := ("table " ++ tableStr t).trimAscii.toString
      match conn with
      | proto :: ip :: port :: segs =>
        match port.toNat?, segs.mapM unhex with
        | some port, some segs =>
          let l : Addr := { proto := if proto = "udp" then .udp else .tcp, ip := if ip = "*" then none else some ip, port := port }
          let cands := match t.find? (fun kv => compareAddr kv.1 l) with
            | some kv => kv.2.map svcOf
            | none => []
          let r := match findService cands (firstRead segs) with
            | none => "none"
            | some (s, via) => s.name ++ " view=" ++ hex (serviceView segs via)
          ts ++ " ; " ++ r
        | _, _ => "bad-op"
      | _ => ts
  | _ => "bad-op"

def parseFilter (s : String) : Option Filter :=
  match s.splitOn ";" with
  | [c, sv, ca] => some { channels := csv c, services := csv sv, categories := csv ca }
  | _ => none

def parseEv (s : String) : Option Ev :=
  match s.splitOn ";" with
  | [i, c, sv] => some { id := i, category := if c = "~" then "" else c, service := if sv = "~" then "" else sv }
  | _ => none

def busDriver (args : List String) : String :=
  match args with
  | defined :: rest =>
    let (fs, es) := splitBar rest
    match fs.mapM parseFilter, es.mapM parseEv with
    | some fs, some es =>
      let chans := csv defined
      let ds := sendAll rxMatch (wire chans fs) es
      " ".intercalate (chans.map fun c => c ++ "=[" ++ ",".intercalate ((received ds c).map (·.id)) ++ "]")
    | _, _ => "bad-op"
  | _ => "bad-op"

end HT.Srv
