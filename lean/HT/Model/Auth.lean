import HT.Base
import HT.Gen.Facts
/-!
# Model of the three authentication decisions and their gates

`services/ssh/ssh-simulator.go` (`PasswordCallback`), `services/ldap/{bind,ldap,catchall}.go`
(bind evaluation, login state, catch-all gate) and `services/ftp/{auth,cmd,conn}.go`
(USER/PASS, dispatcher gate over the command table regenerated into `HT.Gen.ftpCommands`)
— as after the `fix:` commits in known-findings.txt.
-/
namespace HT.Auth

/-! ## ssh simulator -/

/-- a configured credential as the callback reads it -/
inductive Cred where
  | wildcard                       -- "*"
  | pair (user pass : String)      -- exactly one ':'
  | malformed                      -- anything else is skipped
  deriving Repr, DecidableEq

def parseCred (s : String) : Cred :=
  if s = "*" then .wildcard
  else match s.splitOn ":" with
    | [u, p] => .pair u p
    | _ => .malformed

/-- the loop of `PasswordCallback` -/
def sshCheck : List Cred → String → String → Bool
  | [], _, _ => false
  | .wildcard :: _, _, _ => true
  | .pair u p :: rest, u', p' => (u = u' && p = p') || sshCheck rest u' p'
  | .malformed :: rest, u', p' => sshCheck rest u' p'

/-! ## ldap -/

structure LdapSt where
  login : String
  authenticated : Bool
  deriving Repr, DecidableEq

def LdapSt.init : LdapSt := { login := "", authenticated := false }

def isLogin (s : LdapSt) : Bool := s.login ≠ "" || s.authenticated

def resSuccess : Nat := 0
def resInvalidCred : Nat := 49
def resUnwilling : Nat := 53

/-- the bind name as the service evaluates it: cut at the first ',', then a leading cn=/sn= removed -/
def normDN (dn : String) : String :=
  let first := (dn.splitOn ",").headD ""
  if first.startsWith "cn=" || first.startsWith "sn=" then (first.drop 3).toString else first

/-- one bind attempt with the evaluated name `dn` and password `pw`: new state and result code -/
def ldapBind (creds : List String) (s : LdapSt) (dn pw : String) : LdapSt × Nat :=
  if dn = "" ∧ pw = "" then ({ login := "", authenticated := false }, resSuccess)      -- anonymous bind
  else if creds.any (fun u => u = "*" || u = dn ++ ":" ++ pw) then
    ({ login := dn, authenticated := true }, resSuccess)
  else (s, if pw = "" ∧ dn ≠ "" then resUnwilling else resInvalidCred)

/-- add / modify / delete / modifyDN / compare through the catch-all handler -/
def ldapGatedOp (s : LdapSt) : Nat := if isLogin s then resSuccess else resUnwilling

/-! ## ftp -/

structure FtpSt where
  user : String
  reqUser : String
  deriving Repr, DecidableEq

def FtpSt.init : FtpSt := { user := "", reqUser := "" }

/-- the fixed user table of the FTP service -/
def ftpCheckPasswd (name pw : String) : Bool := name = "anonymous" && pw = "anonymous"

/-- reply code; 0 stands for "the command's Execute ran" (a driver/file-system action) -/
def ftpStep (s : FtpSt) (cmd param : String) : FtpSt × Nat :=
  match HT.Gen.ftpCommands.find? (fun c => c.1 = cmd) with
  | none => (s, 500)
  | some (_, requireAuth, requireParam) =>
    if requireParam ∧ param = "" then (s, 553)
    else if requireAuth ∧ s.user = "" then (s, 530)
    else if cmd = "USER" then ({ s with reqUser := param }, 331)
    else if cmd = "PASS" then
      if ftpCheckPasswd s.reqUser param then ({ user := s.reqUser, reqUser := "" }, 230) else (s, 530)
    else (s, 0)

/-- file and directory commands of the property -/
def ftpFileDirCommands : List String :=
  ["CWD", "XCWD", "CDUP", "XCUP", "PWD", "XPWD", "MKD", "RMD", "XRMD", "DELE", "RNFR", "RNTO", "STOR", "APPE",
   "RETR", "LIST", "NLST", "MDTM", "SIZE"]

/-! ## line protocol
`auth ssh <cred,cred,…|-> <user>:<pass> …`   → 1/0 per attempt
`auth ldap <cred,…|-> <op> …` with op = `b:<dn>:<pw>` (bind; reply code) | `g` (a gated operation; reply code)
`auth ftp <op> …` with op = `<CMD>:<param>` → reply code (0 = executed)
strings are hex-encoded so that any byte may occur -/

def unhexStr (s : String) : String :=
  match unhex s with
  | some b => String.fromUTF8! (ByteArray.mk b.toArray)
  | none => ""

def driver (args : List String) : String :=
  match args with
  | "ssh" :: creds :: attempts =>
    let cs := (if creds = "-" then [] else creds.splitOn ",").map (fun c => parseCred (unhexStr c))
    " ".intercalate (attempts.map fun a => match a.splitOn ":" with
      | [u, p] => b01 (sshCheck cs (unhexStr u) (unhexStr p))
      | _ => "bad-op")
  | "ldap" :: creds :: ops =>
    let cs := (if creds = "-" then [] else creds.splitOn ",").map unhexStr
    let (_, outs) := ops.foldl (fun (acc : LdapSt × List String) op =>
      match op.splitOn ":" with
      | ["b", dn, pw] =>
        let (s', rc) := ldapBind cs acc.1 (normDN (unhexStr dn)) (unhexStr pw)
        (s', acc.2 ++ [toString rc])
      | ["g"] => (acc.1, acc.2 ++ [toString (ldapGatedOp acc.1)])
      | _ => (acc.1, acc.2 ++ ["bad-op"])) (LdapSt.init, [])
    " ".intercalate outs
  | "ftp" :: ops =>
    let (_, outs) := ops.foldl (fun (acc : FtpSt × List String) op =>
      match op.splitOn ":" with
      | [c, p] =>
        let (s', rc) := ftpStep acc.1 c (unhexStr p)
        (s', acc.2 ++ [toString rc])
      | _ => (acc.1, acc.2 ++ ["bad-op"])) (FtpSt.init, [])
    " ".intercalate outs
  | _ => "bad-op"

end HT.Auth
