import HT.Model.Relay
/-!
# http requests with chunked bodies (`services/http.go` through net/http's chunked reader)

A request whose head says `Transfer-Encoding: chunked` (HTTP/1.1) carries its body as chunks: a size line in
hexadecimal (extensions after `;` ignored), that many bytes, CRLF; a chunk of size 0 ends the body and is followed
by trailer lines up to an empty line.  The service reports the request when the body is complete, with the first
1024 decoded bytes.  A malformed chunk ends the connection without a report.

The model-compared cases end on a request boundary; a stream that ends inside a chunked body is judged by the
implementation-only oracle (`finish` reports nothing there).
-/
namespace HT.Relay
open HT.Seg HT.Proto

def hexDigit (c : UInt8) : Option Nat :=
  if 48 ≤ c.toNat ∧ c.toNat ≤ 57 then some (c.toNat - 48)
  else if 97 ≤ c.toNat ∧ c.toNat ≤ 102 then some (c.toNat - 87)
  else if 65 ≤ c.toNat ∧ c.toNat ≤ 70 then some (c.toNat - 55)
  else none

def hexVal : Bytes → Option Nat
  | [] => none
  | ds => ds.foldl (fun acc c => match acc, hexDigit c with
      | some n, some d => some (n * 16 + d)
      | _, _ => none) (some 0)

/-- the size on a chunk-size line -/
def chunkSize (l : Bytes) : Option Nat := hexVal (trimSpaces (l.takeWhile (· != 59)))

/-- trailer lines up to the empty line -/
def trailers : Nat → P Unit
  | 0 => fun _ => none
  | fuel + 1 => bindP line (fun raw => if (stripEOL raw).isEmpty then pureP () else trailers fuel)

/-- a chunked body decoded; inner `none`: malformed -/
def chunked : Nat → P (Option Bytes)
  | 0 => fun _ => none
  | fuel + 1 => bindP line (fun raw =>
    match chunkSize (stripEOL raw) with
    | none => pureP none
    | some 0 => bindP (trailers fuel) (fun _ => pureP (some []))
    | some (n + 1) => bindP (takeN (n + 1)) (fun d => bindP line (fun e =>
        if (stripEOL e).isEmpty then bindP (chunked fuel) (fun r => pureP (r.map (d ++ ·)))
        else pureP none)))

inductive BodyKind where
  | len (n : Nat)
  | chunks
  deriving Repr, DecidableEq

/-- "transfer-encoding", "chunked", "HTTP/1.1" -/
def nTransferEncoding : Bytes := [116, 114, 97, 110, 115, 102, 101, 114, 45, 101, 110, 99, 111, 100, 105, 110, 103]
def vChunked : Bytes := [99, 104, 117, 110, 107, 101, 100]
def vHTTP11 : Bytes := [72, 84, 84, 80, 47, 49, 46, 49]

/-- the head of a request: method, target and how the body is framed; `none` = malformed (connection ends) -/
def headInfoC (ls : List Bytes) : Option (Bytes × Bytes × BodyKind) :=
  match ls with
  | [] => none
  | rl :: hs =>
    match splitOn sp rl with
    | [m, t, v] =>
      if v == vHTTP11 && (headerValue nTransferEncoding hs).map (·.map lower) == some vChunked then some (m, t, .chunks)
      else match headerValue nContentLength hs with
        | none => some (m, t, .len 0)
        | some c =>
          match digitsVal c with
          | none => none
          | some n => some (m, t, .len n)
    | _ => none

def httpHeadC : P (Option (Bytes × Bytes × BodyKind)) := fun b =>
  bindP (headLines (b.length + 1)) (fun ls => pureP (headInfoC ls)) b

inductive HCSt where
  | open
  | body (m t : Bytes) (n : Nat)      -- waiting for the n + 1 bytes of the body
  | chunk (m t : Bytes)               -- inside a chunked body
  | closed
  deriving Repr, DecidableEq

def chunkedAll : P (Option Bytes) := fun b => chunked (b.length + 1) b

def httpCNext : HCSt → P (List Ev × HCSt)
  | .closed => fun _ => none
  | .open => bindP httpHeadC (fun r => match r with
      | some (m, t, .len 0) => pureP ([httpEv m t []], .open)
      | some (m, t, .len (n + 1)) => pureP ([], .body m t n)
      | some (m, t, .chunks) => pureP ([], .chunk m t)
      | none => pureP ([], .closed))
  | .body m t n => bindP (takeN (n + 1)) (fun body => pureP ([httpEv m t body], .open))
  | .chunk m t => bindP chunkedAll (fun r => match r with
      | some body => pureP ([httpEv m t body], .open)
      | none => pureP ([], .closed))

def httpCFinish : HCSt → Bytes → List Ev
  | .body m t _, buf => [httpEv m t buf]
  | _, _ => []

/-- the http service incl. chunked request bodies -/
def httpSvcC : Proto HCSt Ev := { next := httpCNext, finish := httpCFinish }

/-- `segc http <segment hex> ...` -/
def segHttpCDriver (segsHex : List String) : String :=
  match segsHex.mapM unhex with
  | some ss => showEvs (eventsOf httpSvcC .open ss)
  | none => "bad-op"

end HT.Relay
