import HT.Base
/-!
# Model of the port-scan (knock) detector

`listener/canary/unique-set.go` and `listener/canary/knock.go`, as they are after the
`fix:` commits listed in known-findings.txt.  `USetOld` keeps the slice-aliasing
behaviour `Each` had before the fix, for the recorded counterexample.
-/
namespace HT.Knock

/-! ## UniqueSet -/

/-- items in insertion order; `eq` is the set's `uniqueFunc`, identity is `=` on `α` -/
structure USet (α : Type) where
  items : List α
  deriving Repr

namespace USet
variable {α : Type} [DecidableEq α]

def empty : USet α := { items := [] }
def count (s : USet α) : Nat := s.items.length

/-- `Add`: the first item `uniqueFunc`-equal to `x` is returned, else `x` is appended -/
def add (eq : α → α → Bool) (s : USet α) (x : α) : USet α × α :=
  match s.items.find? (fun y => eq x y) with
  | some y => (s, y)
  | none => ({ items := s.items ++ [x] }, x)

/-- `Remove`: the first item identical to `x` is removed -/
def remove (s : USet α) (x : α) : USet α := { items := s.items.erase x }

/-- `Each`: the callback sees every item of a *copy* taken at the start, in order, and may
change the set (`f` gets the current set and returns the new one plus its output) -/
def each {β : Type} (s : USet α) (f : USet α → Nat → α → USet α × List β) : USet α × List β :=
  let rec go (cur : USet α) (i : Nat) : List α → USet α × List β
    | [] => (cur, [])
    | x :: xs =>
      let (cur', o) := f cur i x
      let (cur'', os) := go cur' (i + 1) xs
      (cur'', o ++ os)
  go s 0 s.items

def find (s : USet α) (p : α → Bool) : Option α := s.items.find? p

end USet

/-! ## UniqueSet as it was: `Each` walks a slice header over the shared backing array -/

structure USetOld (α : Type) where
  arr : Array (Option α)   -- backing array
  len : Nat                -- slice length
  deriving Repr

namespace USetOld
variable {α : Type} [DecidableEq α]

def remove (s : USetOld α) (x : α) : USetOld α :=
  match (List.range s.len).find? (fun i => s.arr[i]! == some x) with
  | none => s
  | some i =>
    let arr := s.arr.set! i none
    let arr := (List.range (s.len - 1 - i)).foldl (fun a k => a.set! (i + k) (a[i + k + 1]!)) arr
    { arr := arr, len := s.len - 1 }          -- the stale last element stays in the array

/-- report-and-remove every visited item, iterating the snapshot length over the live array -/
def tickAll (s : USetOld α) : USetOld α × List α :=
  (List.range s.len).foldl
    (fun (acc : USetOld α × List α) i =>
      match acc.1.arr[i]! with
      | some k => (acc.1.remove k, acc.2 ++ [k])
      | none => acc)
    (s, [])
end USetOld

/-! ## the detector -/

inductive Probe where
  | tcp (port : Nat)
  | udp (port : Nat)
  | icmp
  deriving Repr, DecidableEq

def Probe.str : Probe → String
  | .tcp p => s!"tcp/{p}"
  | .udp p => s!"udp/{p}"
  | .icmp => "icmp"

/-- what groups are keyed by: hardware and IP addresses of source and destination -/
structure Key where
  srcMac : Bytes
  dstMac : Bytes
  srcIP : Bytes
  dstIP : Bytes
  deriving Repr, DecidableEq

structure Group where
  key : Key
  start : Nat
  last : Nat
  count : Nat
  probes : List Probe
  deriving Repr, DecidableEq

/-- `UniqueSet.Add` on a group's port set with `knockEqual` -/
def addProbe (ps : List Probe) (p : Probe) : List Probe :=
  if ps.contains p then ps else ps ++ [p]

/-- one knock arriving at time `t` (ms) -/
def knock (gs : List Group) (k : Key) (p : Probe) (t : Nat) : List Group :=
  match gs with
  | [] => [{ key := k, start := t, last := t, count := 1, probes := [p] }]
  | g :: rest =>
    if g.key = k then { g with count := g.count + 1, last := t, probes := addProbe g.probes p } :: rest
    else g :: knock rest k p t

structure Report where
  key : Key
  ports : List Probe
  duration : Nat
  deriving Repr, DecidableEq

/-- is the group due at `now`?  (`Count > 100`, or no probe for 5 s) -/
def due (g : Group) (now : Nat) : Bool := g.count > 100 || ¬ (g.last + 5000 > now)

/-- the 5-second tick: every due group is reported once and removed -/
def tick (gs : List Group) (now : Nat) : List Group × List Report :=
  (gs.filter (fun g => ¬ due g now),
   (gs.filter (fun g => due g now)).map fun g => { key := g.key, ports := g.probes, duration := g.last - g.start })

/-- a history of knocks from the empty detector -/
def run (ks : List (Key × Probe × Nat)) : List Group :=
  ks.foldl (fun gs k => knock gs k.1 k.2.1 k.2.2) []

/-! ## line protocol

`uset op op …` over small naturals; two items are `uniqueFunc`-equal when they agree modulo 10.
ops: `a<n>` add, `r<n>` remove, `c` count, `e` each (no-op callback), `er` each removing the
visited item, `ex<n>` each removing item `n` at every visit, `f<n>` find item equal to n

`knock k:<srcip>:<dstip>:<proto>:<port>:<t> … t:<now>` -/

def eqMod (a b : Nat) : Bool := a % 10 = b % 10

def usetOps (s : USet Nat) : List String → List String
  | [] => []
  | op :: ops =>
    let arg := (op.drop 1).toString.toNat?
    match op.front, arg with
    | 'a', some n =>
      let (s', r) := s.add eqMod n
      s!"{r}" :: usetOps s' ops
    | 'r', some n => "_" :: usetOps (s.remove n) ops
    | 'c', _ => s!"{s.count}" :: usetOps s ops
    | 'f', some n => (match s.find (eqMod n) with | some y => s!"{y}" | none => "nil") :: usetOps s ops
    | 'e', _ =>
      let mode := (op.drop 1).toString
      let (s', vis) :=
        if mode = "" then s.each (fun cur _ x => (cur, [x]))
        else if mode = "r" then s.each (fun cur _ x => (cur.remove x, [x]))
        else match (mode.drop 1).toString.toNat? with
          | some n => s.each (fun cur _ x => (cur.remove n, [x]))
          | none => (s, [])
      ("[" ++ ",".intercalate (vis.map toString) ++ "]") :: usetOps s' ops
    | _, _ => ["bad-op"]

def usetDriver (args : List String) : String :=
  let outs := usetOps USet.empty args
  " ".intercalate outs

def reportStr (r : Report) : String :=
  s!"{hex r.key.srcIP}>{hex r.key.dstIP}[" ++ ",".intercalate (r.ports.map Probe.str) ++ "]"

def knockOps (gs : List Group) : List String → List String
  | [] => []
  | op :: ops =>
    match op.splitOn ":" with
    | ["k", s, d, proto, port, t] =>
      match unhex s, unhex d, port.toNat?, t.toNat? with
      | some s, some d, some port, some t =>
        let p := if proto = "tcp" then Probe.tcp port else if proto = "udp" then Probe.udp port else Probe.icmp
        let key : Key := { srcMac := [], dstMac := [], srcIP := s, dstIP := d }
        knockOps (knock gs key p t) ops
      | _, _, _, _ => ["bad-op"]
    | ["t", now] =>
      match now.toNat? with
      | some now =>
        let (gs', rs) := tick gs now
        ("tick " ++ " ".intercalate (rs.map reportStr)).trimAscii.toString :: knockOps gs' ops
      | none => ["bad-op"]
    | _ => ["bad-op"]

def knockDriver (args : List String) : String := " ; ".intercalate (knockOps [] args)

end HT.Knock
