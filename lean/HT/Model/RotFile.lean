import HT.Base
/-!
# Model of the file channel's rotating log file

`pushers/file/rotatefile.go` (`Write`, `rotate`, rotated-name choice) as it is
after the `fix:` commits in known-findings.txt.  The file system is the list of
rotated files (oldest first) plus the active file; a rename is a move of the
active content to the end of that list.
-/
namespace HT.Rot

def NL : UInt8 := 10

structure RF where
  rotated : List Bytes
  cur : Bytes
  deriving Repr, DecidableEq

/-- scan for the last newline: `i` is the index of the head, `acc` the best so far -/
def lastNLGo : Bytes → Nat → Option Nat → Option Nat
  | [], _, acc => acc
  | x :: xs, i, acc => lastNLGo xs (i + 1) (if x = NL then some i else acc)

/-- index of the last newline among the first `n` bytes (`bytes.LastIndexByte(p[:n], '\n')`) -/
def lastNL (p : Bytes) (n : Nat) : Option Nat := lastNLGo (p.take n) 0 none

/-- index of the first newline (`bytes.IndexByte(p, '\n')`) -/
def firstNL (p : Bytes) : Option Nat := p.findIdx? (· = NL)

def rotate (f : RF) : RF := { rotated := f.rotated ++ [f.cur], cur := [] }

/-- what one turn of the loop in `Write` decides -/
inductive Choice where
  | fits                 -- loop condition false: everything goes into the active file
  | cut (j : Nat)        -- write `p[:j+1]` (whole lines that fit), then rotate if data remains
  | rotateFirst          -- not even the first line fits and the file is not empty: rotate, retry
  | big (j : Nat)        -- empty file, first line larger than the file: it gets a file of its own
  | noNL                 -- empty file and no newline at all: write everything
  deriving Repr, DecidableEq

def choose (max : Nat) (f : RF) (p : Bytes) : Choice :=
  if f.cur.length + p.length > max then
    let space := max - f.cur.length
    match (if space > 0 then lastNL p space else none) with
    | some j => .cut j
    | none =>
      if f.cur.length > 0 then .rotateFirst
      else match firstNL p with
        | some j => .big j
        | none => .noNL
  else .fits

/-- the loop of `Write`, structural on fuel (each turn either moves to an empty file,
after which the next turn writes, or writes at least one byte; `2 * p.length + 2`
turns always suffice) -/
def writeLoop (max : Nat) : Nat → RF → Bytes → RF
  | 0, f, p => { f with cur := f.cur ++ p }
  | fuel + 1, f, p =>
    match choose max f p with
    | .fits => { f with cur := f.cur ++ p }
    | .noNL => { f with cur := f.cur ++ p }
    | .rotateFirst => writeLoop max fuel (rotate f) p
    | .cut j =>
      let f' := { f with cur := f.cur ++ p.take (j + 1) }
      if (p.drop (j + 1)).isEmpty then f' else writeLoop max fuel (rotate f') (p.drop (j + 1))
    | .big j =>
      let f' := { f with cur := f.cur ++ p.take (j + 1) }
      if (p.drop (j + 1)).isEmpty then f' else writeLoop max fuel (rotate f') (p.drop (j + 1))

def write (max : Nat) (f : RF) (p : Bytes) : RF := writeLoop max (2 * p.length + 2) f p

/-- everything stored, oldest first -/
def contents (f : RF) : Bytes := f.rotated.flatten ++ f.cur

/-- choice of the rotated file's name: `<path>.<ts>`, then `<path>.<ts>.1`, `.2`, … — the first
candidate for which `Lstat` fails (`n` bounds the search in the model) -/
def rotName (taken : List String) (base : String) (n : Nat) : Option String :=
  (base :: (List.range n).map (fun i => base ++ "." ++ toString (i + 1))).find? (fun c => !taken.contains c)

/-! ## line protocol: `rot <max> <initial size of existing file> op op …`
ops: `w:<l1>,<l2>,…` one Write of a batch of lines of those lengths (newline included),
`h:<hex>` one Write of raw bytes, `rm` the active file is removed externally.
output: size/lines of the rotated files in creation order, then of the active file -/

def lineCount (b : Bytes) : Nat := (b.filter (· = NL)).length

def mkLine (n : Nat) : Bytes := List.replicate (n - 1) 120 ++ (if n > 0 then [NL] else [])

def parseBatch (s : String) : Option Bytes :=
  (s.splitOn ",").foldl (fun acc t => match acc, t.toNat? with
    | some b, some n => some (b ++ mkLine n)
    | _, _ => none) (some [])

def step (max : Nat) (f : RF) (op : String) : Option RF :=
  if op = "rm" then some { f with cur := [] }
  else match op.splitOn ":" with
    | ["w", b] => (parseBatch b).map (write max f)
    | ["h", h] => (unhex h).map (write max f)
    | _ => none

def driver (args : List String) : String :=
  match args with
  | m :: init :: ops =>
    match m.toNat?, init.toNat? with
    | some max, some init =>
      -- OpenRotateFile: an existing file at or beyond the limit is rotated first
      let f0 : RF := { rotated := [], cur := mkLine init }
      let f0 := if f0.cur.length < max then f0 else rotate f0
      match ops.foldlM (step max) f0 with
      | none => "bad-op"
      | some f =>
        let sz (b : Bytes) := s!"{b.length}/{lineCount b}"
        "r=[" ++ ",".intercalate (f.rotated.map sz) ++ "] cur=" ++ sz f.cur
    | _, _ => "bad-op"
  | _ => "bad-op"

end HT.Rot
