import HT.Model.Seg
import HT.Model.Proto
import HT.Model.Server
/-!
# The proxying services

* `director/forward/forward.go` — the address the forward director dials.
* `services/copy.go` — the stream relay (`io.Copy` each way) and the one-datagram relay.
* `services/http-proxy.go` — requests framed off one persistent reader (head up to the empty line,
  body of `Content-Length` bytes), one relay per request — as after the `fix:` commits in
  known-findings.txt.
-/
namespace HT.Relay
open HT.Seg HT.Proto

/-! ## forward director -/

/-- `Dial`: the configured host; the port is the connection's local port unless the host carries one -/
def dialTarget (cfgHost : List Char) (localPort : Nat) : List Char × List Char :=
  match Srv.splitHostPort cfgHost with
  | some (h, p) => (h, p)
  | none => (cfgHost, (toString localPort).toList)

/-- the director as a (wrongly) stateful object: the first resolved target is reused (the shape of a seeded defect) -/
def dialCached (cfgHost : List Char) : Option (List Char × List Char) → Nat → (List Char × List Char) × Option (List Char × List Char)
  | some t, _ => (t, some t)
  | none, p => (dialTarget cfgHost p, some (dialTarget cfgHost p))

/-! ## stream relay: `io.Copy` — read a segment, write it -/

def copyStep (written : Bytes) (seg : Bytes) : Bytes := written ++ seg
def copyRelay (segs : List Bytes) : Bytes := segs.foldl copyStep []

/-! ## http proxy: framing of the client's requests -/

/-- the header lines up to the empty line (each without its terminator) -/
def headLines : Nat → P (List Bytes)
  | 0 => fun _ => none
  | fuel + 1 => bindP line (fun raw =>
    let l := stripEOL raw
    if l.isEmpty then pureP [] else bindP (headLines fuel) (fun more => pureP (l :: more)))

def headerValue (name : Bytes) (ls : List Bytes) : Option Bytes :=
  match ls.find? (fun l => (l.takeWhile (· != 58)).map lower == name) with
  | some l => some (trimSpaces ((l.dropWhile (· != 58)).drop 1))
  | none => none

/-- "content-length" -/
def nContentLength : Bytes := [99, 111, 110, 116, 101, 110, 116, 45, 108, 101, 110, 103, 116, 104]

structure HReq where
  method : Bytes
  target : Bytes
  body : Bytes
  deriving Repr, DecidableEq

inductive HSt where
  | open
  | closed
  deriving Repr, DecidableEq

/-- one request off the stream: request line, headers, body; a malformed head ends the connection -/
def httpUnit : P (Option HReq) := fun b =>
  bindP (headLines (b.length + 1)) (fun ls =>
    match ls with
    | [] => pureP none                       -- an empty request line
    | rl :: hs =>
      match splitOn sp rl with
      | [m, t, _] =>
        match headerValue nContentLength hs with
        | none => pureP (some { method := m, target := t, body := [] })
        | some v =>
          match digitsVal v with
          | none => pureP none
          | some n => if n = 0 then pureP (some { method := m, target := t, body := [] })
                      else bindP (takeN n) (fun body => pureP (some { method := m, target := t, body := body }))
      | _ => pureP none) b

def httpNext : HSt → P (List HReq × HSt)
  | .closed => fun _ => none
  | .open => bindP httpUnit (fun r => match r with
      | some q => pureP ([q], .open)
      | none => pureP ([], .closed))

def httpProxy : Proto HSt HReq := { next := httpNext, finish := fun _ _ => [] }

/-! ## the http service and the datagram services of C04 (they reuse the framing above)

`services/http.go`: one event per request with method, target and the first 1024 bytes of the body.
`services/tftp.go`, `services/echo.go`, `services/counterstrike.go`, `services/memcached.go` (UDP: 8-byte frame
header, then the text protocol): one datagram, decoded on its own. -/

def httpEv (m t body : Bytes) : Ev := { kind := "http", fields := [m, t, body.take 1024] }

/-- the head of a request: method, target and announced body length; `none` = malformed (connection ends) -/
def headInfo (ls : List Bytes) : Option (Bytes × Bytes × Nat) :=
  match ls with
  | [] => none
  | rl :: hs =>
    match splitOn sp rl with
    | [m, t, _] =>
      match headerValue nContentLength hs with
      | none => some (m, t, 0)
      | some v =>
        match digitsVal v with
        | none => none
        | some n => some (m, t, n)
    | _ => none

def httpHead : P (Option (Bytes × Bytes × Nat)) := fun b =>
  bindP (headLines (b.length + 1)) (fun ls => pureP (headInfo ls)) b

/-- the service reports a request when its body is complete — or, at the end of the stream, with what arrived -/
inductive HSSt where
  | open
  | body (m t : Bytes) (n : Nat)      -- waiting for the n + 1 bytes of the body
  | closed
  deriving Repr, DecidableEq

def httpSvcNext : HSSt → P (List Ev × HSSt)
  | .closed => fun _ => none
  | .open => bindP httpHead (fun r => match r with
      | some (m, t, 0) => pureP ([httpEv m t []], .open)
      | some (m, t, n + 1) => pureP ([], .body m t n)
      | none => pureP ([], .closed))
  | .body m t n => bindP (takeN (n + 1)) (fun body => pureP ([httpEv m t body], .open))

def httpSvcFinish : HSSt → Bytes → List Ev
  | .body m t _, buf => [httpEv m t buf]
  | _, _ => []

def httpSvc : Proto HSSt Ev := { next := httpSvcNext, finish := httpSvcFinish }

/-! ### the services that serve one request per connection (elasticsearch, docker, eos, ethereum, cwmp)

`services/elasticsearch`, `services/docker`: the first 1024 bytes of the body are recorded (`io.ReadFull`), also when
the stream ends inside the body; `services/eos`, `services/ethereum`, `services/cwmp-tr069.go`: the whole body
(`ioutil.ReadAll`; a body cut short is an error and nothing is reported); ethereum and cwmp report nothing for a
request without a body, cwmp only reads the body of a POST. -/

structure OneCfg where
  kind : String
  lim : Option Nat        -- how much of the body is recorded (`none`: all of it)
  partialAtEnd : Bool     -- a body cut short by the end of the stream is reported with what arrived
  needBody : Bool         -- a request without a body is not reported
  postOnly : Bool         -- only POST requests are reported
  deriving Repr

def recBody (c : OneCfg) (b : Bytes) : Bytes := match c.lim with | some k => b.take k | none => b

/-- "POST" -/
def mPOST : Bytes := [80, 79, 83, 84]

def oneEvs (c : OneCfg) (m t body : Bytes) : List Ev :=
  if c.postOnly && m != mPOST then [] else [{ kind := c.kind, fields := [m, t, recBody c body] }]

def oneNext (c : OneCfg) : HSSt → P (List Ev × HSSt)
  | .closed => fun _ => none
  | .open => bindP httpHead (fun r => match r with
      | some (m, t, 0) => pureP (if c.needBody then [] else oneEvs c m t [], .closed)
      | some (m, t, n + 1) => pureP ([], .body m t n)
      | none => pureP ([], .closed))
  | .body m t n => bindP (takeN (n + 1)) (fun body => pureP (oneEvs c m t body, .closed))

def oneFinish (c : OneCfg) : HSSt → Bytes → List Ev
  | .body m t _, buf => if c.partialAtEnd then oneEvs c m t buf else []
  | _, _ => []

def oneSvc (c : OneCfg) : Proto HSSt Ev := { next := oneNext c, finish := oneFinish c }

def oneCfgOf (svc : String) : Option OneCfg :=
  if svc = "elasticsearch" then some { kind := "elasticsearch", lim := some 1024, partialAtEnd := true, needBody := false, postOnly := false }
  else if svc = "docker" then some { kind := "docker", lim := some 1024, partialAtEnd := true, needBody := false, postOnly := false }
  else if svc = "eos" then some { kind := "eos", lim := none, partialAtEnd := false, needBody := false, postOnly := false }
  else if svc = "ethereum" then some { kind := "ethereum", lim := none, partialAtEnd := false, needBody := true, postOnly := false }
  else if svc = "cwmp" then some { kind := "cwmp", lim := none, partialAtEnd := false, needBody := true, postOnly := true }
  else none

/-- bytes up to (not including) the first NUL, and what follows it; none without a NUL -/
def cstr (b : Bytes) : Option (Bytes × Bytes) :=
  match cstrAux [] b with
  | some (s, r) => some (s.dropLast, r)
  | none => none

def dgramEvents (svc : String) (d : Bytes) : List Ev :=
  match svc with
  | "echou" => [{ kind := "echo", fields := [d] }]
  | "tftp" =>
    match d with
    | _ :: op :: rest =>
      if op == 1 || op == 2 then
        match cstr rest with
        | some (name, r1) =>
          match cstr r1 with
          | some (mode, _) => [{ kind := "tftp", fields := [(if op == 1 then str "tftp-read" else str "tftp-write"), name, mode] }]
          | none => []
        | none => []
      else []
    | _ => []
  | "counterstrike" =>
    if d.length < 5 then []
    else if d.take 4 == [255, 255, 255, 255] || d.take 4 == [255, 255, 255, 254] then
      match d.drop 4 with
      | q :: _ =>
        if q == 0x54 then [{ kind := "cs", fields := [str "a2s_info", d] }]
        else if q == 0x55 then [{ kind := "cs", fields := [str "a2s_player", d] }]
        else if q == 0x56 then [{ kind := "cs", fields := [str "a2s_rules", d] }]
        else if q == 0x57 then [{ kind := "cs", fields := [str "a2s_serverquery_challenge", d] }]
        else if q == 0x69 then [{ kind := "cs", fields := [str "a2s_ping", d] }]
        else []
      | [] => []
    else []
  | "memcachedu" => eventsOf memcached .idle [d.drop 8]
  | _ => []

/-! ## line protocol
`relay dial <host hex> <local port>` → `<host hex>:<port hex>`
`relay copy <segment hex> ...` → bytes written to the backend (hex)
`relay http <segment hex> ...` → relayed requests `method,target,body` (hex) separated by spaces | `-` -/

def strHex (s : String) : Option (List Char) := (unhex s).map (fun b => (String.fromUTF8! (ByteArray.mk b.toArray)).toList)

def driver (args : List String) : String :=
  match args with
  | ["dial", h, p] =>
    match strHex h, p.toNat? with
    | some host, some port =>
      let t := dialTarget host port
      hex (String.ofList t.1).toUTF8.toList ++ ":" ++ hex (String.ofList t.2).toUTF8.toList
    | _, _ => "bad-op"
  | "copy" :: segs =>
    match segs.mapM unhex with
    | some ss => hex (copyRelay ss)
    | none => "bad-op"
  | "http" :: segs =>
    match segs.mapM unhex with
    | some ss =>
      let evs := eventsOf httpProxy .open ss
      if evs.isEmpty then "-" else " ".intercalate (evs.map fun q => ",".intercalate [hex q.method, hex q.target, hex q.body])
    | none => "bad-op"
  | _ => "bad-op"

/-- `seg http <segment hex> ...` and `dgram <service> <hex>` of the C04 stream -/
def segHttpDriver (segsHex : List String) : String :=
  match segsHex.mapM unhex with
  | some ss => showEvs (eventsOf httpSvc .open ss)
  | none => "bad-op"

/-- `seg1 <service> <segment hex> ...` : the one-request services -/
def segOneDriver (args : List String) : String :=
  match args with
  | svc :: segsHex =>
    match oneCfgOf svc, segsHex.mapM unhex with
    | some c, some ss => showEvs (eventsOf (oneSvc c) .open ss)
    | _, _ => "bad-op"
  | _ => "bad-op"

def dgramDriver (args : List String) : String :=
  match args with
  | [svc, h] =>
    match unhex h with
    | some d => showEvs (dgramEvents svc d)
    | none => "bad-op"
  | _ => "bad-op"

end HT.Relay
