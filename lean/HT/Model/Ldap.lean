import HT.Model.Proto
/-!
# LDAP message framing (`services/ldap/ldap.go` `serve`, `ber.ReadPacket`)

A connection carries BER-encoded LDAPMessages one after the other: identifier byte, definite length (short form,
or long form with 1..4 length bytes), contents.  `serve` reads one packet, reports it (message id and request type)
and goes on; an unbind request is reported and ends the session; a packet that is not a SEQUENCE starting with an
INTEGER message id ends it without a report.

Outside the model (never sent by the model-compared cases; the trusted base says so): high-tag-number identifiers,
indefinite lengths, more than four length bytes, the StartTLS extended request (the rest of the stream is TLS).
-/
namespace HT.Ldap
open HT.Seg HT.Proto

def beNat (b : Bytes) : Nat := b.foldl (fun acc x => acc * 256 + x.toNat) 0

/-- identifier byte `t`, first length byte `l`, what follows; inner `none`: a form outside the model (the session ends) -/
def headOf (t l : UInt8) (rest : Bytes) : Option (Option (UInt8 × Nat) × Bytes) :=
  if t.toNat % 32 = 31 then some (none, rest)
  else if l.toNat < 128 then some (some (t, l.toNat), rest)
  else if l.toNat - 128 = 0 ∨ 4 < l.toNat - 128 then some (none, rest)
  else if rest.length < l.toNat - 128 then none
  else some (some (t, beNat (rest.take (l.toNat - 128))), rest.drop (l.toNat - 128))

/-- identifier byte and definite length -/
def berHead : P (Option (UInt8 × Nat)) := fun b =>
  match b with
  | t :: l :: rest => headOf t l rest
  | _ => none

/-- one whole packet: identifier byte and contents -/
def berPacket : P (Option (UInt8 × Bytes)) :=
  bindP berHead (fun h => match h with
    | none => pureP none
    | some (t, 0) => pureP (some (t, []))
    | some (t, n + 1) => bindP (takeN (n + 1)) (fun body => pureP (some (t, body))))

/-- a complete TLV inside a packet's contents: tag, value, what follows -/
def tlv (b : Bytes) : Option (UInt8 × Bytes × Bytes) :=
  match berHead b with
  | some (some (t, n), rest) => if rest.length < n then none else some (t, rest.take n, rest.drop n)
  | _ => none

/-- request type by the tag of the protocol operation (`bind.go`, `search.go`, `extended.go`, `catchall.go`) -/
def reqType (t : UInt8) : Bytes :=
  if t = 0x60 then str "bind"
  else if t = 0x63 then str "search"
  else if t = 0x77 then str "extended"
  else
    let n := t.toNat % 32
    if n = 6 then str "modify" else if n = 8 then str "add" else if n = 10 then str "delete"
    else if n = 12 then str "modify-dn" else if n = 14 then str "compare" else if n = 16 then str "abandon"
    else []

def natDec (n : Nat) : Bytes := (toString n).toUTF8.toList

/-- what `serve` does with one packet: the report and whether the session goes on -/
def onPacket (t : UInt8) (body : Bytes) : List Ev × Bool :=
  if t ≠ 0x30 then ([], false)
  else match tlv body with
    | some (0x02, idv, rest) =>
      let id := natDec (beNat idv)
      match tlv rest with
      | some (0x42, _, _) => ([{ kind := "ldap", fields := [id, str "unbind"] }], false)
      | some (op, _, _) => ([{ kind := "ldap", fields := [id, reqType op] }], true)
      | none => ([{ kind := "ldap", fields := [id, []] }], true)
    | _ => ([], false)

def ldapNext : Bool → P (List Ev × Bool)
  | false => fun _ => none
  | true => bindP berPacket (fun r => match r with
      | none => pureP ([], false)
      | some (t, body) => pureP (onPacket t body))

/-- state `true` = session open -/
def ldap : Proto Bool Ev := { next := ldapNext, finish := fun _ _ => [] }

/-- `seg ldap <segment hex> ...` -/
def driver (segsHex : List String) : String :=
  match segsHex.mapM unhex with
  | some ss => showEvs (eventsOf ldap true ss)
  | none => "bad-op"

end HT.Ldap
