import HT.Base
/-!
# Model of the UDP rate limiter and of the reply structure of the four limited services

`services/limiter.go` (one token bucket per source IP, burst 4, one token per 10 minutes;
`golang.org/x/time/rate` modelled as an exact integer bucket), and the order of
`Allow` and `Write` calls in `services/{tftp,memcached,counterstrike}.go` and
`services/snmp/snmp.go`.
-/
namespace HT.Lim

/-- token bucket; `tok` is in units of 1/T token (i.e. nanoseconds of refill) -/
structure Bk where
  tok : Nat
  last : Nat
  deriving Repr, DecidableEq

/-- tokens available at time `t` (capped at the burst) -/
def avail (T B : Nat) (s : Bk) (t : Nat) : Nat := min (B * T) (s.tok + (t - s.last))

/-- `rate.Limiter.Allow()` at time `t`: one token if available; a refusal leaves the state unchanged -/
def allow (T B : Nat) (s : Bk) (t : Nat) : Bool × Bk :=
  if T ≤ avail T B s t then (true, { tok := avail T B s t - T, last := t }) else (false, s)

/-- `rate.NewLimiter`: a full bucket -/
def fresh (T B : Nat) : Bk := { tok := B * T, last := 0 }

/-- one command of a datagram: does the service write a reply once `Allow` granted it, and does it
stop processing the datagram afterwards -/
structure Cmd where
  reply : Bool
  stop : Bool
  deriving Repr, DecidableEq

/-- the handler of one datagram: per command `Allow`, then at most one `Write`; a refusal ends the
datagram.  Returns (replies, grants, bucket). -/
def handle (T B : Nat) (s : Bk) (t : Nat) : List Cmd → Nat × Nat × Bk
  | [] => (0, 0, s)
  | c :: cs =>
    match allow T B s t with
    | (false, _) => (0, 0, s)
    | (true, s') =>
      if c.stop then ((if c.reply then 1 else 0), 1, s')
      else
        let (r, g, s'') := handle T B s' t cs
        ((if c.reply then 1 else 0) + r, g + 1, s'')

/-- a datagram from `ip` at time `t` -/
structure Req where
  ip : String
  t : Nat
  cmds : List Cmd
  deriving Repr

/-- the limiter's map: one bucket per source IP text, created full on first use -/
abbrev LimSt := String → Bk

def initSt (T B : Nat) : LimSt := fun _ => fresh T B

def update (st : LimSt) (ip : String) (b : Bk) : LimSt := fun k => if k = ip then b else st k

/-- one datagram through the limiter map: (state, replies, grants) -/
def step (T B : Nat) (st : LimSt) (r : Req) : LimSt × Nat × Nat :=
  let (rep, g, b) := handle T B (st r.ip) r.t r.cmds
  (update st r.ip b, rep, g)

/-- replies sent to `ip` over a whole history -/
def repliesTo (T B : Nat) (ip : String) : LimSt → List Req → Nat
  | _, [] => 0
  | st, r :: rs =>
    (if r.ip = ip then (step T B st r).2.1 else 0) + repliesTo T B ip (step T B st r).1 rs

/-- replies produced by one bucket for a sequence of (time, commands) datagrams -/
def repliesBk (T B : Nat) : Bk → List (Nat × List Cmd) → Nat
  | _, [] => 0
  | s, (t, cmds) :: rs => (handle T B s t cmds).1 + repliesBk T B (handle T B s t cmds).2.2 rs

/-! ## the services' datagram kinds (what the correspondence harness sends)

`kind` → commands.  tftp/snmp/counterstrike make at most one `Allow` call per datagram. -/

def kindCmds (svc kind : String) : List Cmd :=
  let one (reply : Bool) : List Cmd := [{ reply := reply, stop := true }]
  match svc, kind with
  | "tftp", "rrq" => one true
  | "tftp", "wrq" => one true
  | "tftp", "data" => one true           -- ERROR (no buffer) or ACK
  | "tftp", "data512" => one true
  | "tftp", "rrq-unterminated" => one false
  | "tftp", "ack" => one false
  | "tftp", "error" => one false
  | "tftp", "unknown" => one false
  | "snmp", "get" => one true
  | "snmp", "getnext" => one true
  | "snmp", "set" => one true
  | "snmp", "v2" => []                    -- wrong version: reported, never answered, limiter not consulted
  | "snmp", "garbage" => []
  | "counterstrike", "info" => one true
  | "counterstrike", "player" => one true
  | "counterstrike", "other" => one true
  | "counterstrike", "noprefix" => []
  | "memcached", k =>
    -- k = sequence of letters: s(tats) f(lush_all) g(et → ERROR) t(set with value → STORED) b(ad set: returns an error)
    k.toList.map fun c =>
      if c = 'b' then { reply := false, stop := true } else { reply := true, stop := false }
  | _, _ => []

/-! ## line protocol: `lim <svc> <ip>:<kind> …` (all at time 0) → `ip=replies …` in first-appearance order -/

def T10 : Nat := 600000000000
def B4 : Nat := 4

def driver (args : List String) : String :=
  match args with
  | svc :: reqs =>
    let rs : List Req := reqs.filterMap fun r =>
      match r.splitOn ":" with
      | [ip, kind] => some { ip := ip, t := 0, cmds := kindCmds svc ((kind.splitOn "@").headD kind) }
      | _ => none
    let ips := rs.foldl (fun acc r => if acc.contains r.ip then acc else acc ++ [r.ip]) ([] : List String)
    " ".intercalate (ips.map fun ip => s!"{ip}={repliesTo T10 B4 ip (initSt T10 B4) rs}")
  | _ => "bad-op"

/-- `bucket <t1> <t2> …` : allow decisions of one bucket at the given times (ns), for the comparison
with `golang.org/x/time/rate` under a synthetic clock -/
def bucketDriver (args : List String) : String :=
  let ts := args.filterMap String.toNat?
  let (_, outs) := ts.foldl (fun (acc : Bk × List String) t =>
    let (ok, s') := allow T10 B4 acc.1 t
    (s', acc.2 ++ [b01 ok])) (fresh T10 B4, [])
  "".intercalate outs

end HT.Lim
