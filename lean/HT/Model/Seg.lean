import HT.Base
/-!
# Stream framing: parsers over the bytes received so far, and the machine that feeds them segments

A handler that reads its connection through one persistent buffered reader with calls that
return only when the requested unit is complete (`ReadString`, `ReadBytes`, `io.ReadFull`,
`io.CopyN`, `Scanner.Scan`, `textproto.ReadLine/DotReader`) is, whatever the scheduling of
reads, a function of the bytes consumed so far.  It is modelled as a protocol state and a
parser `next` that either needs more bytes (`none`) or consumes one unit and yields events.
`Mono` (a parser that succeeded succeeds identically when more bytes follow) is exactly what
such calls guarantee and what a bare `Read` of "whatever is there" does not.
-/
namespace HT.Seg

abbrev P (α : Type) := Bytes → Option (α × Bytes)

def Mono {α : Type} (p : P α) : Prop :=
  ∀ b x r more, p b = some (x, r) → p (b ++ more) = some (x, r ++ more)

/-- never returns more than it was given -/
def NoGrow {α : Type} (p : P α) : Prop := ∀ b x r, p b = some (x, r) → r.length ≤ b.length

def Progress {α : Type} (p : P α) : Prop := ∀ b x r, p b = some (x, r) → r.length < b.length

def pureP {α : Type} (x : α) : P α := fun b => some (x, b)

def bindP {α β : Type} (p : P α) (f : α → P β) : P β := fun b =>
  match p b with
  | none => none
  | some (x, r) => f x r

/-- the bytes up to and including the first `\n` (`ReadString('\n')`, `ReadBytes('\n')`) -/
def lineAux : Bytes → Bytes → Option (Bytes × Bytes)
  | _, [] => none
  | acc, c :: r => if c == 10 then some ((c :: acc).reverse, r) else lineAux (c :: acc) r

def line : P Bytes := lineAux []

/-- exactly `n` bytes (`io.ReadFull`, `io.CopyN`) -/
def takeN (n : Nat) : P Bytes := fun b => if b.length < n then none else some (b.take n, b.drop n)

/-- up to and including the first zero byte (`ReadString(0)`) -/
def cstrAux : Bytes → Bytes → Option (Bytes × Bytes)
  | _, [] => none
  | acc, c :: r => if c == 0 then some ((c :: acc).reverse, r) else cstrAux (c :: acc) r

/-! ## the machine -/

structure Proto (S E : Type) where
  next : S → P (List E × S)
  /-- what the end of the stream adds (a reader that hands out an unterminated last token) -/
  finish : S → Bytes → List E

variable {S E : Type}

/-- consume complete units while there are any -/
def drain (p : Proto S E) : Nat → S → Bytes → List E × S × Bytes
  | 0, s, b => ([], s, b)
  | n + 1, s, b =>
    match p.next s b with
    | none => ([], s, b)
    | some ((ev, s'), r) =>
      let res := drain p n s' r
      (ev ++ res.1, res.2.1, res.2.2)

/-- the state between reads: protocol state and the bytes buffered but not yet consumed -/
structure St (S : Type) where
  s : S
  buf : Bytes

/-- one segment arrives -/
def feed (p : Proto S E) (st : St S) (seg : Bytes) : List E × St S :=
  let res := drain p ((st.buf ++ seg).length + 1) st.s (st.buf ++ seg)
  (res.1, { s := res.2.1, buf := res.2.2 })

/-- a whole segmentation, then the end of the stream -/
def runSegs (p : Proto S E) : St S → List Bytes → List E × St S
  | st, [] => ([], st)
  | st, seg :: segs =>
    let r1 := feed p st seg
    let r2 := runSegs p r1.2 segs
    (r1.1 ++ r2.1, r2.2)

def eventsOf (p : Proto S E) (s0 : S) (segs : List Bytes) : List E :=
  let r := runSegs p { s := s0, buf := [] } segs
  r.1 ++ p.finish r.2.s r.2.buf

end HT.Seg
