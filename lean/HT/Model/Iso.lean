import HT.Base
import HT.Model.Auth
import HT.Model.Path
/-!
# Sessions of one service object

The server builds one service object per configured service and calls its handler concurrently for
every connection (`server/honeytrap.go`, `handle`).  What the sessions of a service can share is
modelled as a table with one slot per key; a session has a key (`keyOf`, e.g. its remote address),
a local state of its own, and a step that sees its local state and the slot of its key.
Anchors: `services/tftp.go` (`buffers`, keyed by `RemoteAddr().String()`), `services/ldap/ldap.go`
(session object per connection), `services/ftp/ftp.go` (channel and working directory per connection),
as after the `fix:` commits in known-findings.txt.
-/
namespace HT.Iso

structure Svc (V L I O : Type) where
  /-- the slot of the session's key, its local state, one input → new slot, new local state, output -/
  step : Option V → L → I → Option V × L × O
  init : L

variable {Sess K V L I O : Type} [DecidableEq Sess] [DecidableEq K]

structure G (Sess K V L : Type) where
  tab : K → Option V
  loc : Sess → L

def G.init (svc : Svc V L I O) : G Sess K V L := { tab := fun _ => none, loc := fun _ => svc.init }

/-- one step of session `s` in the global state -/
def stepG (svc : Svc V L I O) (keyOf : Sess → K) (g : G Sess K V L) (s : Sess) (i : I) : G Sess K V L × O :=
  let r := svc.step (g.tab (keyOf s)) (g.loc s) i
  ({ tab := fun k => if k = keyOf s then r.1 else g.tab k,
     loc := fun x => if x = s then r.2.1 else g.loc x }, r.2.2)

/-- a schedule: which session makes which step, in global order -/
def runG (svc : Svc V L I O) (keyOf : Sess → K) : G Sess K V L → List (Sess × I) → G Sess K V L × List (Sess × O)
  | g, [] => (g, [])
  | g, (s, i) :: rest =>
    let r := stepG svc keyOf g s i
    let r2 := runG svc keyOf r.1 rest
    (r2.1, (s, r.2) :: r2.2)

/-- what session `s` sees -/
def view (s : Sess) (outs : List (Sess × O)) : List O := (outs.filter (fun x => x.1 = s)).map (·.2)

/-- a session alone on the service: slot, local state, its inputs -/
def runSolo (svc : Svc V L I O) : Option V → L → List I → (Option V × L) × List O
  | v, l, [] => ((v, l), [])
  | v, l, i :: rest =>
    let r := svc.step v l i
    let r2 := runSolo svc r.1 r.2.1 rest
    (r2.1, r.2.2 :: r2.2)

def inputsOf (s : Sess) (sched : List (Sess × I)) : List I := (sched.filter (fun x => x.1 = s)).map (·.2)

/-! ## tftp uploads -/

structure TFile where
  name : Bytes
  mode : Bytes
  content : Bytes
  deriving Repr, DecidableEq

inductive TIn where
  | wrq (name mode : Bytes)
  | data (blk : Nat) (payload : Bytes)
  | rrq (name mode : Bytes)
  deriving Repr, DecidableEq

/-- reply bytes and events (`kind`, fields) -/
structure TOut where
  reply : Bytes
  events : List (String × List Bytes)
  deriving Repr, DecidableEq

def tftpStep (slot : Option TFile) (_ : Unit) : TIn → Option TFile × Unit × TOut
  | .rrq name mode => (slot, (), { reply := [0, 5, 0, 1, 0], events := [("tftp-read", [name, mode])] })
  | .wrq name mode => (some { name := name, mode := mode, content := [] }, (),
      { reply := [0, 4, 0, 0], events := [("tftp-write", [name, mode])] })
  | .data blk payload =>
    match slot with
    | none => (none, (), { reply := [0, 5, 0, 4, 0], events := [] })
    | some f =>
      let f' := { f with content := f.content ++ payload }
      let ack : Bytes := [0, 4, UInt8.ofNat (blk / 256), UInt8.ofNat (blk % 256)]
      if payload.length == 512 then (some f', (), { reply := ack, events := [] })
      else (none, (), { reply := ack, events := [("tftp-write-file", [f'.name, f'.mode, f'.content])] })

def tftp : Svc TFile Unit TIn TOut := { step := tftpStep, init := () }

/-! ## ldap: bind state of a session -/

inductive LIn where
  | bind (dn pw : String)
  | gated          -- add / modify / delete / modifyDN / compare
  | rootSearch     -- search for the root DSE: answered only while not logged in
  deriving Repr, DecidableEq

def ldapStep (creds : List String) (slot : Option Unit) (st : Auth.LdapSt) : LIn → Option Unit × Auth.LdapSt × Nat
  | .bind dn pw => let r := Auth.ldapBind creds st dn pw; (slot, r.1, r.2)
  | .gated => (slot, st, Auth.ldapGatedOp st)
  | .rootSearch => (slot, st, if Auth.isLogin st then 0 else 1)     -- number of entries returned

def ldap (creds : List String) : Svc Unit Auth.LdapSt LIn Nat := { step := ldapStep creds, init := Auth.LdapSt.init }

/-! ## ftp: login state and working directory of a session -/

structure FSess where
  auth : Auth.FtpSt
  cwd : String
  deriving Repr, DecidableEq

/-- reply code and, for PWD / a successful CWD, the directory named in the reply -/
structure FOut where
  code : Nat
  dir : String
  deriving Repr, DecidableEq

/-- `dirs`: the directories that exist in the (shared, read-only here) filesystem, as working-directory paths -/
def ftpSessStep (dirs : List String) (slot : Option Unit) (s : FSess) (i : String × String) : Option Unit × FSess × FOut :=
  let cmd := i.1.toUpper
  let r := Auth.ftpStep s.auth cmd i.2
  if r.2 ≠ 0 then (slot, { s with auth := r.1 }, { code := r.2, dir := "" })
  else if cmd = "PWD" || cmd = "XPWD" then (slot, { s with auth := r.1 }, { code := 257, dir := s.cwd })
  else if cmd = "CWD" || cmd = "XCWD" || cmd = "CDUP" || cmd = "XCUP" then
    let target := Path.changeDir "/r" s.cwd (if cmd = "CWD" || cmd = "XCWD" then i.2 else "..")
    if dirs.contains target then (slot, { auth := r.1, cwd := target }, { code := 250, dir := target })
    else (slot, { s with auth := r.1 }, { code := 550, dir := "" })
  else (slot, { s with auth := r.1 }, { code := 0, dir := "" })

def ftpSvc (dirs : List String) : Svc Unit FSess (String × String) FOut :=
  { step := ftpSessStep dirs, init := { auth := Auth.FtpSt.init, cwd := "/" } }

/-! ## line protocol
`iso ftp <dir hex,...> <sess>:<CMD>:<param hex> ...` → per session `<code>` or `<code>/<dir hex>`
`iso tftp <sess>:<op> ...` with op = `w:<name hex>:<mode hex>` | `r:<name>:<mode>` | `d:<blk>:<payload hex>`;
sessions are named by their address text; the key is the address.
`iso ldap <creds hex,..> <sess>:<op> ...` with op = `b:<dn hex>:<pw hex>` | `g` | `s`
output: per session in order of first appearance `<sess>=[<out>;<out>...]` -/

def strOfHex (h : String) : String :=
  match unhex h with
  | some b => String.fromUTF8! (ByteArray.mk b.toArray)
  | none => ""

def showTOut (o : TOut) : String :=
  hex o.reply ++ "/" ++ ",".intercalate (o.events.map fun e => e.1 ++ "(" ++ "|".intercalate (e.2.map hex) ++ ")")

def parseTIn (parts : List String) : Option TIn :=
  match parts with
  | ["w", n, m] => do let n ← unhex n; let m ← unhex m; pure (.wrq n m)
  | ["r", n, m] => do let n ← unhex n; let m ← unhex m; pure (.rrq n m)
  | ["d", blk, p] => do let b ← blk.toNat?; let p ← unhex p; pure (.data b p)
  | _ => none

def parseLIn (parts : List String) : Option LIn :=
  match parts with
  | ["b", dn, pw] => some (.bind (Auth.normDN (strOfHex dn)) (strOfHex pw))
  | ["g"] => some .gated
  | ["s"] => some .rootSearch
  | _ => none

def sessionsOf {α : Type} (sched : List (String × α)) : List String := (sched.map (·.1)).eraseDups

def showViews {O : Type} (sh : O → String) (sched : List (String × O)) (names : List String) : String :=
  " ".intercalate (names.map fun n => n ++ "=[" ++ ";".intercalate ((view n sched).map sh) ++ "]")

def driver (args : List String) : String :=
  match args with
  | "tftp" :: items =>
    match items.mapM (fun it => match it.splitOn ":" with
        | ip :: port :: op => (parseTIn op).map (fun i => (ip ++ ":" ++ port, i))
        | _ => none) with
    | none => "bad-op"
    | some sched =>
      let r := runG tftp (fun (s : String) => s) (G.init tftp) sched
      showViews showTOut r.2 (sessionsOf sched)
  | "ftp" :: dirs :: items =>
    match items.mapM (fun it => match it.splitOn ":" with
        | [s, c, p] => some (s, (c, strOfHex p))
        | _ => none) with
    | none => "bad-op"
    | some sched =>
      let ds := (dirs.splitOn ",").map strOfHex
      let r := runG (ftpSvc ds) (fun (s : String) => s) (G.init (ftpSvc ds)) sched
      showViews (fun (o : FOut) => if o.dir = "" then toString o.code else s!"{o.code}/" ++ hex o.dir.toUTF8.toList) r.2 (sessionsOf sched)
  | "ldap" :: creds :: items =>
    match items.mapM (fun it => match it.splitOn ":" with
        | s :: op => (parseLIn op).map (fun i => (s, i))
        | _ => none) with
    | none => "bad-op"
    | some sched =>
      let cs := if creds == "-" then [] else (creds.splitOn ",").map strOfHex
      let r := runG (ldap cs) (fun (s : String) => s) (G.init (ldap cs)) sched
      showViews toString r.2 (sessionsOf sched)
  | _ => "bad-op"

end HT.Iso
