import HT.Base
/-!
# What a connection's handler holds, and when its read loop ends

* `listener/udp_conn.go` — `DummyUDPConn.Read`, and the loops handlers run over it
  (`io.Copy` in ntp/echo, `bufio` readers elsewhere): a loop "read until an error".
* The resources a session acquires on the connection's behalf, as a ledger of operations:
  `services/ftp/ftp.go` (reporter goroutine), `services/ftp/socket.go` (passive listener and its
  accepting goroutine), `services/smtp/smtp.go` (reporter goroutine) — as after the `fix:`
  commits in known-findings.txt; the `Old` variants are the code as it was.
-/
namespace HT.Rel

/-! ## the datagram connection -/

inductive ReadRes where
  | data (n : Nat)     -- n > 0 bytes
  | zero               -- (0, nil)
  | eof                -- (0, io.EOF)
  deriving Repr, DecidableEq

/-- `DummyUDPConn.Read` into a buffer of `chunk` bytes: result and remaining datagram length -/
def readNew (left chunk : Nat) : ReadRes × Nat :=
  if left = 0 then (.eof, 0) else (.data (min left chunk), left - min left chunk)

/-- as it was: no end of stream -/
def readOld (left chunk : Nat) : ReadRes × Nat :=
  if min left chunk = 0 then (.zero, left) else (.data (min left chunk), left - min left chunk)

/-- a handler loop that reads until an error (`io.Copy`, `for { Read }`): the number of `Read`
calls it makes, or `none` if it is still going when the fuel is used up -/
def readLoop (read : Nat → Nat → ReadRes × Nat) (chunk : Nat) : Nat → Nat → Option Nat
  | 0, _ => none
  | fuel + 1, left =>
    match read left chunk with
    | (.eof, _) => some 1
    | (_, left') => (readLoop read chunk fuel left').map (· + 1)

/-! ## the ledger -/

inductive Op where
  | spawn | exit            -- a goroutine started on the connection's behalf / ended
  | listen | unlisten       -- a listening socket opened / closed
  deriving Repr, DecidableEq

structure Held where
  goroutines : Int
  listeners : Int
  deriving Repr, DecidableEq

def Held.zero : Held := { goroutines := 0, listeners := 0 }

def apply (h : Held) : Op → Held
  | .spawn => { h with goroutines := h.goroutines + 1 }
  | .exit => { h with goroutines := h.goroutines - 1 }
  | .listen => { h with listeners := h.listeners + 1 }
  | .unlisten => { h with listeners := h.listeners - 1 }

def held (ops : List Op) : Held := ops.foldl apply Held.zero

/-- ftp control commands as far as resources go -/
inductive FCmd where
  | pasv                 -- PASV / EPSV: a passive port
  | connect              -- the client connects to the passive port (the acceptor ends, the port closes)
  | transfer             -- a transfer command uses and closes the data socket
  | other
  deriving Repr, DecidableEq

/-- the session's passive socket: none, listening (acceptor pending), or connected -/
inductive DSock where
  | none | listening | connected
  deriving Repr, DecidableEq

/-- releasing the data socket -/
def closeSock : DSock → List Op
  | .none => []
  | .listening => [.unlisten, .exit]     -- closing the listener ends the pending Accept
  | .connected => []

def ftpCmd (d : DSock) : FCmd → List Op × DSock
  | .pasv => (closeSock d ++ [.listen, .spawn], .listening)
  | .connect => match d with
    | .listening => ([.unlisten, .exit], .connected)
    | _ => ([], d)
  | .transfer => (closeSock d, .none)
  | .other => ([], d)

def ftpCmds : DSock → List FCmd → List Op × DSock
  | d, [] => ([], d)
  | d, c :: cs =>
    let r := ftpCmd d c
    let r2 := ftpCmds r.2 cs
    (r.1 ++ r2.1, r2.2)

/-- a whole ftp session: reporter goroutine, the commands, the end of the session -/
def ftpSession (cmds : List FCmd) : List Op :=
  let r := ftpCmds .none cmds
  [.spawn] ++ r.1 ++ closeSock r.2 ++ [.exit]

/-- as it was: the reporter never exits; a passive port is never closed unless the client connects -/
def ftpCmdOld (d : DSock) : FCmd → List Op × DSock
  | .pasv => ([.listen, .spawn], .listening)
  | .connect => match d with
    | .listening => ([.exit], .connected)
    | _ => ([], d)
  | .transfer => ([], .none)
  | .other => ([], d)

def ftpCmdsOld : DSock → List FCmd → List Op × DSock
  | d, [] => ([], d)
  | d, c :: cs =>
    let r := ftpCmdOld d c
    let r2 := ftpCmdsOld r.2 cs
    (r.1 ++ r2.1, r2.2)

def ftpSessionOld (cmds : List FCmd) : List Op := [.spawn] ++ (ftpCmdsOld .none cmds).1

/-- smtp: the reporter goroutine lives exactly as long as `Handle` -/
def smtpSession (_mails : Nat) : List Op := [.spawn, .exit]
def smtpSessionOld (_mails : Nat) : List Op := [.spawn]

/-! ## line protocol
`rel udp <datagram length> <chunk> <fuel>` → number of reads until the loop ends | `spin`
`rel ftp <commands: p c t o ...>` → `during=<goroutines>/<listeners> after=<goroutines>/<listeners>`
  (during = held just before the session ends) -/

def parseF : String → Option FCmd
  | "p" => some .pasv | "c" => some .connect | "t" => some .transfer | "o" => some .other | _ => none

def driver (args : List String) : String :=
  match args with
  | ["udp", l, c, f] =>
    match l.toNat?, c.toNat?, f.toNat? with
    | some l, some c, some f =>
      match readLoop readNew c f l with
      | some k => toString k
      | none => "spin"
    | _, _, _ => "bad-op"
  | "ftp" :: cmds =>
    match cmds.mapM parseF with
    | none => "bad-op"
    | some cs =>
      let r := ftpCmds .none cs
      let during := held ([.spawn] ++ r.1)
      let after := held (ftpSession cs)
      s!"during={during.goroutines}/{during.listeners} after={after.goroutines}/{after.listeners}"
  | _ => "bad-op"

end HT.Rel
