import HT.Base
/-!
# Model of the JA3 fingerprint computation

`services/ja3/crypto/tls/handshake_messages.go` (`clientHelloMsg.unmarshal`: the extension loop
that records extension types in wire order and decodes the server-name, supported-groups and
point-format bodies), `handshake_server.go` (`clientHelloInfo`) and `common.go`
(`ClientHelloInfo.JA3`) — as after the `fix:` commit in known-findings.txt.

The record layer, the fixed part of the hello (random, session id, compression methods) and the
digest function are outside this model: the model starts from the hello's version, cipher suites
and extension list (type, body) as they appear on the wire.
-/
namespace HT.JA3

/-- GREASE values (RFC 8701): 0x0a0a, 0x1a1a, …, 0xfafa -/
def isGrease (v : Nat) : Bool := v < 65536 && v / 256 = v % 256 && v % 16 = 10

/-- what the parser keeps for the fingerprint -/
structure Info where
  extTypes : List Nat
  curves : List Nat
  points : List Nat
  serverName : Bytes
  deriving Repr, DecidableEq

def Info.empty : Info := { extTypes := [], curves := [], points := [], serverName := [] }

def u16 (a b : UInt8) : Nat := a.toNat * 256 + b.toNat

/-- pairs of bytes as big-endian 16-bit values -/
def u16s : Bytes → List Nat
  | a :: b :: rest => u16 a b :: u16s rest
  | _ => []

/-- body of the supported-groups extension: u16 length `l` (even, = rest), then `l/2` values -/
def decodeGroups (body : Bytes) : Option (List Nat) :=
  match body with
  | a :: b :: rest =>
    let l := u16 a b
    if l % 2 == 1 || rest.length + 2 != l + 2 then none else some (u16s rest)
  | _ => none

/-- body of the point-formats extension: u8 length `l` (= rest), then `l` bytes -/
def decodePoints (body : Bytes) : Option (List Nat) :=
  match body with
  | l :: rest => if rest.length != l.toNat then none else some (rest.map UInt8.toNat)
  | [] => none

/-- the name list of a server-name extension; `fuel` bounds the loop over names.
`none` = malformed (the hello is rejected); `some none` = no host_name entry;
`some (some name)` = the first host_name entry -/
def sniNames : Nat → Bytes → Option (Option Bytes)
  | 0, _ => some none
  | _, [] => some none
  | fuel + 1, t :: a :: b :: rest =>
    let n := u16 a b
    if rest.length < n then none
    else if t.toNat = 0 then
      let name := rest.take n
      if name.getLast? = some 46 then none else some (some name)     -- a trailing dot is refused
    else sniNames fuel (rest.drop n)
  | _, _ => none

def decodeSNI (body : Bytes) : Option (Option Bytes) :=
  match body with
  | a :: b :: rest => if rest.length != u16 a b then none else sniNames rest.length rest
  | _ => none

/-- the extension loop of `unmarshal`, restricted to what the fingerprint and the server name need.
Other extension types whose bodies the real parser validates are excluded by `wf` in the
theorems (and not generated with invalid bodies by the harness). -/
def parseExts : List (Nat × Bytes) → Info → Option Info
  | [], i => some i
  | (t, body) :: rest, i =>
    let i := { i with extTypes := i.extTypes ++ [t] }
    if t = 0 then (decodeSNI body).bind fun n => parseExts rest { i with serverName := n.getD i.serverName }
    else if t = 10 then (decodeGroups body).bind fun g => parseExts rest { i with curves := g }
    else if t = 11 then (decodePoints body).bind fun p => parseExts rest { i with points := p }
    else parseExts rest i

def joinNums (xs : List Nat) : String := "-".intercalate (xs.map toString)

/-- `ClientHelloInfo.JA3()` -/
def ja3 (version : Nat) (ciphers : List Nat) (i : Info) : String :=
  toString version ++ "," ++ joinNums (ciphers.filter (fun v => !isGrease v)) ++ "," ++
  joinNums (i.extTypes.filter (fun v => !isGrease v)) ++ "," ++
  joinNums (i.curves.filter (fun v => !isGrease v)) ++ "," ++ joinNums i.points

/-- `JA3()` as it was before the fix: GREASE filtered from the extension list only -/
def ja3Old (version : Nat) (ciphers : List Nat) (i : Info) : String :=
  toString version ++ "," ++ joinNums ciphers ++ "," ++
  joinNums (i.extTypes.filter (fun v => !isGrease v)) ++ "," ++ joinNums i.curves ++ "," ++ joinNums i.points

/-! ## the structured hello the specification speaks about -/

inductive Ext where
  | sni (name : Bytes)
  | groups (gs : List Nat)
  | points (ps : List Nat)
  | other (typ : Nat) (body : Bytes)
  deriving Repr, DecidableEq

def Ext.typ : Ext → Nat
  | .sni _ => 0 | .groups _ => 10 | .points _ => 11 | .other t _ => t

def enc16 (n : Nat) : Bytes := [UInt8.ofNat (n / 256), UInt8.ofNat (n % 256)]

def Ext.body : Ext → Bytes
  | .sni name => enc16 (name.length + 3) ++ [0] ++ enc16 name.length ++ name
  | .groups gs => enc16 (2 * gs.length) ++ gs.flatMap enc16
  | .points ps => [UInt8.ofNat ps.length] ++ ps.map UInt8.ofNat
  | .other _ b => b

structure Hello where
  version : Nat
  ciphers : List Nat
  exts : List Ext
  deriving Repr, DecidableEq

def wire (h : Hello) : List (Nat × Bytes) := h.exts.map fun e => (e.typ, e.body)

/-- the JA3 specification: decimal legacy version, cipher suites, extension types, elliptic curves
and point formats in wire order, GREASE values left out of ciphers, extensions and curves -/
def Ext.groupsIn : Ext → List Nat
  | .groups gs => gs
  | _ => []

def Ext.pointsIn : Ext → List Nat
  | .points ps => ps
  | _ => []

def ja3Spec (h : Hello) : String :=
  let curves := h.exts.flatMap Ext.groupsIn
  let points := h.exts.flatMap Ext.pointsIn
  toString h.version ++ "," ++ joinNums (h.ciphers.filter (fun v => !isGrease v)) ++ "," ++
  joinNums ((h.exts.map Ext.typ).filter (fun v => !isGrease v)) ++ "," ++
  joinNums (curves.filter (fun v => !isGrease v)) ++ "," ++ joinNums points

def sniOf (h : Hello) : Bytes :=
  (h.exts.filterMap fun e => match e with | .sni n => some n | _ => none).headD []

/-! ## line protocol: `ja3 <version> <c1,c2,…|-> <type:bodyhex> …` → JA3 string, then `sni=<hex>` -/

def driver (args : List String) : String :=
  match args with
  | v :: cs :: exts =>
    match v.toNat? with
    | none => "bad-op"
    | some v =>
      let ciphers := if cs = "-" then [] else (cs.splitOn ",").filterMap String.toNat?
      let es := exts.filterMap fun e => match e.splitOn ":" with
        | [t, b] => match t.toNat?, unhex b with
          | some t, some b => some (t, b)
          | _, _ => none
        | _ => none
      match parseExts es Info.empty with
      | none => "rejected"
      | some i => ja3 v ciphers i ++ " sni=" ++ hex i.serverName
  | _ => "bad-op"

end HT.JA3
