import HT.Model.Seg
/-!
# The line- and message-oriented services as framing machines

One `Seg.Proto` per service: the protocol state, the parser for the next unit, the events a unit
produces.  Anchors: `services/ftp/conn.go` (Serve, receiveLine), `services/telnet/telnet.go` +
`terminal.go` (readLine over printable ASCII, CR, LF), `services/memcached.go`,
`services/redis/redis.go` (Scanner lines, RESP arrays), `services/smtp/conn.go` (state functions,
DATA/BDAT) — all as after the `fix:` commits in known-findings.txt.
-/
namespace HT.Proto
open HT.Seg

structure Ev where
  kind : String
  fields : List Bytes
  deriving Repr, DecidableEq

def cr : UInt8 := 13
def lf : UInt8 := 10
def sp : UInt8 := 32

/-- `strings.Trim(s, "\r\n")` -/
def trimCRLF (b : Bytes) : Bytes :=
  ((b.dropWhile (fun c => c == cr || c == lf)).reverse.dropWhile (fun c => c == cr || c == lf)).reverse

/-- strip the line terminator: one `\n`, then one `\r` (bufio `ReadLine`, `bytes.TrimSuffix` twice) -/
def stripEOL (l : Bytes) : Bytes :=
  let a := if l.getLast? == some lf then l.dropLast else l
  if a.getLast? == some cr then a.dropLast else a

def upper (c : UInt8) : UInt8 := if 97 ≤ c.toNat ∧ c.toNat ≤ 122 then c - 32 else c
def lower (c : UInt8) : UInt8 := if 65 ≤ c.toNat ∧ c.toNat ≤ 90 then c + 32 else c

def str (s : String) : Bytes := s.toUTF8.toList

/-- split on a separator byte (`strings.Split`, `bytes.Split` with a one-byte separator) -/
def splitOn (sep : UInt8) : Bytes → List Bytes
  | [] => [[]]
  | c :: r =>
    match splitOn sep r with
    | [] => [[]]          -- unreachable
    | h :: t => if c == sep then [] :: h :: t else (c :: h) :: t

/-- decimal digits only -/
def digitsVal : Bytes → Option Nat
  | [] => none
  | ds => ds.foldl (fun acc c => match acc with
      | none => none
      | some n => if 48 ≤ c.toNat ∧ c.toNat ≤ 57 then some (n * 10 + (c.toNat - 48)) else none) (some 0)

/-- `strconv.Atoi` / `ParseInt(s, 10, bits)`: optional sign, digits, range -/
def atoiBits (bits : Nat) (b : Bytes) : Option Int :=
  match b with
  | [] => none
  | c :: r =>
    let (neg, ds) := if c == 45 then (true, r) else if c == 43 then (false, r) else (false, b)
    match digitsVal ds with
    | none => none
    | some n =>
      if neg then (if n ≤ 2 ^ (bits - 1) then some (-(n : Int)) else none)
      else (if n < 2 ^ (bits - 1) then some (n : Int) else none)

/-- `strconv.ParseUint(s, 10, 64)` -/
def parseUint (b : Bytes) : Option Nat :=
  match digitsVal b with
  | some n => if n < 2 ^ 64 then some n else none
  | none => none

/-! ## ftp: one `ftp.command` event per line; QUIT ends the session -/

def ftpIsQuit (l : Bytes) : Bool :=
  match splitOn sp (trimCRLF l) with
  | cmd :: _ => cmd.map upper == [81, 85, 73, 84]      -- "QUIT"
  | [] => false

def ftpNext : Bool → P (List Ev × Bool)
  | true => fun _ => none
  | false => bindP line (fun l => pureP ([{ kind := "ftp", fields := [trimCRLF l] }], ftpIsQuit l))

def ftp : Proto Bool Ev := { next := ftpNext, finish := fun _ _ => [] }

/-! ## telnet: user name, password, then one event per line (printable ASCII; CR ignored; LF ends a line) -/

def printable (c : UInt8) : Bool := 32 ≤ c.toNat && c.toNat ≤ 126

def telnetClean (l : Bytes) : Bytes := (l.filter printable).take 4096

inductive TSt where
  | user
  | pass (u : Bytes)
  | session
  deriving Repr, DecidableEq

def telnetNext : TSt → P (List Ev × TSt)
  | .user => bindP line (fun l => pureP ([], .pass (telnetClean l)))
  | .pass u => bindP line (fun l => pureP ([{ kind := "telnet-auth", fields := [u, telnetClean l] }], .session))
  | .session => bindP line (fun l => pureP ([{ kind := "telnet-cmd", fields := [telnetClean l] }], .session))

def telnet : Proto TSt Ev := { next := telnetNext, finish := fun _ _ => [] }

/-! ## memcached (stream): a command event per line; storage commands then take their data block -/

inductive MSt where
  | idle
  | block (cmd key flags exp bytes : Bytes) (count : Nat)
  | closed
  deriving Repr, DecidableEq

/-- "add", "replace", "prepend", "append", "cas", "set" -/
def mcStorage : List Bytes := [[97, 100, 100], [114, 101, 112, 108, 97, 99, 101], [112, 114, 101, 112, 101, 110, 100], [97, 112, 112, 101, 110, 100], [99, 97, 115], [115, 101, 116]]

def mcAfterLine (l : Bytes) : List Ev × MSt :=
  let command := stripEOL l
  let ev : Ev := { kind := "mc-cmd", fields := [command] }
  let parts := splitOn sp command
  match parts with
  | p0 :: rest =>
    if mcStorage.contains p0 then
      match rest with
      | key :: flags :: exp :: bytes :: _ =>
        match atoiBits 64 bytes with
        | some v => if v < 0 then ([ev], .closed) else ([ev], .block p0 key flags exp bytes v.toNat)
        | none => ([ev], .closed)
      | _ => ([ev], .closed)
    else ([ev], .idle)
  | [] => ([ev], .idle)

def mcNext : MSt → P (List Ev × MSt)
  | .closed => fun _ => none
  | .idle => bindP line (fun l => pureP (mcAfterLine l))
  | .block cmd key flags exp bytes count =>
    bindP (takeN (count + 2)) (fun blk =>
      pureP ([{ kind := "mc-store", fields := [cmd, key, flags, exp, bytes, blk.take (min count 80)] }], .idle))

def memcached : Proto MSt Ev := { next := mcNext, finish := fun _ _ => [] }

/-! ## redis: RESP over Scanner lines; one event per command array -/

inductive RItem where
  | empty                      -- an empty line (data type 0)
  | simple (s : Bytes)         -- '+'
  | bulk (s : Bytes)           -- '$' (the announced length is ignored; the next line is the content)
  | int (n : Nat)              -- ':'
  | arr (items : List RItem)   -- '*'
  deriving Repr

/-- a Scanner token: the line without `\n` and without one trailing `\r` -/
def scanLine : P Bytes := bindP line (fun l => pureP (stripEOL l))

/-- the `n` items of an array, each read by `item` -/
def rItemsWith (item : P (Option RItem)) : Nat → P (Option RItem)
  | 0 => pureP (some (.arr []))
  | n + 1 => bindP item (fun it =>
    match it with
    | none => pureP none
    | some x => bindP (rItemsWith item n) (fun more =>
      match more with
      | some (.arr xs) => pureP (some (.arr (x :: xs)))
      | _ => pureP none))

/-- what follows the type byte of a RESP line -/
def rAfter (items : Nat → P (Option RItem)) (cmd : Bytes) : P (Option RItem) :=
  match cmd with
  | [] => pureP (some .empty)
  | t :: rest =>
    if t == 42 then      -- '*'
      match parseUint rest with
      | none => pureP none
      | some n => items n
    else if t == 43 then pureP (some (.simple rest))
    else if t == 36 then
      match parseUint rest with
      | none => pureP none
      | some _ => bindP scanLine (fun s => pureP (some (.bulk s)))
    else if t == 58 then
      match parseUint rest with
      | none => pureP none
      | some n => pureP (some (.int n))
    else pureP none

/-- `parseRedisDataDepth`; the outer `Option` is "needs more input", the inner one is a parse error (connection
ends); `levels` is the number of nesting levels still allowed (`maxRedisDepth` + 1 at the top): beyond it the
request is rejected before another line is read -/
def rItem : Nat → P (Option RItem)
  | 0 => pureP none
  | levels + 1 => bindP scanLine (rAfter (rItemsWith (rItem levels)))

def redisLevels : Nat := 33

/-- what `Handle` does with a parsed datum: `(events, stays open)` -/
def redisStep : Option RItem → List Ev × Bool
  | none => ([], false)
  | some .empty => ([], true)
  | some (.arr (.simple c :: _)) => ([{ kind := "redis", fields := [c] }], true)
  | some (.arr (.bulk c :: _)) => ([{ kind := "redis", fields := [c] }], true)
  | some _ => ([], false)          -- not an array, an empty array (index panic, recovered), a non-string first item

def redisNext : Bool → P (List Ev × Bool)
  | true => fun _ => none
  | false => bindP (rItem redisLevels) (fun it => pureP ((redisStep it).1, !(redisStep it).2))

/-! at the end of the stream: the Scanner hands out an unterminated last line as a token, an item that
starts at the very end is an error ("eof"), but the content line of a bulk string that is missing
altogether reads as the empty string (`scanner.Scan()`'s result is not looked at there) -/

/-- a Scanner token with the end of the stream behind the buffer -/
def scanLineE (b : Bytes) : Option (Bytes × Bytes) :=
  match scanLine b with
  | some r => some r
  | none => if b.isEmpty then none else some (if b.getLast? == some cr then b.dropLast else b, [])

def rItemsE (item : Bytes → Option (Option RItem × Bytes)) : Nat → Bytes → Option (Option RItem × Bytes)
  | 0, b => some (some (.arr []), b)
  | n + 1, b =>
    match item b with
    | none => none
    | some (none, r) => some (none, r)
    | some (some x, r) =>
      match rItemsE item n r with
      | some (some (.arr xs), r2) => some (some (.arr (x :: xs)), r2)
      | some (_, r2) => some (none, r2)
      | none => none

/-- `parseRedisDataDepth` against the final buffer; outer `none` = the scanner is at the end ("eof" error) -/
def rItemE : Nat → Bytes → Option (Option RItem × Bytes)
  | 0, b => some (none, b)
  | levels + 1, b =>
    match scanLineE b with
    | none => none
    | some (cmd, r) =>
      match cmd with
      | [] => some (some .empty, r)
      | t :: rest =>
        if t == 42 then
          match parseUint rest with
          | none => some (none, r)
          | some n => rItemsE (rItemE levels) n r
        else if t == 43 then some (some (.simple rest), r)
        else if t == 36 then
          match parseUint rest with
          | none => some (none, r)
          | some _ =>
            match scanLineE r with
            | some (s, r2) => some (some (.bulk s), r2)
            | none => some (some (.bulk []), r)
        else if t == 58 then
          match parseUint rest with
          | none => some (none, r)
          | some n => some (some (.int n), r)
        else some (none, r)

/-- the commands still completed from what is buffered when the stream ends -/
def redisTail : Nat → Bytes → List Ev
  | 0, _ => []
  | fuel + 1, b =>
    match rItemE redisLevels b with
    | none => []
    | some (it, r) =>
      let st := redisStep it
      if st.2 then st.1 ++ redisTail fuel r else st.1

def redisFinish (closed : Bool) (buf : Bytes) : List Ev :=
  if closed then [] else redisTail (buf.length + 1) buf

def redis : Proto Bool Ev := { next := redisNext, finish := redisFinish }

/-! ## smtp: an `input` event per line read by the state functions; DATA and BDAT bodies become `email` events -/

inductive SPhase where
  | hello | loop | mail
  deriving Repr, DecidableEq

/-- what the state function is waiting for after the command line has been reported -/
inductive SPend where
  | line                          -- the next command line
  | bdat (m : Nat) (last : Bool)  -- the chunk (of m + 1 bytes) of a BDAT command
  | data                          -- the body of a DATA command
  deriving Repr, DecidableEq

structure SSt where
  phase : SPhase
  i : Nat                 -- loop counter (`loopTreshold` = 100)
  bdat : Bytes            -- BDAT chunks collected so far
  pend : SPend
  closed : Bool
  deriving Repr, DecidableEq

def hasPrefixCI (line : Bytes) (cmd : String) : Bool := (str cmd).isPrefixOf (line.map upper)

/-- a simple header block `Key: value` lines then an empty line; `none` = not of that form -/
def canonKey (k : Bytes) : Bytes :=
  let rec go (up : Bool) : Bytes → Bytes
    | [] => []
    | c :: r => (if up then upper c else lower c) :: go (c == 45) r
  go true k

def isTokenChar (c : UInt8) : Bool :=
  (65 ≤ c.toNat && c.toNat ≤ 90) || (97 ≤ c.toNat && c.toNat ≤ 122) || (48 ≤ c.toNat && c.toNat ≤ 57) || c == 45

def trimSpaces (b : Bytes) : Bytes :=
  ((b.dropWhile (fun c => c == 32 || c == 9)).reverse.dropWhile (fun c => c == 32 || c == 9)).reverse

/-- `mail.ReadMessage` on simple input: `Key: value` lines up to an empty line, the rest is the body;
`none` when the header block is not of that form -/
def parseMail : Nat → Bytes → Option (List (Bytes × Bytes) × Bytes)
  | 0, _ => none
  | fuel + 1, text =>
    if text.isEmpty then some ([], [])
    else
      let (l, rest) := match line text with
        | some (raw, r) => (stripEOL raw, r)
        | none => (text, [])             -- last line without terminator
      if l.isEmpty then some ([], rest)
      else
        let key := l.takeWhile (· != 58)
        match l.dropWhile (· != 58) with
        | [] => none
        | _ :: v =>
          if key.isEmpty || !key.all isTokenChar then none
          else match parseMail fuel rest with
            | none => none
            | some (hs, body) => some ((canonKey key, trimSpaces v) :: hs, body)

def joinLines (ls : List Bytes) : Bytes := ls.flatMap (fun l => l ++ [lf])

/-- group values of equal keys, joined with ",", keys sorted -/
def headerFields (hs : List (Bytes × Bytes)) : List Bytes :=
  let keys := (hs.map (·.1)).eraseDups
  let sorted := keys.mergeSort (fun a b => decide (a ≤ b))
  sorted.map (fun k =>
    k ++ [61] ++ ((hs.filter (·.1 == k)).map (·.2)).foldl (fun acc v => if acc.isEmpty then v else acc ++ [44] ++ v) [])

/-- the `email` event of a message text, or none when `mail.ReadMessage` rejects it -/
def mailEvent (text : Bytes) : Option Ev :=
  match parseMail (text.length + 1) text with
  | none => none
  | some ([], _) => none            -- no header at all: ReadMessage fails
  | some (hs, body) => some { kind := "smtp-email", fields := body :: headerFields hs }

/-- the lines of a DATA body: up to the line ".", dots unstuffed, CR before LF dropped -/
def dotLines : Nat → P (List Bytes)
  | 0 => fun _ => none
  | fuel + 1 => bindP line (fun l =>
    let c := stripEOL l
    if c == [46] then pureP []
    else bindP (dotLines fuel) (fun more => pureP ((if c.head? == some 46 then c.drop 1 else c) :: more)))

def inputEv (l : Bytes) : Ev := { kind := "smtp-line", fields := [l] }

def closedSt (s : SSt) : SSt := { s with closed := true }

/-- a complete message text has arrived -/
def smtpOnMail (s : SSt) (text : Bytes) : List Ev × SSt :=
  match mailEvent text with
  | some e => ([e], { s with phase := .loop, bdat := [], pend := .line })
  | none => ([], closedSt s)

/-- the state functions of `conn.go` on one command line (terminator already removed) -/
def smtpOnLine (s : SSt) (l : Bytes) : List Ev × SSt :=
  let ev := inputEv l
  match s.phase with
  | .hello =>
    if hasPrefixCI l "HELO" || hasPrefixCI l "EHLO" then
      -- parseHelloArgument: what follows the first space, or the whole line, must not be empty
      let arg := match l.dropWhile (· != 32) with | [] => l | _ :: r => r
      if arg.isEmpty then ([ev], closedSt s) else ([ev], { s with phase := .loop })
    else if hasPrefixCI l "HELP" then ([ev], s)
    else ([ev], closedSt s)
  | .loop =>
    if l.isEmpty then ([ev], s)
    else
      let s1 := { s with i := s.i + 1 }
      if s1.i > 100 then ([ev], closedSt s1)
      else if hasPrefixCI l "MAIL FROM" then ([ev], { s1 with phase := .mail })
      else if hasPrefixCI l "STARTTLS" then ([ev], closedSt s1)   -- not modelled: the handshake takes over the stream
      else if hasPrefixCI l "RSET" then ([ev], { s1 with bdat := [] })
      else if hasPrefixCI l "QUIT" then ([ev], closedSt s1)
      else ([ev], s1)        -- HELP, NOOP, blank, unrecognised (500): back to the loop
  | .mail =>
    if l.isEmpty then ([ev], { s with phase := .loop })
    else if hasPrefixCI l "RSET" then ([ev], { s with phase := .loop, bdat := [] })
    else if hasPrefixCI l "RCPT TO" then ([ev], s)
    else if hasPrefixCI l "BDAT" then
      match splitOn sp l with
      | _ :: cnt :: more =>
        match atoiBits 32 cnt with
        | none => ([ev], closedSt s)
        | some n =>
          let last := more == [str "LAST"]
          match n.toNat with
          | 0 =>           -- nothing to copy: the command completes at once
            if last then ([ev] ++ (smtpOnMail s s.bdat).1, (smtpOnMail s s.bdat).2) else ([ev], s)
          | m + 1 => ([ev], { s with pend := .bdat m last })
      | _ => ([ev], closedSt s)      -- `parts[1]` out of range: panic, recovered, connection closed
    else if hasPrefixCI l "DATA" then ([ev], { s with pend := .data })
    else if hasPrefixCI l "HELP" then ([ev], s)
    else ([ev], { s with phase := .loop })

def smtpNext (s : SSt) : P (List Ev × SSt) :=
  if s.closed then fun _ => none
  else match s.pend with
    | .line => bindP line (fun raw => pureP (smtpOnLine s (stripEOL raw)))
    | .bdat m last => bindP (takeN (m + 1)) (fun chunk =>
        if last then pureP (smtpOnMail s (s.bdat ++ chunk))
        else pureP ([], { s with bdat := s.bdat ++ chunk, pend := .line }))
    | .data => fun b => bindP (dotLines (b.length + 1)) (fun ls => pureP (smtpOnMail s (joinLines ls))) b

/-- at the end of the stream an unterminated last line is still handed to the state function -/
def smtpFinish (s : SSt) (buf : Bytes) : List Ev :=
  if s.closed || buf.isEmpty then []
  else match s.pend with
    | .line => (smtpOnLine s buf).1
    | _ => []

def smtp : Proto SSt Ev := { next := smtpNext, finish := smtpFinish }

def smtpInit : SSt := { phase := .hello, i := 0, bdat := [], pend := .line, closed := false }

/-! ## line protocol
`seg <service> <segment hex> ...` → events as `kind:field,field ...` separated by spaces (`-` when none) -/

def showEv (e : Ev) : String := e.kind ++ ":" ++ ",".intercalate (e.fields.map hex)

def showEvs (es : List Ev) : String := if es.isEmpty then "-" else " ".intercalate (es.map showEv)

def driver (args : List String) : String :=
  match args with
  | svc :: segsHex =>
    match segsHex.mapM unhex with
    | none => "bad-op"
    | some segs =>
      match svc with
      | "ftp" => showEvs (eventsOf ftp false segs)
      | "telnet" => showEvs (eventsOf telnet .user segs)
      | "memcached" => showEvs (eventsOf memcached .idle segs)
      | "redis" => showEvs (eventsOf redis false segs)
      | "smtp" => showEvs (eventsOf smtp smtpInit segs)
      | _ => "bad-op"
  | _ => "bad-op"

end HT.Proto
