/-!
# HT.Base — shared vocabulary of the honeytrap models (core Lean only)

`Fault` is how a Go function that can panic is modelled: the function returns
`Except Fault α`.  `panic` is a run-time panic a deferred `recover` can catch,
`fatal` is a runtime `fatal error` (stack exhaustion, concurrent map access) that
no `recover` catches, `diverge` is a loop that makes no progress.
-/

abbrev Bytes := List UInt8

inductive Fault where
  | panic
  | fatal
  | diverge
  deriving Repr, DecidableEq, Inhabited

namespace HT

/-- Checked slice index `l[i]` with a Go `int` index. -/
def idx (l : Bytes) (i : Int) : Except Fault UInt8 :=
  if h : 0 ≤ i ∧ i.toNat < l.length then .ok (l[i.toNat]'h.2) else .error .panic

/-- `make([]byte, n)` : panics for a negative length. -/
def mkSlice (n : Int) : Except Fault Nat :=
  if 0 ≤ n then .ok n.toNat else .error .panic

/-- Checked slice expression `l[a:b]` (capacity = length in all modelled uses). -/
def slice (l : Bytes) (a b : Int) : Except Fault Bytes :=
  if 0 ≤ a ∧ a ≤ b ∧ b ≤ l.length then .ok ((l.drop a.toNat).take (b - a).toNat)
  else .error .panic

/-- big-endian value of a byte list -/
def beNat : Bytes → Nat
  | [] => 0
  | b :: bs => b.toNat * 256 ^ bs.length + beNat bs

/-- little-endian value of a byte list -/
def leNat : Bytes → Nat
  | [] => 0
  | b :: bs => b.toNat + 256 * leNat bs

/-- two's-complement reading of an `n`-bit pattern -/
def toSigned (bits : Nat) (v : Nat) : Int :=
  if v < 2 ^ (bits - 1) then (v : Int) else (v : Int) - (2 ^ bits : Nat)

/-! ## text helpers used by the line-protocol driver (not part of any theorem) -/

def hexDigit (c : Char) : Option Nat :=
  if '0' ≤ c ∧ c ≤ '9' then some (c.toNat - '0'.toNat)
  else if 'a' ≤ c ∧ c ≤ 'f' then some (c.toNat - 'a'.toNat + 10)
  else if 'A' ≤ c ∧ c ≤ 'F' then some (c.toNat - 'A'.toNat + 10)
  else none

def unhexAux : List Char → Option Bytes
  | [] => some []
  | [_] => none
  | a :: b :: rest => do
    let x ← hexDigit a
    let y ← hexDigit b
    let r ← unhexAux rest
    pure (UInt8.ofNat (x * 16 + y) :: r)

/-- decode lowercase/uppercase hex; `-` denotes the empty byte string -/
def unhex (s : String) : Option Bytes :=
  if s = "-" then some [] else unhexAux s.toList

def hexChar (n : Nat) : Char :=
  if n < 10 then Char.ofNat (n + '0'.toNat) else Char.ofNat (n - 10 + 'a'.toNat)

def hexByte (b : UInt8) : List Char := [hexChar (b.toNat / 16), hexChar (b.toNat % 16)]

def hex (bs : Bytes) : String :=
  if bs.isEmpty then "-" else String.ofList (bs.flatMap hexByte)

def faultStr : Fault → String
  | .panic => "panic"
  | .fatal => "fatal"
  | .diverge => "diverge"

def words (s : String) : List String :=
  (s.splitOn " ").filter (· ≠ "")

def b01 (b : Bool) : String := if b then "1" else "0"

end HT

namespace HT
def isPanic {α : Type} : Except Fault α → Bool
  | .error .panic => true
  | _ => false
end HT
