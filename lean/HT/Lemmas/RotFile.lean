import HT.Model.RotFile
/-! Helper lemmas for C07 -/
namespace HT.Rot

theorem lastNLGo_spec (xs : Bytes) : ∀ (i : Nat) (acc : Option Nat) (j : Nat),
    lastNLGo xs i acc = some j → acc = some j ∨ (i ≤ j ∧ j < i + xs.length ∧ xs[j - i]? = some NL) := by
  induction xs with
  | nil => intro i acc j h; exact Or.inl h
  | cons x xs ih =>
    intro i acc j h
    simp only [lastNLGo] at h
    rcases ih (i + 1) _ j h with h1 | ⟨h1, h2, h3⟩
    · by_cases hx : x = NL
      · simp only [hx, if_true, Option.some.injEq] at h1
        subst h1
        exact Or.inr ⟨Nat.le_refl _, by simp, by simp [hx]⟩
      · simp only [hx, if_false] at h1
        exact Or.inl h1
    · refine Or.inr ⟨by omega, by simp; omega, ?_⟩
      have : j - i = (j - (i + 1)) + 1 := by omega
      rw [this]; simpa using h3

theorem lastNL_spec (p : Bytes) (n j : Nat) (h : lastNL p n = some j) :
    j < n ∧ j < p.length ∧ p[j]? = some NL := by
  unfold lastNL at h
  rcases lastNLGo_spec _ 0 none j h with h1 | ⟨_, h2, h3⟩
  · cases h1
  · simp only [List.length_take, Nat.zero_add, Nat.sub_zero] at h2 h3
    refine ⟨by omega, by omega, ?_⟩
    rw [List.getElem?_take] at h3
    split at h3
    · exact h3
    · cases h3

theorem contents_rotate (f : RF) : contents (rotate f) = contents f := by
  simp [contents, rotate]

theorem take_of_drop_empty (p : Bytes) (k : Nat) (h : (p.drop k).isEmpty = true) : p.take k = p := by
  have h1 : p.drop k = [] := by simpa using h
  have := List.take_append_drop k p
  rw [h1] at this; simpa using this

/-- The stored byte stream grows by exactly the bytes written: nothing is lost, duplicated,
reordered or altered — for every amount of fuel. -/
theorem writeLoop_contents (max : Nat) (fuel : Nat) : ∀ (f : RF) (p : Bytes),
    contents (writeLoop max fuel f p) = contents f ++ p := by
  induction fuel with
  | zero => intro f p; simp [writeLoop, contents]
  | succ n ih =>
    intro f p
    unfold writeLoop
    cases hc : choose max f p with
    | fits => simp [contents]
    | noNL => simp [contents]
    | rotateFirst => simp only; rw [ih, contents_rotate]
    | cut j =>
      simp only
      split
      · rename_i he; simp [contents, take_of_drop_empty p (j + 1) he]
      · rw [ih, contents_rotate]; simp [contents, List.append_assoc]
    | big j =>
      simp only
      split
      · rename_i he; simp [contents, take_of_drop_empty p (j + 1) he]
      · rw [ih, contents_rotate]; simp [contents, List.append_assoc]


/-! ### what `choose` guarantees -/

theorem choose_cut (max : Nat) (f : RF) (p : Bytes) (j : Nat) (h : choose max f p = .cut j) :
    j < max - f.cur.length ∧ j < p.length ∧ p[j]? = some NL := by
  unfold choose at h
  split at h
  · simp only at h
    split at h
    · rename_i j' hj
      cases h
      split at hj
      · exact lastNL_spec p _ _ hj
      · cases hj
    · split at h
      · cases h
      · split at h <;> cases h
  · cases h

theorem choose_big (max : Nat) (f : RF) (p : Bytes) (j : Nat) (h : choose max f p = .big j) :
    f.cur = [] ∧ firstNL p = some j := by
  unfold choose at h
  split at h
  · simp only at h
    split at h
    · cases h
    · split at h
      · cases h
      · rename_i hl
        split at h
        · rename_i j' hj; cases h
          exact ⟨by simpa using hl, hj⟩
        · cases h
  · cases h

theorem choose_rotateFirst (max : Nat) (f : RF) (p : Bytes) (h : choose max f p = .rotateFirst) :
    f.cur ≠ [] := by
  unfold choose at h
  split at h
  · simp only at h
    split at h
    · cases h
    · split at h
      · rename_i hl; intro e; simp [e] at hl
      · split at h <;> cases h
  · cases h

theorem choose_fits (max : Nat) (f : RF) (p : Bytes) (h : choose max f p = .fits) :
    f.cur.length + p.length ≤ max := by
  unfold choose at h
  split at h
  · simp only at h
    split at h
    · cases h
    · split at h
      · cases h
      · split at h <;> cases h
  · omega

theorem choose_noNL (max : Nat) (f : RF) (p : Bytes) (h : choose max f p = .noNL) :
    firstNL p = none ∧ p ≠ [] := by
  unfold choose at h
  split at h
  · rename_i hgt
    simp only at h
    split at h
    · cases h
    · split at h
      · cases h
      · rename_i hl
        split at h
        · cases h
        · rename_i hn
          refine ⟨hn, ?_⟩
          intro e; subst e
          have h0 : f.cur.length = 0 := by omega
          simp [h0] at hgt
  · cases h

/-! ### whole lines -/

def EndsNL (b : Bytes) : Prop := b.getLast? = some NL
def Aligned (b : Bytes) : Prop := b = [] ∨ EndsNL b

theorem aligned_append (a b : Bytes) (ha : Aligned a) (hb : Aligned b) : Aligned (a ++ b) := by
  rcases hb with hb | hb
  · subst hb; simpa using ha
  · right
    unfold EndsNL at *
    cases b with
    | nil => simp at hb
    | cons x xs => rw [List.getLast?_append]; simp [hb]

theorem endsNL_take (p : Bytes) (j : Nat) (h : p[j]? = some NL) : EndsNL (p.take (j + 1)) := by
  unfold EndsNL
  have hj : j < p.length := by
    rcases Nat.lt_or_ge j p.length with h1 | h1
    · exact h1
    · rw [List.getElem?_eq_none h1] at h; cases h
  have hv : p[j] = NL := by
    have := h; rw [List.getElem?_eq_getElem hj] at this; simpa using this
  rw [List.getLast?_take]
  simp [hj, hv]

theorem aligned_drop (p : Bytes) (k : Nat) (h : Aligned p) : Aligned (p.drop k) := by
  rcases h with h | h
  · subst h; left; simp
  · by_cases hk : k < p.length
    · right
      unfold EndsNL at *
      rw [List.getLast?_drop]; simp [hk, h]
    · left; simp; omega

def AllAligned (f : RF) : Prop := Aligned f.cur ∧ ∀ r ∈ f.rotated, Aligned r

theorem allAligned_rotate (f : RF) (h : AllAligned f) : AllAligned (rotate f) := by
  refine ⟨Or.inl rfl, ?_⟩
  intro r hr
  simp only [rotate, List.mem_append, List.mem_singleton] at hr
  rcases hr with hr | hr
  · exact h.2 r hr
  · subst hr; exact h.1

theorem firstNL_getElem (p : Bytes) (j : Nat) (h : firstNL p = some j) : p[j]? = some NL := by
  unfold firstNL at h
  rw [List.findIdx?_eq_some_iff_getElem] at h
  obtain ⟨hj, hp, _⟩ := h
  rw [List.getElem?_eq_getElem hj]
  simpa using hp

/-- Rotation never cuts a line: if the files held whole lines and whole lines are written,
every file holds whole lines afterwards (for every amount of fuel). -/
theorem writeLoop_aligned (max : Nat) (fuel : Nat) : ∀ (f : RF) (p : Bytes),
    AllAligned f → Aligned p → AllAligned (writeLoop max fuel f p) := by
  induction fuel with
  | zero => intro f p hf hp; exact ⟨aligned_append _ _ hf.1 hp, hf.2⟩
  | succ n ih =>
    intro f p hf hp
    unfold writeLoop
    cases hc : choose max f p with
    | fits => exact ⟨aligned_append _ _ hf.1 hp, hf.2⟩
    | noNL => exact ⟨aligned_append _ _ hf.1 hp, hf.2⟩
    | rotateFirst => exact ih _ _ (allAligned_rotate f hf) hp
    | cut j =>
      have hj := (choose_cut max f p j hc).2.2
      have hf' : AllAligned { f with cur := f.cur ++ p.take (j + 1) } :=
        ⟨aligned_append _ _ hf.1 (Or.inr (endsNL_take p j hj)), hf.2⟩
      simp only
      split
      · exact hf'
      · exact ih _ _ (allAligned_rotate _ hf') (aligned_drop p _ hp)
    | big j =>
      have hj := firstNL_getElem p j (choose_big max f p j hc).2
      have hf' : AllAligned { f with cur := f.cur ++ p.take (j + 1) } :=
        ⟨aligned_append _ _ hf.1 (Or.inr (endsNL_take p j hj)), hf.2⟩
      simp only
      split
      · exact hf'
      · exact ih _ _ (allAligned_rotate _ hf') (aligned_drop p _ hp)


/-! ### size rule -/

def SizeOK (max : Nat) (b : Bytes) : Prop := b.length ≤ max ∨ lineCount b = 1

def AllSizeOK (max : Nat) (f : RF) : Prop := SizeOK max f.cur ∧ ∀ r ∈ f.rotated, SizeOK max r

theorem allSizeOK_rotate (max : Nat) (f : RF) (h : AllSizeOK max f) : AllSizeOK max (rotate f) := by
  refine ⟨Or.inl (by simp [rotate]), ?_⟩
  intro r hr
  simp only [rotate, List.mem_append, List.mem_singleton] at hr
  rcases hr with hr | hr
  · exact h.2 r hr
  · subst hr; exact h.1

theorem filter_take_none (p : Bytes) : ∀ (j : Nat), (∀ i, i < j → p[i]? ≠ some NL) →
    (p.take j).filter (· = NL) = [] := by
  induction p with
  | nil => intro j _; simp
  | cons x xs ih =>
    intro j h
    cases j with
    | zero => simp
    | succ j =>
      have hx : ¬ x = NL := by
        have := h 0 (by omega); simpa using this
      simp only [List.take_succ_cons, List.filter_cons, hx, decide_false]
      apply ih
      intro i hi
      have := h (i + 1) (by omega)
      simpa using this

/-- the first line, newline included, is exactly one line -/
theorem lineCount_first (p : Bytes) (j : Nat) (h : firstNL p = some j) : lineCount (p.take (j + 1)) = 1 := by
  unfold firstNL at h
  rw [List.findIdx?_eq_some_iff_getElem] at h
  obtain ⟨hj, hp, hlt⟩ := h
  have hv : p[j] = NL := by simpa using hp
  have e : p.take (j + 1) = p.take j ++ [p[j]] := by
    rw [List.take_succ, List.getElem?_eq_getElem hj]; rfl
  have hn : (p.take j).filter (· = NL) = [] := by
    apply filter_take_none p j
    intro i hi
    have h1 := hlt i hi
    have hil : i < p.length := by omega
    rw [List.getElem?_eq_getElem hil]
    simpa using h1
  simp [lineCount, e, List.filter_append, hn, hv]

theorem firstNL_none (p : Bytes) (h : firstNL p = none) : ∀ x ∈ p, x ≠ NL := by
  unfold firstNL at h
  rw [List.findIdx?_eq_none_iff] at h
  intro x hx; simpa using h x hx

theorem aligned_has_NL (p : Bytes) (ha : Aligned p) (hne : p ≠ []) : NL ∈ p := by
  rcases ha with h | h
  · exact absurd h hne
  · unfold EndsNL at h
    exact List.mem_of_getLast? h

/-- progress measure of the loop in `Write` -/
def mu (f : RF) (p : Bytes) : Nat := 2 * p.length + (if f.cur = [] then 0 else 1)

/-- A file exceeds the maximum size only if it is a single line: preserved by a write of
whole lines, given the fuel `Write` really has. -/
theorem writeLoop_sizeOK (max : Nat) (fuel : Nat) : ∀ (f : RF) (p : Bytes),
    mu f p < fuel → Aligned p → AllSizeOK max f → AllSizeOK max (writeLoop max fuel f p) := by
  induction fuel with
  | zero => intro f p h; omega
  | succ n ih =>
    intro f p hmu hp hf
    unfold writeLoop
    cases hc : choose max f p with
    | fits =>
      have := choose_fits max f p hc
      exact ⟨Or.inl (by simp; omega), hf.2⟩
    | noNL =>
      have h1 := choose_noNL max f p hc
      exact absurd (aligned_has_NL p hp h1.2) (fun hm => firstNL_none p h1.1 NL hm rfl)
    | rotateFirst =>
      have hne := choose_rotateFirst max f p hc
      apply ih _ _ _ hp (allSizeOK_rotate max f hf)
      unfold mu at *; simp [rotate, hne] at *; omega
    | cut j =>
      have hj := choose_cut max f p j hc
      have hf' : AllSizeOK max { f with cur := f.cur ++ p.take (j + 1) } :=
        ⟨Or.inl (by simp [List.length_take]; omega), hf.2⟩
      simp only
      split
      · exact hf'
      · apply ih _ _ _ (aligned_drop p _ hp) (allSizeOK_rotate max _ hf')
        unfold mu at *; simp [rotate] at *; omega
    | big j =>
      have hb := choose_big max f p j hc
      have hjlt : j < p.length := by
        have := firstNL_getElem p j hb.2
        rcases Nat.lt_or_ge j p.length with h1 | h1
        · exact h1
        · rw [List.getElem?_eq_none h1] at this; cases this
      have hf' : AllSizeOK max { f with cur := f.cur ++ p.take (j + 1) } :=
        ⟨Or.inr (by simp [hb.1, lineCount_first p j hb.2]), hf.2⟩
      simp only
      split
      · exact hf'
      · apply ih _ _ _ (aligned_drop p _ hp) (allSizeOK_rotate max _ hf')
        unfold mu at *; simp [rotate] at *; omega

theorem write_mu (f : RF) (p : Bytes) : mu f p < 2 * p.length + 2 := by
  unfold mu; split <;> omega

/-- the rotated-name search never returns a name that is taken -/
theorem rotName_fresh (taken : List String) (base : String) (n : Nat) (name : String)
    (h : rotName taken base n = some name) : name ∉ taken := by
  unfold rotName at h
  have := List.find?_some h
  simpa using this

end HT.Rot
