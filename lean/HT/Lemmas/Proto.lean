import HT.Model.Proto
import HT.Lemmas.Seg
/-! `Mono` and `Progress` for the service framers of `HT.Model.Proto`. -/
namespace HT.Proto
open HT.Seg

theorem line_nogrow : NoGrow line := progress_nogrow line line_progress

theorem scanLine_mono : Mono scanLine := bind_mono _ _ line_mono (fun _ => pure_mono _)
theorem scanLine_progress : Progress scanLine := bind_progress _ _ line_progress (fun _ => pure_nogrow _)
theorem scanLine_nogrow : NoGrow scanLine := progress_nogrow _ scanLine_progress

/-- `q` succeeds wherever `p` does, with the same result -/
def Ext {α : Type} (p q : P α) : Prop := ∀ b x, p b = some x → q b = some x

theorem ext_refl {α : Type} (p : P α) : Ext p p := fun _ _ h => h

theorem ext_bind {α β : Type} (p p' : P α) (f f' : α → P β) (hp : Ext p p') (hf : ∀ x, Ext (f x) (f' x)) :
    Ext (bindP p f) (bindP p' f') := by
  intro b y h
  unfold bindP at h ⊢
  cases hpb : p b with
  | none => simp [hpb] at h
  | some xr =>
    rw [hpb] at h
    rw [hp b xr hpb]
    exact hf xr.1 xr.2 y h

/-! ### ftp, telnet, memcached -/

theorem ftp_mono (s : Bool) : Mono (ftp.next s) := by
  cases s
  · exact bind_mono _ _ line_mono (fun _ => pure_mono _)
  · exact fail_mono

theorem ftp_progress (s : Bool) : Progress (ftp.next s) := by
  cases s
  · exact bind_progress _ _ line_progress (fun _ => pure_nogrow _)
  · exact fail_progress

theorem telnet_mono (s : TSt) : Mono (telnet.next s) := by
  cases s <;> exact bind_mono _ _ line_mono (fun _ => pure_mono _)

theorem telnet_progress (s : TSt) : Progress (telnet.next s) := by
  cases s <;> exact bind_progress _ _ line_progress (fun _ => pure_nogrow _)

theorem memcached_mono (s : MSt) : Mono (memcached.next s) := by
  cases s with
  | idle => exact bind_mono _ _ line_mono (fun _ => pure_mono _)
  | block cmd key flags exp bytes count => exact bind_mono _ _ (takeN_mono _) (fun _ => pure_mono _)
  | closed => exact fail_mono

theorem memcached_progress (s : MSt) : Progress (memcached.next s) := by
  cases s with
  | idle => exact bind_progress _ _ line_progress (fun _ => pure_nogrow _)
  | block cmd key flags exp bytes count =>
    exact bind_progress _ _ (takeN_progress _ (by omega)) (fun _ => pure_nogrow _)
  | closed => exact fail_progress

/-! ### redis -/

theorem rItemsWith_mono (item : P (Option RItem)) (hi : Mono item) : ∀ n, Mono (rItemsWith item n) := by
  intro n
  induction n with
  | zero => exact pure_mono _
  | succ n ih =>
    unfold rItemsWith
    apply bind_mono _ _ hi
    intro it
    cases it with
    | none => exact pure_mono _
    | some x =>
      apply bind_mono _ _ ih
      intro more
      cases more with
      | none => exact pure_mono _
      | some m => cases m <;> exact pure_mono _

theorem rItemsWith_nogrow (item : P (Option RItem)) (hi : NoGrow item) : ∀ n, NoGrow (rItemsWith item n) := by
  intro n
  induction n with
  | zero => exact pure_nogrow _
  | succ n ih =>
    unfold rItemsWith
    apply bind_nogrow _ _ hi
    intro it
    cases it with
    | none => exact pure_nogrow _
    | some x =>
      apply bind_nogrow _ _ ih
      intro more
      cases more with
      | none => exact pure_nogrow _
      | some m => cases m <;> exact pure_nogrow _

theorem rItemsWith_ext (item item' : P (Option RItem)) (hi : Ext item item') :
    ∀ n, Ext (rItemsWith item n) (rItemsWith item' n) := by
  intro n
  induction n with
  | zero => exact ext_refl _
  | succ n ih =>
    unfold rItemsWith
    apply ext_bind _ _ _ _ hi
    intro it
    cases it with
    | none => exact ext_refl _
    | some x => exact ext_bind _ _ _ _ ih (fun _ => ext_refl _)

theorem rAfter_mono (items : Nat → P (Option RItem)) (hi : ∀ n, Mono (items n)) (cmd : Bytes) :
    Mono (rAfter items cmd) := by
  unfold rAfter
  cases cmd with
  | nil => exact pure_mono _
  | cons t rest =>
    simp only
    split
    · cases parseUint rest with
      | none => exact pure_mono _
      | some n => exact hi n
    · split
      · exact pure_mono _
      · split
        · cases parseUint rest with
          | none => exact pure_mono _
          | some n => exact bind_mono _ _ scanLine_mono (fun _ => pure_mono _)
        · split
          · cases parseUint rest with
            | none => exact pure_mono _
            | some n => exact pure_mono _
          · exact pure_mono _

theorem rAfter_nogrow (items : Nat → P (Option RItem)) (hi : ∀ n, NoGrow (items n)) (cmd : Bytes) :
    NoGrow (rAfter items cmd) := by
  unfold rAfter
  cases cmd with
  | nil => exact pure_nogrow _
  | cons t rest =>
    simp only
    split
    · cases parseUint rest with
      | none => exact pure_nogrow _
      | some n => exact hi n
    · split
      · exact pure_nogrow _
      · split
        · cases parseUint rest with
          | none => exact pure_nogrow _
          | some n => exact bind_nogrow _ _ scanLine_nogrow (fun _ => pure_nogrow _)
        · split
          · cases parseUint rest with
            | none => exact pure_nogrow _
            | some n => exact pure_nogrow _
          · exact pure_nogrow _

theorem rAfter_ext (items items' : Nat → P (Option RItem)) (hi : ∀ n, Ext (items n) (items' n)) (cmd : Bytes) :
    Ext (rAfter items cmd) (rAfter items' cmd) := by
  unfold rAfter
  cases cmd with
  | nil => exact ext_refl _
  | cons t rest =>
    simp only
    split
    · cases parseUint rest with
      | none => exact ext_refl _
      | some n => exact hi n
    · exact ext_refl _

theorem rItem_mono : ∀ levels, Mono (rItem levels) := by
  intro levels
  induction levels with
  | zero => exact pure_mono _
  | succ f ih =>
    unfold rItem
    exact bind_mono _ _ scanLine_mono (fun cmd => rAfter_mono _ (rItemsWith_mono _ ih) cmd)

theorem rItem_nogrow : ∀ levels, NoGrow (rItem levels) := by
  intro levels
  induction levels with
  | zero => exact pure_nogrow _
  | succ f ih =>
    unfold rItem
    exact bind_nogrow _ _ scanLine_nogrow (fun cmd => rAfter_nogrow _ (rItemsWith_nogrow _ ih) cmd)

theorem rItem_progress (levels : Nat) : Progress (rItem (levels + 1)) := by
  unfold rItem
  exact bind_progress _ _ scanLine_progress (fun cmd => rAfter_nogrow _ (rItemsWith_nogrow _ (rItem_nogrow levels)) cmd)

theorem redis_mono (s : Bool) : Mono (redis.next s) := by
  cases s
  · exact bind_mono _ _ (rItem_mono redisLevels) (fun it => pure_mono ((redisStep it).1, !(redisStep it).2))
  · exact fail_mono

theorem redis_progress (s : Bool) : Progress (redis.next s) := by
  cases s
  · exact bind_progress _ _ (rItem_progress 32) (fun _ => pure_nogrow _)
  · exact fail_progress

/-! ### smtp -/

theorem dotLines_mono : ∀ fuel, Mono (dotLines fuel) := by
  intro fuel
  induction fuel with
  | zero => exact fail_mono
  | succ f ih =>
    unfold dotLines
    apply bind_mono _ _ line_mono
    intro l
    simp only
    split
    · exact pure_mono _
    · exact bind_mono _ _ ih (fun _ => pure_mono _)

theorem dotLines_nogrow : ∀ fuel, NoGrow (dotLines fuel) := by
  intro fuel
  induction fuel with
  | zero => intro b x r h; simp [dotLines] at h
  | succ f ih =>
    unfold dotLines
    apply bind_nogrow _ _ line_nogrow
    intro l
    simp only
    split
    · exact pure_nogrow _
    · exact bind_nogrow _ _ ih (fun _ => pure_nogrow _)

theorem dotLines_progress : ∀ fuel, Progress (dotLines fuel) := by
  intro fuel
  cases fuel with
  | zero => intro b x r h; simp [dotLines] at h
  | succ f =>
    unfold dotLines
    apply bind_progress _ _ line_progress
    intro l
    simp only
    split
    · exact pure_nogrow _
    · exact bind_nogrow _ _ (dotLines_nogrow f) (fun _ => pure_nogrow _)

theorem dotLines_fuel_succ : ∀ fuel, Ext (dotLines fuel) (dotLines (fuel + 1)) := by
  intro fuel
  induction fuel with
  | zero => intro b x h; simp [dotLines] at h
  | succ f ih =>
    show Ext (dotLines (f + 1)) (dotLines (f + 1 + 1))
    unfold dotLines
    apply ext_bind _ _ _ _ (ext_refl _)
    intro l
    simp only
    split
    · exact ext_refl _
    · exact ext_bind _ _ _ _ ih (fun _ => ext_refl _)

theorem dotLines_fuel_le (f : Nat) : ∀ k, Ext (dotLines f) (dotLines (f + k)) := by
  intro k
  induction k with
  | zero => exact ext_refl _
  | succ k ih =>
    intro b x h
    exact dotLines_fuel_succ (f + k) b x (ih b x h)

theorem smtp_mono (s : SSt) : Mono (smtp.next s) := by
  show Mono (smtpNext s)
  unfold smtpNext
  split
  · exact fail_mono
  · split
    · exact bind_mono _ _ line_mono (fun _ => pure_mono _)
    · apply bind_mono _ _ (takeN_mono _)
      intro chunk
      split <;> exact pure_mono _
    · intro b x r more h
      have hm := bind_mono _ _ (dotLines_mono (b.length + 1)) (fun ls => pure_mono (smtpOnMail s (joinLines ls))) b x r more h
      have he := ext_bind (dotLines (b.length + 1)) (dotLines (b.length + 1 + more.length))
        (fun ls => pureP (smtpOnMail s (joinLines ls))) (fun ls => pureP (smtpOnMail s (joinLines ls)))
        (dotLines_fuel_le _ _) (fun _ => ext_refl _) (b ++ more) (x, r ++ more) hm
      have hl : (b ++ more).length + 1 = b.length + 1 + more.length := by simp only [List.length_append]; omega
      simp only
      rw [hl]
      exact he

theorem smtp_progress (s : SSt) : Progress (smtp.next s) := by
  show Progress (smtpNext s)
  unfold smtpNext
  split
  · exact fail_progress
  · split
    · exact bind_progress _ _ line_progress (fun _ => pure_nogrow _)
    · apply bind_progress _ _ (takeN_progress _ (by omega))
      intro chunk
      split <;> exact pure_nogrow _
    · intro b x r h
      exact bind_progress _ _ (dotLines_progress _) (fun _ => pure_nogrow _) b x r h

end HT.Proto
