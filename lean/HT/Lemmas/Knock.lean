import HT.Model.Knock
/-! Helper lemmas for C20 -/
namespace HT.Knock

/-! ### generic "append if absent" -/
def addU {α : Type} [DecidableEq α] (l : List α) (x : α) : List α := if l.contains x then l else l ++ [x]

theorem addProbe_eq (ps : List Probe) (p : Probe) : addProbe ps p = addU ps p := rfl

theorem addU_nodup {α : Type} [DecidableEq α] (l : List α) (x : α) (h : l.Nodup) : (addU l x).Nodup := by
  unfold addU; split
  · exact h
  · rename_i hc
    simp only [List.contains_iff_mem] at hc
    rw [List.nodup_append]
    refine ⟨h, by simp, ?_⟩
    intro a ha b hb
    simp at hb; subst hb
    intro e; subst e; exact hc ha

theorem mem_addU {α : Type} [DecidableEq α] (l : List α) (x y : α) : y ∈ addU l x ↔ y ∈ l ∨ y = x := by
  unfold addU; split
  · rename_i hc
    simp only [List.contains_iff_mem] at hc
    constructor
    · exact Or.inl
    · rintro (h | h)
      · exact h
      · subst h; exact hc
  · simp

theorem foldl_addU_nodup {α : Type} [DecidableEq α] (xs : List α) : ∀ (acc : List α), acc.Nodup →
    (xs.foldl addU acc).Nodup := by
  induction xs with
  | nil => intro acc h; exact h
  | cons x xs ih => intro acc h; exact ih _ (addU_nodup acc x h)

theorem mem_foldl_addU {α : Type} [DecidableEq α] (xs : List α) : ∀ (acc : List α) (y : α),
    y ∈ xs.foldl addU acc ↔ y ∈ acc ∨ y ∈ xs := by
  induction xs with
  | nil => intro acc y; simp
  | cons x xs ih =>
    intro acc y
    simp only [List.foldl_cons, ih, mem_addU, List.mem_cons]
    constructor
    · rintro ((h | h) | h)
      · exact Or.inl h
      · exact Or.inr (Or.inl h)
      · exact Or.inr (Or.inr h)
    · rintro (h | h | h)
      · exact Or.inl (Or.inl h)
      · exact Or.inl (Or.inr h)
      · exact Or.inr h

/-! ### the detector's state as two abstract views -/
def keys (gs : List Group) : List Key := gs.map (·.key)

def probesOf (gs : List Group) (k : Key) : List Probe :=
  match gs.find? (fun g => g.key = k) with
  | some g => g.probes
  | none => []

theorem keys_knock (gs : List Group) (k : Key) (p : Probe) (t : Nat) :
    keys (knock gs k p t) = addU (keys gs) k := by
  induction gs with
  | nil => simp [knock, keys, addU]
  | cons g rest ih =>
    unfold knock
    by_cases hk : g.key = k
    · simp [hk, keys, addU]
    · simp only [hk, if_false]
      simp only [keys, List.map_cons] at ih ⊢
      rw [ih]
      unfold addU
      simp only [List.contains_iff_mem, List.mem_cons]
      by_cases hm : k ∈ List.map (fun x => x.key) rest
      · simp [hm]
      · simp [hm, Ne.symm hk]

theorem probesOf_knock (gs : List Group) (k k' : Key) (p : Probe) (t : Nat) :
    probesOf (knock gs k p t) k' = if k' = k then addU (probesOf gs k) p else probesOf gs k' := by
  induction gs with
  | nil =>
    by_cases h : k' = k
    · subst h; simp [knock, probesOf, addU]
    · simp [knock, probesOf, h, Ne.symm h]
  | cons g rest ih =>
    unfold knock
    by_cases hk : g.key = k
    · simp only [hk, if_true]
      by_cases h : k' = k
      · subst h; simp [probesOf, hk, addProbe_eq]
      · have h2 : ¬ k = k' := Ne.symm h
        simp [probesOf, hk, h, h2]
    · simp only [hk, if_false]
      by_cases hg : g.key = k'
      · have : ¬ k' = k := by intro e; exact hk (hg.trans e)
        simp [probesOf, hg, this]
      · have e1 : probesOf (g :: knock rest k p t) k' = probesOf (knock rest k p t) k' := by
          simp [probesOf, hg]
        have e2 : probesOf (g :: rest) k' = probesOf rest k' := by simp [probesOf, hg]
        have e3 : probesOf (g :: rest) k = probesOf rest k := by simp [probesOf, hk]
        rw [e1, e2, e3, ih]

/-- run a history from a given detector state -/
def runFrom (gs : List Group) (ks : List (Key × Probe × Nat)) : List Group :=
  ks.foldl (fun gs k => knock gs k.1 k.2.1 k.2.2) gs

theorem keys_runFrom (ks : List (Key × Probe × Nat)) : ∀ gs,
    keys (runFrom gs ks) = (ks.map (·.1)).foldl addU (keys gs) := by
  induction ks with
  | nil => intro gs; rfl
  | cons x xs ih =>
    intro gs
    simp only [runFrom, List.foldl_cons, List.map_cons] at ih ⊢
    rw [ih, keys_knock]

theorem probesOf_runFrom (ks : List (Key × Probe × Nat)) (k : Key) : ∀ gs,
    probesOf (runFrom gs ks) k = (((ks.filter (fun x => x.1 = k)).map (·.2.1))).foldl addU (probesOf gs k) := by
  induction ks with
  | nil => intro gs; rfl
  | cons x xs ih =>
    intro gs
    simp only [runFrom, List.foldl_cons] at ih ⊢
    rw [ih, probesOf_knock]
    by_cases h : x.1 = k
    · simp [List.filter_cons, h]
    · simp [List.filter_cons, h, Ne.symm h]

theorem probesOf_of_mem (gs : List Group) (g : Group) (hm : g ∈ gs) (hn : (keys gs).Nodup) :
    probesOf gs g.key = g.probes := by
  induction gs with
  | nil => simp at hm
  | cons a rest ih =>
    simp only [keys, List.map_cons, List.nodup_cons] at hn
    rcases List.mem_cons.mp hm with h | h
    · subst h; simp [probesOf]
    · have hne : a.key ≠ g.key := by
        intro e; apply hn.1; rw [e]; exact List.mem_map.mpr ⟨g, h, rfl⟩
      have := ih h hn.2
      simp only [probesOf, List.find?_cons, hne, decide_false] at this ⊢
      exact this

/-! ### UniqueSet -/
theorem each_go_visits {α : Type} {β : Type} [DecidableEq α] (f : USet α → Nat → α → USet α) (xs : List α) :
    ∀ (cur : USet α) (i : Nat),
      (USet.each.go (fun c i x => (f c i x, [x])) cur i xs).2 = xs := by
  induction xs with
  | nil => intro cur i; rfl
  | cons x xs ih => intro cur i; simp [USet.each.go, ih]

end HT.Knock
