import HT.Model.Seg
/-! Lemmas for the framing machine: parser combinators keep `Mono`/`Progress`; segment feeding. -/
namespace HT.Seg

/-! ### primitive parsers -/

theorem lineAux_append (more : Bytes) : ∀ (b acc x r : Bytes), lineAux acc b = some (x, r) →
    lineAux acc (b ++ more) = some (x, r ++ more) := by
  intro b
  induction b with
  | nil => intro acc x r h; simp [lineAux] at h
  | cons c cs ih =>
    intro acc x r h
    simp only [List.cons_append, lineAux] at h ⊢
    split at h
    · rename_i hc
      simp only [hc, if_true]
      simp only [Option.some.injEq, Prod.mk.injEq] at h
      simp [h.1, h.2]
    · rename_i hc
      simp only [hc, Bool.false_eq_true, if_false]
      exact ih _ _ _ h

theorem lineAux_len : ∀ (b acc x r : Bytes), lineAux acc b = some (x, r) → r.length < b.length := by
  intro b
  induction b with
  | nil => intro acc x r h; simp [lineAux] at h
  | cons c cs ih =>
    intro acc x r h
    simp only [lineAux] at h
    split at h
    · simp only [Option.some.injEq, Prod.mk.injEq] at h
      simp [← h.2]
    · have := ih _ _ _ h
      simp only [List.length_cons]; omega

theorem line_mono : Mono line := fun b x r more h => lineAux_append more b [] x r h
theorem line_progress : Progress line := fun b x r h => lineAux_len b [] x r h

theorem cstrAux_append (more : Bytes) : ∀ (b acc x r : Bytes), cstrAux acc b = some (x, r) →
    cstrAux acc (b ++ more) = some (x, r ++ more) := by
  intro b
  induction b with
  | nil => intro acc x r h; simp [cstrAux] at h
  | cons c cs ih =>
    intro acc x r h
    simp only [List.cons_append, cstrAux] at h ⊢
    split at h
    · rename_i hc
      simp only [hc, if_true]
      simp only [Option.some.injEq, Prod.mk.injEq] at h
      simp [h.1, h.2]
    · rename_i hc
      simp only [hc, Bool.false_eq_true, if_false]
      exact ih _ _ _ h

theorem takeN_mono (n : Nat) : Mono (takeN n) := by
  intro b x r more h
  unfold takeN at h ⊢
  split at h
  · simp at h
  · rename_i hl
    simp only [Option.some.injEq, Prod.mk.injEq] at h
    have : ¬ (b ++ more).length < n := by simp only [List.length_append]; omega
    simp only [this, if_false, Option.some.injEq, Prod.mk.injEq]
    have hn : n ≤ b.length := by omega
    rw [← h.1, ← h.2]
    constructor
    · rw [List.take_append_of_le_length hn]
    · rw [List.drop_append_of_le_length hn]

theorem takeN_nogrow (n : Nat) : NoGrow (takeN n) := by
  intro b x r h
  unfold takeN at h
  split at h
  · simp at h
  · simp only [Option.some.injEq, Prod.mk.injEq] at h
    rw [← h.2]; simp

theorem takeN_progress (n : Nat) (hn : 0 < n) : Progress (takeN n) := by
  intro b x r h
  unfold takeN at h
  split at h
  · simp at h
  · simp only [Option.some.injEq, Prod.mk.injEq] at h
    rw [← h.2]; simp only [List.length_drop]; omega

theorem pure_mono {α : Type} (x : α) : Mono (pureP x) := by
  intro b y r more h
  simp only [pureP, Option.some.injEq, Prod.mk.injEq] at h ⊢
  simp [h.1, h.2]

theorem pure_nogrow {α : Type} (x : α) : NoGrow (pureP x) := by
  intro b y r h
  simp only [pureP, Option.some.injEq, Prod.mk.injEq] at h
  simp [← h.2]

theorem fail_mono {α : Type} : Mono (fun _ => none : P α) := by intro b x r more h; simp at h
theorem fail_progress {α : Type} : Progress (fun _ => none : P α) := by intro b x r h; simp at h

theorem bind_mono {α β : Type} (p : P α) (f : α → P β) (hp : Mono p) (hf : ∀ x, Mono (f x)) :
    Mono (bindP p f) := by
  intro b y r more h
  unfold bindP at h ⊢
  cases hpb : p b with
  | none => simp [hpb] at h
  | some xr =>
    obtain ⟨x, r1⟩ := xr
    rw [hpb] at h
    rw [hp b x r1 more hpb]
    exact hf x r1 y r more h

theorem progress_nogrow {α : Type} (p : P α) (h : Progress p) : NoGrow p :=
  fun b x r hb => Nat.le_of_lt (h b x r hb)

/-- a unit that starts with a progressing parser progresses -/
theorem bind_progress {α β : Type} (p : P α) (f : α → P β) (hp : Progress p) (hf : ∀ x, NoGrow (f x)) :
    Progress (bindP p f) := by
  intro b y r h
  unfold bindP at h
  cases hpb : p b with
  | none => simp [hpb] at h
  | some xr =>
    obtain ⟨x, r1⟩ := xr
    rw [hpb] at h
    have h1 := hp b x r1 hpb
    have h2 := hf x r1 y r h
    omega

theorem bind_nogrow {α β : Type} (p : P α) (f : α → P β) (hp : NoGrow p) (hf : ∀ x, NoGrow (f x)) :
    NoGrow (bindP p f) := by
  intro b y r h
  unfold bindP at h
  cases hpb : p b with
  | none => simp [hpb] at h
  | some xr =>
    obtain ⟨x, r1⟩ := xr
    rw [hpb] at h
    have h1 := hp b x r1 hpb
    have h2 := hf x r1 y r h
    omega

/-! ### the machine -/

variable {S E : Type}

theorem drain_fuel (p : Proto S E) (hp : ∀ s, Progress (p.next s)) :
    ∀ (n m : Nat) (s : S) (x : Bytes), x.length < n → x.length < m → drain p n s x = drain p m s x := by
  intro n
  induction n with
  | zero => intro m s x h; omega
  | succ n ih =>
    intro m s x hn hm
    cases m with
    | zero => omega
    | succ m =>
      simp only [drain]
      cases hnx : p.next s x with
      | none => rfl
      | some res =>
        obtain ⟨⟨ev, s'⟩, r⟩ := res
        have hl := hp s x (ev, s') r hnx
        simp only
        rw [ih m s' r (by omega) (by omega)]

theorem drain_rest_len (p : Proto S E) (hp : ∀ s, Progress (p.next s)) :
    ∀ (n : Nat) (s : S) (x : Bytes), (drain p n s x).2.2.length ≤ x.length := by
  intro n
  induction n with
  | zero => intro s x; simp [drain]
  | succ n ih =>
    intro s x
    simp only [drain]
    cases hnx : p.next s x with
    | none => simp
    | some res =>
      obtain ⟨⟨ev, s'⟩, r⟩ := res
      have hl := hp s x (ev, s') r hnx
      have := ih s' r
      simp only
      omega

/-- draining `a ++ b` is draining `a`, then draining what is left of it followed by `b` -/
theorem drain_append (p : Proto S E) (hm : ∀ s, Mono (p.next s)) (hp : ∀ s, Progress (p.next s)) :
    ∀ (n : Nat) (s : S) (a b : Bytes), (a ++ b).length < n →
      drain p n s (a ++ b) =
        ((drain p n s a).1 ++ (drain p n (drain p n s a).2.1 ((drain p n s a).2.2 ++ b)).1,
         (drain p n (drain p n s a).2.1 ((drain p n s a).2.2 ++ b)).2.1,
         (drain p n (drain p n s a).2.1 ((drain p n s a).2.2 ++ b)).2.2) := by
  intro n
  induction n with
  | zero => intro s a b h; omega
  | succ n ih =>
    intro s a b hlen
    cases hna : p.next s a with
    | none =>
      have e1 : drain p (n + 1) s a = ([], s, a) := by simp [drain, hna]
      rw [e1]
      simp
    | some res =>
      obtain ⟨⟨ev, s'⟩, r⟩ := res
      have hmono := hm s a (ev, s') r b hna
      have hl := hp s a (ev, s') r hna
      have e1 : drain p (n + 1) s a = (ev ++ (drain p n s' r).1, (drain p n s' r).2.1, (drain p n s' r).2.2) := by
        simp [drain, hna]
      have e2 : drain p (n + 1) s (a ++ b) =
          (ev ++ (drain p n s' (r ++ b)).1, (drain p n s' (r ++ b)).2.1, (drain p n s' (r ++ b)).2.2) := by
        simp [drain, hmono]
      have hrb : (r ++ b).length < n := by
        simp only [List.length_append] at hlen ⊢; omega
      rw [e2, e1, ih s' r b hrb]
      have hrest := drain_rest_len p hp n s' r
      have hf : drain p (n + 1) (drain p n s' r).2.1 ((drain p n s' r).2.2 ++ b)
          = drain p n (drain p n s' r).2.1 ((drain p n s' r).2.2 ++ b) := by
        apply drain_fuel p hp
        · simp only [List.length_append] at hlen hrb ⊢; omega
        · simp only [List.length_append] at hlen hrb ⊢; omega
      simp only [hf, List.append_assoc]

theorem feed_append (p : Proto S E) (hm : ∀ s, Mono (p.next s)) (hp : ∀ s, Progress (p.next s))
    (st : St S) (a b : Bytes) :
    feed p st (a ++ b) = ((feed p st a).1 ++ (feed p (feed p st a).2 b).1, (feed p (feed p st a).2 b).2) := by
  unfold feed
  simp only
  have hassoc : st.buf ++ (a ++ b) = (st.buf ++ a) ++ b := by simp
  rw [hassoc]
  have h1 := drain_append p hm hp (((st.buf ++ a) ++ b).length + 1) st.s (st.buf ++ a) b (Nat.lt_succ_self _)
  rw [h1]
  -- bring the three fuels to the ones `feed` uses
  have f1 : drain p (((st.buf ++ a) ++ b).length + 1) st.s (st.buf ++ a)
      = drain p ((st.buf ++ a).length + 1) st.s (st.buf ++ a) := by
    apply drain_fuel p hp
    · simp only [List.length_append]; omega
    · omega
  rw [f1]
  have hrest := drain_rest_len p hp ((st.buf ++ a).length + 1) st.s (st.buf ++ a)
  have f2 : drain p (((st.buf ++ a) ++ b).length + 1) (drain p ((st.buf ++ a).length + 1) st.s (st.buf ++ a)).2.1
        ((drain p ((st.buf ++ a).length + 1) st.s (st.buf ++ a)).2.2 ++ b)
      = drain p (((drain p ((st.buf ++ a).length + 1) st.s (st.buf ++ a)).2.2 ++ b).length + 1)
        (drain p ((st.buf ++ a).length + 1) st.s (st.buf ++ a)).2.1
        ((drain p ((st.buf ++ a).length + 1) st.s (st.buf ++ a)).2.2 ++ b) := by
    apply drain_fuel p hp
    · simp only [List.length_append] at hrest ⊢; omega
    · omega
  rw [f2]

theorem next_nil_none (p : Proto S E) (hp : ∀ s, Progress (p.next s)) (s : S) : p.next s [] = none := by
  cases h : p.next s [] with
  | none => rfl
  | some res =>
    obtain ⟨x, r⟩ := res
    have := hp s [] x r h
    simp at this

theorem feed_nil_nil (p : Proto S E) (hp : ∀ s, Progress (p.next s)) (s : S) :
    feed p { s := s, buf := [] } [] = ([], { s := s, buf := [] }) := by
  simp [feed, drain, next_nil_none p hp s]

/-- any segmentation with at least one segment behaves as its concatenation delivered at once -/
theorem runSegs_cons (p : Proto S E) (hm : ∀ s, Mono (p.next s)) (hp : ∀ s, Progress (p.next s)) :
    ∀ (segs : List Bytes) (seg : Bytes) (st : St S),
      runSegs p st (seg :: segs) = feed p st (seg ++ segs.flatten) := by
  intro segs
  induction segs with
  | nil => intro seg st; simp [runSegs]
  | cons b rest ih =>
    intro a st
    have e : runSegs p st (a :: b :: rest) =
        ((feed p st a).1 ++ (runSegs p (feed p st a).2 (b :: rest)).1, (runSegs p (feed p st a).2 (b :: rest)).2) := rfl
    rw [e, ih b (feed p st a).2]
    simp only [List.flatten_cons]
    rw [feed_append p hm hp st a (b ++ rest.flatten)]

end HT.Seg
