import HT.Model.Canary
/-! Ones'-complement checksum algebra and the checksums of emitted packets (C14) -/
namespace HT.Can
open HT.Pkt

theorem fold16_le (n : Nat) : fold16 n ≤ 65535 := by
  induction n using Nat.strongRecOn with
  | _ n ih => unfold fold16; split
              · assumption
              · exact ih _ (by omega)

theorem fold16_mod (n : Nat) : fold16 n % 65535 = n % 65535 := by
  induction n using Nat.strongRecOn with
  | _ n ih => unfold fold16; split
              · rfl
              · rw [ih _ (by omega)]; omega

theorem fold16_pos (n : Nat) (h : 0 < n) : 0 < fold16 n := by
  induction n using Nat.strongRecOn with
  | _ n ih => unfold fold16; split
              · assumption
              · exact ih _ (by omega) (by omega)

/-- a receiver that sums all words, including the checksum field, folds to 0xffff -/
theorem verify (s : Nat) : fold16 (s + cksum s) = 65535 := by
  have h1 := fold16_le s; have h2 := fold16_mod s
  have h3 := fold16_le (s + cksum s); have h4 := fold16_mod (s + cksum s)
  have h5 : 0 < fold16 (s + cksum s) := by
    apply fold16_pos; unfold cksum
    rcases Nat.eq_zero_or_pos s with h | h
    · subst h; simp [fold16]
    · omega
  unfold cksum at *; omega

theorem cksum_lt (s : Nat) : cksum s < 65536 := by unfold cksum; omega

theorem words_append_even : ∀ (a b : Bytes), a.length % 2 = 0 → words (a ++ b) = words a + words b
  | [], b, _ => by simp [words]
  | [_], _, h => by simp at h
  | x :: y :: rest, b, h => by
    have := words_append_even rest b (by simp at h; omega)
    simp only [List.cons_append, words, this]; omega

theorem u8n (k : Nat) : (UInt8.ofNat k).toNat = k % 256 := by simp [UInt8.toNat_ofNat']

theorem words_u16be (c : Nat) (h : c < 65536) : words (u16be c) = c := by
  simp only [u16be, words, u8n]; omega

theorem words_patch (P Q : Bytes) (c : Nat) (hP : P.length % 2 = 0) (hc : c < 65536) :
    words (P ++ (u16be c ++ Q)) = words (P ++ ([0, 0] ++ Q)) + c := by
  have h1 : words (u16be c ++ Q) = c + words Q := by
    rw [words_append_even _ _ (by simp [u16be]), words_u16be c hc]
  have h2 : words ([0, 0] ++ Q) = words Q := by
    rw [words_append_even _ _ (by simp)]; simp [words]
  rw [words_append_even P _ hP, words_append_even P _ hP, h1, h2]; omega

/-- the IPv4 header `send` emits verifies: all ten words sum (folded) to 0xffff -/
theorem ip_checksum_valid (s : TCB) (n : Nat) :
    fold16 (words (setAt (ipHdr s n) 10 (u16be (cksum (words (ipHdr s n)))))) = 65535 := by
  have hc := cksum_lt (words (ipHdr s n))
  have key : words (setAt (ipHdr s n) 10 (u16be (cksum (words (ipHdr s n)))))
      = words (ipHdr s n) + cksum (words (ipHdr s n)) := by
    generalize cksum (words (ipHdr s n)) = c at hc ⊢
    have e1 : setAt (ipHdr s n) 10 (u16be c) =
        ([69, 0] ++ u16be (20 + n) ++ u16be (s.id.toNat % 65536) ++ [0, 0] ++ [128, 6]) ++
          (u16be c ++ (s.dstIP ++ s.srcIP)) := by
      simp [setAt, ipHdr, u16be]
    have e2 : ipHdr s n =
        ([69, 0] ++ u16be (20 + n) ++ u16be (s.id.toNat % 65536) ++ [0, 0] ++ [128, 6]) ++
          ([0, 0] ++ (s.dstIP ++ s.srcIP)) := by
      simp [ipHdr]
    rw [e1]
    conv => rhs; rw [e2]
    exact words_patch _ _ c (by simp [u16be]) hc
  rw [key]; exact verify _

/-- the TCP segment `send` emits verifies against its pseudo header -/
theorem tcp_checksum_valid (s : TCB) (flags : Nat) (payload : Bytes) :
    let seg := tcpHdr s flags ++ payload
    let pseudo := words s.dstIP + words s.srcIP + 6 + seg.length
    fold16 (pseudo + words (setAt seg 16 (u16be (cksum (pseudo + words seg))))) = 65535 := by
  intro seg pseudo
  have hc := cksum_lt (pseudo + words seg)
  have key : words (setAt seg 16 (u16be (cksum (pseudo + words seg))))
      = words seg + cksum (pseudo + words seg) := by
    generalize cksum (pseudo + words seg) = c at hc ⊢
    have e1 : setAt seg 16 (u16be c) =
        (u16be s.dstPort ++ u16be s.srcPort ++ u32be s.nxt ++ u32be s.rcv ++
          [80, UInt8.ofNat flags] ++ u16be 65535) ++ (u16be c ++ ([0, 0] ++ payload)) := by
      simp [seg, setAt, tcpHdr, u16be, u32be]
    have e2 : seg =
        (u16be s.dstPort ++ u16be s.srcPort ++ u32be s.nxt ++ u32be s.rcv ++
          [80, UInt8.ofNat flags] ++ u16be 65535) ++ ([0, 0] ++ ([0, 0] ++ payload)) := by
      simp [seg, tcpHdr]
    rw [e1]
    conv => rhs; rw [e2]
    exact words_patch _ _ c (by simp [u16be, u32be]) hc
  rw [key, ← Nat.add_assoc]; exact verify _

end HT.Can
