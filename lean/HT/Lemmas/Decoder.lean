import HT.Model.Decoder
/-! Helper lemmas for `HT.Props.C17` -/
namespace HT.Dec

def Inv (d : Dec) : Prop := 0 ≤ d.off ∧ d.off ≤ d.len

instance (d : Dec) : Decidable d.Inv := by unfold Inv; exact inferInstance

theorem new_inv (b : Bytes) : (new b).Inv := by
  unfold Inv new len; simp

theorem hasBytes_iff (d : Dec) (s : Int) :
    d.hasBytes s = true ↔ 0 ≤ d.off + s ∧ d.off + s ≤ d.data.length := by
  unfold hasBytes len; repeat' split <;> simp_all <;> omega

theorem slice_ok (l : Bytes) (a b : Int) (h : 0 ≤ a ∧ a ≤ b ∧ b ≤ l.length) :
    slice l a b = .ok ((l.drop a.toNat).take (b - a).toNat) := by
  unfold slice; simp [h]

theorem readN_fits (d : Dec) (n : Nat) (h : d.Inv) (hf : d.off + n ≤ d.len) :
    readN d n = .ok (beNat ((d.data.drop d.off.toNat).take n), { d with off := d.off + n }) := by
  unfold Inv len at *
  have hb : d.hasBytes n = true := by rw [hasBytes_iff]; omega
  unfold readN; simp only [hb, if_true]
  rw [slice_ok _ _ _ (by omega)]
  have : (d.off + ↑n - d.off).toNat = n := by omega
  simp [bind, Except.bind, pure, Except.pure, this]

theorem readN_short (d : Dec) (n : Nat) (_h : d.Inv) (hf : ¬ d.off + n ≤ d.len) :
    readN d n = .ok (0, { d with err := true }) := by
  unfold Inv len at *
  have hb : d.hasBytes n = false := by
    cases hh : d.hasBytes n with
    | false => rfl
    | true => rw [hasBytes_iff] at hh; omega
  unfold readN; simp [hb, pure, Except.pure]

theorem peekN_fits (d : Dec) (n : Nat) (h : d.Inv) (hf : d.off + n ≤ d.len) :
    peekN d n = .ok (beNat ((d.data.drop d.off.toNat).take n), d) := by
  unfold Inv len at *
  have hb : d.hasBytes n = true := by rw [hasBytes_iff]; omega
  unfold peekN; simp only [hb, if_true]
  rw [slice_ok _ _ _ (by omega)]
  have : (d.off + ↑n - d.off).toNat = n := by omega
  simp [bind, Except.bind, pure, Except.pure, this]

theorem peekN_short (d : Dec) (n : Nat) (_h : d.Inv) (hf : ¬ d.off + n ≤ d.len) :
    peekN d n = .ok (0, { d with err := true }) := by
  unfold Inv len at *
  have hb : d.hasBytes n = false := by
    cases hh : d.hasBytes n with
    | false => rfl
    | true => rw [hasBytes_iff] at hh; omega
  unfold peekN; simp [hb, pure, Except.pure]

/-- `readN` never panics and keeps the invariant and the buffer -/
theorem readN_ok (d : Dec) (n : Nat) (h : d.Inv) :
    ∃ r, readN d n = .ok r ∧ r.2.Inv ∧ r.2.data = d.data := by
  by_cases hf : d.off + n ≤ d.len
  · refine ⟨_, readN_fits d n h hf, ?_, rfl⟩
    unfold Inv len at *; simp; omega
  · exact ⟨_, readN_short d n h hf, h, rfl⟩

theorem peekN_ok (d : Dec) (n : Nat) (h : d.Inv) :
    ∃ r, peekN d n = .ok r ∧ r.2.Inv ∧ r.2.data = d.data := by
  by_cases hf : d.off + n ≤ d.len
  · exact ⟨_, peekN_fits d n h hf, h, rfl⟩
  · exact ⟨_, peekN_short d n h hf, h, rfl⟩

theorem copy_fits (d : Dec) (n : Int) (h : d.Inv) (h0 : 0 ≤ n) (hf : d.off + n ≤ d.len) :
    copy d n = .ok (some ((d.data.drop d.off.toNat).take n.toNat), { d with off := d.off + n }) := by
  unfold Inv len at *
  have hb : d.hasBytes n = true := by rw [hasBytes_iff]; omega
  have hn : ¬ n < 0 := by omega
  unfold copy; simp only [hn, if_false, hb, if_true]
  rw [slice_ok _ _ _ (by omega)]
  have : (d.off + n - d.off).toNat = n.toNat := by omega
  simp [mkSlice, h0, bind, Except.bind, pure, Except.pure, this, List.take_take]

theorem copy_short (d : Dec) (n : Int) (_h : d.Inv) (hf : n < 0 ∨ ¬ d.off + n ≤ d.len) :
    copy d n = .ok (none, { d with err := true }) := by
  unfold Inv len at *
  unfold copy
  by_cases hn : n < 0
  · simp [hn, pure, Except.pure]
  · have hb : d.hasBytes n = false := by
      cases hh : d.hasBytes n with
      | false => rfl
      | true => rw [hasBytes_iff] at hh; omega
    simp [hn, hb, pure, Except.pure]

theorem copy_ok (d : Dec) (n : Int) (h : d.Inv) :
    ∃ r, copy d n = .ok r ∧ r.2.Inv ∧ r.2.data = d.data := by
  by_cases hf : 0 ≤ n ∧ d.off + n ≤ d.len
  · refine ⟨_, copy_fits d n h hf.1 hf.2, ?_, rfl⟩
    unfold Inv len at *; simp; omega
  · refine ⟨_, copy_short d n h (by omega), h, rfl⟩

theorem seek_inv (d : Dec) (p : Int) (h : d.Inv) : (d.seek p).Inv ∧ (d.seek p).data = d.data := by
  unfold seek; split
  · rename_i hb; rw [hasBytes_iff] at hb; unfold Inv len at *; simp; omega
  · exact ⟨h, rfl⟩

theorem step_ok (d : Dec) (op : Op) (h : d.Inv) :
    ∃ r, step d op = .ok r ∧ r.2.Inv ∧ r.2.data = d.data := by
  cases op with
  | byte =>
    obtain ⟨r, hr, hi, hd⟩ := readN_ok d 1 h
    exact ⟨(.num r.1, r.2), by simp [step, byte, hr, bind, Except.bind, pure, Except.pure], hi, hd⟩
  | int16 =>
    obtain ⟨r, hr, hi, hd⟩ := readN_ok d 2 h
    exact ⟨(.num (toSigned 16 r.1), r.2),
      by simp [step, int16, hr, bind, Except.bind, pure, Except.pure], hi, hd⟩
  | int32 =>
    obtain ⟨r, hr, hi, hd⟩ := readN_ok d 4 h
    exact ⟨(.num (toSigned 32 r.1), r.2),
      by simp [step, int32, hr, bind, Except.bind, pure, Except.pure], hi, hd⟩
  | uint32 =>
    obtain ⟨r, hr, hi, hd⟩ := readN_ok d 4 h
    exact ⟨(.num r.1, r.2), by simp [step, uint32, hr, bind, Except.bind, pure, Except.pure], hi, hd⟩
  | peekByte =>
    obtain ⟨r, hr, hi, hd⟩ := peekN_ok d 1 h
    exact ⟨(.num r.1, r.2), by simp [step, peekByte, hr, bind, Except.bind, pure, Except.pure], hi, hd⟩
  | peekInt16 =>
    obtain ⟨r, hr, hi, hd⟩ := peekN_ok d 2 h
    exact ⟨(.num (toSigned 16 r.1), r.2),
      by simp [step, peekInt16, hr, bind, Except.bind, pure, Except.pure], hi, hd⟩
  | copy n =>
    obtain ⟨r, hr, hi, hd⟩ := copy_ok d n h
    exact ⟨(.bytes r.1, r.2), by simp [step, hr, bind, Except.bind, pure, Except.pure], hi, hd⟩
  | seek n =>
    exact ⟨(.unit, d.seek n), by simp [step, pure, Except.pure], (seek_inv d n h).1, (seek_inv d n h).2⟩
  | data =>
    obtain ⟨r, hr, hi, hd⟩ := readN_ok d 2 h
    obtain ⟨r2, hr2, hi2, hd2⟩ := copy_ok r.2 (toSigned 16 r.1) hi
    exact ⟨(.str r2.1, r2.2),
      by simp [step, data', int16, hr, hr2, bind, Except.bind, pure, Except.pure], hi2, by rw [hd2, hd]⟩
  | avail => exact ⟨(.num d.available, d), by simp [step, pure, Except.pure], h, rfl⟩

theorem run_ok (ops : List Op) : ∀ (d : Dec), d.Inv →
    ∃ r, run d ops = .ok r ∧ r.2.Inv ∧ r.2.data = d.data := by
  induction ops with
  | nil => intro d h; exact ⟨([], d), by simp [run, pure, Except.pure], h, rfl⟩
  | cons o os ih =>
    intro d h
    obtain ⟨r, hr, hi, hd⟩ := step_ok d o h
    obtain ⟨r2, hr2, hi2, hd2⟩ := ih r.2 hi
    exact ⟨(r.1 :: r2.1, r2.2), by simp [run, hr, hr2, bind, Except.bind, pure, Except.pure], hi2,
      by rw [hd2, hd]⟩

/-- two's-complement wrap of a 64-bit Go `int` (2^63 = 9223372036854775808) -/
def wrap64 (x : Int) : Int := (x + 9223372036854775808) % 18446744073709551616 - 9223372036854775808

theorem wrap64_guard (off len size : Int)
    (h0 : 0 ≤ off) (h1 : off ≤ len) (h2 : len < 9223372036854775808)
    (hs : -9223372036854775808 ≤ size ∧ size < 9223372036854775808) :
    (0 ≤ wrap64 (off + size) ∧ wrap64 (off + size) ≤ len) ↔ (0 ≤ off + size ∧ off + size ≤ len) := by
  unfold wrap64
  omega

end HT.Dec
