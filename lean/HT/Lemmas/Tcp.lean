import HT.Model.Canary
/-! Helper lemmas about `segStep` (C14) -/
namespace HT.Can
open HT.Pkt

/-- the TCB `send` puts on the wire: `send` only advances the IP id -/
theorem send_fst (cfg : Cfg) (s : TCB) (f : Nat) (p : Bytes) :
    (send cfg s f p).1 = { s with id := s.id + 1 } := rfl

theorem send_snd (cfg : Cfg) (s : TCB) (f : Nat) (p : Bytes) (h : cfg.arp.contains s.srcIP = true) :
    (send cfg s f p).2 = [Eff.tx (packet s f p)] := by
  unfold send; simp only [h, if_true]

theorem ackOk_self (una nxt : UInt32) : ackOk una nxt nxt = true := by
  simp [ackOk]

/-- SYN in LISTEN -/
theorem seg_syn (cfg : Cfg) (s : TCB) (now : Nat) (h : Tcp)
    (hst : s.st = .listen) (hsyn : hasFlag h.ctrl SYN = true) :
    let s1 : TCB := { s with t := now, una := s.iss, nxt := s.iss + 1, rcv := UInt32.ofNat h.seq + 1 }
    (segStep cfg s now h).s = { s1 with id := s.id + 1, nxt := s.iss + 2, st := .synRcvd } ∧
    (segStep cfg s now h).eff = (send cfg s1 (SYN + ACK) []).2 := by
  simp only [segStep, hst, hsyn, and_self, if_true, send_fst]
  constructor
  · congr 1
    rw [UInt32.add_assoc]; rfl
  · trivial

/-- a plain data/ack segment: ACK set, no SYN, RST or FIN -/
structure IsData (h : Tcp) : Prop where
  ack : hasFlag h.ctrl ACK = true
  syn : hasFlag h.ctrl SYN = false
  rst : hasFlag h.ctrl RST = false
  fin : hasFlag h.ctrl FIN = false

theorem segStep_acked (cfg : Cfg) (s : TCB) (now : Nat) (h : Tcp)
    (hack : hasFlag h.ctrl ACK = true) (hsyn : hasFlag h.ctrl SYN = false) (hrst : hasFlag h.ctrl RST = false) :
    segStep cfg s now h = ackedStep cfg { s with t := now } h := by
  simp [segStep, hack, hsyn, hrst]

theorem ackStage_synRcvd (s : TCB) (ack : UInt32) (hst : s.st = .synRcvd)
    (hok : ackOk s.una s.nxt ack = true) :
    ackStage s ack = some { s with st := .estab, hdl := .waiting, una := ack } := by
  simp [ackStage, hst, hok]

theorem ackStage_estab (s : TCB) (ack : UInt32) (hst : s.st = .estab) :
    ∃ s1, ackStage s ack = some s1 ∧ s1.st = .estab ∧ s1.rcv = s.rcv ∧ s1.nxt = s.nxt ∧ s1.rbuf = s.rbuf ∧
      s1.srcIP = s.srcIP ∧ s1.dstIP = s.dstIP ∧ s1.srcPort = s.srcPort ∧ s1.dstPort = s.dstPort ∧
      s1.hdl = s.hdl ∧ s1.iss = s.iss := by
  by_cases hk : ackOk s.una s.nxt ack = true <;> simp [ackStage, hst, hk]

theorem textStage_estab (cfg : Cfg) (s : TCB) (h : Tcp) (hst : s.st = .estab) :
    (textStage cfg s h).1.st = .estab ∧
    (textStage cfg s h).1.rcv = s.rcv + UInt32.ofNat h.payload.length ∧
    (textStage cfg s h).1.nxt = s.nxt ∧
    (textStage cfg s h).1.srcIP = s.srcIP ∧ (textStage cfg s h).1.dstIP = s.dstIP ∧
    (textStage cfg s h).1.srcPort = s.srcPort ∧ (textStage cfg s h).1.dstPort = s.dstPort ∧
    (textStage cfg s h).1.iss = s.iss ∧
    (0 < h.payload.length → (textStage cfg s h).2 =
      (send cfg { s with rbuf := ringWrite s.rbuf h.payload, rcv := s.rcv + UInt32.ofNat h.payload.length } ACK []).2) := by
  simp only [textStage, hst]
  by_cases hp : h.payload.length > 0
  · simp [hp, send_fst]
  · simp [hp]

/-- the text stage touches only the ring, RCV.NXT and the IP id -/
theorem textStage_frame (cfg : Cfg) (s : TCB) (h : Tcp) :
    (textStage cfg s h).1.st = s.st ∧ (textStage cfg s h).1.hdl = s.hdl ∧
    (textStage cfg s h).1.nxt = s.nxt ∧ (textStage cfg s h).1.iss = s.iss ∧
    (textStage cfg s h).1.una = s.una := by
  unfold textStage
  split
  · split <;> simp [send_fst]
  · simp

/-- the handshake ACK in SYN-RECEIVED with an acceptable acknowledgment number -/
theorem seg_establish (cfg : Cfg) (s : TCB) (now : Nat) (h : Tcp)
    (hst : s.st = .synRcvd) (hd : IsData h)
    (hack : ackOk s.una s.nxt (UInt32.ofNat h.ack) = true) :
    (segStep cfg s now h).s.st = .estab ∧
    (segStep cfg s now h).s.rcv = s.rcv + UInt32.ofNat h.payload.length ∧
    (segStep cfg s now h).s.hdl = .waiting := by
  rw [segStep_acked cfg s now h hd.ack hd.syn hd.rst]
  unfold ackedStep
  rw [ackStage_synRcvd _ _ (by simpa using hst) (by simpa using hack)]
  have ht := textStage_estab cfg { s with t := now, st := .estab, hdl := .waiting, una := UInt32.ofNat h.ack } h rfl
  have hf := textStage_frame cfg { s with t := now, st := .estab, hdl := .waiting, una := UInt32.ofNat h.ack } h
  simp only [hd.fin]
  exact ⟨ht.1, ht.2.1, hf.2.1⟩

/-- a data segment in ESTABLISHED -/
theorem seg_data (cfg : Cfg) (s : TCB) (now : Nat) (h : Tcp)
    (hst : s.st = .estab) (hd : IsData h) :
    (segStep cfg s now h).s.st = .estab ∧
    (segStep cfg s now h).s.rcv = s.rcv + UInt32.ofNat h.payload.length ∧
    (segStep cfg s now h).s.nxt = s.nxt ∧
    (segStep cfg s now h).s.srcIP = s.srcIP ∧ (segStep cfg s now h).s.dstIP = s.dstIP ∧
    (segStep cfg s now h).s.srcPort = s.srcPort ∧ (segStep cfg s now h).s.dstPort = s.dstPort ∧
    (segStep cfg s now h).s.iss = s.iss ∧
    (0 < h.payload.length →
      ∃ s1 : TCB, s1.rcv = s.rcv + UInt32.ofNat h.payload.length ∧ s1.nxt = s.nxt ∧
        s1.srcIP = s.srcIP ∧ s1.dstIP = s.dstIP ∧ s1.srcPort = s.srcPort ∧ s1.dstPort = s.dstPort ∧
        (segStep cfg s now h).eff = (send cfg s1 ACK []).2) := by
  rw [segStep_acked cfg s now h hd.ack hd.syn hd.rst]
  unfold ackedStep
  obtain ⟨s1, h1, e1, e2, e3, e4, e5, e6, e7, e8, e9, e10⟩ :=
    ackStage_estab { s with t := now } (UInt32.ofNat h.ack) (by simpa using hst)
  rw [h1]
  have ht := textStage_estab cfg s1 h e1
  simp only [hd.fin]
  simp only [e2, e3, e5, e6, e7, e8, e10] at ht
  refine ⟨ht.1, ht.2.1, ht.2.2.1, ht.2.2.2.1, ht.2.2.2.2.1, ht.2.2.2.2.2.1, ht.2.2.2.2.2.2.1,
    ht.2.2.2.2.2.2.2.1, ?_⟩
  intro hp
  refine ⟨_, ?_, ?_, ?_, ?_, ?_, ?_, ht.2.2.2.2.2.2.2.2 hp⟩ <;> simp [e2, e3, e5, e6, e7, e8]

end HT.Can

namespace HT.Can
open HT.Pkt

/-- FIN in ESTABLISHED, with or without data -/
theorem seg_fin_estab (cfg : Cfg) (s : TCB) (now : Nat) (h : Tcp)
    (hst : s.st = .estab) (hack : hasFlag h.ctrl ACK = true) (hsyn : hasFlag h.ctrl SYN = false)
    (hrst : hasFlag h.ctrl RST = false) (hfin : hasFlag h.ctrl FIN = true) :
    (segStep cfg s now h).s.st = .closeWait ∧
    (segStep cfg s now h).s.rcv = UInt32.ofNat h.seq + UInt32.ofNat h.payload.length + 1 ∧
    ∃ (s1 : TCB) (e1 : List Eff),
      s1.rcv = UInt32.ofNat h.seq + UInt32.ofNat h.payload.length + 1 ∧ s1.nxt = s.nxt ∧
      s1.srcIP = s.srcIP ∧ s1.dstIP = s.dstIP ∧ s1.srcPort = s.srcPort ∧ s1.dstPort = s.dstPort ∧
      (segStep cfg s now h).eff = e1 ++ (send cfg s1 (FIN + ACK) []).2 := by
  rw [segStep_acked cfg s now h hack hsyn hrst]
  unfold ackedStep
  obtain ⟨s1, h1, e1, e2, e3, e4, e5, e6, e7, e8, e9, e10⟩ :=
    ackStage_estab { s with t := now } (UInt32.ofNat h.ack) (by simpa using hst)
  rw [h1]
  have ht := textStage_estab cfg s1 h e1
  simp only [hfin, if_true]
  simp only [finStage, ht.1, or_true, if_true, send_fst]
  refine ⟨trivial, trivial, _, (textStage cfg s1 h).2, rfl, ?_, ?_, ?_, ?_, ?_, rfl⟩
  · simp [ht.2.2.1, e3]
  · simp [ht.2.2.2.1, e5]
  · simp [ht.2.2.2.2.1, e6]
  · simp [ht.2.2.2.2.2.1, e7]
  · simp [ht.2.2.2.2.2.2.1, e8]

/-- the receive sequence number after a run of data segments -/
def dataRun (cfg : Cfg) (now : Nat) : TCB → List Tcp → TCB
  | s, [] => s
  | s, h :: hs => dataRun cfg now (segStep cfg s now h).s hs

def totalLen : List Tcp → Nat
  | [] => 0
  | h :: hs => h.payload.length + totalLen hs

theorem dataRun_rcv (cfg : Cfg) (now : Nat) (hs : List Tcp) : ∀ (s : TCB),
    s.st = .estab → (∀ h ∈ hs, IsData h) →
    (dataRun cfg now s hs).st = .estab ∧
    (dataRun cfg now s hs).rcv = s.rcv + UInt32.ofNat (totalLen hs) := by
  induction hs with
  | nil => intro s hst _; simp [dataRun, totalLen, hst]
  | cons h hs ih =>
    intro s hst hall
    have hd := seg_data cfg s now h hst (hall h (by simp))
    have := ih (segStep cfg s now h).s hd.1 (fun x hx => hall x (by simp [hx]))
    simp only [dataRun, totalLen]
    refine ⟨this.1, ?_⟩
    rw [this.2, hd.2.1, UInt32.ofNat_add, UInt32.add_assoc]

/-- `StateTable.Get` returns only a state whose 4-tuple is the segment's (either direction),
and it is the first such state -/
theorem getIdx_spec (slots : List (Option TCB)) (a b : Bytes) (sp dp : Nat) (i : Nat)
    (h : getIdx slots a b sp dp = some i) :
    ∃ s, slots[i]? = some (some s) ∧ tupleMatch s a b sp dp = true := by
  unfold getIdx at h
  rw [List.findIdx?_eq_some_iff_getElem] at h
  obtain ⟨hi, hp, _⟩ := h
  cases hs : slots[i] with
  | none => simp [hs] at hp
  | some s =>
    refine ⟨s, ?_, ?_⟩
    · rw [List.getElem?_eq_getElem hi, hs]
    · simpa [hs] using hp

end HT.Can

namespace HT.Can
open HT.Pkt

/-- A segment that does not open a connection (not SYN-without-ACK) changes at most the
slot `StateTable.Get` resolves its 4-tuple to; every other connection's state is untouched. -/
theorem handleTCP_other_slots (cfg : Cfg) (st st' : St) (now : Nat) (src dst data : Bytes) (d : Drawn)
    (eff : List Eff) (h : Tcp) (perr : Bool)
    (hp : tcpParse data = .ok (h, perr))
    (hns : ¬ (hasFlag h.ctrl SYN = true ∧ ¬ hasFlag h.ctrl ACK = true))
    (hr : handleTCP cfg st now src dst data d = .ok (st', eff)) :
    st'.slots.length = st.slots.length ∧
    ∀ j, getIdx st.slots src dst h.sport h.dport ≠ some j → st'.slots[j]? = st.slots[j]? := by
  unfold handleTCP at hr
  rw [hp] at hr
  simp only at hr
  split at hr
  · cases hr; exact ⟨rfl, fun _ _ => rfl⟩
  · split at hr
    · cases hr; exact ⟨rfl, fun _ _ => rfl⟩
    · split at hr
      · cases hr; exact ⟨rfl, fun _ _ => rfl⟩
      · simp only [hns, if_false] at hr
        cases hg : getIdx st.slots src dst h.sport h.dport with
        | none =>
          simp [hg] at hr
          obtain ⟨rfl, _⟩ := hr
          exact ⟨rfl, fun _ _ => rfl⟩
        | some i =>
          simp only [hg, Option.bind_some, List.getD_eq_getElem?_getD] at hr
          cases hc : st.slots[i]?.getD none with
          | none =>
            simp [hc] at hr
            obtain ⟨rfl, _⟩ := hr
            exact ⟨rfl, fun _ _ => rfl⟩
          | some s =>
            simp only [hc, Except.ok.injEq, Prod.mk.injEq] at hr
            obtain ⟨rfl, _⟩ := hr
            refine ⟨by simp, fun j hj => ?_⟩
            have : i ≠ j := fun e => hj (by rw [e])
            simp [List.getElem?_set_ne this]

end HT.Can
