import HT.Model.Canary
import HT.Lemmas.Packet
/-! Helper lemmas about the receive path model (C02, C14) -/
namespace HT.Can
open HT.Pkt

theorem handleTCP_total (cfg : Cfg) (st : St) (now : Nat) (s d : Bytes) (data : Bytes) (dr : Drawn) :
    NoFault (handleTCP cfg st now s d data dr) := by
  unfold NoFault handleTCP
  obtain ⟨r, hr⟩ := tcpParse_total data
  rw [hr]
  obtain ⟨h, perr⟩ := r
  simp only
  split
  · exact ⟨_, rfl⟩
  · split
    · exact ⟨_, rfl⟩
    · split
      · exact ⟨_, rfl⟩
      · split <;> exact ⟨_, rfl⟩

theorem recvStep_total (cfg : Cfg) (st : St) (now : Nat) (frame : Bytes) (dr : Drawn)
    (h : 14 ≤ frame.length) : NoFault (recvStep cfg st now frame dr) := by
  unfold NoFault recvStep
  obtain ⟨eh, he⟩ := ethParse_total frame h
  rw [he]
  simp only [bind, Except.bind, pure, Except.pure]
  split
  · exact ⟨_, rfl⟩
  · obtain ⟨ip, hip⟩ := ipv4Parse_total eh.payload
    rw [hip]
    cases ip with
    | none => exact ⟨_, rfl⟩
    | some ip =>
      simp only
      split
      · obtain ⟨r, hr⟩ := handleTCP_total cfg st now ip.src ip.dst ip.payload dr
        rw [hr]; exact ⟨_, rfl⟩
      · split
        · obtain ⟨r, hr⟩ := udpParse_total ip.payload
          rw [hr]; exact ⟨_, rfl⟩
        · split
          · obtain ⟨r, hr⟩ := icmpParse_total ip.payload
            rw [hr]; exact ⟨_, rfl⟩
          · exact ⟨_, rfl⟩

/-- the receive loop: frames (with the time and the values drawn for each) folded
through `recvStep`; a fault ends the loop — and the process -/
def recvLoop (cfg : Cfg) : St → List (Bytes × Nat × Drawn) → Except Fault St
  | st, [] => .ok st
  | st, (f, now, d) :: rest =>
    match recvStep cfg st now f d with
    | .error e => .error e
    | .ok (st', _) => recvLoop cfg st' rest

theorem recvLoop_total (cfg : Cfg) (fs : List (Bytes × Nat × Drawn)) :
    ∀ st, (∀ x ∈ fs, 14 ≤ x.1.length) → NoFault (recvLoop cfg st fs) := by
  induction fs with
  | nil => intro st _; exact ⟨st, rfl⟩
  | cons x xs ih =>
    intro st h
    obtain ⟨f, now, d⟩ := x
    obtain ⟨r, hr⟩ := recvStep_total cfg st now f d (h (f, now, d) (by simp))
    unfold recvLoop
    rw [hr]
    exact ih r.1 (fun y hy => h y (by simp [hy]))

end HT.Can

namespace HT.Can
open HT.Pkt

theorem add_bounded (cfg : Cfg) (st : St) (now : Nat) (s : TCB)
    (h : st.slots.length ≤ cfg.cap) : (add cfg st now s).1.slots.length ≤ cfg.cap := by
  unfold add
  split
  · simpa using h
  · split
    · simp; omega
    · split
      · simpa using h
      · exact h

/-- state-free description of "this frame is a UDP datagram the listener accepts" -/
def udpAccepted (cfg : Cfg) (frame : Bytes) : Bool :=
  match ethParse frame with
  | .ok eh =>
    eh.typ = 2048 &&
    (match ipv4Parse eh.payload with
     | .ok (some ip) => ip.proto = 17 && (match udpParse ip.payload with
        | .ok (some _) => cfg.myIPs.contains ip.dst
        | _ => false)
     | _ => false)
  | _ => false

theorem udp_accepted_any_state (cfg : Cfg) (st : St) (now : Nat) (frame : Bytes) (d : Drawn)
    (h : udpAccepted cfg frame = true) : recvStep cfg st now frame d = .ok (st, .udp true) := by
  unfold udpAccepted at h
  unfold recvStep
  cases he : ethParse frame with
  | error e => simp [he] at h
  | ok eh =>
    simp only [he] at h
    simp only [bind, Except.bind, pure, Except.pure]
    have h1 : eh.typ = 2048 := by
      simp only [Bool.and_eq_true, decide_eq_true_eq] at h; exact h.1
    simp only [h1, ne_eq, not_true_eq_false, if_false]
    cases hi : ipv4Parse eh.payload with
    | error e => simp [hi] at h
    | ok oip =>
      cases oip with
      | none => simp [hi] at h
      | some ip =>
        simp only [hi, Bool.and_eq_true, decide_eq_true_eq] at h
        have h2 : ip.proto = 17 := h.2.1
        simp only [h2, show ¬ (17 = 6) by decide, if_false, if_true]
        cases hu : udpParse ip.payload with
        | error e => simp [hu] at h
        | ok ou =>
          cases ou with
          | none => simp [hu] at h
          | some u =>
            simp only [hu] at h
            have h3 := h.2.2
            simp only [List.contains_iff_mem] at h3
            simp [h3]

end HT.Can
