import HT.Model.JA3
/-! Helper lemmas for C13 -/
namespace HT.JA3

theorem u8 (k : Nat) : (UInt8.ofNat k).toNat = k % 256 := by simp [UInt8.toNat_ofNat']

theorem u16_enc16 (n : Nat) (h : n < 65536) :
    u16 (UInt8.ofNat (n / 256)) (UInt8.ofNat (n % 256)) = n := by
  unfold u16; rw [u8, u8]; omega

theorem u16s_flatMap (gs : List Nat) (h : ∀ g ∈ gs, g < 65536) : u16s (gs.flatMap enc16) = gs := by
  induction gs with
  | nil => rfl
  | cons g gs ih =>
    simp only [List.flatMap_cons, enc16, List.cons_append, List.nil_append, u16s]
    rw [u16_enc16 g (h g (by simp)), ih (fun x hx => h x (by simp [hx]))]

theorem length_flatMap_enc16 (gs : List Nat) : (gs.flatMap enc16).length = 2 * gs.length := by
  induction gs with
  | nil => rfl
  | cons g gs ih => simp [List.flatMap_cons, enc16, ih]; omega

theorem decodeGroups_body (gs : List Nat) (h : ∀ g ∈ gs, g < 65536) (hl : 2 * gs.length < 65536) :
    decodeGroups (Ext.body (.groups gs)) = some gs := by
  simp only [Ext.body, enc16, List.cons_append, List.nil_append, decodeGroups]
  rw [u16_enc16 _ hl, length_flatMap_enc16, u16s_flatMap gs h]
  have : (2 * gs.length % 2 == 1 || 2 * gs.length + 2 != 2 * gs.length + 2) = false := by
    simp
  simp [this]

theorem decodePoints_body (ps : List Nat) (h : ∀ p ∈ ps, p < 256) (hl : ps.length < 256) :
    decodePoints (Ext.body (.points ps)) = some ps := by
  simp only [Ext.body, List.cons_append, List.nil_append, decodePoints, List.length_map, u8]
  have : (ps.length != ps.length % 256) = false := by
    simp; omega
  simp only [this, Bool.false_eq_true, if_false]
  congr 1
  rw [List.map_map]
  conv => rhs; rw [← List.map_id ps]
  apply List.map_congr_left
  intro p hp
  simp only [Function.comp, u8, id]
  exact Nat.mod_eq_of_lt (h p hp)

theorem decodeSNI_body (name : Bytes) (hl : name.length + 3 < 65536) (hd : name.getLast? ≠ some 46) :
    decodeSNI (Ext.body (.sni name)) = some (some name) := by
  simp only [Ext.body, enc16, List.cons_append, List.nil_append, decodeSNI]
  rw [u16_enc16 _ hl]
  have : ((List.length ((0 : UInt8) :: UInt8.ofNat (name.length / 256) :: UInt8.ofNat (name.length % 256) :: name))
      != name.length + 3) = false := by simp
  simp only [this, Bool.false_eq_true, if_false]
  unfold sniNames
  simp only [List.length_cons]
  rw [u16_enc16 _ (by omega)]
  simp [hd]

end HT.JA3

namespace HT.JA3

def Ext.wf : Ext → Prop
  | .sni n => n.length + 3 < 65536 ∧ n.getLast? ≠ some 46
  | .groups gs => (∀ g ∈ gs, g < 65536) ∧ 2 * gs.length < 65536
  | .points ps => (∀ p ∈ ps, p < 256) ∧ ps.length < 256
  | .other t _ => t ≠ 0 ∧ t ≠ 10 ∧ t ≠ 11

def groupsOf (es : List Ext) : List (List Nat) := es.filterMap fun e => match e with | .groups gs => some gs | _ => none
def pointsOf (es : List Ext) : List (List Nat) := es.filterMap fun e => match e with | .points ps => some ps | _ => none
def snisOf (es : List Ext) : List Bytes := es.filterMap fun e => match e with | .sni n => some n | _ => none

def lastOr {α : Type} (l : List α) (d : α) : α := l.getLast?.getD d

theorem lastOr_cons {α : Type} (x : α) (xs : List α) (d : α) : lastOr (x :: xs) d = lastOr xs x := by
  unfold lastOr
  cases xs with
  | nil => rfl
  | cons y ys => simp [List.getLast?_cons_cons, List.getLast?_cons]

/-- what the extension loop computes for the wire form of a well-formed extension list -/
theorem parseExts_wire (es : List Ext) : ∀ (i : Info), (∀ e ∈ es, e.wf) →
    parseExts (es.map fun e => (e.typ, e.body)) i = some
      { extTypes := i.extTypes ++ es.map Ext.typ,
        curves := lastOr (groupsOf es) i.curves,
        points := lastOr (pointsOf es) i.points,
        serverName := lastOr (snisOf es) i.serverName } := by
  induction es with
  | nil => intro i _; simp [parseExts, groupsOf, pointsOf, snisOf, lastOr]
  | cons e es ih =>
    intro i hwf
    have hrest : ∀ x ∈ es, x.wf := fun x hx => hwf x (by simp [hx])
    have he := hwf e (by simp)
    cases e with
    | sni n =>
      simp only [Ext.wf] at he
      have ht : (Ext.sni n).typ = 0 := rfl
      simp only [List.map_cons, parseExts, ht, if_true, decodeSNI_body n he.1 he.2, Option.bind_some,
        Option.getD_some]
      rw [ih _ hrest]
      simp [groupsOf, pointsOf, snisOf, lastOr_cons, List.append_assoc]
    | groups gs =>
      simp only [Ext.wf] at he
      have ht : (Ext.groups gs).typ = 10 := rfl
      simp only [List.map_cons, parseExts, ht, show ¬ (10 = 0) by decide, if_false, if_true,
        decodeGroups_body gs he.1 he.2, Option.bind_some]
      rw [ih _ hrest]
      simp [groupsOf, pointsOf, snisOf, lastOr_cons, List.append_assoc]
    | points ps =>
      simp only [Ext.wf] at he
      have ht : (Ext.points ps).typ = 11 := rfl
      simp only [List.map_cons, parseExts, ht, show ¬ (11 = 0) by decide, show ¬ (11 = 10) by decide,
        if_false, if_true, decodePoints_body ps he.1 he.2, Option.bind_some]
      rw [ih _ hrest]
      simp [groupsOf, pointsOf, snisOf, lastOr_cons, List.append_assoc]
    | other t b =>
      simp only [Ext.wf] at he
      have ht : (Ext.other t b).typ = t := rfl
      simp only [List.map_cons, parseExts, ht, he.1, he.2.1, he.2.2, if_false]
      rw [ih _ hrest]
      simp [groupsOf, pointsOf, snisOf, List.append_assoc]

theorem flatMap_groups (es : List Ext) : es.flatMap Ext.groupsIn = (groupsOf es).flatten := by
  induction es with
  | nil => rfl
  | cons e es ih => cases e <;> simp [groupsOf, List.flatMap_cons, Ext.groupsIn] at ih ⊢ <;> exact ih

theorem flatMap_points (es : List Ext) : es.flatMap Ext.pointsIn = (pointsOf es).flatten := by
  induction es with
  | nil => rfl
  | cons e es ih => cases e <;> simp [pointsOf, List.flatMap_cons, Ext.pointsIn] at ih ⊢ <;> exact ih

theorem lastOr_le_one (l : List (List Nat)) (h : l.length ≤ 1) : lastOr l [] = l.flatten := by
  match l, h with
  | [], _ => rfl
  | [x], _ => simp [lastOr]

end HT.JA3
