import HT.Model.Agent
/-! Helper lemmas for C16 -/
namespace HT.Agent

theorem u8 (k : Nat) : (UInt8.ofNat k).toNat = k % 256 := by simp [UInt8.toNat_ofNat']

theorem dec16_enc16 (n : Nat) (h : n < 65536) (rest : Bytes) : dec16 (enc16 n ++ rest) = some (n, rest) := by
  simp only [enc16, List.cons_append, List.nil_append, dec16, u8]
  congr 2; omega

theorem decData_encData (b rest : Bytes) (h : b.length < 65536) :
    decData (encData b ++ rest) = some (b, rest) := by
  unfold decData encData
  rw [List.append_assoc, dec16_enc16 _ h]
  simp

def AAddr.wf (a : AAddr) : Prop := a.ip.length < 65536 ∧ a.port < 65536

theorem decAddr_encAddr (a : AAddr) (rest : Bytes) (h : a.wf) : decAddr (encAddr a ++ rest) = some (a, rest) := by
  unfold encAddr decAddr
  cases hu : a.udp with
  | true =>
    simp only [hu, if_true, List.cons_append, List.nil_append, List.append_assoc]
    rw [decData_encData _ _ h.1]
    simp only [dec16_enc16 _ h.2]
    have : ¬ (UInt8.toNat 17 ≠ 6 ∧ UInt8.toNat 17 ≠ 17) := by decide
    simp only [this, if_false]
    cases a; simp_all
  | false =>
    simp only [hu, Bool.false_eq_true, if_false, List.cons_append, List.nil_append, List.append_assoc]
    rw [decData_encData _ _ h.1]
    simp only [dec16_enc16 _ h.2]
    have : ¬ (UInt8.toNat 6 ≠ 6 ∧ UInt8.toNat 6 ≠ 17) := by decide
    simp only [this, if_false]
    cases a; simp_all

/-! ### the table -/

theorem updFirst_cons (q : VConn → Bool) (f : VConn → VConn) (c : VConn) (cs : List VConn) :
    updFirst q f (c :: cs) = if q c then f c :: cs else c :: updFirst q f cs := rfl

theorem updFirst_filter_same (P q : VConn → Bool) (f : VConn → VConn)
    (hq : ∀ c, q c = true → P c = true) (hf : ∀ c, P (f c) = P c) :
    ∀ (s : List VConn), (updFirst q f s).filter P = updFirst q f (s.filter P) := by
  intro s
  induction s with
  | nil => rfl
  | cons c cs ih =>
    rw [updFirst_cons]
    by_cases h : q c = true
    · have hp := hq c h
      simp only [h, if_true, List.filter_cons, hf, hp, updFirst_cons]
    · by_cases hp : P c = true
      · simp only [h, Bool.false_eq_true, if_false, List.filter_cons, hp, if_true, updFirst_cons, ih]
      · simp only [h, Bool.false_eq_true, if_false, List.filter_cons, hp, ih]

theorem updFirst_filter_other (P q : VConn → Bool) (f : VConn → VConn)
    (hq : ∀ c, q c = true → P c = false) (hf : ∀ c, P (f c) = P c) :
    ∀ (s : List VConn), (updFirst q f s).filter P = s.filter P := by
  intro s
  induction s with
  | nil => rfl
  | cons c cs ih =>
    rw [updFirst_cons]
    by_cases h : q c = true
    · have hp := hq c h
      simp only [h, if_true, List.filter_cons, hf, hp, Bool.false_eq_true, if_false]
    · simp only [h, Bool.false_eq_true, if_false, List.filter_cons, ih]

end HT.Agent
