import HT.Model.Ipp
/-! Helper lemmas for the IPP half of C17 -/
namespace HT.Ipp

theorem u8 (k : Nat) : (UInt8.ofNat k).toNat = k % 256 := by simp [UInt8.toNat_ofNat']

theorem rd16_enc16 (n : Nat) (h : n < 65536) (r : Bytes) : rd16 (enc16 n ++ r) = some (n, r) := by
  simp only [enc16, List.cons_append, List.nil_append, rd16, u8]
  congr 2; omega

theorem rd32_enc32 (n : Nat) (h : n < 4294967296) (r : Bytes) : rd32 (enc32 n ++ r) = some (n, r) := by
  simp only [enc32, List.cons_append, List.nil_append, rd32, u8]
  congr 2; omega

theorem rdData_encData (s r : Bytes) (h : s.length < 32768) : rdData (encData s ++ r) = some (s, r) := by
  unfold rdData encData
  rw [List.append_assoc, rd16_enc16 _ (by omega)]
  have h1 : ¬ (s.length ≥ 32768) := by omega
  simp [h1]

theorem encData_len (s : Bytes) : (encData s).length = s.length + 2 := by
  simp [encData, enc16]

theorem rdInt_encInt (n : Nat) (h : n < 4294967296) (r : Bytes) : rdInt (encInt n ++ r) = some (n, r) := by
  unfold rdInt encInt
  rw [List.append_assoc, rd16_enc16 _ (by omega)]
  exact rd32_enc32 n h r

theorem rdBool_encBool (b : Bool) (r : Bytes) : rdBool (encBool b ++ r) = some (b, r) := by
  unfold rdBool encBool
  rw [List.append_assoc, rd16_enc16 _ (by omega)]
  cases b <;> simp [rd8]

/-- the look-ahead of the additional-values loop stops at `tail` -/
def Stops (tag : UInt8) (tail : Bytes) : Prop :=
  ∃ t r, tail = t :: r ∧ (t ≠ tag ∨ ∃ l r2, rd16 r = some (l, r2) ∧ l ≠ 0)

theorem more_stops {α : Type} (rdV : Bytes → Option (α × Bytes)) (tag : UInt8) (tail : Bytes)
    (hs : Stops tag tail) (f : Nat) (hf : 0 < f) : more rdV tag f tail = some ([], tail) := by
  obtain ⟨t, r, rfl, h⟩ := hs
  cases f with
  | zero => omega
  | succ f =>
    unfold more
    by_cases ht : t = tag
    · subst ht
      rcases h with h | ⟨l, r2, h1, h2⟩
      · exact absurd rfl h
      · simp [h1, h2]
    · simp [ht]

theorem more_encRest {α : Type} (rdV : Bytes → Option (α × Bytes)) (encOne : α → Bytes) (ok : α → Prop)
    (hrd : ∀ v r, ok v → rdV (encOne v ++ r) = some (v, r)) (tag : UInt8) (tail : Bytes)
    (hs : Stops tag tail) :
    ∀ (vs : List α), (∀ v ∈ vs, ok v) → ∀ f, (encRest tag encOne vs ++ tail).length < f →
      more rdV tag f (encRest tag encOne vs ++ tail) = some (vs, tail) := by
  intro vs
  induction vs with
  | nil =>
    intro _ f hf
    exact more_stops rdV tag tail hs f (by omega)
  | cons v vs ih =>
    intro hok f hf
    cases f with
    | zero => omega
    | succ f =>
      simp only [encRest, List.cons_append, List.append_assoc]
      unfold more
      simp only [bne_self_eq_false, Bool.false_eq_true, if_false]
      rw [rd16_enc16 0 (by omega)]
      simp only [bne_self_eq_false, Bool.false_eq_true, if_false]
      rw [hrd v _ (hok v (List.mem_cons_self))]
      have hlen : (encRest tag encOne vs ++ tail).length < f := by
        simp only [encRest, List.cons_append, List.append_assoc, List.length_cons, List.length_append] at hf
        simp only [List.length_append]
        omega
      simp only [ih (fun x hx => hok x (List.mem_cons_of_mem _ hx)) f hlen]

/-! ### what follows an attribute never continues it -/

theorem kind_gt5 (t : UInt8) (k : Kind) (h : kindOf t = some k) : 5 < t.toNat := by
  unfold kindOf at h
  by_cases h1 : t.toNat ≤ 5
  · exfalso
    have : t = 0 ∨ t = 1 ∨ t = 2 ∨ t = 3 ∨ t = 4 ∨ t = 5 := by
      have := t.toNat_lt
      rcases Nat.lt_or_ge t.toNat 1 with a | a
      · left; exact UInt8.toNat_inj.mp (by simp; omega)
      rcases Nat.lt_or_ge t.toNat 2 with b | b
      · right; left; exact UInt8.toNat_inj.mp (by simp; omega)
      rcases Nat.lt_or_ge t.toNat 3 with c | c
      · right; right; left; exact UInt8.toNat_inj.mp (by simp; omega)
      rcases Nat.lt_or_ge t.toNat 4 with d | d
      · right; right; right; left; exact UInt8.toNat_inj.mp (by simp; omega)
      rcases Nat.lt_or_ge t.toNat 5 with e | e
      · right; right; right; right; left; exact UInt8.toNat_inj.mp (by simp; omega)
      · right; right; right; right; right; exact UInt8.toNat_inj.mp (by simp; omega)
    rcases this with rfl | rfl | rfl | rfl | rfl | rfl <;> simp at h
  · omega

theorem stops_delim (tag d : UInt8) (r : Bytes) (hd : d.toNat ≤ 5) (ht : 5 < tag.toNat) : Stops tag (d :: r) :=
  ⟨d, r, rfl, Or.inl (by intro h; subst h; omega)⟩

theorem encVal_head (v : Val) (h : v.wf = true) :
    ∃ rest, encVal v = v.tag :: (encData v.name ++ rest) := by
  cases v with
  | ints tag name vals =>
    cases vals with
    | nil => simp [Val.wf] at h
    | cons x xs => exact ⟨encInt x ++ encRest tag encInt xs, by simp [encVal, encAttr, Val.tag, Val.name]⟩
  | strs tag name vals =>
    cases vals with
    | nil => simp [Val.wf] at h
    | cons x xs => exact ⟨encData x ++ encRest tag encData xs, by simp [encVal, encAttr, Val.tag, Val.name]⟩
  | bools tag name vals =>
    cases vals with
    | nil => simp [Val.wf] at h
    | cons x xs => exact ⟨encBool x ++ encRest tag encBool xs, by simp [encVal, encAttr, Val.tag, Val.name]⟩
  | range tag name lo hi => exact ⟨enc16 8 ++ enc32 lo ++ enc32 hi, by simp [encVal, Val.tag, Val.name]⟩

theorem Val.wf_name (v : Val) (h : v.wf = true) :
    nameOk v.name = true := by
  cases v <;> simp only [Val.wf, Bool.and_eq_true] at h <;> simp only [Val.name]
  · exact h.1.1.2
  · exact h.1.1.2
  · exact h.1.2
  · exact h.1.1.2

theorem stops_encVal (tag : UInt8) (v : Val) (h : v.wf = true) (r : Bytes) : Stops tag (encVal v ++ r) := by
  obtain ⟨rest, he⟩ := encVal_head v h
  have hn := Val.wf_name v h
  simp only [nameOk, Bool.and_eq_true, decide_eq_true_eq] at hn
  rw [he]
  refine ⟨v.tag, encData v.name ++ rest ++ r, rfl, Or.inr ⟨v.name.length, v.name ++ (rest ++ r), ?_, by omega⟩⟩
  unfold encData
  rw [List.append_assoc, List.append_assoc, rd16_enc16 _ (by omega)]

/-- what can follow the attributes of a group: another attribute, or a delimiter -/
theorem stops_encVals (tag : UInt8) (ht : 5 < tag.toNat) (vs : List Val) (hvs : vs.all Val.wf = true)
    (d : UInt8) (hd : d.toNat ≤ 5) (r : Bytes) : Stops tag (encVals vs ++ d :: r) := by
  cases vs with
  | nil => exact stops_delim tag d r hd ht
  | cons v vs =>
    simp only [List.all_cons, Bool.and_eq_true] at hvs
    simp only [encVals, List.append_assoc]
    exact stops_encVal tag v hvs.1 _

/-! ### one attribute -/

theorem decodeVal_encVal (v : Val) (h : v.wf = true) (tail : Bytes) (hs : Stops v.tag tail) (k : Kind)
    (hk : kindOf v.tag = some k) (f : Nat) (hf : (encVal v ++ tail).length ≤ f + 1) :
    ∃ body, encVal v = v.tag :: body ∧ decodeVal k v.tag f (body ++ tail) = some (v, tail) := by
  cases v with
  | ints tag name vals =>
    simp only [Val.wf, Bool.and_eq_true, beq_iff_eq, nameOk, decide_eq_true_eq, Bool.not_eq_true',
      List.all_eq_true] at h
    obtain ⟨⟨⟨hk', hn⟩, hne⟩, hall⟩ := h
    simp only [Val.tag] at hk hs ⊢
    rw [hk'] at hk; cases hk
    cases vals with
    | nil => simp at hne
    | cons x xs =>
      refine ⟨encData name ++ encInt x ++ encRest tag encInt xs, by simp [encVal, encAttr], ?_⟩
      unfold decodeVal
      simp only [List.append_assoc]
      rw [rdData_encData _ _ hn.2]
      simp only
      rw [rdInt_encInt _ (hall x List.mem_cons_self)]
      simp only
      have hl : (encRest tag encInt xs ++ tail).length < f := by
        simp only [encVal, encAttr, List.cons_append, List.append_assoc, List.length_cons, List.length_append, encData_len] at hf
        simp only [List.length_append]; omega
      rw [more_encRest rdInt encInt (· < 4294967296) (fun v r hv => rdInt_encInt v hv r) tag tail hs xs
        (fun v hv => hall v (List.mem_cons_of_mem _ hv)) f hl]
  | strs tag name vals =>
    simp only [Val.wf, Bool.and_eq_true, beq_iff_eq, nameOk, decide_eq_true_eq, Bool.not_eq_true',
      List.all_eq_true] at h
    obtain ⟨⟨⟨hk', hn⟩, hne⟩, hall⟩ := h
    simp only [Val.tag] at hk hs ⊢
    rw [hk'] at hk; cases hk
    cases vals with
    | nil => simp at hne
    | cons x xs =>
      refine ⟨encData name ++ encData x ++ encRest tag encData xs, by simp [encVal, encAttr], ?_⟩
      unfold decodeVal
      simp only [List.append_assoc]
      rw [rdData_encData _ _ hn.2]
      simp only
      rw [rdData_encData _ _ (hall x List.mem_cons_self)]
      simp only
      have hl : (encRest tag encData xs ++ tail).length < f := by
        simp only [encVal, encAttr, List.cons_append, List.append_assoc, List.length_cons, List.length_append, encData_len] at hf
        simp only [List.length_append]; omega
      rw [more_encRest rdData encData (·.length < 32768) (fun v r hv => rdData_encData v r hv) tag tail hs xs
        (fun v hv => hall v (List.mem_cons_of_mem _ hv)) f hl]
  | bools tag name vals =>
    simp only [Val.wf, Bool.and_eq_true, beq_iff_eq, nameOk, decide_eq_true_eq, Bool.not_eq_true'] at h
    obtain ⟨⟨hk', hn⟩, hne⟩ := h
    simp only [Val.tag] at hk hs ⊢
    rw [hk'] at hk; cases hk
    cases vals with
    | nil => simp at hne
    | cons x xs =>
      refine ⟨encData name ++ encBool x ++ encRest tag encBool xs, by simp [encVal, encAttr], ?_⟩
      unfold decodeVal
      simp only [List.append_assoc]
      rw [rdData_encData _ _ hn.2]
      simp only
      rw [rdBool_encBool]
      simp only
      have hl : (encRest tag encBool xs ++ tail).length < f := by
        simp only [encVal, encAttr, List.cons_append, List.append_assoc, List.length_cons, List.length_append, encData_len] at hf
        simp only [List.length_append]; omega
      rw [more_encRest rdBool encBool (fun _ => True) (fun v r _ => rdBool_encBool v r) tag tail hs xs
        (fun _ _ => trivial) f hl]
  | range tag name lo hi =>
    simp only [Val.wf, Bool.and_eq_true, beq_iff_eq, nameOk, decide_eq_true_eq] at h
    obtain ⟨⟨⟨hk', hn⟩, hlo⟩, hhi⟩ := h
    simp only [Val.tag] at hk hs ⊢
    rw [hk'] at hk; cases hk
    refine ⟨encData name ++ enc16 8 ++ enc32 lo ++ enc32 hi, by simp [encVal], ?_⟩
    unfold decodeVal
    simp only [List.append_assoc]
    rw [rdData_encData _ _ hn.2]
    simp only
    rw [rd16_enc16 8 (by omega)]
    simp only
    rw [rd32_enc32 _ hlo]
    simp only
    rw [rd32_enc32 _ hhi]

theorem Val.wf_kind (v : Val) (h : v.wf = true) : ∃ k, kindOf v.tag = some k := by
  cases v <;> simp only [Val.wf, Bool.and_eq_true, beq_iff_eq] at h <;> simp only [Val.tag]
  · exact ⟨_, h.1.1.1⟩
  · exact ⟨_, h.1.1.1⟩
  · exact ⟨_, h.1.1⟩
  · exact ⟨_, h.1.1.1⟩

/-! ### the attributes of a group, the groups of a message -/

theorem groupVals_encVals (d : UInt8) (hd : d.toNat ≤ 5) (r : Bytes) :
    ∀ (vs : List Val), vs.all Val.wf = true → ∀ f, (encVals vs ++ d :: r).length < f →
      groupVals f (encVals vs ++ d :: r) = some (vs, d :: r) := by
  intro vs
  induction vs with
  | nil =>
    intro _ f hf
    cases f with
    | zero => omega
    | succ f => simp [encVals, groupVals, hd]
  | cons v vs ih =>
    intro hall f hf
    simp only [List.all_cons, Bool.and_eq_true] at hall
    obtain ⟨k, hk⟩ := Val.wf_kind v hall.1
    have hgt := kind_gt5 v.tag k hk
    cases f with
    | zero => omega
    | succ f =>
      have hs := stops_encVals v.tag hgt vs hall.2 d hd r
      simp only [encVals, List.append_assoc] at hf ⊢
      obtain ⟨body, hb, hdec⟩ := decodeVal_encVal v hall.1 (encVals vs ++ d :: r) hs k hk f
        (by simp only [List.length_append, List.length_cons] at hf ⊢; omega)
      rw [hb]
      simp only [List.cons_append]
      unfold groupVals
      have : ¬ (v.tag.toNat ≤ 5) := by omega
      simp only [this, if_false, hk, hdec]
      rw [ih hall.2 f (by
        rw [hb] at hf
        simp only [List.length_append, List.length_cons] at hf ⊢; omega)]

theorem groups_encGroups (data : Bytes) :
    ∀ (gs : List Group), gs.all Group.wf = true → ∀ f, (encGroups gs ++ 3 :: data).length < f →
      groups f (encGroups gs ++ 3 :: data) = some (gs, data) := by
  intro gs
  induction gs with
  | nil =>
    intro _ f hf
    cases f with
    | zero => omega
    | succ f => simp [encGroups, groups]
  | cons g gs ih =>
    intro hall f hf
    simp only [List.all_cons, Bool.and_eq_true] at hall
    have hg := hall.1
    simp only [Group.wf, Bool.and_eq_true, decide_eq_true_eq, bne_iff_ne, ne_eq] at hg
    cases f with
    | zero => omega
    | succ f =>
      simp only [encGroups, encGroup, List.cons_append, List.append_assoc] at hf ⊢
      unfold groups
      have h3 : (g.tag == 3) = false := by simp [hg.1.2]
      simp only [h3, Bool.false_eq_true, if_false]
      -- what follows this group's attributes: the next group's tag or the end tag, a delimiter either way
      cases gs with
      | nil =>
        simp only [encGroups, List.nil_append] at hf ⊢
        rw [groupVals_encVals 3 (by decide) data g.vals hg.2 f (by
          simp only [List.length_append, List.length_cons] at hf ⊢; omega)]
        simp only
        cases f with
        | zero => simp only [List.length_append, List.length_cons] at hf; omega
        | succ f => simp [groups]
      | cons g2 gs2 =>
        have hall2 := hall.2
        simp only [List.all_cons, Bool.and_eq_true] at hall2
        have hg2 := hall2.1
        simp only [Group.wf, Bool.and_eq_true, decide_eq_true_eq, bne_iff_ne, ne_eq] at hg2
        have hlen : (encVals g.vals ++ g2.tag :: (encVals g2.vals ++ (encGroups gs2 ++ 3 :: data))).length < f := by
          simp only [encGroups, encGroup, List.cons_append, List.append_assoc, List.length_append, List.length_cons] at hf ⊢
          omega
        have e : encGroups (g2 :: gs2) ++ 3 :: data = g2.tag :: (encVals g2.vals ++ (encGroups gs2 ++ 3 :: data)) := by
          simp [encGroups, encGroup]
        rw [e, groupVals_encVals g2.tag hg2.1.1 _ g.vals hg.2 f hlen]
        simp only
        rw [← e, ih hall.2 f (by
          rw [e]
          simp only [List.length_append, List.length_cons] at hlen ⊢; omega)]

end HT.Ipp
