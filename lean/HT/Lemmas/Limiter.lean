import HT.Model.Limiter
/-! Helper lemmas for C10 -/
namespace HT.Lim

theorem avail_le (T B : Nat) (s : Bk) (t : Nat) : avail T B s t ≤ B * T := by
  unfold avail; omega

/-- availability grows by at most the elapsed time -/
theorem avail_mono (T B : Nat) (s : Bk) (t t' : Nat) (h : t ≤ t') :
    avail T B s t' ≤ avail T B s t + (t' - t) := by
  unfold avail; omega

/-- a granted `Allow` at `t` consumes exactly one token's worth; a refusal changes nothing -/
theorem allow_grant (T B : Nat) (s : Bk) (t : Nat) (s' : Bk) (h : allow T B s t = (true, s')) :
    avail T B s' t + T = avail T B s t ∧ s'.last = t := by
  unfold allow at h
  split at h
  · rename_i hle
    simp only [Prod.mk.injEq, true_and] at h
    subst h
    have hb := avail_le T B s t
    refine ⟨?_, rfl⟩
    show min (B * T) (avail T B s t - T + (t - t)) + T = avail T B s t
    generalize avail T B s t = a at *
    omega
  · cases h

theorem allow_refuse (T B : Nat) (s : Bk) (t : Nat) (s' : Bk) (h : allow T B s t = (false, s')) :
    s' = s ∧ avail T B s t < T := by
  unfold allow at h
  split at h
  · cases h
  · simp only [Prod.mk.injEq, Bool.false_eq_true, false_and] at h
    rename_i hlt
    simp at h
    exact ⟨h.symm, by omega⟩

/-- per datagram: replies ≤ grants, and every grant consumed one token's worth at time `t` -/
theorem handle_spec (T B : Nat) (t : Nat) (cmds : List Cmd) : ∀ (s : Bk) (r g : Nat) (s2 : Bk), s.last ≤ t →
    handle T B s t cmds = (r, g, s2) →
    r ≤ g ∧ avail T B s2 t + g * T = avail T B s t ∧ s2.last ≤ t := by
  induction cmds with
  | nil =>
    intro s r g s2 hs h
    simp only [handle, Prod.mk.injEq] at h
    obtain ⟨rfl, rfl, rfl⟩ := h
    simp [hs]
  | cons c cs ih =>
    intro s r g s2 hs h
    unfold handle at h
    cases ha : allow T B s t with
    | mk ok s' =>
      rw [ha] at h
      cases ok with
      | false =>
        simp only [Prod.mk.injEq] at h
        obtain ⟨rfl, rfl, rfl⟩ := h
        simp [hs]
      | true =>
        have hg := allow_grant T B s t s' ha
        simp only at h
        split at h
        · simp only [Prod.mk.injEq] at h
          obtain ⟨rfl, rfl, rfl⟩ := h
          refine ⟨by split <;> omega, by omega, by omega⟩
        · cases hh : handle T B s' t cs with
          | mk r' rest =>
            obtain ⟨g', s3⟩ := rest
            rw [hh] at h
            simp only [Prod.mk.injEq] at h
            obtain ⟨rfl, rfl, rfl⟩ := h
            have := ih s' r' g' s3 (by omega) hh
            refine ⟨by split <;> omega, ?_, this.2.2⟩
            rw [Nat.add_mul]; omega

end HT.Lim

namespace HT.Lim

/-- Independence: the replies one source receives are those of its own bucket fed with its own
datagrams only — other sources' traffic never touches it. -/
theorem repliesTo_own (T B : Nat) (ip : String) (rs : List Req) : ∀ (st : LimSt),
    repliesTo T B ip st rs =
      repliesBk T B (st ip) ((rs.filter (fun r => r.ip = ip)).map (fun r => (r.t, r.cmds))) := by
  induction rs with
  | nil => intro st; rfl
  | cons r rs ih =>
    intro st
    unfold repliesTo
    rw [ih]
    by_cases h : r.ip = ip
    · subst h
      simp [List.filter_cons, repliesBk, step, update]
    · have h2 : (step T B st r).1 ip = st ip := by
        simp [step, update, Ne.symm h]
      simp [List.filter_cons, h, h2]

/-- conservation: replies·T never exceed what was available at the start of the window plus the
window's length -/
theorem repliesBk_conserve (T B : Nat) (rs : List (Nat × List Cmd)) : ∀ (s : Bk) (lo hi : Nat),
    s.last ≤ lo → (∀ x ∈ rs, lo ≤ x.1 ∧ x.1 ≤ hi) → rs.Pairwise (fun a b => a.1 ≤ b.1) →
    repliesBk T B s rs * T ≤ avail T B s lo + (hi - lo) := by
  induction rs with
  | nil => intro s lo hi _ _ _; simp [repliesBk]
  | cons x xs ih =>
    intro s lo hi hs hmem hsort
    obtain ⟨t, cmds⟩ := x
    have ht := hmem (t, cmds) (by simp)
    simp only at ht
    have hp := List.pairwise_cons.mp hsort
    cases hh : handle T B s t cmds with
    | mk r rest =>
      obtain ⟨g, s2⟩ := rest
      have hsp := handle_spec T B t cmds s r g s2 (by omega) hh
      have hrec := ih s2 t hi hsp.2.2
        (fun y hy => ⟨hp.1 y hy, (hmem y (by simp [hy])).2⟩) hp.2
      have hm := avail_mono T B s lo t ht.1
      simp only [repliesBk, hh]
      rw [Nat.add_mul]
      have : r * T ≤ g * T := Nat.mul_le_mul_right T hsp.1
      omega

end HT.Lim
