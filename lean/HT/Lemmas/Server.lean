import HT.Model.Server
/-! Helper lemmas for C06, C08, C19 -/
namespace HT.Srv

/-! ### compareAddr -/

theorem compareAddr_concrete_trans (k1 k2 l : Addr) (hl : l.ip ≠ none)
    (h1 : compareAddr k1 l = true) (h2 : compareAddr k2 l = true) : compareAddr k1 k2 = true := by
  unfold compareAddr at *
  cases hli : l.ip with
  | none => exact absurd hli hl
  | some li =>
    simp only [hli, Bool.and_eq_true, decide_eq_true_eq] at h1 h2
    obtain ⟨⟨p1, q1⟩, r1⟩ := h1
    obtain ⟨⟨p2, q2⟩, r2⟩ := h2
    simp only [Bool.and_eq_true, decide_eq_true_eq]
    refine ⟨⟨p1.trans p2.symm, q1.trans q2.symm⟩, ?_⟩
    cases h1i : k1.ip with
    | none => rfl
    | some a =>
      cases h2i : k2.ip with
      | none => rfl
      | some b =>
        simp only [h1i, h2i, decide_eq_true_eq] at r1 r2 ⊢
        exact r1.trans r2.symm

/-! ### the port table -/

def Incomparable (t : Table) : Prop := t.Pairwise (fun x y => compareAddr x.1 y.1 = false)

theorem addPort_extends (defined services : List String) (t : Table) (ps : String) :
    ∃ l, addPort defined services t ps = t ++ l ∧ l.length ≤ 1 ∧
      ∀ kv ∈ l, toAddr ps = .ok kv.1 ∧ kv.2 = services.filter (fun s => defined.contains s) ∧ kv.2 ≠ [] ∧
        t.any (fun x => compareAddr x.1 kv.1) = false := by
  unfold addPort
  cases ha : toAddr ps with
  | err => exact ⟨[], by simp, by simp, by simp⟩
  | unmodelled => exact ⟨[], by simp, by simp, by simp⟩
  | ok a =>
    simp only
    split
    · exact ⟨[], by simp, by simp, by simp⟩
    · split
      · exact ⟨[], by simp, by simp, by simp⟩
      · rename_i h1 h2
        refine ⟨[(a, services.filter (fun s => defined.contains s))], rfl, by simp, ?_⟩
        intro kv hkv
        simp only [List.mem_singleton] at hkv
        subst hkv
        refine ⟨rfl, rfl, ?_, by simpa using h2⟩
        intro e
        apply h1
        simpa using e

theorem addPort_incomparable (defined services : List String) (t : Table) (ps : String)
    (h : Incomparable t) : Incomparable (addPort defined services t ps) := by
  obtain ⟨l, hl, hlen, hprop⟩ := addPort_extends defined services t ps
  rw [hl]
  unfold Incomparable at *
  match l, hlen, hprop with
  | [], _, _ => simpa using h
  | [kv], _, hprop =>
    rw [List.pairwise_append]
    refine ⟨h, by simp, ?_⟩
    intro x hx y hy
    simp only [List.mem_singleton] at hy
    subst hy
    have := (hprop y (by simp)).2.2.2
    simp only [List.any_eq_false] at this
    simpa using this x hx

theorem foldl_addPort_incomparable (defined services : List String) (ps : List String) :
    ∀ t, Incomparable t → Incomparable (ps.foldl (addPort defined services) t) := by
  induction ps with
  | nil => intro t h; exact h
  | cons p ps ih => intro t h; exact ih _ (addPort_incomparable defined services t p h)

theorem addEntry_incomparable (defined : List String) (t : Table) (e : PortEntry) (h : Incomparable t) :
    Incomparable (addEntry defined t e) := by
  unfold addEntry; split
  · exact h
  · exact foldl_addPort_incomparable _ _ _ _ h

theorem buildTable_incomparable (defined : List String) (es : List PortEntry) :
    Incomparable (buildTable defined es) := by
  unfold buildTable
  suffices ∀ t, Incomparable t → Incomparable (es.foldl (addEntry defined) t) from this [] List.Pairwise.nil
  induction es with
  | nil => intro t h; exact h
  | cons e es ih => intro t h; exact ih _ (addEntry_incomparable defined t e h)

/-- processing only ever appends: what an earlier entry put into the table is never changed -/
theorem foldl_addPort_prefix (defined services : List String) (ps : List String) :
    ∀ t, ∃ l, ps.foldl (addPort defined services) t = t ++ l := by
  induction ps with
  | nil => intro t; exact ⟨[], by simp⟩
  | cons p ps ih =>
    intro t
    obtain ⟨l1, h1, _, _⟩ := addPort_extends defined services t p
    obtain ⟨l2, h2⟩ := ih (addPort defined services t p)
    exact ⟨l1 ++ l2, by rw [List.foldl_cons, h2, h1, List.append_assoc]⟩

theorem addEntry_prefix (defined : List String) (t : Table) (e : PortEntry) :
    ∃ l, addEntry defined t e = t ++ l := by
  unfold addEntry; split
  · exact ⟨[], by simp⟩
  · exact foldl_addPort_prefix _ _ _ _

theorem foldl_addEntry_prefix (defined : List String) (es : List PortEntry) :
    ∀ t, ∃ l, es.foldl (addEntry defined) t = t ++ l := by
  induction es with
  | nil => intro t; exact ⟨[], by simp⟩
  | cons e es ih =>
    intro t
    obtain ⟨l1, h1⟩ := addEntry_prefix defined t e
    obtain ⟨l2, h2⟩ := ih (addEntry defined t e)
    exact ⟨l1 ++ l2, by rw [List.foldl_cons, h2, h1, List.append_assoc]⟩

/-- every row of the table came from a well-formed port string and names only defined services, at least one -/
def RowsOK (defined : List String) (t : Table) : Prop :=
  ∀ kv ∈ t, kv.2 ≠ [] ∧ ∀ s ∈ kv.2, s ∈ defined

theorem addPort_rowsOK (defined services : List String) (t : Table) (ps : String)
    (h : RowsOK defined t) : RowsOK defined (addPort defined services t ps) := by
  obtain ⟨l, hl, _, hprop⟩ := addPort_extends defined services t ps
  rw [hl]
  intro kv hkv
  rcases List.mem_append.mp hkv with hm | hm
  · exact h kv hm
  · obtain ⟨_, h2, h3, _⟩ := hprop kv hm
    refine ⟨h3, ?_⟩
    intro s hs
    rw [h2] at hs
    have := (List.mem_filter.mp hs).2
    simpa using this

theorem buildTable_rowsOK (defined : List String) (es : List PortEntry) :
    RowsOK defined (buildTable defined es) := by
  unfold buildTable
  suffices ∀ t, RowsOK defined t → RowsOK defined (es.foldl (addEntry defined) t) from
    this [] (by intro kv h; simp at h)
  induction es with
  | nil => intro t h; exact h
  | cons e es ih =>
    intro t h
    apply ih
    unfold addEntry; split
    · exact h
    · generalize (e.ports.getD [] ++ if e.port ≠ "" then [e.port] else []) = ps
      induction ps generalizing t with
      | nil => exact h
      | cons p ps ihp => exact ihp _ (addPort_rowsOK defined e.services t p h)

/-! ### findService -/

theorem scan_mem (peek : Option Bytes) (cs : List Svc) : ∀ (peeked : Bool) (r : Svc × Via),
    scan peek cs peeked = some r → r.1 ∈ cs := by
  induction cs with
  | nil => intro p r h; simp [scan] at h
  | cons s rest ih =>
    intro p r h
    unfold scan at h
    cases hd : s.detector with
    | none => simp [hd] at h; subst h; simp
    | some d =>
      simp only [hd] at h
      cases peek with
      | none => simp at h
      | some pk =>
        simp only at h
        split at h
        · simp at h; subst h; simp
        · exact List.mem_cons_of_mem _ (ih _ _ h)

theorem findService_mem (cs : List Svc) (peek : Option Bytes) (r : Svc × Via)
    (h : findService cs peek = some r) : r.1 ∈ cs := by
  unfold findService at h
  match cs, h with
  | [], h => simp at h
  | [s], h => simp at h; subst h; simp
  | a :: b :: rest, h => exact scan_mem peek _ false r h

/-- the first service that has no detector or whose detector accepts the peeked bytes -/
def firstAcceptor (p : Bytes) (cs : List Svc) : Option Svc :=
  cs.find? (fun s => match s.detector with | none => true | some d => accepts d p)

theorem scan_first_acceptor (p : Bytes) (cs : List Svc) : ∀ (peeked : Bool),
    (scan (some p) cs peeked).map (·.1) = firstAcceptor p cs := by
  induction cs with
  | nil => intro _; rfl
  | cons s rest ih =>
    intro pk
    unfold scan firstAcceptor
    cases hd : s.detector with
    | none => simp [hd]
    | some d =>
      simp only [hd, List.find?_cons]
      by_cases ha : accepts d p = true
      · simp [ha]
      · simp only [ha, Bool.false_eq_true, if_false]
        have := ih true
        unfold firstAcceptor at this
        simpa using this

/-- the peeked view is the whole stream: buffered bytes first, then the rest -/
theorem firstRead_prefix (segs : List Bytes) (b : Bytes) (h : firstRead segs = some b) :
    b = segs.flatten.take b.length := by
  induction segs with
  | nil => simp [firstRead] at h
  | cons s rest ih =>
    unfold firstRead at h
    by_cases hs : s.isEmpty = true
    · have : s = [] := by simpa using hs
      subst this
      simp only [List.filter_cons, List.isEmpty_nil, Bool.not_true, Bool.false_eq_true, if_false] at h
      have := ih (by unfold firstRead; exact h)
      simpa using this
    · simp only [List.filter_cons, hs, Bool.not_false, if_true] at h
      simp only [Option.some.injEq] at h
      subst h
      simp only [List.flatten_cons, List.length_take]
      rw [List.take_append_of_le_length (by omega)]
      rcases Nat.le_total 1024 s.length with hl | hl
      · rw [Nat.min_eq_left hl]
      · rw [Nat.min_eq_right hl, List.take_of_length_le hl, List.take_length]

theorem serviceView_intact (segs : List Bytes) (via : Via) : serviceView segs via = segs.flatten := by
  unfold serviceView
  cases via with
  | raw => rfl
  | peeked =>
    simp only
    cases h : firstRead segs with
    | none => rfl
    | some b =>
      simp only
      have := firstRead_prefix segs b h
      conv => lhs; rw [this]
      rw [List.length_take, Nat.min_def]
      split
      · exact List.take_append_drop _ _
      · rename_i hle
        have : segs.flatten.length ≤ b.length := by omega
        rw [List.take_of_length_le this, List.drop_of_length_le (by omega)]; simp

end HT.Srv

namespace HT.Srv

/-! ### the bus -/

theorem received_append (a b : List (String × Ev)) (ch : String) :
    received (a ++ b) ch = received a ch ++ received b ch := by
  simp [received]

theorem send_append (rx : String → String → Bool) (a b : List (String × Filter)) (e : Ev) :
    send rx (a ++ b) e = send rx a e ++ send rx b e := by
  simp [send]

theorem chunk_replicate (l : List String) (p : String → Bool) (ch : String) (e : Ev) (hp : p ch = true) :
    (l.filter (fun c => decide (c = ch) && p c)).map (fun _ => e) = List.replicate (l.count ch) e := by
  induction l with
  | nil => rfl
  | cons x xs ih =>
    by_cases hx : x = ch
    · subst hx
      simp only [List.filter_cons, decide_true, hp, Bool.and_self, if_true, List.map_cons, ih,
        List.count_cons_self, List.replicate_succ]
    · have hne : (x == ch) = false := by simpa using hx
      simp only [List.filter_cons, hx, decide_false, Bool.false_and, Bool.false_eq_true, if_false, ih,
        List.count_cons, hne, Nat.add_zero]

/-- what the subscriptions created by one filter deliver to `ch` for one event -/
theorem chunk_received (rx : String → String → Bool) (defined : List String) (f : Filter) (e : Ev)
    (ch : String) (hd : defined.contains ch = true) :
    received (send rx ((f.channels.filter (fun c => defined.contains c)).map (fun c => (c, f))) e) ch =
      if admits rx f e then List.replicate (f.channels.count ch) e else [] := by
  unfold send received
  by_cases ha : admits rx f e = true
  · simp only [ha, if_true]
    rw [← chunk_replicate f.channels (fun c => defined.contains c) ch e hd]
    simp [List.filter_map, List.map_map, Function.comp_def, ha, List.filter_filter]
  · simp only [ha, Bool.false_eq_true, if_false]
    simp [List.filter_map, Function.comp_def, ha]

theorem received_send_wire (rx : String → String → Bool) (defined : List String) (e : Ev) (ch : String)
    (hd : defined.contains ch = true) (fs : List Filter) :
    received (send rx (wire defined fs) e) ch =
      fs.flatMap (fun f => if admits rx f e then List.replicate (f.channels.count ch) e else []) := by
  induction fs with
  | nil => rfl
  | cons f fs ih =>
    have hw : wire defined (f :: fs) =
        (f.channels.filter (fun c => defined.contains c)).map (fun c => (c, f)) ++ wire defined fs := by
      simp [wire]
    rw [hw, send_append, received_append, chunk_received rx defined f e ch hd, ih]
    simp [List.flatMap_cons]

theorem received_sendAll (rx : String → String → Bool) (subs : List (String × Filter)) (ch : String)
    (es : List Ev) : received (sendAll rx subs es) ch = es.flatMap (fun e => received (send rx subs e) ch) := by
  induction es with
  | nil => rfl
  | cons e es ih =>
    have : sendAll rx subs (e :: es) = send rx subs e ++ sendAll rx subs es := by simp [sendAll]
    rw [this, received_append, ih]; simp [List.flatMap_cons]

theorem wire_undefined (defined : List String) (fs : List Filter) (ch : String)
    (hd : defined.contains ch = false) : ∀ s ∈ wire defined fs, s.1 ≠ ch := by
  intro s hs
  simp only [wire, List.mem_flatMap, List.mem_map, List.mem_filter] at hs
  obtain ⟨f, _, c, ⟨_, hc⟩, rfl⟩ := hs
  intro e; simp only at e; subst e
  have : defined.contains c = true := by simpa using hc
  rw [hd] at this; cases this

end HT.Srv
