import HT.Model.Packet
/-! Helper lemmas for the packet parsers (C02, C14) -/
namespace HT.Pkt

def NoFault {α : Type} (r : Except Fault α) : Prop := ∃ a, r = .ok a

theorem ipv4Parse_total (b : Bytes) : NoFault (ipv4Parse b) := by
  unfold NoFault ipv4Parse ipv4ParseG
  split
  · exact ⟨_, rfl⟩
  · dsimp only
    split
    · exact ⟨_, rfl⟩
    · split
      · exact ⟨_, rfl⟩
      · split
        · exact ⟨_, rfl⟩
        · rename_i h1 h2 h3 h4
          have hs : 0 ≤ (20 : Int) ∧ (20 : Int) ≤ (be16 b 2 : Nat) ∧ ((be16 b 2 : Nat) : Int) ≤ b.length := by
            simp at h4; omega
          simp [slice, hs, bind, Except.bind, pure, Except.pure]

theorem optLoop_total (fuel : Nat) : ∀ (data : Bytes) (acc : List TcpOpt),
    NoFault (optLoop true fuel data acc) := by
  induction fuel with
  | zero => intro data acc; exact ⟨_, rfl⟩
  | succ n ih =>
    intro data acc
    unfold optLoop
    cases data with
    | nil => exact ⟨_, rfl⟩
    | cons k rest =>
      simp only
      split
      · exact ⟨_, rfl⟩
      · split
        · exact ih _ _
        · cases rest with
          | nil => exact ⟨_, rfl⟩
          | cons l tl =>
            simp only
            split
            · exact ⟨_, rfl⟩
            · split
              · exact ⟨_, rfl⟩
              · exact ih _ _

theorem tcpParse_total (b : Bytes) : NoFault (tcpParse b) := by
  unfold NoFault tcpParse tcpParseG
  split
  · exact ⟨_, rfl⟩
  · simp only
    split
    · exact ⟨_, rfl⟩
    · split
      · exact ⟨_, rfl⟩
      · obtain ⟨r, hr⟩ := optLoop_total ((b.drop 20).take ((b.getD 12 0).toNat / 16 * 4 - 20)).length
          ((b.drop 20).take ((b.getD 12 0).toNat / 16 * 4 - 20)) []
        rw [hr]
        cases r <;> exact ⟨_, rfl⟩

theorem udpParse_total (b : Bytes) : NoFault (udpParse b) := by
  unfold NoFault udpParse
  split
  · exact ⟨_, rfl⟩
  · split <;> exact ⟨_, rfl⟩

theorem icmpParse_total (b : Bytes) : NoFault (icmpParse b) := by
  unfold NoFault icmpParse; split <;> exact ⟨_, rfl⟩

theorem ethParse_total (b : Bytes) (h : 14 ≤ b.length) : NoFault (ethParse b) := by
  unfold NoFault ethParse; simp [h]

end HT.Pkt
