import HT.Model.Decoder
import HT.Model.Packet
import HT.Model.Canary
import HT.Model.Knock
import HT.Model.RotFile
import HT.Model.ServerDrv
import HT.Model.Limiter
import HT.Model.JA3
import HT.Model.Auth
import HT.Model.Event
import HT.Model.Path
import HT.Model.Identity
import HT.Model.Agent
import HT.Model.Ipp
import HT.Model.Proto
import HT.Model.Iso
import HT.Model.Release
import HT.Model.Confine
import HT.Model.Relay
import HT.Model.Handoff
import HT.Model.Ldap
import HT.Model.Chunked
/-!
Line-protocol driver: one case per input line, `<model> <args…>`; one output line
per case.  Core Lean only (so it links as an executable).
-/
open HT

def dispatch (line : String) : String :=
  match words line with
  | "dec" :: args => Dec.driver args
  | "pkt" :: args => Pkt.driver args
  | "can" :: args => Can.driver args
  | "canloop" :: args => Can.loopDriver args
  | "uset" :: args => Knock.usetDriver args
  | "knock" :: args => Knock.knockDriver args
  | "rot" :: args => Rot.driver args
  | "srv" :: args => Srv.srvDriver args
  | "bus" :: args => Srv.busDriver args
  | "lim" :: args => Lim.driver args
  | "bucket" :: args => Lim.bucketDriver args
  | "ja3" :: args => JA3.driver args
  | "auth" :: args => Auth.driver args
  | "ev" :: args => Ev.driver args
  | "path" :: args => Path.driver args
  | "idtok" :: args => Id.driver args
  | "agent" :: args => Agent.driver args
  | "agentcodec" :: args => Agent.codecDriver args
  | "handoff" :: args => Handoff.driver args
  | "ipp" :: args => Ipp.driver args
  | "seg" :: "http" :: args => Relay.segHttpDriver args
  | "seg1" :: args => Relay.segOneDriver args
  | "segc" :: "http" :: args => Relay.segHttpCDriver args
  | "seg" :: "ldap" :: args => Ldap.driver args
  | "dgram" :: args => Relay.dgramDriver args
  | "seg" :: args => Proto.driver args
  | "iso" :: args => Iso.driver args
  | "rel" :: args => Rel.driver args
  | "conf" :: args => Conf.driver args
  | "relay" :: args => Relay.driver args
  | _ => "bad-model"

partial def loop (h : IO.FS.Stream) (out : IO.FS.Stream) : IO Unit := do
  let line ← h.getLine
  if line.isEmpty then return ()
  out.putStrLn (dispatch (line.trimAscii.toString))
  loop h out

def main : IO Unit := do
  let out ← IO.getStdout
  loop (← IO.getStdin) out
  out.flush
