import HT.Base
import HT.Model.Decoder
