import HT.Base
import HT.Model.Decoder
import HT.Model.Packet
import HT.Model.Canary
import HT.Props.C02
import HT.Props.C14
import HT.Props.C17
import HT.Props.C20
