module htverif/extract

go 1.13
