// Command extract regenerates lean/HT/Gen/*.lean from the repository's current sources.
// It reads the Go files with go/parser (no type checking, no dependencies) and emits tables
// that theorems in HT/Props quantify over, so the kernel re-checks them against what the
// code says now.
//
// usage: extract <repo> <outdir>
package main

import (
	"fmt"
	"go/ast"
	"go/parser"
	"go/token"
	"os"
	"path/filepath"
	"sort"
	"strconv"
	"strings"
)

func fail(format string, a ...interface{}) {
	fmt.Fprintf(os.Stderr, "extract: "+format+"\n", a...)
	os.Exit(1)
}

func parseFile(path string) (*token.FileSet, *ast.File) {
	fset := token.NewFileSet()
	f, err := parser.ParseFile(fset, path, nil, 0)
	if err != nil {
		fail("%v", err)
	}
	return fset, f
}

// boolMethods: for every method named `name` with a body `return true|false`, receiver type -> value.
func boolMethods(f *ast.File, name string) map[string]bool {
	res := map[string]bool{}
	for _, d := range f.Decls {
		fd, ok := d.(*ast.FuncDecl)
		if !ok || fd.Recv == nil || fd.Name.Name != name || fd.Body == nil || len(fd.Body.List) != 1 {
			continue
		}
		ret, ok := fd.Body.List[0].(*ast.ReturnStmt)
		if !ok || len(ret.Results) != 1 {
			continue
		}
		id, ok := ret.Results[0].(*ast.Ident)
		if !ok || (id.Name != "true" && id.Name != "false") {
			continue
		}
		recv := ""
		switch t := fd.Recv.List[0].Type.(type) {
		case *ast.Ident:
			recv = t.Name
		case *ast.StarExpr:
			if i, ok := t.X.(*ast.Ident); ok {
				recv = i.Name
			}
		}
		res[recv] = id.Name == "true"
	}
	return res
}

// ftpTable: the FTP command table with RequireAuth / RequireParam per command.
func ftpTable(repo string) string {
	_, f := parseFile(filepath.Join(repo, "services/ftp/cmd.go"))
	auth, param := boolMethods(f, "RequireAuth"), boolMethods(f, "RequireParam")
	type row struct {
		name, typ string
	}
	var rows []row
	ast.Inspect(f, func(n ast.Node) bool {
		vs, ok := n.(*ast.ValueSpec)
		if !ok || len(vs.Names) != 1 || vs.Names[0].Name != "commands" || len(vs.Values) != 1 {
			return true
		}
		cl, ok := vs.Values[0].(*ast.CompositeLit)
		if !ok {
			return true
		}
		for _, e := range cl.Elts {
			kv, ok := e.(*ast.KeyValueExpr)
			if !ok {
				continue
			}
			k, ok1 := kv.Key.(*ast.BasicLit)
			v, ok2 := kv.Value.(*ast.CompositeLit)
			if !ok1 || !ok2 {
				fail("ftp command table: unexpected entry shape")
			}
			name, _ := strconv.Unquote(k.Value)
			t, ok := v.Type.(*ast.Ident)
			if !ok {
				fail("ftp command table: unexpected value type")
			}
			rows = append(rows, row{name, t.Name})
		}
		return false
	})
	if len(rows) == 0 {
		fail("ftp command table not found in services/ftp/cmd.go")
	}
	sort.Slice(rows, func(i, j int) bool { return rows[i].name < rows[j].name })
	var b strings.Builder
	b.WriteString("/-- (command, RequireAuth, RequireParam) for every entry of `commands` in services/ftp/cmd.go -/\n")
	b.WriteString("def ftpCommands : List (String × Bool × Bool) := [\n")
	for i, r := range rows {
		a, ok1 := auth[r.typ]
		p, ok2 := param[r.typ]
		if !ok1 || !ok2 {
			fail("ftp command %s (%s): RequireAuth/RequireParam is not a literal", r.name, r.typ)
		}
		sep := ","
		if i == len(rows)-1 {
			sep = ""
		}
		fmt.Fprintf(&b, "  (%q, %v, %v)%s\n", r.name, a, p, sep)
	}
	b.WriteString("]\n")
	return b.String()
}

// intIn returns the first integer literal inside an expression (e.g. 30 in `30 * time.Second`, 10 in
// `rate.Every(time.Minute * 10)`).
func intIn(e ast.Expr) (int, bool) {
	found, val := false, 0
	ast.Inspect(e, func(n ast.Node) bool {
		if bl, ok := n.(*ast.BasicLit); ok && bl.Kind == token.INT && !found {
			v, err := strconv.ParseInt(bl.Value, 0, 64)
			if err == nil {
				found, val = true, int(v)
			}
		}
		return !found
	})
	return val, found
}

// constInt: the integer in the initialiser of the package-level constant or variable `name`.
func constInt(repo, file, name string) int {
	_, f := parseFile(filepath.Join(repo, file))
	for _, d := range f.Decls {
		gd, ok := d.(*ast.GenDecl)
		if !ok {
			continue
		}
		for _, sp := range gd.Specs {
			vs, ok := sp.(*ast.ValueSpec)
			if !ok {
				continue
			}
			for i, n := range vs.Names {
				if n.Name == name && i < len(vs.Values) {
					if v, ok := intIn(vs.Values[i]); ok {
						return v
					}
				}
			}
		}
	}
	fail("%s: constant %s with an integer initialiser not found", file, name)
	return 0
}

// constProduct: the value of the package-level constant `name` whose initialiser is an integer literal or a product of
// integer literals (`32 * 1024`).
func constProduct(repo, file, name string) int {
	_, f := parseFile(filepath.Join(repo, file))
	var eval func(e ast.Expr) (int, bool)
	eval = func(e ast.Expr) (int, bool) {
		switch t := e.(type) {
		case *ast.BasicLit:
			if t.Kind == token.INT {
				v, err := strconv.ParseInt(t.Value, 0, 64)
				return int(v), err == nil
			}
		case *ast.ParenExpr:
			return eval(t.X)
		case *ast.BinaryExpr:
			a, ok1 := eval(t.X)
			b, ok2 := eval(t.Y)
			if ok1 && ok2 && t.Op == token.MUL {
				return a * b, true
			}
		}
		return 0, false
	}
	for _, d := range f.Decls {
		gd, ok := d.(*ast.GenDecl)
		if !ok {
			continue
		}
		for _, sp := range gd.Specs {
			vs, ok := sp.(*ast.ValueSpec)
			if !ok {
				continue
			}
			for i, n := range vs.Names {
				if n.Name == name && i < len(vs.Values) {
					if v, ok := eval(vs.Values[i]); ok {
						return v
					}
				}
			}
		}
	}
	fail("%s: constant %s with an integer (product) initialiser not found", file, name)
	return 0
}

// fieldInt: the integer in the value of the key `field` of a composite literal inside function `fn`.
func fieldInt(repo, file, fn, field string) int {
	_, f := parseFile(filepath.Join(repo, file))
	res, found := 0, false
	for _, d := range f.Decls {
		fd, ok := d.(*ast.FuncDecl)
		if !ok || fd.Name.Name != fn || fd.Body == nil {
			continue
		}
		ast.Inspect(fd.Body, func(n ast.Node) bool {
			kv, ok := n.(*ast.KeyValueExpr)
			if !ok {
				return true
			}
			if id, ok := kv.Key.(*ast.Ident); ok && id.Name == field {
				if v, ok := intIn(kv.Value); ok && !found {
					res, found = v, true
				}
			}
			return true
		})
	}
	if !found {
		fail("%s: field %s in %s not found", file, field, fn)
	}
	return res
}

// chanCap: the capacity of the channel made for the key `field` of a composite literal inside function `fn`
// (`field: make(chan T)` = 0, `field: make(chan T, n)` = n).
func chanCap(repo, file, fn, field string) int {
	_, f := parseFile(filepath.Join(repo, file))
	res, found := 0, false
	for _, d := range f.Decls {
		fd, ok := d.(*ast.FuncDecl)
		if !ok || fd.Name.Name != fn || fd.Body == nil {
			continue
		}
		ast.Inspect(fd.Body, func(n ast.Node) bool {
			kv, ok := n.(*ast.KeyValueExpr)
			if !ok || found {
				return true
			}
			id, ok := kv.Key.(*ast.Ident)
			if !ok || id.Name != field {
				return true
			}
			ce, ok := kv.Value.(*ast.CallExpr)
			if !ok {
				return true
			}
			if fn, ok := ce.Fun.(*ast.Ident); !ok || fn.Name != "make" || len(ce.Args) == 0 {
				return true
			}
			if _, ok := ce.Args[0].(*ast.ChanType); !ok {
				return true
			}
			if len(ce.Args) == 1 {
				res, found = 0, true
			} else if bl, ok := ce.Args[1].(*ast.BasicLit); ok && bl.Kind == token.INT {
				v, err := strconv.ParseInt(bl.Value, 0, 64)
				if err == nil {
					res, found = int(v), true
				}
			}
			return true
		})
	}
	if !found {
		fail("%s: channel made for field %s in %s not found (or its capacity is not a literal)", file, field, fn)
	}
	return res
}

// callArgInt: the integer inside argument number `arg` of the first call of `callee` in function `fn`.
func callArgInt(repo, file, fn, callee string, arg int) int {
	_, f := parseFile(filepath.Join(repo, file))
	res, found := 0, false
	for _, d := range f.Decls {
		fd, ok := d.(*ast.FuncDecl)
		if !ok || fd.Name.Name != fn || fd.Body == nil {
			continue
		}
		ast.Inspect(fd.Body, func(n ast.Node) bool {
			ce, ok := n.(*ast.CallExpr)
			if !ok || found {
				return true
			}
			name := ""
			switch t := ce.Fun.(type) {
			case *ast.Ident:
				name = t.Name
			case *ast.SelectorExpr:
				name = t.Sel.Name
			}
			if name == callee && arg < len(ce.Args) {
				if v, ok := intIn(ce.Args[arg]); ok {
					res, found = v, true
				}
			}
			return true
		})
	}
	if !found {
		fail("%s: call of %s in %s not found", file, callee, fn)
	}
	return res
}

// memcachedStorage: the command names of the storage branch of the switch in memcachedService.Handle
// (the case clauses that fall through into the one that reads the data block).
func memcachedStorage(repo string) []string {
	_, f := parseFile(filepath.Join(repo, "services/memcached.go"))
	var verbs []string
	ast.Inspect(f, func(n ast.Node) bool {
		sw, ok := n.(*ast.SwitchStmt)
		if !ok || len(verbs) > 0 {
			return true
		}
		var run []string
		for _, st := range sw.Body.List {
			cc, ok := st.(*ast.CaseClause)
			if !ok || len(cc.List) != 1 {
				run = nil
				continue
			}
			bl, ok := cc.List[0].(*ast.BasicLit)
			if !ok || bl.Kind != token.STRING {
				run = nil
				continue
			}
			name, _ := strconv.Unquote(bl.Value)
			if len(cc.Body) == 1 {
				if br, ok := cc.Body[0].(*ast.BranchStmt); ok && br.Tok == token.FALLTHROUGH {
					run = append(run, name)
					continue
				}
			}
			if len(run) > 0 { // the clause the others fall into
				verbs = append(run, name)
				return false
			}
			run = nil
		}
		return true
	})
	if len(verbs) == 0 {
		fail("services/memcached.go: storage command clauses not found")
	}
	return verbs
}

// ippKinds: value tag -> decoder type, from the switch of attribGroup.decode and the tag constants.
func ippKinds(repo string) [][2]string {
	_, mf := parseFile(filepath.Join(repo, "services/ipp/message.go"))
	consts := map[string]int{}
	for _, d := range mf.Decls {
		gd, ok := d.(*ast.GenDecl)
		if !ok || gd.Tok != token.CONST {
			continue
		}
		for _, sp := range gd.Specs {
			vs := sp.(*ast.ValueSpec)
			for i, n := range vs.Names {
				if i < len(vs.Values) {
					if v, ok := intIn(vs.Values[i]); ok {
						consts[n.Name] = v
					}
				}
			}
		}
	}
	_, gf := parseFile(filepath.Join(repo, "services/ipp/group.go"))
	var rows [][2]string
	ast.Inspect(gf, func(n ast.Node) bool {
		sw, ok := n.(*ast.SwitchStmt)
		if !ok {
			return true
		}
		if id, ok := sw.Tag.(*ast.Ident); !ok || id.Name != "vtag" {
			return true
		}
		for _, st := range sw.Body.List {
			cc := st.(*ast.CaseClause)
			typ := ""
			ast.Inspect(cc, func(m ast.Node) bool {
				if cl, ok := m.(*ast.CompositeLit); ok {
					if id, ok := cl.Type.(*ast.Ident); ok {
						typ = id.Name
					}
				}
				return true
			})
			for _, e := range cc.List {
				id, ok := e.(*ast.Ident)
				if !ok {
					fail("ipp group.go: case expression is not a constant name")
				}
				v, ok := consts[id.Name]
				if !ok {
					fail("ipp: constant %s not found", id.Name)
				}
				rows = append(rows, [2]string{strconv.Itoa(v), typ})
			}
		}
		return false
	})
	if len(rows) == 0 {
		fail("services/ipp/group.go: switch on vtag not found")
	}
	sort.Slice(rows, func(i, j int) bool { a, _ := strconv.Atoi(rows[i][0]); b, _ := strconv.Atoi(rows[j][0]); return a < b })
	return rows
}

func moreFacts(repo string) string {
	var b strings.Builder
	fmt.Fprintf(&b, "\n/-- `maxRedisDepth` in services/redis/redis.go -/\ndef maxRedisDepth : Nat := %d\n", constInt(repo, "services/redis/redis.go", "maxRedisDepth"))
	fmt.Fprintf(&b, "\n/-- `loopTreshold` in services/smtp/conn.go -/\ndef smtpLoopThreshold : Nat := %d\n", constInt(repo, "services/smtp/conn.go", "loopTreshold"))
	fmt.Fprintf(&b, "\n/-- `maxLineLength` in services/telnet/terminal.go -/\ndef telnetMaxLine : Nat := %d\n", constInt(repo, "services/telnet/terminal.go", "maxLineLength"))
	fmt.Fprintf(&b, "\n/-- `passiveAcceptTimeout` (seconds) in services/ftp/socket.go -/\ndef ftpPassiveTimeout : Nat := %d\n", constInt(repo, "services/ftp/socket.go", "passiveAcceptTimeout"))
	fmt.Fprintf(&b, "\n/-- burst and interval (minutes) of `NewLimiter` in services/limiter.go -/\ndef limiterBurst : Nat := %d\ndef limiterIntervalMinutes : Nat := %d\n",
		fieldInt(repo, "services/limiter.go", "NewLimiter", "burst"), fieldInt(repo, "services/limiter.go", "NewLimiter", "interval"))
	fmt.Fprintf(&b, "\n/-- idle timeout (seconds) the server wraps every connection with: `TimeoutConn(newConn, time.Second*N)` in (*Honeytrap).handle -/\ndef idleTimeout : Nat := %d\n",
		callArgInt(repo, "server/honeytrap.go", "handle", "TimeoutConn", 1))
	fmt.Fprintf(&b, "\n/-- capacity of the push-signal channel `rchan` made in (*State).NewSocket, listener/canary/socket.go -/\ndef canarySignalCap : Nat := %d\n",
		chanCap(repo, "listener/canary/socket.go", "NewSocket", "rchan"))
	fmt.Fprintf(&b, "\n/-- capacity of the reader-signal channel `in` of a virtual connection, listener/agent -/\ndef agentSignalCap : Nat := %d\n",
		chanCap(repo, "listener/agent/agent.go", "serv", "in"))
	fmt.Fprintf(&b, "\n/-- `maxPayload` in listener/agent/connection.go: the most one message carries of a service's Write -/\ndef agentMaxPayload : Nat := %d\n",
		constProduct(repo, "listener/agent/connection.go", "maxPayload"))
	verbs := memcachedStorage(repo)
	var q []string
	for _, v := range verbs {
		q = append(q, strconv.Quote(v))
	}
	fmt.Fprintf(&b, "\n/-- the storage commands of the switch in memcachedService.Handle (the clauses falling into the data-block reader) -/\ndef memcachedStorage : List String := [%s]\n", strings.Join(q, ", "))
	var bl []string
	for _, v := range verbs {
		var bs []string
		for _, c := range []byte(v) {
			bs = append(bs, strconv.Itoa(int(c)))
		}
		bl = append(bl, "["+strings.Join(bs, ", ")+"]")
	}
	fmt.Fprintf(&b, "\n/-- the same as bytes -/\ndef memcachedStorageBytes : List (List UInt8) := [%s]\n", strings.Join(bl, ", "))
	b.WriteString("\n/-- (value tag, decoder type) for every case of the switch in attribGroup.decode (services/ipp/group.go), tags from message.go -/\ndef ippKinds : List (Nat × String) := [\n")
	rows := ippKinds(repo)
	for i, r := range rows {
		sep := ","
		if i == len(rows)-1 {
			sep = ""
		}
		fmt.Fprintf(&b, "  (%s, %q)%s\n", r[0], r[1], sep)
	}
	b.WriteString("]\n")
	return b.String()
}

func main() {
	if len(os.Args) != 3 {
		fail("usage: extract <repo> <outdir>")
	}
	repo, out := os.Args[1], os.Args[2]
	var b strings.Builder
	b.WriteString("/-! GENERATED by /verif/extract from the repository's sources on every run. Do not edit. -/\n")
	b.WriteString("namespace HT.Gen\n\n")
	b.WriteString(ftpTable(repo))
	b.WriteString(moreFacts(repo))
	b.WriteString("\nend HT.Gen\n")
	if err := os.WriteFile(filepath.Join(out, "Facts.lean"), []byte(b.String()), 0644); err != nil {
		fail("%v", err)
	}
}
