package main

import (
	"bufio"
	"context"
	"crypto/sha256"
	"fmt"
	"io/ioutil"
	"net"
	"os"
	"path/filepath"
	"sort"
	"strings"
	"time"

	"github.com/honeytrap/honeytrap/services/filesystem"
)

// C11: services/filesystem/htfs.go (+ path/filepath) against HT.Path; FTP command sequences against a
// sentinel tree beside the root.
//
// path clean <hex> | path join <hex> <hex> | path real <root> <cwd> <p> | path cd <root> <cwd> <p>
// "@ftp <cmd>:<paramhex> ..." : a command sequence through the real FTP service (oracle only)

func init() {
	register(&Stream{Name: "c11path", Gen: genC11, Replay: func(l string) {
		f := strings.Fields(l)
		if len(f) >= 2 && f[0] == "path" {
			switch f[1] {
			case "clean":
				runClean(string(unhx(f[2])))
			case "join":
				runJoin(string(unhx(f[2])), string(unhx(f[3])))
			default:
				lab := newFsLab()
				defer lab.close()
				lab.runReal(string(unhx(f[3])), string(unhx(f[4])), f[1] == "cd")
			}
		} else if len(f) >= 1 && f[0] == "@ftp" {
			runFTPPaths(f[1:])
		}
	}})
}

func hs(s string) string { return hx([]byte(s)) }

func runClean(s string) {
	emit("path clean "+hs(s), hs(filepath.Clean(s)), "ok", strings.Contains(s, ".."))
}

func runJoin(a, b string) {
	emit("path join "+hs(a)+" "+hs(b), hs(filepath.Join(a, b)), "ok", true)
}

// fsLab: a real directory tree <tmp>/ftp/root/{a,b}/{a,b}/{a,b} with a sentinel tree beside the root.
type fsLab struct {
	tmp, root string
}

func newFsLab() *fsLab {
	tmp, _ := ioutil.TempDir("", "htverif-c11-")
	tmp, _ = filepath.EvalSymlinks(tmp)
	root := filepath.Join(tmp, "ftp", "root")
	for _, d := range []string{"", "a", "b", "a/a", "a/b", "b/a", "b/b", "a/a/a", "a/a/b", "a/b/a"} {
		os.MkdirAll(filepath.Join(root, d), 0755)
	}
	os.MkdirAll(filepath.Join(tmp, "ftp", "sentinel"), 0755)
	ioutil.WriteFile(filepath.Join(tmp, "ftp", "sentinel", "secret.txt"), []byte("do not touch or read me\n"), 0644)
	ioutil.WriteFile(filepath.Join(tmp, "outside.txt"), []byte("outside\n"), 0644)
	ioutil.WriteFile(filepath.Join(root, "a", "file.txt"), []byte("inside\n"), 0644)
	return &fsLab{tmp, root}
}

func (l *fsLab) close() { os.RemoveAll(l.tmp) }

func within(root, p string) bool {
	return p == root || strings.HasPrefix(p, root+"/")
}

// runReal: RealPath (and ChangeDir when cd) of path from working directory cwd on the real Htfs.
func (l *fsLab) runReal(cwd, path string, cd bool) {
	fs, err := filesystem.New(filepath.Join(l.tmp), "ftp", "root")
	if err != nil {
		return
	}
	if cwd != "/" {
		if err := fs.ChangeDir(cwd); err != nil {
			return // not a reachable working directory
		}
	}
	verdict := "ok"
	if got := fs.Cwd(); got != cwd {
		return
	}
	op := "real"
	var impl string
	rp := fs.RealPath(path)
	if !within(l.root, rp) {
		verdict = fmt.Sprintf("viol:path-escapes-root:RealPath(%q) from %q = %q, root %q", path, cwd, rp, l.root)
	}
	impl = hs(rp)
	if cd {
		op = "cd"
		if err := fs.ChangeDir(path); err != nil {
			return // target is not an existing directory: nothing changes
		}
		impl = hs(fs.Cwd())
		c := fs.Cwd()
		if !strings.HasPrefix(c, "/") || strings.Contains(c+"/", "/../") || !within(l.root, filepath.Join(l.root, c)) {
			verdict = fmt.Sprintf("viol:cwd-escapes-root:ChangeDir(%q) from %q gives working directory %q", path, cwd, c)
		}
	}
	emit(fmt.Sprintf("path %s %s %s %s", op, hs(l.root), hs(cwd), hs(path)), impl, verdict, strings.Contains(path, ".."))
}

func treeDigest(dirs ...string) string {
	h := sha256.New()
	for _, d := range dirs {
		var names []string
		filepath.Walk(d, func(p string, info os.FileInfo, err error) error {
			if err == nil {
				names = append(names, fmt.Sprintf("%s|%d|%v", p, info.Size(), info.IsDir()))
			}
			return nil
		})
		sort.Strings(names)
		for _, n := range names {
			h.Write([]byte(n + "\n"))
		}
	}
	return fmt.Sprintf("%x", h.Sum(nil))[:16]
}

// runFTPPaths: a command sequence over the control connection of the real FTP service rooted in the lab tree.
func runFTPPaths(ops []string) {
	line := "@ftp " + strings.Join(ops, " ")
	verdict := "ok"
	viol := func(s string) {
		if verdict == "ok" {
			verdict = "viol:" + s
		}
	}
	lab := newFsLab()
	defer lab.close()
	rec := newRecChannel()
	// the ftp service takes <fs_base>/ftp/<generated name> as its root: point fs_base at a dir whose "ftp" child
	// holds only generated roots, and put the sentinel beside it
	base := filepath.Join(lab.tmp, "svc")
	os.MkdirAll(filepath.Join(base, "ftp", "sentinel"), 0755)
	ioutil.WriteFile(filepath.Join(base, "ftp", "sentinel", "secret.txt"), []byte("do not touch or read me\n"), 0644)
	svc := newService("ftp", "fs_base = "+q(base)+"\n", rec)
	// find the generated root and give it some content
	var root string
	fis, _ := ioutil.ReadDir(filepath.Join(base, "ftp"))
	for _, fi := range fis {
		if fi.Name() != "sentinel" {
			root = filepath.Join(base, "ftp", fi.Name())
		}
	}
	if root == "" {
		emit(line, "no-root", "ok", false)
		return
	}
	for _, d := range []string{"a", "b", "a/a"} {
		os.MkdirAll(filepath.Join(root, d), 0755)
	}
	ioutil.WriteFile(filepath.Join(root, "a", "file.txt"), []byte("inside\n"), 0644)
	before := treeDigest(filepath.Join(base, "ftp", "sentinel"), lab.tmp+"/outside.txt")
	outsideBefore := treeDigest(base + "/ftp")
	_ = outsideBefore
	srv, cli := tcpPair()
	done := make(chan struct{})
	go func() { defer func() { recover(); close(done) }(); svc.Handle(context.Background(), srv) }()
	rd := bufio.NewReader(cli)
	reply := func() (int, string) {
		cli.SetReadDeadline(time.Now().Add(5 * time.Second))
		for {
			l, err := rd.ReadString('\n')
			if err != nil {
				return -1, ""
			}
			if len(l) >= 4 && l[3] == ' ' {
				var c int
				fmt.Sscanf(l[:3], "%d", &c)
				return c, strings.TrimSpace(l[4:])
			}
		}
	}
	// a command's reply is the first reply before the answer to a NOOP sent right after it (MDTM of an existing
	// path answers twice: 213 and then 450; without the marker every later reply would be read one command late)
	send := func(s string) (int, string) {
		cli.SetWriteDeadline(time.Now().Add(5 * time.Second))
		cli.Write([]byte(s + "\r\nNOOP\r\n"))
		code, text := reply()
		if code == -1 {
			return code, text
		}
		for i := 0; i < 8; i++ {
			c, t := reply()
			if c == 200 && strings.HasPrefix(t, "OK") || c == -1 {
				break
			}
			_ = t
		}
		return code, text
	}
	reply()
	send("USER anonymous")
	send("PASS anonymous")
	var outs []string
	for _, op := range ops {
		p := strings.SplitN(op, ":", 2)
		cmd, param := p[0], string(unhx(p[1]))
		l := cmd
		if param != "" {
			l += " " + param
		}
		code, text := send(l)
		outs = append(outs, fmt.Sprint(code))
		if code == -1 {
			viol("ftp-connection-lost:" + l)
			break
		}
		switch cmd {
		case "PWD", "XPWD":
			d := strings.Trim(text, "\"")
			if i := strings.Index(text, "\""); i >= 0 {
				if j := strings.LastIndex(text, "\""); j > i {
					d = text[i+1 : j]
				}
			}
			if code == 257 && (!strings.HasPrefix(d, "/") || strings.Contains(d+"/", "/../")) {
				viol(fmt.Sprintf("cwd-escapes-root:PWD answers %q", text))
			}
		case "SIZE", "MDTM":
			if code == 213 && strings.Contains(param, "sentinel") {
				viol(fmt.Sprintf("path-escapes-root:%s %q answered %d %s", cmd, param, code, text))
			}
		case "CWD", "XCWD":
			if code == 250 && strings.Contains(text, "sentinel") {
				viol(fmt.Sprintf("cwd-escapes-root:CWD %q answered %s", param, text))
			}
		}
	}
	cli.Close()
	select {
	case <-done:
	case <-time.After(3 * time.Second):
	}
	if treeDigest(filepath.Join(base, "ftp", "sentinel"), lab.tmp+"/outside.txt") != before {
		viol("path-escapes-root:files outside the root were created, renamed or deleted")
	}
	// nothing new beside the root either
	fis, _ = ioutil.ReadDir(filepath.Join(base, "ftp"))
	if len(fis) != 2 {
		viol("path-escapes-root:entries appeared beside the root")
	}
	if fis2, _ := ioutil.ReadDir(base); len(fis2) != 1 {
		viol("path-escapes-root:entries appeared above the root")
	}
	emit(line, strings.Join(outs, " "), verdict, true)
}

func genC11(tier string, seed uint64) {
	r := NewRng(seed)
	// filepath.Clean / Join on every string over {a, b, ., /} up to length 7 (quick) / 8 (thorough)
	alpha := []byte("ab./")
	maxLen := 7
	if tier == "thorough" {
		maxLen = 8
	}
	var rec func(cur []byte)
	rec = func(cur []byte) {
		runClean(string(cur))
		if len(cur) == maxLen {
			return
		}
		for _, c := range alpha {
			rec(append(cur, c))
		}
	}
	rec(nil)
	for i := 0; i < 3000; i++ {
		mk := func() string {
			n := r.Intn(6)
			b := make([]byte, n)
			for j := range b {
				b[j] = alpha[r.Intn(4)]
			}
			return string(b)
		}
		runJoin(mk(), mk())
	}
	// RealPath / ChangeDir: every path of up to 5 components over {a, b, .., ., ""}, absolute and relative,
	// from every reachable working directory of the lab tree
	lab := newFsLab()
	defer lab.close()
	comps := []string{"a", "b", "..", ".", ""}
	cwds := []string{"/", "/a", "/b", "/a/a", "/a/b", "/b/a", "/a/a/a", "/a/b/a"}
	maxC := 4
	if tier == "thorough" {
		maxC = 5
	}
	var paths []string
	var rc func(cur []string)
	rc = func(cur []string) {
		if len(cur) > 0 {
			paths = append(paths, strings.Join(cur, "/"))
		}
		if len(cur) == maxC {
			return
		}
		for _, c := range comps {
			rc(append(cur, c))
		}
	}
	rc(nil)
	seen := map[string]bool{}
	for _, p := range paths {
		for _, pre := range []string{"", "/"} {
			pp := pre + p
			if seen[pp] {
				continue
			}
			seen[pp] = true
			for ci, cwd := range cwds {
				if tier != "thorough" && ci > 2 && (len(pp)+ci)%3 != 0 {
					continue
				}
				lab.runReal(cwd, pp, false)
				if strings.Count(pp, "/") <= 3 {
					lab.runReal(cwd, pp, true)
				}
			}
		}
	}
	for _, odd := range []string{"/../sentinel", "../sentinel/secret.txt", "/a/../../sentinel", "....", ".../x", "a/./../../..", strings.Repeat("../", 40) + "etc/passwd", "/" + strings.Repeat("a/", 30) + strings.Repeat("../", 31) + "sentinel", "a//b///..//../..", "\x00/..", "a\n../.."} {
		for _, cwd := range []string{"/", "/a/a"} {
			lab.runReal(cwd, odd, false)
			lab.runReal(cwd, odd, true)
		}
	}
	// FTP command sequences against the sentinel tree
	ps := []string{"..", "../sentinel", "/../sentinel", "../sentinel/secret.txt", "/../sentinel/secret.txt", "a", "/a/a", "a/../..", "/a/../../sentinel", "../../outside.txt", "b", "file.txt", "a/file.txt", "/", "../sentinel/new"}
	cmds := []string{"CWD", "CDUP", "PWD", "MKD", "RMD", "DELE", "RNFR", "RNTO", "SIZE", "MDTM", "XCWD", "XPWD"}
	n := 40
	if tier == "thorough" {
		n = 600
	}
	for i := 0; i < n; i++ {
		var ops []string
		for k := 1 + r.Intn(5); k > 0; k-- {
			c := cmds[r.Intn(len(cmds))]
			p := ps[r.Intn(len(ps))]
			if c == "CDUP" || c == "PWD" || c == "XPWD" {
				p = ""
			}
			ops = append(ops, c+":"+hx([]byte(p)))
			if c == "RNFR" {
				ops = append(ops, "RNTO:"+hx([]byte(ps[r.Intn(len(ps))])))
			}
		}
		runFTPPaths(ops)
	}
	runFTPPaths([]string{"SIZE:" + hx([]byte("../sentinel/secret.txt")), "MKD:" + hx([]byte("../sentinel/made")), "DELE:" + hx([]byte("../sentinel/secret.txt"))})
	runFTPPaths([]string{"CWD:" + hx([]byte("a")), "CWD:" + hx([]byte("../..")), "PWD:-", "SIZE:" + hx([]byte("../sentinel/secret.txt")), "CDUP:-", "CDUP:-", "PWD:-", "RNFR:" + hx([]byte("a/file.txt")), "RNTO:" + hx([]byte("../../moved.txt"))})
	var _ net.Conn
}
