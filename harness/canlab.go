package main

import (
	"fmt"
	"net"
	"strings"
	"sync"
	"time"

	"github.com/honeytrap/honeytrap/event"
	"github.com/honeytrap/honeytrap/listener/canary"
	"github.com/honeytrap/honeytrap/listener/canary/ethernet"
	"github.com/honeytrap/honeytrap/listener/canary/ipv4"
)

// ---- a recording event channel ----

type recChannel struct {
	mu  sync.Mutex
	evs []event.Event
	ch  chan struct{}
}

// allRecs, when collecting is on, remembers every recording channel (C05 serialises all captured events)
var (
	allRecsMu  sync.Mutex
	allRecs    []*recChannel
	collecting bool
)

func newRecChannel() *recChannel {
	r := &recChannel{ch: make(chan struct{}, 1<<16)}
	allRecsMu.Lock()
	if collecting {
		allRecs = append(allRecs, r)
	}
	allRecsMu.Unlock()
	return r
}

func (r *recChannel) Send(e event.Event) {
	r.mu.Lock()
	r.evs = append(r.evs, e)
	r.mu.Unlock()
	select {
	case r.ch <- struct{}{}:
	default:
	}
}

func (r *recChannel) Len() int {
	r.mu.Lock()
	defer r.mu.Unlock()
	return len(r.evs)
}

func (r *recChannel) From(i int) []event.Event {
	r.mu.Lock()
	defer r.mu.Unlock()
	return append([]event.Event(nil), r.evs[i:]...)
}

// waitLen waits until at least n events were recorded or the timeout passes.
func (r *recChannel) waitLen(n int, d time.Duration) bool {
	deadline := time.Now().Add(d)
	for r.Len() < n {
		if time.Now().After(deadline) {
			return false
		}
		select {
		case <-r.ch:
		case <-time.After(2 * time.Millisecond):
		}
	}
	return true
}

// ---- the canary lab: a real Canary on the verif constructor ----

type canLab struct {
	c      *canary.Canary
	peerFd int
	ev     *recChannel
	myIP   net.IP
	intf   net.Interface
}

var peerMAC = net.HardwareAddr{0x02, 0, 0, 0, 0, 0x99}
var myMAC = net.HardwareAddr{0x02, 0, 0, 0, 0, 0x01}

// loopback finds an interface with an IPv4 address (isMe asks the OS for the
// interface's addresses, so a real interface is needed).
func loopback() (net.Interface, net.IP, error) {
	ifs, err := net.Interfaces()
	if err != nil {
		return net.Interface{}, nil, err
	}
	for _, i := range ifs {
		addrs, _ := i.Addrs()
		for _, a := range addrs {
			if n, ok := a.(*net.IPNet); ok && n.IP.To4() != nil {
				return i, n.IP.To4(), nil
			}
		}
	}
	return net.Interface{}, nil, fmt.Errorf("no interface with an IPv4 address")
}

// newCanLab: arp = 0 no ARP/route entry for any peer; 1 ARP entries for the peers; 2 default route via a gateway with an ARP entry.
func newCanLab(arp int, peers []net.IP) (*canLab, error) {
	intf, ip, err := loopback()
	if err != nil {
		return nil, err
	}
	var ac canary.ARPCache
	var rt canary.RouteTable
	switch arp {
	case 1:
		for _, p := range peers {
			ac = append(ac, canary.ARPEntry{IP: p, HardwareAddress: peerMAC, Interface: intf.Name})
		}
	case 2:
		gw := net.IPv4(192, 0, 2, 1)
		ac = append(ac, canary.ARPEntry{IP: gw, HardwareAddress: peerMAC, Interface: intf.Name})
		rt = append(rt, canary.Route{Interface: intf.Name, Gateway: gw,
			Destination: net.IPNet{IP: net.IPv4(0, 0, 0, 0), Mask: net.IPv4Mask(0, 0, 0, 0)}})
	}
	ev := newRecChannel()
	c, fd, err := canary.VerifNew([]net.Interface{intf}, ac, rt, ev)
	if err != nil {
		return nil, err
	}
	return &canLab{c: c, peerFd: fd, ev: ev, myIP: ip, intf: intf}, nil
}

var stdPeers = []net.IP{net.IPv4(10, 0, 0, 1), net.IPv4(10, 0, 0, 2), net.IPv4(10, 0, 0, 3), net.IPv4(10, 0, 0, 4), net.IPv4(10, 9, 8, 7), net.IPv4(127, 0, 0, 1)}

// inject runs one frame through the same steps as the receive loop's dispatch
// (real parsers, real handlers), synchronously. Returns the dispatch class.
func (l *canLab) inject(frame []byte) (class string, err error) {
	defer func() {
		if r := recover(); r != nil {
			class = "panic"
			err = fmt.Errorf("%v", r)
		}
	}()
	buf := append([]byte(nil), frame...)
	eh, perr := ethernet.Parse(buf)
	if perr != nil {
		return "drop", nil
	}
	if eh.Type != 0x0800 {
		return "drop", nil
	}
	iph, perr := ipv4.Parse(eh.Payload[:])
	if perr != nil {
		return "drop", nil
	}
	data := make([]byte, len(iph.Payload))
	copy(data, iph.Payload[:])
	switch iph.Protocol {
	case 1:
		l.c.VerifHandleICMP(eh, iph, data)
		return "icmp", nil
	case 6:
		l.c.VerifHandleTCP(eh, iph, data)
		return "tcp", nil
	case 17:
		l.c.VerifHandleUDP(eh, iph, data)
		return "udp", nil
	}
	return "drop", nil
}

// ---- frame construction / decoding, independent of the code under test ----

func csum16(parts ...[]byte) uint16 {
	var sum uint32
	for _, b := range parts {
		for i := 0; i+1 < len(b); i += 2 {
			sum += uint32(b[i])<<8 | uint32(b[i+1])
		}
		if len(b)%2 == 1 {
			sum += uint32(b[len(b)-1]) << 8
		}
	}
	for sum>>16 != 0 {
		sum = sum&0xffff + sum>>16
	}
	return ^uint16(sum)
}

func ethFrame(payload []byte) []byte {
	f := append([]byte{}, myMAC...)
	f = append(f, peerMAC...)
	f = append(f, 0x08, 0x00)
	return append(f, payload...)
}

func ipPacket(src, dst net.IP, proto byte, payload []byte) []byte {
	h := make([]byte, 20)
	h[0] = 0x45
	tl := 20 + len(payload)
	h[2], h[3] = byte(tl>>8), byte(tl)
	h[8], h[9] = 64, proto
	copy(h[12:16], src.To4())
	copy(h[16:20], dst.To4())
	ck := csum16(h)
	h[10], h[11] = byte(ck>>8), byte(ck)
	return append(h, payload...)
}

func tcpSegment(src, dst net.IP, sport, dport uint16, seq, ack uint32, flags byte, payload []byte, goodCsum bool) []byte {
	h := make([]byte, 20)
	h[0], h[1] = byte(sport>>8), byte(sport)
	h[2], h[3] = byte(dport>>8), byte(dport)
	h[4], h[5], h[6], h[7] = byte(seq>>24), byte(seq>>16), byte(seq>>8), byte(seq)
	h[8], h[9], h[10], h[11] = byte(ack>>24), byte(ack>>16), byte(ack>>8), byte(ack)
	h[12] = 5 << 4
	h[13] = flags
	h[14], h[15] = 0x72, 0x10
	seg := append(h, payload...)
	if goodCsum {
		l := len(seg)
		ck := csum16(src.To4(), dst.To4(), []byte{0, 6, byte(l >> 8), byte(l)}, seg)
		seg[16], seg[17] = byte(ck>>8), byte(ck)
	}
	return seg
}

func udpDatagram(sport, dport uint16, payload []byte) []byte {
	l := 8 + len(payload)
	h := []byte{byte(sport >> 8), byte(sport), byte(dport >> 8), byte(dport), byte(l >> 8), byte(l), 0, 0}
	return append(h, payload...)
}

// txFrame is an emitted frame decoded by the harness's own decoder.
type txFrame struct {
	raw                  []byte // IP packet (ethernet header stripped)
	ok                   bool
	src, dst             net.IP
	sport, dport         uint16
	seq, ack             uint32
	flags                byte
	payload              []byte
	ipCsumOK, tcpCsumOK  bool
	ethDst               net.HardwareAddr
}

func decodeTx(frame []byte) txFrame {
	var t txFrame
	if len(frame) < 14+40 {
		return t
	}
	t.ethDst = net.HardwareAddr(frame[0:6])
	ip := frame[14:]
	t.raw = ip
	if ip[0] != 0x45 || int(ip[2])<<8|int(ip[3]) != len(ip) || ip[9] != 6 {
		return t
	}
	t.ok = true
	t.src, t.dst = net.IP(ip[12:16]), net.IP(ip[16:20])
	t.ipCsumOK = csum16(ip[:20]) == 0
	seg := ip[20:]
	t.sport, t.dport = uint16(seg[0])<<8|uint16(seg[1]), uint16(seg[2])<<8|uint16(seg[3])
	t.seq = uint32(seg[4])<<24 | uint32(seg[5])<<16 | uint32(seg[6])<<8 | uint32(seg[7])
	t.ack = uint32(seg[8])<<24 | uint32(seg[9])<<16 | uint32(seg[10])<<8 | uint32(seg[11])
	t.flags = seg[13] & 0x3f
	off := int(seg[12]>>4) * 4
	if off >= 20 && off <= len(seg) {
		t.payload = seg[off:]
	}
	l := len(seg)
	t.tcpCsumOK = csum16(ip[12:16], ip[16:20], []byte{0, 6, byte(l >> 8), byte(l)}, seg) == 0
	return t
}

func ip4(ip net.IP) string { return hx([]byte(ip.To4())) }

func tcbString(t *canary.VerifTCB) string {
	if t == nil {
		return "-"
	}
	return fmt.Sprintf("st=%d,una=%d,nxt=%d,rcv=%d,id=%d", t.State, t.SndUna, t.SndNxt, t.RcvNxt, t.ID%65536)
}

func hexOrDash(s string) string {
	if s == "" {
		return "-"
	}
	return strings.ToLower(s)
}
