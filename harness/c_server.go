package main

import (
	"bytes"
	"context"
	"fmt"
	"os"
	"time"

	"github.com/honeytrap/honeytrap/config"
	"net"
	"regexp"
	"sort"
	"strconv"
	"strings"

	"github.com/honeytrap/honeytrap/event"
	"github.com/honeytrap/honeytrap/server"
)

// C19 / C08 / C06: the real Run() wiring (through the verif constructor) against HT.Srv.
//
// srv <defined,..> <entry> ... | <proto> <ip|*> <port> <seg hex> ...     (C19 table; C08 routing)
// bus <ch,..> <chs;svcs;cats> ... | <id;cat;svc> ...                    (C06)

func init() {
	register(&Stream{Name: "c19ports", Gen: genC19, Replay: replaySrv})
	register(&Stream{Name: "c08route", Gen: genC08, Replay: replaySrv})
	register(&Stream{Name: "c06bus", Gen: genC06, Replay: replayBus})
	register(&Stream{Name: "c08sock", Gen: func(string, uint64) { runSockScenario() }, Replay: func(string) { runSockScenario() }})
}

// ---------- reference (oracle) for C19: independent of the server's parsing code ----------

var (
	reV4     = regexp.MustCompile(`^(25[0-5]|2[0-4][0-9]|1[0-9][0-9]|[1-9]?[0-9])(\.(25[0-5]|2[0-4][0-9]|1[0-9][0-9]|[1-9]?[0-9])){3}$`)
	reDigits = regexp.MustCompile(`^[0-9]+$`)
)

type refAddr struct {
	proto, ip string
	port      int
}

// refParse: protocol/port or protocol/host:port, protocol tcp or udp, port 0..65535 (decimal digits).
func refParse(s string) (refAddr, bool) {
	i := strings.Index(s, "/")
	if i < 0 || strings.Count(s, "/") != 1 {
		return refAddr{}, false
	}
	proto, rest := s[:i], s[i+1:]
	if proto != "tcp" && proto != "udp" {
		return refAddr{}, false
	}
	host, port := "", rest
	if strings.HasPrefix(rest, "[") {
		j := strings.Index(rest, "]:")
		if j < 0 {
			return refAddr{}, false
		}
		host, port = rest[1:j], rest[j+2:]
		if host != "::1" {
			return refAddr{}, false
		}
	} else if k := strings.LastIndex(rest, ":"); k >= 0 {
		host, port = rest[:k], rest[k+1:]
		if host != "" && !reV4.MatchString(host) {
			return refAddr{}, false
		}
	}
	if !reDigits.MatchString(port) {
		return refAddr{}, false
	}
	n, err := strconv.Atoi(port)
	if err != nil || n > 65535 {
		return refAddr{}, false
	}
	ip := host
	if host == "" {
		ip = "*"
	}
	return refAddr{proto, ip, n}, true
}

func refTable(defined []string, es []portEntry) []string {
	isDef := map[string]bool{}
	for _, d := range defined {
		isDef[d] = true
	}
	var keys []refAddr
	var out []string
	for _, e := range es {
		if e.port == "" && e.ports == nil {
			continue
		}
		ports := append(append([]string{}, e.ports...), e.port)
		if e.port == "" {
			ports = ports[:len(ports)-1]
		}
		for _, ps := range ports {
			a, ok := refParse(ps)
			if !ok {
				continue
			}
			var svcs []string
			for _, s := range e.services {
				if isDef[s] {
					svcs = append(svcs, s)
				}
			}
			if len(svcs) == 0 {
				continue
			}
			dup := false
			for _, k := range keys {
				if k.proto == a.proto && k.port == a.port && (k.ip == "*" || a.ip == "*" || k.ip == a.ip) {
					dup = true
				}
			}
			if dup {
				continue
			}
			keys = append(keys, a)
			out = append(out, fmt.Sprintf("%s/%s:%d=[%s]", a.proto, a.ip, a.port, strings.Join(svcs, ",")))
		}
	}
	return out
}

func runSrvCase(defined []string, es []portEntry, conn []string) {
	var estr []string
	for _, e := range es {
		estr = append(estr, e.String())
	}
	line := "srv " + strings.Join(defined, ",") + " " + strings.Join(estr, " ")
	if len(conn) > 0 {
		line += " | " + strings.Join(conn, " ")
	}
	verdict := "ok"
	viol := func(sig, d string) {
		if verdict == "ok" {
			verdict = "viol:" + sig + ":" + d
		}
	}
	hc, rec, err := runServer(servicesTOML(defined) + entriesTOML(es))
	if err != nil {
		emit(line, "config-error", "ok", false)
		return
	}
	impl := tableString(hc, rec)
	want := strings.TrimSpace("table " + strings.Join(refTable(defined, es), " "))
	if impl != want {
		viol("listened-set-wrong", fmt.Sprintf("listener was given %q, the configuration denotes %q", impl, want))
	}
	nontrivial := rec != nil && len(rec.addrs) > 0
	if len(conn) >= 3 {
		port, _ := strconv.Atoi(conn[2])
		var ip net.IP
		if conn[1] != "*" {
			ip = net.ParseIP(conn[1])
		}
		var segs [][]byte
		var all []byte
		for _, h := range conn[3:] {
			segs = append(segs, unhx(h))
			all = append(all, unhx(h)...)
		}
		id, data, ok := deliver(hc, conn[0], ip, port, segs)
		// reference: the entry for this local address, first acceptor on the first read
		var cands []string
		for _, t := range refTable(defined, es) {
			i := strings.Index(t, "=[")
			k := t[:i]
			a, _ := refParse(strings.Replace(strings.Replace(k, "/*:", "/:", 1), "/::1:", "/[::1]:", 1))
			if a.proto == conn[0] && a.port == port && (a.ip == "*" || a.ip == conn[1]) {
				cands = strings.Split(t[i+2:len(t)-1], ",")
			}
		}
		first := []byte{}
		if len(segs) > 0 {
			first = segs[0]
			if len(first) > 1024 {
				first = first[:1024]
			}
		}
		wantSvc := ""
		if len(cands) == 1 {
			wantSvc = cands[0]
		} else {
			for _, c := range cands {
				if !strings.HasPrefix(c, "d") {
					wantSvc = c
					break
				}
				if len(segs) == 0 {
					break // nothing to peek: the connection is closed
				}
				if strings.HasPrefix(string(first), string(unhx(c[1:]))) {
					wantSvc = c
					break
				}
			}
		}
		switch {
		case id == "hang":
			viol("handle-does-not-return", "")
			impl += " ; hang"
		case !ok:
			impl += " ; none"
			if wantSvc != "" {
				viol("no-service-chosen", "expected "+wantSvc)
			}
		default:
			impl += " ; " + id + " view=" + hx(data)
			if id != wantSvc {
				viol("wrong-service-chosen", fmt.Sprintf("got %s want %q (candidates %v)", id, wantSvc, cands))
			}
			if string(data) != string(all) {
				viol("stream-not-intact", fmt.Sprintf("service %s read %x, client sent %x", id, data, all))
			}
			found := false
			for _, c := range cands {
				if c == id {
					found = true
				}
			}
			if !found {
				viol("service-outside-entry", id)
			}
			nontrivial = len(cands) > 1
		}
	}
	emit(line, impl, verdict, nontrivial)
}

func replaySrv(l string) {
	f := strings.Fields(l)
	if len(f) < 2 || f[0] != "srv" {
		return
	}
	defined := strings.Split(f[1], ",")
	if f[1] == "-" {
		defined = nil
	}
	var es []portEntry
	var conn []string
	for i := 2; i < len(f); i++ {
		if f[i] == "|" {
			conn = f[i+1:]
			break
		}
		p := strings.Split(f[i], ";")
		if len(p) != 3 {
			continue
		}
		e := portEntry{}
		if p[0] != "-" {
			e.port = p[0]
		}
		if p[1] != "-" {
			e.ports = strings.Split(p[1], ",")
			if p[1] == "" {
				e.ports = []string{}
			}
		}
		if p[2] != "-" {
			e.services = strings.Split(p[2], ",")
		}
		es = append(es, e)
	}
	runSrvCase(defined, es, conn)
}

var portStrings = []string{"tcp/80", "udp/80", "tcp/127.0.0.1:80", "tcp/0.0.0.0:80", "tcp/10.1.2.3:80", "tcp/[::1]:80",
	"tcp80", "icmp/80", "tcp/65536", "tcp/-1", "tcp/", "tcp/080", "tcp/+80", "TCP/80", "tcp/80/x", "tcp/:80", "udp/53",
	"tcp/65535", "tcp/0", "tcp/1.2.3.4:", "tcp/[::1]", "tcp/::1:80", "udp/127.0.0.1:53", "udp/:53", "tcp/8080", "/80", "tcp/80 ", "tcp/99999999999999999999"}

func genC19(tier string, seed uint64) {
	r := NewRng(seed)
	defined := []string{"a", "b", "c"}
	// the parser on every port number (the property's exhaustive clause) and on the malformed set
	step := 97
	if tier == "thorough" {
		step = 1
	}
	var batch []string
	for p := 0; p <= 65537; p += 1 {
		if p%step != 0 && p > 300 && p < 65500 {
			continue
		}
		batch = append(batch, fmt.Sprintf("tcp/%d", p))
		if len(batch) == 64 {
			runSrvCase(defined, []portEntry{{ports: batch, services: []string{"a"}}}, nil)
			batch = nil
		}
	}
	if len(batch) > 0 {
		runSrvCase(defined, []portEntry{{ports: batch, services: []string{"a"}}}, nil)
	}
	for _, ps := range portStrings {
		if strings.Contains(ps, " ") {
			continue // the case-line format has no spaces; covered by refParse-equivalent strings below
		}
		runSrvCase(defined, []portEntry{{port: ps, services: []string{"a"}}}, nil)
		runSrvCase(defined, []portEntry{{ports: []string{ps}, services: []string{"a", "zz"}}}, nil)
	}
	// all ordered pairs: first wins / compatible addresses
	for _, p1 := range portStrings {
		for _, p2 := range portStrings {
			if strings.Contains(p1+p2, " ") {
				continue
			}
			runSrvCase(defined, []portEntry{{port: p1, services: []string{"a"}}, {port: p2, services: []string{"b"}}}, nil)
		}
	}
	// service lists: defined, undefined, duplicate, empty; port and ports together; an entry with no valid service
	// followed by a valid one for the same port
	svcLists := [][]string{{"a"}, {"zz"}, {"zz", "a"}, {"a", "a"}, {}, {"a", "b", "c"}, {"b", "zz", "b"}}
	for _, s1 := range svcLists {
		for _, s2 := range svcLists {
			runSrvCase(defined, []portEntry{{port: "tcp/80", services: s1}, {port: "tcp/80", services: s2}}, nil)
			runSrvCase(defined, []portEntry{{port: "udp/53", ports: []string{"tcp/80", "tcp/81"}, services: s1}, {ports: []string{"tcp/81", "udp/53"}, services: s2}}, nil)
		}
	}
	runSrvCase(defined, []portEntry{{services: []string{"a"}}, {port: "tcp/1", services: []string{"a"}}}, nil)
	runSrvCase(defined, []portEntry{{ports: []string{}, services: []string{"a"}}, {port: "tcp/1", services: []string{"a"}}}, nil)
	// random configurations up to 4 entries, each followed by a reachability probe of a listened address
	n := 300
	if tier == "thorough" {
		n = 5000
	}
	for i := 0; i < n; i++ {
		var es []portEntry
		for k := 1 + r.Intn(4); k > 0; k-- {
			e := portEntry{}
			pick := func() string {
				for {
					s := portStrings[r.Intn(len(portStrings))]
					if !strings.Contains(s, " ") {
						return s
					}
				}
			}
			switch r.Intn(4) {
			case 0:
				e.port = pick()
			case 1:
				for j := r.Intn(4); j >= 0; j-- {
					e.ports = append(e.ports, pick())
				}
			case 2:
				e.port = pick()
				e.ports = []string{pick(), pick()}
			case 3:
				e.port = pick()
			}
			e.services = append([]string{}, svcLists[r.Intn(len(svcLists))]...)
			es = append(es, e)
		}
		var conn []string
		if t := refTable(defined, es); len(t) > 0 {
			k := t[r.Intn(len(t))]
			a, _ := refParse(strings.Replace(strings.Replace(k[:strings.Index(k, "=[")], "/*:", "/:", 1), "/::1:", "/[::1]:", 1))
			ip := a.ip
			if ip == "*" {
				ip = "10.9.9.9"
			}
			conn = []string{a.proto, ip, fmt.Sprint(a.port), hx([]byte("hello"))}
		}
		runSrvCase(defined, es, conn)
	}
}

func genC08(tier string, seed uint64) {
	r := NewRng(seed)
	get, ssh, tls, ge := "d"+hx([]byte("GET ")), "d"+hx([]byte("SSH-")), "d"+hx([]byte{0x16, 0x03}), "d"+hx([]byte("GE"))
	defined := []string{"p1", "p2", get, ssh, tls, ge}
	lists := [][]string{{}, {"p1"}, {get}, {get, "p1"}, {"p1", get}, {get, ssh}, {get, ssh, "p1"}, {ge, get, "p2"}, {get, ge}, {ssh, tls, get, "p1"}, {ssh, tls, ge, get}, {get, get}, {tls, "p1", ssh}}
	payloads := [][]byte{[]byte("GET / HTTP/1.0\r\n\r\n"), []byte("SSH-2.0-x\r\n"), {0x16, 0x03, 0x01, 0x00, 0x05, 1, 2, 3, 4, 5}, []byte("HELLO"), []byte("G"), []byte("GE"), {}}
	big := make([]byte, 3000)
	for i := range big {
		big[i] = byte('a' + i%26)
	}
	copy(big, "GET ")
	payloads = append(payloads, big)
	cuts := func(p []byte) [][][]byte {
		var res [][][]byte
		if len(p) == 0 {
			return [][][]byte{{}}
		}
		res = append(res, [][]byte{p})
		for _, c := range []int{1, 2, 3, 4, 5, len(p) / 2, len(p) - 1, 1024, 1025} {
			if c > 0 && c < len(p) {
				res = append(res, [][]byte{p[:c], p[c:]})
			}
		}
		if len(p) <= 12 {
			var d [][]byte
			for i := range p {
				d = append(d, p[i:i+1])
			}
			res = append(res, d)
		}
		return res
	}
	hexes := func(segs [][]byte) []string {
		var hs []string
		for _, s := range segs {
			hs = append(hs, hx(s))
		}
		return hs
	}
	for li, l := range lists {
		for pi, p := range payloads {
			cs := cuts(p)
			for ci, segs := range cs {
				if tier != "thorough" && (li+pi+ci)%3 != 0 && ci > 1 {
					continue
				}
				es := []portEntry{{port: "tcp/8080", services: l}, {port: "udp/8080", services: []string{"p2"}}, {port: "tcp/127.0.0.1:9000", services: []string{"p2", get}}}
				runSrvCase(defined, es, append([]string{"tcp", "127.0.0.1", "8080"}, hexes(segs)...))
			}
		}
	}
	// one entry listing several ports with a single (detector) service: it is each port's only service
	for _, port := range []string{"7001", "7002", "7003"} {
		for _, p := range [][]byte{[]byte("HELLO"), []byte("GET /")} {
			runSrvCase(defined, []portEntry{{ports: []string{"tcp/7001", "tcp/7002", "tcp/7003"}, services: []string{get}}},
				[]string{"tcp", "127.0.0.1", port, hx(p)})
		}
	}
	// address matching: wildcard vs specific, udp, unmatched port/address
	es := []portEntry{{port: "tcp/127.0.0.1:9000", services: []string{"p1"}}, {port: "tcp/10.1.2.3:9000", services: []string{"p2"}}, {port: "udp/9000", services: []string{get, "p1"}}, {port: "tcp/7", services: []string{get, "p2"}}}
	for _, c := range [][]string{{"tcp", "127.0.0.1", "9000"}, {"tcp", "10.1.2.3", "9000"}, {"tcp", "10.9.9.9", "9000"}, {"udp", "10.9.9.9", "9000"}, {"udp", "127.0.0.1", "9001"}, {"tcp", "10.9.9.9", "7"}, {"tcp", "::1", "7"}} {
		for _, p := range [][]byte{[]byte("GET x"), []byte("zzz")} {
			runSrvCase(defined, es, append(c, hx(p)))
		}
	}
	n := 150
	if tier == "thorough" {
		n = 4000
	}
	for i := 0; i < n; i++ {
		var l []string
		for k := r.Intn(5); k > 0; k-- {
			l = append(l, defined[r.Intn(len(defined))])
		}
		p := append([]byte{}, payloads[r.Intn(len(payloads))]...)
		var segs [][]byte
		for len(p) > 0 {
			c := 1 + r.Intn(len(p))
			if r.Intn(3) == 0 {
				c = 1 + r.Intn(3)
				if c > len(p) {
					c = len(p)
				}
			}
			segs = append(segs, p[:c])
			p = p[c:]
		}
		proto := r.Pick2("tcp", "udp")
		if i%5 != 0 {
			proto = "tcp"
		}
		if proto == "udp" { // a datagram arrives whole
			var all []byte
			for _, sg := range segs {
				all = append(all, sg...)
			}
			segs = [][]byte{all}
			if len(all) == 0 {
				segs = nil
			}
		}
		runSrvCase(defined, []portEntry{{port: proto + "/8080", services: l}}, append([]string{proto, "127.0.0.1", "8080"}, hexes(segs)...))
	}
}

// runSockScenario: the real socket listener on loopback through the real Run(): TCP streams in segments and
// two UDP datagrams whose services are held at a gate until both have been accepted.
func runSockScenario() {
	verdict := "ok"
	viol := func(sig, d string) {
		if verdict == "ok" {
			verdict = "viol:" + sig + ":" + d
		}
	}
	freePort := func(network string) int {
		if network == "udp" {
			c, err := net.ListenUDP("udp", &net.UDPAddr{IP: net.IPv4(127, 0, 0, 1)})
			if err != nil {
				return 0
			}
			defer c.Close()
			return c.LocalAddr().(*net.UDPAddr).Port
		}
		l, err := net.Listen("tcp", "127.0.0.1:0")
		if err != nil {
			return 0
		}
		defer l.Close()
		return l.Addr().(*net.TCPAddr).Port
	}
	tp, up := freePort("tcp"), freePort("udp")
	if tp == 0 || up == 0 {
		emit("@sock", "no-loopback", "ok", false)
		return
	}
	get := "d" + hx([]byte("GET "))
	toml := strings.Replace(servicesTOML([]string{get, "p1", "p2"}), "verif-rec", "socket", 1) +
		entriesTOML([]portEntry{{port: fmt.Sprintf("tcp/127.0.0.1:%d", tp), services: []string{get, "p1"}}, {port: fmt.Sprintf("udp/127.0.0.1:%d", up), services: []string{"p2"}}})
	cfg := &config.Config{}
	saved := os.Stdout
	os.Stdout = devNull
	defer func() { os.Stdout = saved }()
	if err := cfg.Load(bytes.NewBufferString(toml)); err != nil {
		emit("@sock", "config-error", "ok", false)
		return
	}
	hc := server.VerifNew(cfg, "tok-verif")
	ctx, cancel := context.WithCancel(context.Background())
	defer cancel()
	go hc.Run(ctx)
	handledMu.Lock()
	handledBy = nil
	handledMu.Unlock()
	waitHandled := func(n int) []handled {
		deadline := time.Now().Add(8 * time.Second)
		for time.Now().Before(deadline) {
			handledMu.Lock()
			if len(handledBy) >= n {
				r := append([]handled(nil), handledBy...)
				handledMu.Unlock()
				return r
			}
			handledMu.Unlock()
			time.Sleep(5 * time.Millisecond)
		}
		handledMu.Lock()
		defer handledMu.Unlock()
		return append([]handled(nil), handledBy...)
	}
	// TCP, in segments
	var conn net.Conn
	var err error
	for i := 0; i < 200; i++ {
		if conn, err = net.Dial("tcp", fmt.Sprintf("127.0.0.1:%d", tp)); err == nil {
			break
		}
		time.Sleep(10 * time.Millisecond)
	}
	if err != nil {
		emit("@sock", "listener-not-up", "ok", false)
		return
	}
	sendTCP := func(c net.Conn, segs ...string) {
		for _, sg := range segs {
			c.Write([]byte(sg))
			time.Sleep(30 * time.Millisecond)
		}
		c.Close()
	}
	sendTCP(conn, "GET / HT", "TP/1.0\r\n", "\r\n")
	if h := waitHandled(1); len(h) != 1 || h[0].id != get || string(h[0].data) != "GET / HTTP/1.0\r\n\r\n" {
		viol("stream-not-intact", fmt.Sprintf("tcp/GET over a real socket: %v", h))
	}
	handledMu.Lock()
	handledBy = nil
	handledMu.Unlock()
	if conn, err = net.Dial("tcp", fmt.Sprintf("127.0.0.1:%d", tp)); err == nil {
		sendTCP(conn, "HEL", "LO")
		if h := waitHandled(1); len(h) != 1 || h[0].id != "p1" || string(h[0].data) != "HELLO" {
			viol("stream-not-intact", fmt.Sprintf("tcp/HELLO over a real socket: %v", h))
		}
	}
	// UDP: both services held at the gate until both datagrams were accepted
	handledMu.Lock()
	handledBy = nil
	handledMu.Unlock()
	gateCh = make(chan struct{})
	uc, err := net.Dial("udp", fmt.Sprintf("127.0.0.1:%d", up))
	if err == nil {
		a, b := strings.Repeat("A", 40), strings.Repeat("B", 20)
		uc.Write([]byte(a))
		time.Sleep(80 * time.Millisecond)
		uc.Write([]byte(b))
		time.Sleep(80 * time.Millisecond)
		close(gateCh)
		h := waitHandled(2)
		gateCh = nil
		got := map[string]int{}
		for _, x := range h {
			got[string(x.data)]++
		}
		if len(h) != 2 || got[a] != 1 || got[b] != 1 {
			viol("stream-not-intact", fmt.Sprintf("two udp datagrams: services read %q", h))
		}
		uc.Close()
	}
	gateCh = nil
	emit("@sock", "done", verdict, true)
}

// ---------- C06 ----------

type filterSpec struct {
	channels, services, categories []string
}

func (f filterSpec) String() string {
	j := func(xs []string) string {
		if len(xs) == 0 {
			return "-"
		}
		return strings.Join(xs, ",")
	}
	return j(f.channels) + ";" + j(f.services) + ";" + j(f.categories)
}

type evSpec struct{ id, cat, svc string } // "~" = field missing, "#" = non-string value

func runBusCase(chans []string, fs []filterSpec, evs []evSpec) {
	var fstr, estr []string
	for _, f := range fs {
		fstr = append(fstr, f.String())
	}
	for _, e := range evs {
		c, s := e.cat, e.svc
		if c == "#" {
			c = "~"
		}
		if s == "#" {
			s = "~"
		}
		estr = append(estr, e.id+";"+c+";"+s)
	}
	line := "bus " + strings.Join(chans, ",") + " " + strings.Join(fstr, " ") + " | " + strings.Join(estr, " ")
	verdict := "ok"
	viol := func(sig, d string) {
		if verdict == "ok" {
			verdict = "viol:" + sig + ":" + d
		}
	}
	var b strings.Builder
	b.WriteString("[listener]\ntype = \"verif-none\"\n")
	for _, c := range chans {
		fmt.Fprintf(&b, "[channel.%s]\ntype = \"verif-cap\"\nname = %s\n", c, q(c))
	}
	for _, f := range fs {
		fmt.Fprintf(&b, "[[filter]]\nchannel = %s\n", qlist(f.channels))
		if f.services != nil {
			fmt.Fprintf(&b, "services = %s\n", qlist(f.services))
		}
		if f.categories != nil {
			fmt.Fprintf(&b, "categories = %s\n", qlist(f.categories))
		}
	}
	capMu.Lock()
	caps = map[string]*capChannel{}
	capMu.Unlock()
	hc, _, err := runServer(b.String())
	if err != nil {
		emit(line, "config-error", "ok", false)
		return
	}
	mkEv := func(e evSpec) event.Event {
		opts := []event.Option{event.Custom("id", e.id)}
		switch e.cat {
		case "~":
		case "#":
			opts = append(opts, event.Custom("category", 42))
		default:
			opts = append(opts, event.Category(e.cat))
		}
		switch e.svc {
		case "~":
		case "#":
			opts = append(opts, event.Custom("service", []string{"x"}))
		default:
			opts = append(opts, event.Service(e.svc))
		}
		return event.New(opts...)
	}
	for _, e := range evs {
		hc.VerifSend(mkEv(e))
	}
	// reference: Go's regexp on the field values (missing / non-string read as ""), per channel
	val := func(v string) string {
		if v == "~" || v == "#" {
			return ""
		}
		return v
	}
	anyMatch := func(rxs []string, v string) bool {
		if len(rxs) == 0 {
			return true
		}
		for _, r := range rxs {
			if regexp.MustCompile(r).MatchString(v) {
				return true
			}
		}
		return false
	}
	var parts []string
	nontrivial := false
	for _, c := range chans {
		var want []string
		for _, e := range evs {
			for _, f := range fs {
				if anyMatch(f.categories, val(e.cat)) && anyMatch(f.services, val(e.svc)) {
					for _, fc := range f.channels {
						if fc == c {
							want = append(want, e.id)
						}
					}
				}
			}
		}
		capMu.Lock()
		cc := caps[c]
		capMu.Unlock()
		var got []string
		if cc != nil {
			for _, g := range cc.got {
				p := strings.SplitN(g, "/", 2)
				got = append(got, p[0])
				if p[1] != "tok-verif" {
					viol("delivered-without-token", g)
				}
			}
		}
		if strings.Join(got, ",") != strings.Join(want, ",") {
			viol("deliveries-wrong", fmt.Sprintf("channel %s got [%s] want [%s]", c, strings.Join(got, ","), strings.Join(want, ",")))
		}
		if len(got) > 0 && len(got) < len(evs)*len(fs) {
			nontrivial = true
		}
		parts = append(parts, c+"=["+strings.Join(got, ",")+"]")
	}
	emit(line, strings.Join(parts, " "), verdict, nontrivial)
}

func replayBus(l string) {
	f := strings.Fields(l)
	if len(f) < 2 || f[0] != "bus" {
		return
	}
	un := func(s string) []string {
		if s == "-" {
			return nil
		}
		return strings.Split(s, ",")
	}
	chans := un(f[1])
	var fs []filterSpec
	var evs []evSpec
	i := 2
	for ; i < len(f) && f[i] != "|"; i++ {
		p := strings.Split(f[i], ";")
		if len(p) == 3 {
			fs = append(fs, filterSpec{un(p[0]), un(p[1]), un(p[2])})
		}
	}
	for i++; i < len(f); i++ {
		p := strings.Split(f[i], ";")
		if len(p) == 3 {
			evs = append(evs, evSpec{p[0], p[1], p[2]})
		}
	}
	runBusCase(chans, fs, evs)
}

func genC06(tier string, seed uint64) {
	r := NewRng(seed)
	rxLists := [][]string{nil, {"ssh"}, {"^ssh$"}, {"ssh|ftp"}, {"^$"}, {"^s"}, {"p$"}, {"^ssh$", "^ftp$"}, {"nomatch"}, {"^(ssh|)$"}, {""}}
	// the model's matcher covers alternatives of optionally anchored literals; "^(ssh|)$" and "" go to the
	// implementation + oracle only via the grouping-free equivalents below
	modelRx := [][]string{nil, {"ssh"}, {"^ssh$"}, {"ssh|ftp"}, {"^$"}, {"^s"}, {"p$"}, {"^ssh$", "^ftp$"}, {"nomatch"}, {"^ssh$|^$"},
		// alternation binds weakest: "^ssh|ftp$" is (^ssh)|(ftp$), not ^(ssh|ftp)$
		{"^ssh|ftp$"}, {"^ssh|ftp"}, {"ssh|ftp$"}, {"^ss|tp$|#"}}
	_ = rxLists
	vals := []string{"ssh", "ftp", "sshx", "xssh", "~", "#", "http", "xftp", "ftpx"}
	var evs []evSpec
	id := 0
	for _, c := range vals {
		for _, s := range []string{"ssh", "ftp", "~", "#"} {
			id++
			evs = append(evs, evSpec{fmt.Sprint(id), c, s})
		}
	}
	chans := []string{"c1", "c2", "c3"}
	chanLists := [][]string{{"c1"}, {"c2"}, {"c1", "c2"}, {"c1", "c1"}, {"c9"}, {"c3", "c9", "c1"}}
	// one filter: every category list x service list x channel list
	for _, cl := range chanLists {
		for _, cat := range modelRx {
			for _, svc := range modelRx {
				runBusCase(chans, []filterSpec{{cl, svc, cat}}, evs)
			}
		}
	}
	// two filters: an unrestricted one after a restricted one and vice versa, shared channels
	for _, cat := range modelRx {
		for _, svc := range modelRx[:4] {
			runBusCase(chans, []filterSpec{{[]string{"c1"}, svc, cat}, {[]string{"c2", "c1"}, nil, nil}}, evs)
			runBusCase(chans, []filterSpec{{[]string{"c2"}, nil, nil}, {[]string{"c1", "c2"}, svc, cat}}, evs)
			runBusCase(chans, []filterSpec{{[]string{"c1"}, svc, nil}, {[]string{"c1"}, nil, cat}}, evs)
		}
	}
	n := 300
	if tier == "thorough" {
		n = 6000
	}
	for i := 0; i < n; i++ {
		var fs []filterSpec
		for k := r.Intn(5); k > 0; k-- {
			fs = append(fs, filterSpec{chanLists[r.Intn(len(chanLists))], modelRx[r.Intn(len(modelRx))], modelRx[r.Intn(len(modelRx))]})
		}
		var es []evSpec
		for k := 1 + r.Intn(8); k > 0; k-- {
			es = append(es, evSpec{fmt.Sprint(100 + k), vals[r.Intn(len(vals))], vals[r.Intn(len(vals))]})
		}
		cs := chans[:1+r.Intn(3)]
		runBusCase(cs, fs, es)
	}
	sort.Strings(chans)
	_ = server.VerifCompareAddr
}
