package main

import (
	"bufio"
	"bytes"
	"context"
	"fmt"
	"io/ioutil"
	"net"
	"os"
	"strings"
	"sync"
	"time"

	"golang.org/x/crypto/ssh"

	"github.com/honeytrap/honeytrap/config"
	"github.com/honeytrap/honeytrap/services"
	_ "github.com/honeytrap/honeytrap/services/ftp"
	_ "github.com/honeytrap/honeytrap/services/ldap"
	_ "github.com/honeytrap/honeytrap/services/ssh"
	"github.com/honeytrap/honeytrap/storage"
)

// C12: ssh-simulator, ldap and ftp authentication decisions and gates against HT.Auth.
//
// auth ssh <credhex,..|-> <userhex>:<passhex> ...       -> 1/0 per attempt
// auth ldap <credhex,..|-> b:<dnhex>:<pwhex> | g ...    -> result code per op
// auth ftp <CMD>:<paramhex> ...                         -> reply code (0 = the command was executed)

func init() {
	register(&Stream{Name: "c12auth", Gen: genC12, Replay: func(l string) {
		f := strings.Fields(l)
		if len(f) < 2 || f[0] != "auth" {
			return
		}
		switch f[1] {
		case "ssh":
			runSSHAuth(f[2], f[3:])
		case "ldap":
			runLDAPAuth(f[2], f[3:])
		case "ftp":
			runFTPAuth(f[2:])
		}
	}})
}

var dataDirOnce sync.Once

// ensureDataDir points the storage layer at a scratch directory (keys and certificates are generated there).
func ensureDataDir() {
	dataDirOnce.Do(func() {
		dir, _ := ioutil.TempDir("", "htverif-data-")
		storage.SetDataDir(dir)
	})
}

// newService builds a registered service with a TOML configuration snippet (as Run does).
func newService(typ, tomlBody string, ch *recChannel) services.Servicer {
	ensureDataDir()
	cfg := &config.Config{}
	saved := os.Stdout
	os.Stdout = devNull
	cfg.Load(bytes.NewBufferString("[service.x]\ntype=" + q(typ) + "\n" + tomlBody))
	os.Stdout = saved
	fn, _ := services.Get(typ)
	return fn(services.WithChannel(ch), services.WithConfig(cfg.Services["x"], cfg))
}

func hexList(xs []string) string {
	if len(xs) == 0 {
		return "-"
	}
	var p []string
	for _, x := range xs {
		p = append(p, hx([]byte(x)))
	}
	return strings.Join(p, ",")
}

func unhexList(s string) []string {
	if s == "-" {
		return nil
	}
	var r []string
	for _, p := range strings.Split(s, ",") {
		r = append(r, string(unhx(p)))
	}
	return r
}

// tcpPair returns the two ends of a loopback TCP connection (net.Pipe is unbuffered: the ssh version
// exchange, where both sides write first, deadlocks on it).
func tcpPair() (net.Conn, net.Conn) {
	l, err := net.Listen("tcp", "127.0.0.1:0")
	if err != nil {
		panic(err)
	}
	defer l.Close()
	ch := make(chan net.Conn, 1)
	go func() { c, _ := l.Accept(); ch <- c }()
	cli, err := net.Dial("tcp", l.Addr().String())
	if err != nil {
		panic(err)
	}
	return <-ch, cli
}

// ---------- ssh ----------

func runSSHAuth(credHex string, attempts []string) {
	line := "auth ssh " + credHex + " " + strings.Join(attempts, " ")
	creds := unhexList(credHex)
	verdict := "ok"
	viol := func(sig, d string) {
		if verdict == "ok" {
			verdict = "viol:" + sig + ":" + d
		}
	}
	rec := newRecChannel()
	svc := newService("ssh-simulator", "credentials = "+qlist(creds)+"\n", rec)
	inSet := func(u, p string) bool {
		for _, c := range creds {
			if c == "*" || c == u+":"+p {
				return true
			}
		}
		return false
	}
	var outs []string
	for _, a := range attempts {
		pr := strings.SplitN(a, ":", 2)
		u, p := string(unhx(pr[0])), string(unhx(pr[1]))
		n0 := rec.Len()
		srv, cli := tcpPair()
		done := make(chan struct{})
		go func() { defer func() { recover(); close(done) }(); svc.Handle(context.Background(), srv) }()
		cc := &ssh.ClientConfig{User: u, Auth: []ssh.AuthMethod{ssh.Password(p)}, HostKeyCallback: ssh.InsecureIgnoreHostKey(), Timeout: 5 * time.Second}
		cli.SetDeadline(time.Now().Add(10 * time.Second))
		c, chans, reqs, err := ssh.NewClientConn(cli, "pipe", cc)
		ok := err == nil
		if err != nil && os.Getenv("HT_DEBUG") != "" {
			fmt.Fprintln(os.Stderr, "ssh client:", err)
		}
		if ok {
			go ssh.DiscardRequests(reqs)
			go func() {
				for range chans {
				}
			}()
			c.Close()
		}
		cli.Close()
		select {
		case <-done:
		case <-time.After(5 * time.Second):
		}
		outs = append(outs, b01(ok))
		if ok != inSet(u, p) {
			viol("ssh-login-decision-wrong", fmt.Sprintf("user %q password %q credentials %q: accepted=%v", u, p, creds, ok))
		}
		found := false
		for _, e := range rec.From(n0) {
			m := evMap(e)
			if fmt.Sprint(m["type"]) == "password-authentication" && fmt.Sprint(m["ssh.username"]) == u && fmt.Sprint(m["ssh.password"]) == p {
				found = true
			}
		}
		if !found {
			viol("ssh-attempt-without-event", fmt.Sprintf("user %q password %q", u, p))
		}
	}
	emit(line, strings.Join(outs, " "), verdict, len(creds) > 0)
}

// ---------- ldap ----------

func berLen(n int) []byte {
	if n < 128 {
		return []byte{byte(n)}
	}
	return []byte{0x81, byte(n)}
}

func berTLV(tag byte, v []byte) []byte { return append(append([]byte{tag}, berLen(len(v))...), v...) }

func ldapBindReq(id int, dn, pw string) []byte {
	body := append(berTLV(0x02, []byte{3}), berTLV(0x04, []byte(dn))...)
	body = append(body, berTLV(0x80, []byte(pw))...)
	msg := append(berTLV(0x02, []byte{byte(id)}), berTLV(0x60, body)...)
	return berTLV(0x30, msg)
}

func ldapOpReq(id int, appTag byte) []byte {
	inner := berTLV(0x04, []byte("cn=x,dc=example"))
	msg := append(berTLV(0x02, []byte{byte(id)}), berTLV(appTag, inner)...)
	return berTLV(0x30, msg)
}

// ldapResult reads one LDAPMessage from r and returns its result code (-1 on error).
func ldapResult(r *bufio.Reader) int {
	hdr := make([]byte, 2)
	if _, err := readFull(r, hdr); err != nil || hdr[0] != 0x30 {
		return -1
	}
	n := int(hdr[1])
	if hdr[1]&0x80 != 0 {
		k := int(hdr[1] & 0x7f)
		lb := make([]byte, k)
		if _, err := readFull(r, lb); err != nil {
			return -1
		}
		n = 0
		for _, b := range lb {
			n = n<<8 | int(b)
		}
	}
	body := make([]byte, n)
	if _, err := readFull(r, body); err != nil {
		return -1
	}
	// body: 02 len id | appTag len ( 0a 01 code ... )
	i := 2 + int(body[1])
	if i+4 >= len(body) {
		return -1
	}
	j := i + 2
	if body[i+1]&0x80 != 0 {
		j += int(body[i+1] & 0x7f)
	}
	if j+2 < len(body) && body[j] == 0x0a {
		return int(body[j+2])
	}
	return -1
}

func readFull(r *bufio.Reader, b []byte) (int, error) {
	n := 0
	for n < len(b) {
		k, err := r.Read(b[n:])
		n += k
		if err != nil {
			return n, err
		}
	}
	return n, nil
}

func normDNRef(dn string) string {
	if i := strings.Index(dn, ","); i > -1 {
		dn = dn[:i]
	}
	if strings.HasPrefix(dn, "cn=") || strings.HasPrefix(dn, "sn=") {
		dn = dn[3:]
	}
	return dn
}

func runLDAPAuth(credHex string, ops []string) {
	line := "auth ldap " + credHex + " " + strings.Join(ops, " ")
	creds := unhexList(credHex)
	verdict := "ok"
	viol := func(sig, d string) {
		if verdict == "ok" {
			verdict = "viol:" + sig + ":" + d
		}
	}
	rec := newRecChannel()
	svc := newService("ldap", "credentials = "+qlist(creds)+"\n", rec)
	srv, cli := tcpPair()
	done := make(chan struct{})
	go func() { defer func() { recover(); close(done) }(); svc.Handle(context.Background(), srv) }()
	rd := bufio.NewReader(cli)
	authed := false
	var outs []string
	gatedTags := []byte{0x68, 0x66, 0x4a, 0x6c, 0x6e} // add, modify, delete, modifyDN, compare
	for i, op := range ops {
		cli.SetDeadline(time.Now().Add(5 * time.Second))
		p := strings.Split(op, ":")
		switch p[0] {
		case "b":
			dn, pw := string(unhx(p[1])), string(unhx(p[2]))
			n0 := rec.Len()
			cli.Write(ldapBindReq(i+1, dn, pw))
			rc := ldapResult(rd)
			outs = append(outs, fmt.Sprint(rc))
			ndn := normDNRef(dn)
			in := false
			for _, c := range creds {
				if c == "*" || c == ndn+":"+pw {
					in = true
				}
			}
			anon := ndn == "" && pw == ""
			if !anon {
				if in != (rc == 0) {
					viol("ldap-login-decision-wrong", fmt.Sprintf("dn %q password %q credentials %q: result code %d", dn, pw, creds, rc))
				}
				if in {
					authed = true
				}
			} else {
				authed = false // an anonymous bind resets the authentication state
			}
			found := false
			for dl := time.Now().Add(2 * time.Second); !found && time.Now().Before(dl); time.Sleep(time.Millisecond) {
				for _, e := range rec.From(n0) {
					m := evMap(e)
					if fmt.Sprint(m["ldap.request-type"]) == "bind" && fmt.Sprint(m["ldap.username"]) == ndn && fmt.Sprint(m["ldap.password"]) == pw {
						found = true
					}
				}
			}
			if !found {
				viol("ldap-attempt-without-event", fmt.Sprintf("dn %q password %q", dn, pw))
			}
		case "g":
			cli.Write(ldapOpReq(i+1, gatedTags[i%len(gatedTags)]))
			rc := ldapResult(rd)
			outs = append(outs, fmt.Sprint(rc))
			if !authed && rc == 0 {
				viol("ldap-gated-operation-before-login", fmt.Sprintf("operation tag %#x answered success", gatedTags[i%len(gatedTags)]))
			}
			if authed && rc != 0 {
				viol("ldap-gated-operation-refused-after-login", fmt.Sprintf("result code %d", rc))
			}
		}
	}
	cli.Close()
	select {
	case <-done:
	case <-time.After(3 * time.Second):
	}
	emit(line, strings.Join(outs, " "), verdict, len(ops) > 1)
}

// ---------- ftp ----------

func runFTPAuth(ops []string) {
	line := "auth ftp " + strings.Join(ops, " ")
	verdict := "ok"
	viol := func(sig, d string) {
		if verdict == "ok" {
			verdict = "viol:" + sig + ":" + d
		}
	}
	rec := newRecChannel()
	root, _ := ioutil.TempDir("", "htverif-ftp-")
	defer os.RemoveAll(root)
	svc := newService("ftp", "fs_base = "+q(root)+"\n", rec)
	srv, cli := tcpPair()
	done := make(chan struct{})
	go func() { defer func() { recover(); close(done) }(); svc.Handle(context.Background(), srv) }()
	rd := bufio.NewReader(cli)
	readReply := func() int {
		cli.SetReadDeadline(time.Now().Add(5 * time.Second))
		for {
			l, err := rd.ReadString('\n')
			if err != nil {
				return -1
			}
			if len(l) >= 4 && l[3] == ' ' {
				var c int
				fmt.Sscanf(l[:3], "%d", &c)
				return c
			}
		}
	}
	readReply() // banner
	authed := false
	reqUser := ""
	gated := map[string]bool{"DELE": true, "RMD": true, "SIZE": true, "MDTM": true, "RNFR": true, "MKD": true, "XRMD": true, "STOR": true, "APPE": true, "RETR": true, "LIST": true, "NLST": true, "PWD": true, "XPWD": true, "CDUP": true, "XCUP": true, "CWD": true, "XCWD": true, "RNTO": true}
	var outs []string
	for _, op := range ops {
		p := strings.SplitN(op, ":", 2)
		cmd, param := p[0], string(unhx(p[1]))
		n0 := rec.Len()
		cli.SetWriteDeadline(time.Now().Add(5 * time.Second))
		l := cmd
		if param != "" {
			l += " " + param
		}
		cli.Write([]byte(l + "\r\n"))
		code := readReply()
		out := code
		switch {
		case code == 500 || code == 553 || code == 530 || code == 331 || code == 230 || code == -1:
		default:
			out = 0 // the command's Execute ran
		}
		outs = append(outs, fmt.Sprint(out))
		switch cmd {
		case "USER":
			if code == 331 {
				reqUser = param
			}
		case "PASS":
			want := reqUser == "anonymous" && param == "anonymous"
			if want != (code == 230) {
				viol("ftp-login-decision-wrong", fmt.Sprintf("user %q password %q: reply %d", reqUser, param, code))
			}
			if code == 230 {
				authed = true
				reqUser = ""
			}
			// the attempt is recorded: a command event carrying the password line
			found := false
			for dl := time.Now().Add(2 * time.Second); !found && time.Now().Before(dl); time.Sleep(time.Millisecond) {
				for _, e := range rec.From(n0) {
					if strings.Contains(fmt.Sprint(evMap(e)["ftp.command"]), "PASS "+param) || (param == "" && strings.HasPrefix(fmt.Sprint(evMap(e)["ftp.command"]), "PASS")) {
						found = true
					}
				}
			}
			if !found {
				viol("ftp-attempt-without-event", fmt.Sprintf("PASS %q", param))
			}
		default:
			if gated[cmd] && !authed && out == 0 {
				viol("ftp-gated-command-before-login", fmt.Sprintf("%s executed (reply %d)", cmd, code))
			}
			if gated[cmd] && authed && code == 530 {
				viol("ftp-gated-command-refused-after-login", cmd)
			}
		}
	}
	cli.Close()
	select {
	case <-done:
	case <-time.After(3 * time.Second):
	}
	emit(line, strings.Join(outs, " "), verdict, len(ops) > 1)
}

func genC12(tier string, seed uint64) {
	r := NewRng(seed)
	users := []string{"root", "admin", "guest", ""}
	passes := []string{"root", "admin", "123456", ""}
	var pairs []string
	for _, u := range users {
		for _, p := range passes {
			pairs = append(pairs, u+":"+p)
		}
	}
	credSets := [][]string{{}, {"*"}, {"root:root"}, {"admin:123456", "root:root"}, {":"}, {":123456"}, {"guest:"}, {"root:admin", "*"}, {"rootroot"}, {"a:b:c", "root:root"}, {"root:root", "root:admin", "guest:123456"}}
	// the same user with two or three passwords, in both orders; the same password for two users
	credSets = append(credSets, []string{"root:root", "root:admin"}, []string{"root:admin", "root:root"}, []string{"admin:", "admin:123456", "admin:admin"},
		[]string{":root", ":"}, []string{"root:123456", "guest:123456"}, []string{"guest:root", "root:root", "guest:admin"})
	for i := 0; i < 6; i++ {
		var cs []string
		for k := r.Intn(4); k > 0; k-- {
			cs = append(cs, pairs[r.Intn(len(pairs))])
		}
		credSets = append(credSets, cs)
	}
	att := func(u, p string) string { return hx([]byte(u)) + ":" + hx([]byte(p)) }
	// ssh: every credential set x all 16 attempts (one connection each)
	for _, cs := range credSets {
		var as []string
		for _, u := range users {
			for _, p := range passes {
				as = append(as, att(u, p))
			}
		}
		runSSHAuth(hexList(cs), as)
	}
	// ldap: credential sets x attempt sequences with gated probes before and after each attempt
	dns := func(u string) string {
		switch r.Intn(4) {
		case 0:
			return "cn=" + u + ",dc=example,dc=com"
		case 1:
			return "sn=" + u
		case 2:
			return u + ",ou=people"
		}
		return u
	}
	for _, cs := range credSets {
		nseq := 6
		if tier == "thorough" {
			nseq = 40
		}
		// all 16 single attempts
		for _, u := range users {
			for _, p := range passes {
				runLDAPAuth(hexList(cs), []string{"g", "b:" + hx([]byte(dns(u))) + ":" + hx([]byte(p)), "g"})
			}
		}
		for i := 0; i < nseq; i++ {
			ops := []string{"g"}
			for k := 1 + r.Intn(4); k > 0; k-- {
				u, p := users[r.Intn(4)], passes[r.Intn(4)]
				if len(cs) > 0 && r.Intn(3) == 0 && strings.Count(cs[0], ":") == 1 {
					pr := strings.SplitN(cs[0], ":", 2)
					u, p = pr[0], pr[1]
				}
				ops = append(ops, "b:"+hx([]byte(dns(u)))+":"+hx([]byte(p)), "g")
			}
			runLDAPAuth(hexList(cs), ops)
		}
	}
	// ftp: USER/PASS sequences with gated probes (CWD/CDUP are left out: see C01)
	probes := []string{"DELE:" + hx([]byte("nofile")), "SIZE:" + hx([]byte("nofile")), "MDTM:" + hx([]byte("nofile")), "RNFR:" + hx([]byte("nofile")), "RMD:" + hx([]byte("nodir")), "PWD:-", "NOOP:-", "SYST:-", "FEAT:-", "XPWD:-", "BOGUS:-", "RETR:" + hx([]byte("nofile"))}
	ftpUsers := []string{"anonymous", "root", "admin", "Anonymous", ""}
	ftpPasses := []string{"anonymous", "root", "x@y", ""}
	for _, u := range ftpUsers {
		for _, p := range ftpPasses {
			ops := []string{probes[r.Intn(len(probes))], "USER:" + hx([]byte(u)), probes[r.Intn(len(probes))], "PASS:" + hx([]byte(p)), probes[0], probes[r.Intn(len(probes))]}
			runFTPAuth(ops)
		}
	}
	nf := 20
	if tier == "thorough" {
		nf = 300
	}
	for i := 0; i < nf; i++ {
		var ops []string
		for k := 2 + r.Intn(8); k > 0; k-- {
			switch r.Intn(4) {
			case 0:
				ops = append(ops, "USER:"+hx([]byte(ftpUsers[r.Intn(len(ftpUsers))])))
			case 1:
				ops = append(ops, "PASS:"+hx([]byte(ftpPasses[r.Intn(len(ftpPasses))])))
			default:
				ops = append(ops, probes[r.Intn(len(probes))])
			}
		}
		runFTPAuth(ops)
	}
	// every command of the table before any login: none of the file/directory commands may execute
	for _, c := range []string{"CWD", "XCWD", "CDUP", "XCUP", "PWD", "XPWD", "MKD", "RMD", "XRMD", "DELE", "RNFR", "RNTO", "STOR", "APPE", "RETR", "LIST", "NLST", "MDTM", "SIZE", "PASV", "EPSV", "PORT", "EPRT", "REST"} {
		runFTPAuth([]string{c + ":" + hx([]byte("x"))})
	}
}
