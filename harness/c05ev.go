package main

import (
	"encoding/hex"
	"encoding/json"
	"fmt"
	"net"
	"sort"
	"strings"

	"github.com/honeytrap/honeytrap/event"
)

// C05: event/event.go, event/map.go against HT.Ev.
//
// ev payload <hex> | ev addr <src|dst> <tcp|udp|other> <ip> <port> | ev merge|copy <k=v,..|-> <k=v,..|->
// "@serialise" : every event captured while running the other streams' service scenarios is marshalled

func init() {
	register(&Stream{Name: "c05ev", Gen: genC05, Replay: func(l string) {
		f := strings.Fields(l)
		if len(f) >= 2 && f[0] == "ev" {
			runEv(f[1:])
		}
	}})
}

func evToStrings(e event.Event) map[string]string {
	m := map[string]string{}
	for k, v := range event.ToMap(e) {
		if k == "date" {
			continue
		}
		m[k] = fmt.Sprint(v)
	}
	return m
}

func showKV(m map[string]string) string {
	var ks []string
	for k := range m {
		ks = append(ks, k)
	}
	sort.Strings(ks)
	var p []string
	for _, k := range ks {
		p = append(p, k+"="+m[k])
	}
	if len(p) == 0 {
		return "-"
	}
	return strings.Join(p, ",")
}

func parseKV(s string) map[string]interface{} {
	m := map[string]interface{}{}
	if s == "-" {
		return m
	}
	for _, p := range strings.Split(s, ",") {
		kv := strings.SplitN(p, "=", 2)
		m[kv[0]] = kv[1]
	}
	return m
}

// jsonCheck: the event marshals, and the JSON object has exactly the stored keys.
func jsonCheck(e event.Event) string {
	b, err := json.Marshal(e)
	if err != nil {
		return "event-not-serialisable:" + err.Error()
	}
	b2, err := json.Marshal(event.ToMap(e))
	if err != nil {
		return "event-not-serialisable:" + err.Error()
	}
	var m1, m2 map[string]interface{}
	if json.Unmarshal(b, &m1) != nil || json.Unmarshal(b2, &m2) != nil {
		return "event-json-not-an-object:"
	}
	stored := event.ToMap(e)
	for k := range stored {
		if _, ok := m1[k]; !ok {
			return "json-lacks-stored-key:" + k
		}
		if _, ok := m2[k]; !ok {
			return "json-lacks-stored-key:" + k
		}
	}
	if len(m1) != len(stored) {
		return "json-has-extra-keys:"
	}
	return ""
}

func runEv(f []string) {
	line := "ev " + strings.Join(f, " ")
	verdict := "ok"
	viol := func(s string) {
		if verdict == "ok" && s != "" {
			verdict = "viol:" + s
		}
	}
	impl := ""
	switch f[0] {
	case "payload":
		data := unhx(f[1])
		e := event.New(event.Payload(data))
		m := event.ToMap(e)
		hxs, _ := m["payload-hex"].(string)
		dec, err := hex.DecodeString(hxs)
		decS := "undecodable"
		if err == nil {
			decS = hx(dec)
		}
		h := hxs
		if h == "" {
			h = "-"
		}
		impl = fmt.Sprintf("hex=%s len=%v dec=%s", h, m["payload-length"], decS)
		if err != nil || string(dec) != string(data) {
			viol(fmt.Sprintf("payload-hex-not-exact:%d bytes in, hex field decodes to %d bytes", len(data), len(dec)))
		}
		if n, ok := m["payload-length"].(int); !ok || n != len(data) {
			viol(fmt.Sprintf("payload-length-wrong:%v for %d bytes", m["payload-length"], len(data)))
		}
		viol(jsonCheck(e))
		// through JSON and back
		if b, err := json.Marshal(e); err == nil {
			var back map[string]interface{}
			json.Unmarshal(b, &back)
			d2, _ := hex.DecodeString(fmt.Sprint(back["payload-hex"]))
			if string(d2) != string(data) {
				viol("payload-hex-not-exact:after JSON round trip")
			}
		}
	case "addr":
		var port int
		fmt.Sscan(f[4], &port)
		var a net.Addr
		switch f[2] {
		case "tcp":
			a = &net.TCPAddr{IP: net.ParseIP(f[3]), Port: port}
		case "udp":
			a = &net.UDPAddr{IP: net.ParseIP(f[3]), Port: port}
		default:
			a = &net.UnixAddr{Name: "/x", Net: "unix"}
		}
		var e event.Event
		pre := "source"
		if f[1] == "src" {
			e = event.New(event.SourceAddr(a))
		} else {
			e = event.New(event.DestinationAddr(a))
			pre = "destination"
		}
		m := evToStrings(e)
		impl = showKV(m)
		if f[2] == "tcp" || f[2] == "udp" {
			if m[pre+"-ip"] != net.ParseIP(f[3]).String() || m[pre+"-port"] != fmt.Sprint(port) {
				viol("address-not-exact:" + impl)
			}
		} else if len(m) != 0 {
			viol("address-for-other-kind:" + impl)
		}
		viol(jsonCheck(e))
	case "merge", "copy":
		var opts []event.Option
		existing := parseKV(f[1])
		for k, v := range existing {
			opts = append(opts, event.Custom(k, v))
		}
		data := parseKV(f[2])
		if f[0] == "merge" {
			opts = append(opts, event.MergeFrom(data))
		} else {
			opts = append(opts, event.CopyFrom(data))
		}
		e := event.New(opts...)
		m := evToStrings(e)
		impl = showKV(m)
		for k, v := range existing {
			_, inData := data[k]
			want := fmt.Sprint(v)
			if f[0] == "copy" && inData {
				want = fmt.Sprint(data[k])
			}
			if m[k] != want {
				viol(fmt.Sprintf("%s-semantics-wrong:key %s is %q, want %q", f[0], k, m[k], want))
			}
		}
		for k, v := range data {
			if _, had := existing[k]; !had && m[k] != fmt.Sprint(v) {
				viol(fmt.Sprintf("%s-semantics-wrong:new key %s is %q", f[0], k, m[k]))
			}
		}
		viol(jsonCheck(e))
	}
	emit(line, impl, verdict, len(f[1]) > 2)
}

func genC05(tier string, seed uint64) {
	r := NewRng(seed)
	// all single bytes, all 2-byte strings (exhaustive), longer sampled up to 64 KiB incl. invalid UTF-8
	runEv([]string{"payload", "-"})
	for a := 0; a < 256; a++ {
		runEv([]string{"payload", hx([]byte{byte(a)})})
	}
	step := 1
	if tier != "thorough" {
		step = 7
	}
	for v := 0; v < 65536; v += step {
		runEv([]string{"payload", hx([]byte{byte(v >> 8), byte(v)})})
	}
	for _, n := range []int{3, 16, 255, 256, 1024, 8191, 8192, 8193, 20000, 65535, 65536} {
		runEv([]string{"payload", hx(r.Bytes(n))})
		runEv([]string{"payload", hx(r.Bytes(3))}) // a small one after a large one
	}
	for i := 0; i < 200; i++ {
		runEv([]string{"payload", hx(r.Bytes(r.Intn(300)))})
	}
	// addresses
	for _, side := range []string{"src", "dst"} {
		for _, kind := range []string{"tcp", "udp", "other"} {
			for _, ip := range []string{"127.0.0.1", "10.1.2.3", "::1", "2001:db8::5", "0.0.0.0", "255.255.255.255"} {
				for _, port := range []int{0, 1, 80, 40123, 65535} {
					runEv([]string{"addr", side, kind, ip, fmt.Sprint(port)})
				}
			}
		}
	}
	// merge / copy over small key sets (incl. empty-string values)
	keys := []string{"a", "b", "c", "category"}
	valsA, valsB := []string{"1", "", "x"}, []string{"2", "", "y"}
	for mask1 := 0; mask1 < 16; mask1++ {
		for mask2 := 0; mask2 < 16; mask2++ {
			var ex, da []string
			for i, k := range keys {
				if mask1>>uint(i)&1 == 1 {
					ex = append(ex, k+"="+valsA[(i+mask2)%3])
				}
				if mask2>>uint(i)&1 == 1 {
					da = append(da, k+"="+valsB[(i+mask1)%3])
				}
			}
			j := func(x []string) string {
				if len(x) == 0 {
					return "-"
				}
				return strings.Join(x, ",")
			}
			runEv([]string{"merge", j(ex), j(da)})
			runEv([]string{"copy", j(ex), j(da)})
		}
	}
	// merge must keep existing keys whatever their value type
	{
		e := event.New(event.SourcePort(40123), event.Custom("flag", true), event.Custom("n", 7), event.Category("dns"), event.Payload([]byte("xyz")),
			event.MergeFrom(map[string]interface{}{"source-port": 1, "flag": false, "n": 8, "category": "other", "payload-length": 99, "new": "v"}))
		m := evToStrings(e)
		verdict := "ok"
		if m["source-port"] != "40123" || m["flag"] != "true" || m["n"] != "7" || m["category"] != "dns" || m["payload-length"] != "3" || m["new"] != "v" {
			verdict = "viol:merge-semantics-wrong:existing non-string keys were overwritten: " + showKV(m)
		}
		emit("@merge-typed", showKV(m), verdict, true)
	}
	// every event the service scenarios of the other streams produce serialises, with all its keys
	allRecsMu.Lock()
	collecting, allRecs = true, nil
	allRecsMu.Unlock()
	runLim("tftp", []string{"10.0.0.1:rrq", "10.0.0.1:wrq@5000", "10.0.0.1:data@5000"}, false)
	runLim("memcached", []string{"10.0.0.1:sfgt"}, false)
	runLim("snmp", []string{"10.0.0.1:get", "10.0.0.1:v2"}, false)
	runLim("counterstrike", []string{"10.0.0.1:info", "10.0.0.1:player"}, false)
	runSSHAuth(hexList([]string{"root:root"}), []string{hx([]byte("root")) + ":" + hx([]byte("root")), hx([]byte("x")) + ":" + hx([]byte("\xff\x00y"))})
	runLDAPAuth(hexList([]string{"root:root"}), []string{"g", "b:" + hx([]byte("cn=root,dc=x")) + ":" + hx([]byte("root")), "g"})
	runFTPAuth([]string{"USER:" + hx([]byte("anonymous")), "PASS:" + hx([]byte("anonymous")), "SYST:-", "DELE:" + hx([]byte("nofile"))})
	runJA3(hello{version: 0x0303, ciphers: []int{0xc02b}}, 0)
	allRecsMu.Lock()
	collecting = false
	recs := allRecs
	allRecsMu.Unlock()
	n, bad := 0, ""
	cats := map[string]bool{}
	for _, rc := range recs {
		for _, e := range rc.From(0) {
			n++
			cats[fmt.Sprint(event.ToMap(e)["category"])] = true
			if s := jsonCheck(e); s != "" && bad == "" {
				bad = s + " in " + showKV(evToStrings(e))
			}
		}
	}
	var cl []string
	for c := range cats {
		cl = append(cl, c)
	}
	sort.Strings(cl)
	verdict := "ok"
	if bad != "" {
		verdict = "viol:" + bad
	}
	emit("@serialise", fmt.Sprintf("events=%d categories=%s", n, strings.Join(cl, ",")), verdict, n > 5)
}
