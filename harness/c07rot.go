package main

import (
	"bytes"
	"fmt"
	"io/ioutil"
	"os"
	"path/filepath"
	"sort"
	"strings"
	"time"

	"github.com/honeytrap/honeytrap/event"
	"github.com/honeytrap/honeytrap/pushers"
	fschannel "github.com/honeytrap/honeytrap/pushers/file"
)

// C07: pushers/file/rotatefile.go + file.go against HT.Rot.
//
// case line: rot <max> <init> op ...     ops: w:<l1>,<l2>,..  h:<hex>  rm
// output:    r=[size/lines,...] cur=size/lines          (rotated files in creation order)
//
// end-to-end cases ("@e2e ..."/"@unwritable") run the real channel (New, Send, 1 s flush) with the oracle only.

func init() {
	register(&Stream{Name: "c07rot", Gen: genC07, Replay: func(l string) {
		f := strings.Fields(l)
		switch {
		case len(f) >= 3 && (f[0] == "rot" || f[0] == "@rot"):
			runRot(f[1], f[2], f[3:])
		case len(f) >= 1 && f[0] == "@e2e":
			runE2E(f[1:])
		case len(f) >= 1 && f[0] == "@unwritable":
			runUnwritable()
		case len(f) >= 1 && f[0] == "@dirfault":
			runDirFault()
		}
	}})
}

func mkLine(n int) []byte {
	if n <= 0 {
		return nil
	}
	b := bytes.Repeat([]byte{'x'}, n-1)
	return append(b, '\n')
}

func parseOp(op string) ([]byte, bool) {
	switch {
	case strings.HasPrefix(op, "w:"):
		var b []byte
		for _, t := range strings.Split(op[2:], ",") {
			var n int
			fmt.Sscan(t, &n)
			b = append(b, mkLine(n)...)
		}
		return b, true
	case strings.HasPrefix(op, "h:"):
		return unhx(op[2:]), true
	}
	return nil, false
}

func runRot(maxS, initS string, ops []string) {
	line := "rot " + maxS + " " + initS + " " + strings.Join(ops, " ")
	var max, init int
	fmt.Sscan(maxS, &max)
	fmt.Sscan(initS, &init)
	hasMv := false
	for _, op := range ops {
		if op == "mv" {
			hasMv = true
		}
	}
	if max > 8192 || hasMv {
		// large files: implementation + oracle only (the list-based Lean model is quadratic); external renames of the
		// active file are not in the model's alphabet
		line = "@" + line
	}
	verdict := "ok"
	viol := func(sig, d string) {
		if verdict == "ok" {
			verdict = "viol:" + sig + ":" + d
		}
	}
	dir, err := ioutil.TempDir("", "htverif-c07-")
	if err != nil {
		emit(line, "harness-error", "ok", false)
		return
	}
	defer os.RemoveAll(dir)
	path := filepath.Join(dir, "events.log")
	var want []byte // bytes that must be found, in order, across rotated files + active file
	if init > 0 {
		ioutil.WriteFile(path, mkLine(init), 0600)
		want = append(want, mkLine(init)...)
	}
	var order []string // rotated files in creation order
	known := map[string]bool{}
	scan := func() {
		fis, _ := ioutil.ReadDir(dir)
		var names []string
		for _, fi := range fis {
			if fi.Name() != "events.log" && !known[fi.Name()] {
				names = append(names, fi.Name())
			}
		}
		sort.Slice(names, func(i, j int) bool { return rotKey(names[i]) < rotKey(names[j]) })
		for _, n := range names {
			known[n] = true
			order = append(order, n)
		}
	}
	impl := ""
	func() {
		defer func() {
			if r := recover(); r != nil {
				impl = "panic"
				viol("rotatefile-panic", fmt.Sprint(r))
			}
		}()
		rf, err := fschannel.OpenRotateFile(path, 0600, int64(max))
		if err != nil {
			impl = "open-error"
			viol("open-failed", err.Error())
			return
		}
		defer rf.Close()
		scan()
		for _, op := range ops {
			if op == "rm" {
				os.Remove(path)
				// what the removed active file held is gone by the operator's hand, not the channel's
				cur := activeExpectation(want, order, dir)
				want = want[:len(want)-cur]
				continue
			}
			if op == "mv" {
				// the operator moves the active file away (as a log rotation tool does): what it holds stays there
				moved := fmt.Sprintf("moved.%d", len(order))
				if os.Rename(path, filepath.Join(dir, moved)) == nil {
					known[moved] = true
					order = append(order, moved)
				}
				continue
			}
			p, ok := parseOp(op)
			if !ok {
				continue
			}
			done := make(chan struct{})
			var n int
			var werr error
			go func() { n, werr = rf.Write(p); close(done) }()
			select {
			case <-done:
			case <-time.After(20 * time.Second):
				viol("write-does-not-return", op)
				impl = "hang"
				return
			}
			if werr != nil || n != len(p) {
				viol("write-short-or-error", fmt.Sprintf("%s: n=%d len=%d err=%v", op, n, len(p), werr))
			}
			want = append(want, p...)
			scan()
		}
		rf.Sync()
	}()
	if impl != "" {
		emit(line, impl, verdict, true)
		return
	}
	var parts []string
	var got []byte
	lineAligned := strings.HasSuffix(string(want), "\n") || len(want) == 0
	check := func(name string, b []byte) string {
		got = append(got, b...)
		nl := bytes.Count(b, []byte{'\n'})
		if lineAligned && !strings.Contains(line, " h:") {
			if len(b) > 0 && b[len(b)-1] != '\n' {
				viol("line-cut-by-rotation", name)
			}
			if len(b) > max && nl != 1 {
				viol("file-exceeds-max-size", fmt.Sprintf("%s: %d bytes, %d lines, max %d", name, len(b), nl, max))
			}
		}
		return fmt.Sprintf("%d/%d", len(b), nl)
	}
	for _, n := range order {
		b, _ := ioutil.ReadFile(filepath.Join(dir, n))
		parts = append(parts, check(n, b))
	}
	cur, _ := ioutil.ReadFile(path)
	curS := check("events.log", cur)
	if !bytes.Equal(got, want) {
		viol("log-content-differs", fmt.Sprintf("wrote %d bytes, files hold %d bytes (first difference at %d)", len(want), len(got), firstDiff(got, want)))
	}
	emit(line, fmt.Sprintf("r=[%s] cur=%s", strings.Join(parts, ","), curS), verdict, len(order) > 0)
}

// rotKey orders rotated names by timestamp, then by collision counter (numerically).
func rotKey(name string) string {
	p := strings.Split(strings.TrimPrefix(name, "events.log."), ".")
	c := 0
	if len(p) > 1 {
		fmt.Sscan(p[1], &c)
	}
	return fmt.Sprintf("%s.%09d", p[0], c)
}

// activeExpectation: how many of the expected bytes are in the active file (= total expected minus the rotated files' sizes).
func activeExpectation(want []byte, order []string, dir string) int {
	total := 0
	for _, n := range order {
		if fi, err := os.Stat(filepath.Join(dir, n)); err == nil {
			total += int(fi.Size())
		}
	}
	if total > len(want) {
		return 0
	}
	return len(want) - total
}

func firstDiff(a, b []byte) int {
	for i := 0; i < len(a) && i < len(b); i++ {
		if a[i] != b[i] {
			return i
		}
	}
	if len(a) < len(b) {
		return len(a)
	}
	return len(b)
}

func withPath(p string) func(pushers.Channel) error {
	return func(f pushers.Channel) error { f.(*fschannel.FileBackend).File = p; return nil }
}
func withMax(m int64) func(pushers.Channel) error {
	return func(f pushers.Channel) error { f.(*fschannel.FileBackend).MaxSize = m; return nil }
}

// runE2E: events of given payload sizes through New/Send, waits for the flush, reads the files back.
func runE2E(args []string) {
	line := "@e2e " + strings.Join(args, " ")
	verdict := "ok"
	viol := func(sig, d string) {
		if verdict == "ok" {
			verdict = "viol:" + sig + ":" + d
		}
	}
	var max int
	fmt.Sscan(args[0], &max)
	dir, _ := ioutil.TempDir("", "htverif-c07-")
	defer os.RemoveAll(dir)
	ch, err := fschannel.New(withPath(filepath.Join(dir, "e.log")), withMax(int64(max)))
	if err != nil {
		emit(line, "new-error", "ok", false)
		return
	}
	sent := 0
	for gi, grp := range args[1:] {
		if gi > 0 {
			time.Sleep(1300 * time.Millisecond) // separate flushes
		}
		for _, t := range strings.Split(grp, ",") {
			var n int
			fmt.Sscan(t, &n)
			done := make(chan struct{})
			go func() {
				ch.Send(event.New(event.Custom("seq", sent), event.Custom("pad", strings.Repeat("p", n))))
				close(done)
			}()
			select {
			case <-done:
			case <-time.After(10 * time.Second):
				viol("send-blocks", fmt.Sprintf("event %d", sent))
				emit(line, "send-blocked", verdict, true)
				return
			}
			sent++
		}
	}
	time.Sleep(1500 * time.Millisecond)
	fis, _ := ioutil.ReadDir(dir)
	seen := map[string]int{}
	files := 0
	for _, fi := range fis {
		b, _ := ioutil.ReadFile(filepath.Join(dir, fi.Name()))
		files++
		lines := strings.Split(string(b), "\n")
		if len(b) > 0 && b[len(b)-1] != '\n' {
			viol("line-cut-by-rotation", fi.Name())
		}
		nl := 0
		for _, l := range lines {
			if l == "" {
				continue
			}
			nl++
			i := strings.Index(l, `"seq":`)
			if !strings.HasPrefix(l, "{") || !strings.HasSuffix(l, "}") || i < 0 {
				viol("line-not-json", fi.Name()+": "+l[:minInt(40, len(l))])
				continue
			}
			var seq int
			fmt.Sscanf(l[i+6:], "%d", &seq)
			seen[fmt.Sprint(seq)]++
		}
		if len(b) > max && nl != 1 {
			viol("file-exceeds-max-size", fmt.Sprintf("%s: %d bytes %d lines", fi.Name(), len(b), nl))
		}
	}
	for i := 0; i < sent; i++ {
		if c := seen[fmt.Sprint(i)]; c != 1 {
			viol("event-not-exactly-once", fmt.Sprintf("event %d appears %d times", i, c))
		}
	}
	emit(line, fmt.Sprintf("events=%d ok", sent), verdict, files > 1)
}

func runUnwritable() {
	verdict := "ok"
	ch, err := fschannel.New(withPath("/nonexistent-dir-htverif/x/e.log"), withMax(1024))
	impl := "returns"
	if err == nil {
		for i := 0; i < 3; i++ {
			done := make(chan struct{})
			go func() { ch.Send(event.New()); close(done) }()
			select {
			case <-done:
			case <-time.After(5 * time.Second):
				verdict = "viol:send-blocks-forever:unwritable destination"
				impl = "blocked"
			}
			if impl == "blocked" {
				break
			}
		}
	}
	emit("@unwritable", impl, verdict, true)
}

// runDirFault: the log directory disappears while the channel runs (every flush and re-open fails), later it is
// back. Sends must keep returning, and events sent after the directory is back must be stored.
func runDirFault() {
	verdict := "ok"
	impl := "returns"
	dir, _ := ioutil.TempDir("", "htverif-c07-")
	defer os.RemoveAll(dir)
	sub := filepath.Join(dir, "logs")
	os.Mkdir(sub, 0700)
	ch, err := fschannel.New(withPath(filepath.Join(sub, "e.log")), withMax(1024))
	if err != nil {
		emit("@dirfault", "new-error", "ok", false)
		return
	}
	send := func(seq int) bool {
		done := make(chan struct{})
		go func() { ch.Send(event.New(event.Custom("seq", seq))); close(done) }()
		select {
		case <-done:
			return true
		case <-time.After(8 * time.Second):
			return false
		}
	}
	send(0)
	time.Sleep(1300 * time.Millisecond)
	os.RemoveAll(sub)
	for i := 1; i <= 3; i++ {
		if !send(i) {
			verdict = fmt.Sprintf("viol:send-blocks-forever:event %d after the log directory was removed", i)
			impl = "blocked"
			break
		}
		time.Sleep(1300 * time.Millisecond)
	}
	if impl != "blocked" {
		os.Mkdir(sub, 0700)
		for i := 10; i <= 12; i++ {
			if !send(i) {
				verdict = fmt.Sprintf("viol:send-blocks-forever:event %d after the log directory came back", i)
				impl = "blocked"
				break
			}
		}
		time.Sleep(1500 * time.Millisecond)
		if impl != "blocked" {
			var all []byte
			fis, _ := ioutil.ReadDir(sub)
			for _, fi := range fis {
				b, _ := ioutil.ReadFile(filepath.Join(sub, fi.Name()))
				all = append(all, b...)
			}
			for i := 10; i <= 12; i++ {
				if c := strings.Count(string(all), fmt.Sprintf(`"seq":%d`, i)); c != 1 {
					verdict = fmt.Sprintf("viol:event-not-exactly-once:event %d sent after the directory came back appears %d times", i, c)
				}
			}
		}
	}
	emit("@dirfault", impl, verdict, true)
}

func genC07(tier string, seed uint64) {
	r := NewRng(seed)
	max := 1024
	// boundary batches around max = 1024 (each entry is one Write)
	shapes := []string{"1", "2", "100", "511", "512", "513", "1023", "1024", "1025", "2500",
		"500,523", "500,524", "500,525", "1000,100", "100,1000", "300,300,300,300", "1024,1024", "1,1,1", "1025,10", "10,1025,10",
		"1023,1", "1022,1,1", "600,600", "2048,1"}
	depth := 2
	if tier == "thorough" {
		depth = 3
	}
	var cur []string
	var rec func()
	rec = func() {
		if len(cur) > 0 {
			ops := make([]string, len(cur))
			for i, s := range cur {
				ops[i] = "w:" + s
			}
			runRot("1024", "0", ops)
		}
		if len(cur) == depth {
			return
		}
		for _, s := range shapes {
			cur = append(cur, s)
			rec()
			cur = cur[:len(cur)-1]
		}
	}
	rec()
	// pre-existing files, incl. at and beyond the limit
	for _, init := range []int{1, 500, 1023, 1024, 1025, 3000} {
		for _, s := range []string{"1", "100", "600", "1024", "500,600"} {
			runRot("1024", fmt.Sprint(init), []string{"w:" + s, "w:" + s})
		}
	}
	// sampled: longer sequences (up to 6 writes and beyond), other sizes, many rotations within one second, removal
	n := 400
	if tier == "thorough" {
		n = 6000
	}
	for i := 0; i < n; i++ {
		m := r.Pick([]int{1024, 1024, 4096, 1 << 20})
		k := 1 + r.Intn(8)
		var ops []string
		for j := 0; j < k; j++ {
			if r.Intn(12) == 0 {
				ops = append(ops, "rm")
				continue
			}
			if i%3 == 0 && r.Intn(10) == 0 {
				ops = append(ops, "mv")
				continue
			}
			var ls []string
			for b := 1 + r.Intn(6); b > 0; b-- {
				var l int
				switch r.Intn(5) {
				case 0:
					l = 1 + r.Intn(20)
				case 1:
					l = m/2 + r.Intn(5) - 2
				case 2:
					l = m + r.Intn(5) - 2
				case 3:
					l = 1 + r.Intn(m)
				default:
					l = 100 + r.Intn(300)
				}
				if m == 1<<20 && r.Intn(4) != 0 {
					l = 1 + r.Intn(300000)
				}
				ls = append(ls, fmt.Sprint(l))
			}
			ops = append(ops, "w:"+strings.Join(ls, ","))
		}
		runRot(fmt.Sprint(m), fmt.Sprint(r.Pick([]int{0, 0, 0, 10, m - 1, m})), ops)
	}
	// raw writes that are not line-aligned (content preservation only)
	for i := 0; i < 40; i++ {
		var ops []string
		for j := 1 + r.Intn(4); j > 0; j-- {
			b := r.Bytes(1 + r.Intn(1500))
			ops = append(ops, "h:"+hx(b))
		}
		runRot(fmt.Sprint(max), "0", ops)
	}
	// end-to-end through the channel (real 1 s flush) and the unwritable destination
	runE2E([]string{"1024", "10,300,900,50", "700,700", "1200,5"})
	// a burst larger than the channel's 500 KiB write-behind buffer, into small files: what is handed to the
	// rotating file must still be whole lines
	{
		var burst []string
		for i := 0; i < 420; i++ {
			burst = append(burst, fmt.Sprint(1200+r.Intn(600)))
		}
		// every event larger than the maximum size: a file of its own each, so a hand-over inside an event
		// always meets a rotation
		runE2E([]string{"1024", strings.Join(burst, ",")})
	}
	runUnwritable()
	runDirFault()
	if tier == "thorough" {
		runE2E([]string{"4096", "100,100,100,3000,3000", "5000", "10,10,10"})
		var big []string
		for i := 0; i < 3000; i++ {
			big = append(big, fmt.Sprint(r.Intn(400)))
		}
		runE2E([]string{"1048576", strings.Join(big, ",")})
	}
}
