package main

import (
	"bufio"
	"bytes"
	"context"
	"fmt"
	"io/ioutil"
	"net/http"
	"strings"
	"time"

	"github.com/honeytrap/honeytrap/services"
	"github.com/honeytrap/honeytrap/services/ipp"
)

// C17 (IPP part): services/ipp against HT.Ipp.
//
// ipp dec <request hex>                  : the real ippMsg.decode (verif hook) -> rendering | error
// ipp reply <request hex> <model hex>    : the real service Handle over a loopback TCP pair, HTTP POST ->
//                                          "<reply hex> u<uri> n<user> j<job> d<data>" | error
//
// Structured requests come from an encoder written here (RFC 8010 layout), independent of the service's.

type ippAttr struct {
	kind  byte // 'i' 's' 'b' 'r'
	tag   byte
	name  string
	ints  []uint32
	strs  []string
	bools []bool
}

type ippGroup struct {
	tag   byte
	attrs []ippAttr
}

type ippReq struct {
	maj, min byte
	op       uint16
	rid      uint32
	groups   []ippGroup
	data     []byte
	noEnd    bool
}

func put16(b *bytes.Buffer, v int) { b.WriteByte(byte(v >> 8)); b.WriteByte(byte(v)) }
func put32(b *bytes.Buffer, v uint32) {
	b.WriteByte(byte(v >> 24))
	b.WriteByte(byte(v >> 16))
	b.WriteByte(byte(v >> 8))
	b.WriteByte(byte(v))
}

func (a ippAttr) nvals() int {
	switch a.kind {
	case 'i':
		return len(a.ints)
	case 's':
		return len(a.strs)
	case 'b':
		return len(a.bools)
	}
	return 1
}

func (q *ippReq) encode() []byte {
	var b bytes.Buffer
	b.WriteByte(q.maj)
	b.WriteByte(q.min)
	put16(&b, int(q.op))
	put32(&b, q.rid)
	for _, g := range q.groups {
		b.WriteByte(g.tag)
		for _, a := range g.attrs {
			for i := 0; i < a.nvals(); i++ {
				b.WriteByte(a.tag)
				if i == 0 {
					put16(&b, len(a.name))
					b.WriteString(a.name)
				} else {
					put16(&b, 0)
				}
				switch a.kind {
				case 'i':
					put16(&b, 4)
					put32(&b, a.ints[i])
				case 's':
					put16(&b, len(a.strs[i]))
					b.WriteString(a.strs[i])
				case 'b':
					put16(&b, 1)
					if a.bools[i] {
						b.WriteByte(1)
					} else {
						b.WriteByte(0)
					}
				case 'r':
					put16(&b, 8)
					put32(&b, a.ints[0])
					put32(&b, a.ints[1])
				}
			}
		}
	}
	if !q.noEnd {
		b.WriteByte(3)
	}
	b.Write(q.data)
	return b.Bytes()
}

// render: what the decoder must produce for this request (the statement of the property)
func (q *ippReq) render() string {
	parts := []string{fmt.Sprintf("v%d.%d", q.maj, q.min), fmt.Sprintf("op=%d", q.op), fmt.Sprintf("rid=%d", q.rid)}
	for _, g := range q.groups {
		var vals []string
		for _, a := range g.attrs {
			var p []string
			switch a.kind {
			case 'i':
				for _, x := range a.ints {
					p = append(p, fmt.Sprint(x))
				}
			case 's':
				for _, x := range a.strs {
					p = append(p, hx([]byte(x)))
				}
			case 'b':
				for _, x := range a.bools {
					p = append(p, b01(x))
				}
			case 'r':
				vals = append(vals, fmt.Sprintf("r%d:%s=%d-%d", a.tag, hx([]byte(a.name)), a.ints[0], a.ints[1]))
				continue
			}
			vals = append(vals, fmt.Sprintf("%c%d:%s=%s", a.kind, a.tag, hx([]byte(a.name)), strings.Join(p, ",")))
		}
		parts = append(parts, fmt.Sprintf("g%d[%s]", g.tag, strings.Join(vals, ";")))
	}
	parts = append(parts, "data="+hx(q.data))
	return strings.Join(parts, " ")
}

// expected event fields of a print job: first value of the last string attribute of that name in the first
// operation group
func (q *ippReq) field(name string) string {
	if q.op != 2 {
		return ""
	}
	for _, g := range q.groups {
		if g.tag == 1 {
			v := ""
			for _, a := range g.attrs {
				if a.kind == 's' && a.name == name {
					v = a.strs[0]
				}
			}
			return v
		}
	}
	return ""
}

func ippDecodeGuarded(raw []byte) (string, bool) {
	ch := make(chan string, 1)
	go func() {
		defer func() {
			if r := recover(); r != nil {
				ch <- "panic"
			}
		}()
		ch <- ipp.VerifDecode(raw)
	}()
	select {
	case s := <-ch:
		return s, true
	case <-time.After(3 * time.Second):
		return "hang", false
	}
}

var (
	ippSvc services.Servicer
	ippCh  *recChannel
)

func ippService() {
	if ippSvc == nil {
		ippCh = newRecChannel()
		ippSvc = newService("ipp", "", ippCh)
	}
}

// runIppDec: q may be nil (raw bytes only, e.g. malformed input)
func runIppDec(raw []byte, q *ippReq) {
	line := "ipp dec " + hx(raw)
	got, done := ippDecodeGuarded(raw)
	verdict := "ok"
	if !done {
		verdict = "viol:ipp-decode-does-not-terminate:decode of a " + itoa(len(raw)) + "-byte body still running after 3 s"
		emit(line, got, verdict, false)
		out.Flush()
		// the runaway decode keeps allocating: stop here, the record above is the finding
		panic("c17ipp: decode does not terminate")
	}
	if got == "panic" {
		verdict = "viol:ipp-decode-panics:" + hx(raw)
	}
	if q != nil && !q.noEnd && verdict == "ok" {
		if want := q.render(); got != want {
			verdict = "viol:ipp-roundtrip:decoded " + clip(got, 300) + " want " + clip(want, 300)
		}
	}
	emit(line, got, verdict, q != nil && got != "error")
}

func clip(s string, n int) string {
	if len(s) > n {
		return s[:n] + "…"
	}
	return s
}

// runIppReply: the whole service: HTTP POST over a connection, reply body and event
func runIppReply(raw []byte, q *ippReq) {
	ippService()
	modelG := ipp.VerifModelGroup()
	line := "ipp reply " + hx(raw) + " " + hx(modelG)
	verdict := "ok"
	viol := func(sig, d string) {
		if verdict == "ok" {
			verdict = "viol:" + sig + ":" + d
		}
	}
	srv, cli := tcpPair()
	before := ippCh.Len()
	done := make(chan struct{})
	go func() {
		defer close(done)
		defer func() { recover() }()
		defer srv.Close()
		ippSvc.Handle(context.Background(), srv)
	}()
	req, _ := http.NewRequest("POST", "http://printer/ipp/print", bytes.NewReader(raw))
	req.Header.Set("Content-Type", "application/ipp")
	cli.SetDeadline(time.Now().Add(10 * time.Second))
	go req.Write(cli)
	resp, err := http.ReadResponse(bufio.NewReader(cli), req)
	out := "error"
	if err == nil {
		body, _ := ioutil.ReadAll(resp.Body)
		resp.Body.Close()
		select {
		case <-done:
		case <-time.After(5 * time.Second):
			viol("ipp-handler-does-not-return", "Handle still running 5 s after the reply")
		}
		u, n, j, d := "", "", "", ""
		if ippCh.waitLen(before+1, 2*time.Second) {
			e := ippCh.From(before)[0]
			u, n, j, d = e.Get("ipp.uri"), e.Get("ipp.user"), e.Get("ipp.job-name"), e.Get("ipp.data")
		} else {
			viol("ipp-no-event", "request answered but no event recorded")
		}
		out = strings.Join([]string{hx(body), "u" + hx([]byte(u)), "n" + hx([]byte(n)), "j" + hx([]byte(j)), "d" + hx([]byte(d))}, " ")
		if q != nil && !q.noEnd {
			// the statement of the property, from the request as built
			if len(body) < 8 || body[0] != q.maj || body[1] != q.min || body[2] != 0 || body[3] != 0 ||
				uint32(body[4])<<24|uint32(body[5])<<16|uint32(body[6])<<8|uint32(body[7]) != q.rid {
				viol("ipp-reply-header", "reply does not echo version/request id: "+clip(hx(body), 40))
			}
			if d != string(q.data) {
				viol("ipp-event-document", fmt.Sprintf("document of %d bytes appears as %d bytes in the event", len(q.data), len(d)))
			}
			if u != q.field("printer-uri") || n != q.field("requesting-user-name") || j != q.field("job-name") {
				viol("ipp-event-fields", fmt.Sprintf("uri %q user %q job %q, sent %q %q %q", u, n, j, q.field("printer-uri"), q.field("requesting-user-name"), q.field("job-name")))
			}
			// charset and language echoed in the first group of the reply
			if len(q.groups) > 0 && q.groups[0].tag == 1 {
				for _, a := range q.groups[0].attrs {
					if a.tag == 0x47 || a.tag == 0x48 {
						var one bytes.Buffer
						one.WriteByte(a.tag)
						put16(&one, len(a.name))
						one.WriteString(a.name)
						put16(&one, len(a.strs[0]))
						one.WriteString(a.strs[0])
						if !bytes.Contains(body, one.Bytes()) {
							viol("ipp-reply-charset-language", fmt.Sprintf("reply lacks %s=%q", a.name, a.strs[0]))
						}
					}
				}
			}
		}
	} else {
		cli.Close()
		<-done
		if q != nil && !q.noEnd {
			viol("ipp-no-reply", "well-formed request got no reply: "+err.Error())
		}
	}
	cli.Close()
	emit(line, out, verdict, q != nil && out != "error")
}

// ---- generators ----

var ippStrTags = []byte{0x44, 0x47, 0x45, 0x48, 0x49, 0x41, 0x42}
var ippNames = []string{"copies", "job-priority", "sides", "media", "printer-resolution", "x", "document-format", "job-name",
	"requesting-user-name", "printer-uri", "ipp-attribute-fidelity", "page-ranges", "finishings", "print-quality", "orientation-requested"}

func ippRandStr(r *Rng, max int) string {
	n := 0
	switch r.Intn(6) {
	case 0:
		n = 0
	case 1:
		n = r.Range(1, 8)
	case 2:
		n = r.Range(250, max)
	default:
		n = r.Range(1, 40)
	}
	b := make([]byte, n)
	for i := range b {
		if r.Intn(8) == 0 {
			b[i] = byte(r.Next()) // any byte, incl. tag-like values and zero
		} else {
			b[i] = byte('a' + r.Intn(26))
		}
	}
	return string(b)
}

func ippRandName(r *Rng) string {
	if r.Intn(3) == 0 {
		s := ippRandStr(r, 300)
		if s == "" {
			s = "n"
		}
		return s
	}
	return ippNames[r.Intn(len(ippNames))]
}

func ippRandAttr(r *Rng, kindSel int) ippAttr {
	nv := r.Range(1, 3)
	a := ippAttr{name: ippRandName(r)}
	switch kindSel % 4 {
	case 0:
		a.kind, a.tag = 'i', []byte{0x21, 0x23}[r.Intn(2)]
		for i := 0; i < nv; i++ {
			a.ints = append(a.ints, []uint32{0, 1, 3, 0x7fffffff, 0x80000000, 0xffffffff, uint32(r.Next()), 0x21000000, 0x00210000}[r.Intn(9)])
		}
	case 1:
		a.kind, a.tag = 's', ippStrTags[r.Intn(len(ippStrTags))]
		for i := 0; i < nv; i++ {
			a.strs = append(a.strs, ippRandStr(r, 300))
		}
	case 2:
		a.kind, a.tag = 'b', 0x22
		for i := 0; i < nv; i++ {
			a.bools = append(a.bools, r.Bool())
		}
	case 3:
		a.kind, a.tag = 'r', 0x33
		a.ints = []uint32{uint32(r.Intn(5)), uint32(r.Next())}
	}
	return a
}

var ippOps = []uint16{2, 4, 9, 0x0b, 0x400b, 5}

func ippRandReq(r *Rng, docMax int) *ippReq {
	q := &ippReq{maj: byte(r.Range(1, 2)), min: byte(r.Intn(3)), op: ippOps[r.Intn(5)], rid: uint32(r.Next())}
	if r.Intn(10) == 0 {
		q.rid = []uint32{0, 1, 0x7fffffff, 0x80000000, 0xffffffff}[r.Intn(5)]
	}
	ng := r.Range(1, 3)
	for gi := 0; gi < ng; gi++ {
		g := ippGroup{tag: []byte{1, 2, 4, 5, 1}[r.Intn(5)]}
		if gi == 0 && r.Intn(8) != 0 {
			g.tag = 1
			g.attrs = append(g.attrs, ippAttr{kind: 's', tag: 0x47, name: "attributes-charset", strs: []string{[]string{"utf-8", "us-ascii", ippRandStr(r, 40)}[r.Intn(3)]}},
				ippAttr{kind: 's', tag: 0x48, name: "attributes-natural-language", strs: []string{[]string{"en", "en-us", "nl"}[r.Intn(3)]}})
			if r.Intn(4) != 0 {
				g.attrs = append(g.attrs, ippAttr{kind: 's', tag: 0x45, name: "printer-uri", strs: []string{"ipp://" + ippRandStr(r, 60) + "/printers/x"}})
			}
			if r.Intn(4) != 0 {
				g.attrs = append(g.attrs, ippAttr{kind: 's', tag: 0x42, name: "requesting-user-name", strs: []string{ippRandStr(r, 300)}})
			}
			if r.Intn(4) != 0 {
				g.attrs = append(g.attrs, ippAttr{kind: 's', tag: 0x42, name: "job-name", strs: []string{ippRandStr(r, 300)}})
			}
			if r.Intn(2) == 0 {
				g.attrs = append(g.attrs, ippAttr{kind: 's', tag: 0x49, name: "document-format", strs: []string{[]string{"application/pdf", "application/octet-stream", "image/pwg-raster"}[r.Intn(3)]}})
			}
		}
		na := r.Intn(7)
		for i := 0; i < na; i++ {
			g.attrs = append(g.attrs, ippRandAttr(r, r.Intn(4)))
		}
		// an attribute never directly follows one with the same tag and... any name: names are non-empty, so
		// neighbours are separate attributes by the encoding rule; shuffle to vary which kinds are adjacent
		for i := len(g.attrs) - 1; i > 0; i-- {
			j := r.Intn(i + 1)
			g.attrs[i], g.attrs[j] = g.attrs[j], g.attrs[i]
		}
		q.groups = append(q.groups, g)
	}
	switch r.Intn(5) {
	case 0:
	case 1:
		q.data = r.Bytes(r.Range(1, 16))
	default:
		q.data = r.Bytes(r.Range(1, docMax))
	}
	return q
}

func init() {
	register(&Stream{Name: "c17ipp", Gen: genC17Ipp, Replay: func(l string) {
		f := strings.Fields(l)
		if len(f) == 3 && f[0] == "ipp" && f[1] == "dec" {
			runIppDec(unhx(f[2]), nil)
		} else if len(f) == 4 && f[0] == "ipp" && f[1] == "reply" {
			runIppReply(unhx(f[2]), nil)
		}
	}})
}

func genC17Ipp(tier string, seed uint64) {
	r := NewRng(seed ^ 0x1717)
	nDec, nReply, nBig, nMal := 400, 120, 3, 400
	if tier == "thorough" {
		nDec, nReply, nBig, nMal = 6000, 1200, 40, 6000
	}
	kinds := map[byte]int{}
	nvals := map[int]int{}
	count := func(q *ippReq) {
		for _, g := range q.groups {
			for _, a := range g.attrs {
				kinds[a.kind]++
				nvals[a.nvals()]++
			}
		}
	}
	// 1. every ordered pair of attribute kinds adjacent, each with 1..3 values, followed by each delimiter
	for k1 := 0; k1 < 4; k1++ {
		for k2 := 0; k2 < 4; k2++ {
			for nv := 1; nv <= 3; nv++ {
				a, b := ippRandAttr(r, k1), ippRandAttr(r, k2)
				for len(a.ints) < nv && a.kind == 'i' {
					a.ints = append(a.ints, uint32(r.Next()))
				}
				for len(a.strs) < nv && a.kind == 's' {
					a.strs = append(a.strs, ippRandStr(r, 30))
				}
				for len(a.bools) < nv && a.kind == 'b' {
					a.bools = append(a.bools, r.Bool())
				}
				if a.kind == b.kind {
					b.tag = a.tag // same tag next to each other: only the non-empty name separates them
				}
				q := &ippReq{maj: 1, min: 1, op: 2, rid: uint32(r.Next()), data: r.Bytes(r.Intn(5)),
					groups: []ippGroup{{tag: 1, attrs: []ippAttr{a, b}}, {tag: []byte{2, 4, 5, 0}[r.Intn(4)], attrs: []ippAttr{b}}}}
				count(q)
				runIppDec(q.encode(), q)
			}
		}
	}
	// 2. seeded structured requests
	for i := 0; i < nDec; i++ {
		q := ippRandReq(r, 600)
		count(q)
		runIppDec(q.encode(), q)
	}
	for i := 0; i < nBig; i++ {
		q := ippRandReq(r, 65536)
		q.data = r.Bytes([]int{65536, 40000, 32768, 32767, 65535}[i%5])
		runIppDec(q.encode(), q)
	}
	// 3. the whole service
	for i := 0; i < nReply; i++ {
		q := ippRandReq(r, 2000)
		if i%3 == 0 {
			q.op = 2
		}
		if i%40 == 7 {
			q.data = r.Bytes(65536)
		}
		count(q)
		runIppReply(q.encode(), q)
	}
	// 4. malformed: truncations at every position of small requests, no end tag, single-byte mutations,
	// unsupported tags, zero-length names, random bytes
	for i := 0; i < 6; i++ {
		q := ippRandReq(r, 8)
		raw := q.encode()
		if len(raw) > 400 {
			continue
		}
		for cut := 0; cut < len(raw); cut++ {
			runIppDec(raw[:cut], nil)
		}
	}
	for i := 0; i < nMal; i++ {
		q := ippRandReq(r, 20)
		switch i % 5 {
		case 0:
			q.noEnd = true
			q.data = nil
			runIppDec(q.encode(), q)
		case 1:
			raw := q.encode()
			for k := r.Range(1, 3); k > 0; k-- {
				raw[r.Intn(len(raw))] = []byte{0, 1, 3, 0x21, 0x22, 0x33, 0x35, 0x7f, 0xff, byte(r.Next())}[r.Intn(10)]
			}
			runIppDec(raw, nil)
		case 2:
			raw := q.encode()
			runIppDec(raw[:r.Intn(len(raw)+1)], nil)
		case 3:
			runIppDec(r.Bytes(r.Intn(60)), nil)
		case 4:
			raw := q.encode()
			if i%2 == 0 {
				runIppReply(raw[:r.Intn(len(raw)+1)], nil)
			} else {
				q.noEnd = true
				q.data = nil
				runIppReply(q.encode(), q)
			}
		}
	}
	for k, v := range kinds {
		fmt.Fprintf(out, "#stat ipp_attr_kind_%c %d\n", k, v)
	}
	for k, v := range nvals {
		fmt.Fprintf(out, "#stat ipp_values_%d %d\n", k, v)
	}
}
