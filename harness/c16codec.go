package main

import (
	"bytes"
	"encoding/binary"
	"fmt"
	"io"
	"net"
	"strings"
	"time"

	"github.com/honeytrap/honeytrap/listener"
	"github.com/honeytrap/honeytrap/listener/agent"
)

// C16, codec: every message type through the real MarshalBinary / UnmarshalBinary, against HT.Agent's encoder and
// decoder (theorems C16_codec_roundtrip, C16_handshake_roundtrip, C16_handshake_response_roundtrip).
//
// case line: agentcodec hello A A | eof A A | tcp A A P | udp A A P | ping | hs <ver> P P P P | hr A...
//            A = t/<ip hex or ->/<port> | u/<..>/<port>     P = <hex> | -
// output:    <encoding> => <the decoded message in the same syntax>; byte strings longer than 32 bytes are shown as
//            #<length>.<sum of (i+1)*b[i] mod 2^32>
// oracle:    the decoded message equals the encoded one, field by field

func hexd(b []byte) string {
	if len(b) == 0 {
		return "-"
	}
	if len(b) <= 32 {
		return hx(b)
	}
	var s uint64
	for i, x := range b {
		s = (s + uint64(i+1)*uint64(x)) % 4294967296
	}
	return fmt.Sprintf("#%d.%d", len(b), s)
}

func parseCAddr(s string) net.Addr {
	f := strings.Split(s, "/")
	var port int
	fmt.Sscan(f[2], &port)
	var ip net.IP
	if f[1] != "-" {
		ip = net.IP(unhx(f[1]))
	}
	if f[0] == "u" {
		return &net.UDPAddr{IP: ip, Port: port}
	}
	return &net.TCPAddr{IP: ip, Port: port}
}

func addrStr(a net.Addr) string {
	switch v := a.(type) {
	case *net.TCPAddr:
		if v == nil {
			return "nil"
		}
		return fmt.Sprintf("t/%s/%d", hexd(v.IP), v.Port)
	case *net.UDPAddr:
		if v == nil {
			return "nil"
		}
		return fmt.Sprintf("u/%s/%d", hexd(v.IP), v.Port)
	}
	return "nil"
}

func addrEq(a, b net.Addr) bool {
	switch x := a.(type) {
	case *net.TCPAddr:
		y, ok := b.(*net.TCPAddr)
		return ok && y != nil && bytes.Equal(x.IP, y.IP) && x.Port == y.Port
	case *net.UDPAddr:
		y, ok := b.(*net.UDPAddr)
		return ok && y != nil && bytes.Equal(x.IP, y.IP) && x.Port == y.Port
	}
	return false
}

func runCodec(args []string) {
	line := "agentcodec " + strings.Join(args, " ")
	verdict := "ok"
	same := func(ok bool, what string) {
		if !ok && verdict == "ok" {
			verdict = "viol:message-not-decoded-as-encoded:" + what
		}
	}
	outp := "bad-op"
	func() {
		defer func() {
			if r := recover(); r != nil {
				outp = "panic"
				verdict = "viol:codec-panic:" + fmt.Sprint(r)
			}
		}()
		pl := func(s string) []byte { return unhx(s) }
		switch args[0] {
		case "ping":
			enc, _ := agent.Ping{}.MarshalBinary()
			var m agent.Ping
			m.UnmarshalBinary(enc)
			outp = hexd(enc) + " => ping"
		case "hello":
			l, r := parseCAddr(args[1]), parseCAddr(args[2])
			enc, _ := agent.Hello{Laddr: l, Raddr: r}.MarshalBinary()
			var m agent.Hello
			m.UnmarshalBinary(enc)
			outp = fmt.Sprintf("%s => hello %s %s", hexd(enc), addrStr(m.Laddr), addrStr(m.Raddr))
			same(addrEq(l, m.Laddr) && addrEq(r, m.Raddr), "Hello addresses")
		case "eof":
			l, r := parseCAddr(args[1]), parseCAddr(args[2])
			enc, _ := agent.EOF{Laddr: l, Raddr: r}.MarshalBinary()
			var m agent.EOF
			m.UnmarshalBinary(enc)
			outp = fmt.Sprintf("%s => eof %s %s", hexd(enc), addrStr(m.Laddr), addrStr(m.Raddr))
			same(addrEq(l, m.Laddr) && addrEq(r, m.Raddr), "EOF addresses")
		case "tcp":
			l, r, p := parseCAddr(args[1]), parseCAddr(args[2]), pl(args[3])
			enc, _ := agent.ReadWriteTCP{Laddr: l, Raddr: r, Payload: p}.MarshalBinary()
			var m agent.ReadWriteTCP
			m.UnmarshalBinary(enc)
			outp = fmt.Sprintf("%s => tcp %s %s %s", hexd(enc), addrStr(m.Laddr), addrStr(m.Raddr), hexd(m.Payload))
			same(addrEq(l, m.Laddr) && addrEq(r, m.Raddr), "ReadWriteTCP addresses")
			same(bytes.Equal(p, m.Payload), fmt.Sprintf("ReadWriteTCP payload of %d bytes", len(p)))
		case "udp":
			l, r, p := parseCAddr(args[1]), parseCAddr(args[2]), pl(args[3])
			enc, _ := agent.ReadWriteUDP{Laddr: l, Raddr: r, Payload: p}.MarshalBinary()
			var m agent.ReadWriteUDP
			m.UnmarshalBinary(enc)
			outp = fmt.Sprintf("%s => udp %s %s %s", hexd(enc), addrStr(m.Laddr), addrStr(m.Raddr), hexd(m.Payload))
			same(addrEq(l, m.Laddr) && addrEq(r, m.Raddr), "ReadWriteUDP addresses")
			same(bytes.Equal(p, m.Payload), fmt.Sprintf("ReadWriteUDP payload of %d bytes", len(p)))
		case "hs":
			var ver int
			fmt.Sscan(args[1], &ver)
			h := agent.Handshake{ProtocolVersion: ver, Version: string(pl(args[2])), ShortCommitID: string(pl(args[3])), CommitID: string(pl(args[4])), Token: string(pl(args[5]))}
			enc, _ := h.MarshalBinary()
			var m agent.Handshake
			m.UnmarshalBinary(enc)
			outp = fmt.Sprintf("%s => hs %d %s %s %s %s", hexd(enc), m.ProtocolVersion, hexd([]byte(m.Version)), hexd([]byte(m.ShortCommitID)), hexd([]byte(m.CommitID)), hexd([]byte(m.Token)))
			same(m == h, "Handshake fields")
		case "hr":
			var as []net.Addr
			for _, a := range args[1:] {
				as = append(as, parseCAddr(a))
			}
			enc, _ := agent.HandshakeResponse{Addresses: as}.MarshalBinary()
			var m agent.HandshakeResponse
			m.UnmarshalBinary(enc)
			parts := []string{"hr"}
			ok := len(m.Addresses) == len(as)
			for i, a := range m.Addresses {
				parts = append(parts, addrStr(a))
				ok = ok && i < len(as) && addrEq(as[i], a)
			}
			outp = hexd(enc) + " => " + strings.Join(parts, " ")
			same(ok, "HandshakeResponse addresses")
		}
	}()
	emit(line, outp, verdict, true)
}

// genC16Codec: all message types; IPv4 (4- and 16-byte forms), IPv6 and empty addresses; port boundaries; payload and
// string lengths 0..65000 with the lengths around the decoder's 4096-byte read buffer and its multiples.
func genC16Codec(tier string, r *Rng) {
	ips := []string{"0a000001", hx(net.ParseIP("10.0.0.1")), hx(net.ParseIP("2001:db8::1")), "-", "ff", "00000000"}
	ports := []int{0, 1, 22, 255, 256, 32768, 65535}
	addr := func() string {
		k := "t"
		if r.Bool() {
			k = "u"
		}
		return fmt.Sprintf("%s/%s/%d", k, ips[r.Intn(len(ips))], ports[r.Intn(len(ports))])
	}
	for _, ip := range ips {
		for _, p := range ports {
			runCodec([]string{"hello", fmt.Sprintf("t/%s/%d", ip, p), fmt.Sprintf("u/%s/%d", ips[(p+1)%len(ips)], 65535-p)})
			runCodec([]string{"eof", fmt.Sprintf("u/%s/%d", ip, p), fmt.Sprintf("t/%s/%d", ips[(p+2)%len(ips)], p)})
		}
	}
	runCodec([]string{"ping"})
	// payload lengths: small, around n*4096 minus the bytes in front of the payload, up to 65000
	var lens []int
	for n := 0; n <= 40; n++ {
		lens = append(lens, n)
	}
	for _, base := range []int{4096, 8192, 12288, 16384, 32768, 61440} {
		for d := -45; d <= 4; d++ {
			if tier == "thorough" || d%3 == 0 || d > -4 {
				lens = append(lens, base+d)
			}
		}
	}
	lens = append(lens, 255, 256, 257, 1000, 4000, 5000, 10000, 20000, 50000, 64999, 65000)
	for i, n := range lens {
		kind := []string{"tcp", "udp"}[i%2]
		runCodec([]string{kind, addr(), addr(), hx(r.Bytes(n))})
	}
	rn := 40
	if tier == "thorough" {
		rn = 600
	}
	for i := 0; i < rn; i++ {
		runCodec([]string{[]string{"tcp", "udp"}[r.Intn(2)], addr(), addr(), hx(r.Bytes(r.Intn(65001)))})
	}
	// Handshake: string lengths such that a length field or a string crosses the read buffer's end
	runCodec([]string{"hs", "1", hx([]byte("1.2.3")), hx([]byte("abc1234")), hx([]byte("abc1234abc1234abc1234abc1234abc1234abcde")), hx([]byte("token"))})
	runCodec([]string{"hs", "0", "-", "-", "-", "-"})
	runCodec([]string{"hs", "65535", "00", "ff", "0a", "0d0a"})
	for _, a := range []int{0, 1, 4085, 4086, 4087, 4088, 4089, 4090, 4091, 4092, 4093, 4094, 4095, 4096, 8180, 8186, 8187, 8188, 20000, 65000} {
		for _, b := range []int{0, 1, 2, 3, 4, 5, 4096} {
			if tier != "thorough" && (a+b)%2 == 1 {
				continue
			}
			runCodec([]string{"hs", fmt.Sprint(r.Intn(65536)), hx(r.Bytes(a)), hx(r.Bytes(b)), hx(r.Bytes(r.Intn(50))), hx(r.Bytes(r.Intn(70)))})
		}
	}
	// HandshakeResponse: 0..255 addresses
	for _, n := range []int{0, 1, 2, 3, 16, 100, 200, 255} {
		args := []string{"hr"}
		for i := 0; i < n; i++ {
			args = append(args, addr())
		}
		runCodec(args)
	}
	// 255 IPv6 addresses: lengths and ports beyond the 4096th byte
	args := []string{"hr"}
	for i := 0; i < 255; i++ {
		args = append(args, fmt.Sprintf("t/%s/%d", hx(net.ParseIP(fmt.Sprintf("2001:db8::%x", i+1))), 1000+i*250))
	}
	runCodec(args)
}

// runAgentWrite: one real session; the stub service answers the first byte with a single Write of n bytes; the
// payload lengths of the messages the agent receives for it are compared with the model's `chunks m n`.
//
// case line: agentcodec write <m> <n>   (m = the implementation's message limit, learnt from a large write)
func agentWriteLens(n int) ([]int, bool) {
	l, _ := agent.New()
	srv, cli := tcpPair()
	sessDone := make(chan struct{})
	go func() { defer close(sessDone); agent.VerifServe(l, srv) }()
	defer func() {
		cli.Close()
		select {
		case <-sessDone:
		case <-time.After(3 * time.Second):
		}
	}()
	go func() {
		c, err := l.(listener.Listener).Accept()
		if err != nil || c == nil {
			return
		}
		buf := make([]byte, 16)
		if k, _ := c.Read(buf); k > 0 {
			p := make([]byte, n)
			for i := range p {
				p[i] = byte(i * 13)
			}
			c.Write(p)
		}
	}()
	hs, _ := agent.Handshake{ProtocolVersion: 1, Version: "v", ShortCommitID: "s", CommitID: "c", Token: "tok"}.MarshalBinary()
	sendFrame(cli, byte(agent.TypeHandshake), hs)
	la, ra := mkAddr("0a000001", "22", false), mkAddr("01020304", "40000", false)
	b, _ := agent.Hello{Laddr: la, Raddr: ra}.MarshalBinary()
	sendFrame(cli, byte(agent.TypeHello), b)
	b, _ = agent.ReadWriteTCP{Laddr: la, Raddr: ra, Payload: []byte{1}}.MarshalBinary()
	sendFrame(cli, byte(agent.TypeReadWriteTCP), b)
	var lens []int
	total, at := 0, 0
	ok := true
	cli.SetReadDeadline(time.Now().Add(5 * time.Second))
	for total < n || len(lens) == 0 {
		h := make([]byte, 3)
		if _, err := io.ReadFull(cli, h); err != nil {
			return lens, false
		}
		body := make([]byte, binary.LittleEndian.Uint16(h[1:]))
		if _, err := io.ReadFull(cli, body); err != nil {
			return lens, false
		}
		if int(h[0]) != agent.TypeReadWriteTCP {
			continue
		}
		var m agent.ReadWriteTCP
		m.UnmarshalBinary(body)
		for _, x := range m.Payload {
			if x != byte(at*13) {
				ok = false
			}
			at++
		}
		lens = append(lens, len(m.Payload))
		total += len(m.Payload)
	}
	return lens, ok && total == n
}

func genAgentWrite(tier string, r *Rng) {
	probe, _ := agentWriteLens(300000)
	m := 0
	if len(probe) > 0 {
		m = probe[0]
	}
	fmt.Fprintf(out, "#stat c16_write_message_limit %d\n", m)
	if m == 0 {
		emit("@agentwrite probe", "no-messages", "viol:write-not-relayed-in-order:a 300000-byte write produced no data message", false)
		return
	}
	ns := []int{0, 1, m - 1, m, m + 1, 2*m - 1, 2 * m, 2*m + 1, 65535, 65536, 70000, 3*m + 5, 200000}
	if tier == "thorough" {
		for i := 0; i < 40; i++ {
			ns = append(ns, r.Intn(400000))
		}
	}
	for _, n := range ns {
		lens, ok := agentWriteLens(n)
		var ls []string
		for _, k := range lens {
			ls = append(ls, fmt.Sprint(k))
		}
		verdict := "ok"
		if !ok {
			verdict = fmt.Sprintf("viol:write-not-relayed-in-order:a Write of %d bytes came back as messages of %v bytes (content or total differs)", n, lens)
		}
		emit(fmt.Sprintf("agentcodec write %d %d", m, n), strings.Join(ls, " "), verdict, true)
	}
}
