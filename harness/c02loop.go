package main

import (
	"bufio"
	"context"
	"fmt"
	"net"
	"os"
	"os/exec"
	"strings"
	"syscall"
	"time"
)

// C02 (process level): frames through the real Start() receive loop of a Canary built
// on a socketpair, in a child process; observation = child alive and a UDP probe sent
// after the frames still yields its event.
//
// case line:  canloop <myip hex> <arp 0|1> <fill 0|1> <step> <step> ...
//   step = x:<frame hex>                                 raw frame
//        | c:<peer hex>:<sport>:<dport>:<isn>:<flags...>   scripted connection: SYN, ACK of the listener's SYN-ACK, then one
//                                                        segment per flag word (psh, ack, rst, rstack, fin, finack, syn)
// output: "alive probe=1" | "alive probe=0" | "crashed <class>"

func init() {
	register(&Stream{Name: "c02loop", Gen: genC02Loop, Replay: func(l string) { runLoopCase(strings.Fields(l)[1:]) }})
	register(&Stream{Name: "c02loopchild", Gen: func(string, uint64) { loopChild() }, Replay: func(string) {}})
}

func runLoopCase(f []string) {
	line := "canloop " + strings.Join(f, " ")
	cmd := exec.Command(os.Args[0], "c02loopchild")
	cmd.Env = append(os.Environ(), "GOTRACEBACK=single")
	cmd.Stdin = strings.NewReader(strings.Join(f, "\n") + "\n")
	var sb strings.Builder
	cmd.Stdout = &sb
	var eb strings.Builder
	cmd.Stderr = &eb
	done := make(chan error, 1)
	if err := cmd.Start(); err != nil {
		emit(line, "harness-error", "ok", false)
		return
	}
	go func() { done <- cmd.Wait() }()
	var werr error
	select {
	case werr = <-done:
	case <-time.After(120 * time.Second):
		cmd.Process.Kill()
		werr = fmt.Errorf("timeout")
	}
	outS := sb.String()
	impl, verdict := "", "ok"
	switch {
	case strings.Contains(outS, "LAB-UNAVAILABLE"):
		emit(line, "alive probe=1", "ok", false) // no usable interface in this sandbox: inconclusive, not a violation
		fmt.Fprintln(out, "#stat c02loop_lab_unavailable 1")
		return
	case strings.Contains(outS, "PROBE2-OK"):
		impl = "alive probe=1"
	case strings.Contains(outS, "PROBE2-MISSING"):
		impl = "alive probe=0"
		verdict = "viol:receive-loop-stalled:probe after the frames yielded no event; child alive"
	default:
		class := "exit"
		es := eb.String() + outS
		switch {
		case strings.Contains(es, "fatal error:"):
			class = "fatal"
		case strings.Contains(es, "panic:"):
			class = "panic"
		}
		first := ""
		for _, l := range strings.Split(es, "\n") {
			if strings.HasPrefix(l, "panic:") || strings.HasPrefix(l, "fatal error:") {
				first = l
				break
			}
		}
		impl = "crashed " + class
		verdict = fmt.Sprintf("viol:receive-loop-crash:%s %v", first, werr)
	}
	emit(line, impl, verdict, true)
}

func loopChild() {
	sc := bufio.NewScanner(os.Stdin)
	sc.Buffer(make([]byte, 1<<20), 1<<26)
	var f []string
	for sc.Scan() {
		if t := strings.TrimSpace(sc.Text()); t != "" {
			f = append(f, t)
		}
	}
	arp := 0
	if f[1] == "1" {
		arp = 1
	}
	lab, err := newCanLab(arp, stdPeers)
	if err != nil {
		fmt.Println("LAB-UNAVAILABLE", err)
		return
	}
	out.Flush()
	ctx, cancel := context.WithCancel(context.Background())
	defer cancel()
	lab.c.Start(ctx)
	my := lab.myIP
	write := func(fr []byte) { syscall.Write(lab.peerFd, fr) }
	probe := func(port uint16) bool {
		n0 := lab.ev.Len()
		write(ethFrame(ipPacket(stdPeers[4], my, 17, udpDatagram(4000, port, []byte("probe")))))
		deadline := time.Now().Add(5 * time.Second)
		seen := n0
		for time.Now().Before(deadline) {
			for _, e := range lab.ev.From(seen) {
				m := evMap(e)
				if fmt.Sprint(m["category"]) == "udp" && fmt.Sprint(m["destination-port"]) == fmt.Sprint(port) {
					return true
				}
				seen++
			}
			time.Sleep(2 * time.Millisecond)
		}
		return false
	}
	if !probe(9998) {
		fmt.Println("LAB-UNAVAILABLE probe1 not seen")
		return
	}
	fmt.Println("PROBE1-OK")
	if f[2] == "1" {
		lab.c.VerifFillStateTable(stdPeers[3], my, 65535)
	}
	for _, st := range f[3:] {
		p := strings.Split(st, ":")
		switch p[0] {
		case "x":
			write(unhx(p[1]))
		case "c":
			peer := net.IP(unhx(p[1]))
			var sport, dport int
			var isn uint64
			fmt.Sscan(p[2], &sport)
			fmt.Sscan(p[3], &dport)
			fmt.Sscan(p[4], &isn)
			mk := func(seq, ack uint32, flags byte, payload []byte) []byte {
				return ethFrame(ipPacket(peer, my, 6, tcpSegment(peer, my, uint16(sport), uint16(dport), seq, ack, flags, payload, true)))
			}
			write(mk(uint32(isn), 0, 0x02, nil))
			var srv uint32
			for i := 0; i < 500; i++ {
				if t := lab.c.VerifLookup(peer, my, uint16(sport), uint16(dport)); t != nil && t.State == 2 {
					srv = t.SndNxt
					break
				}
				time.Sleep(2 * time.Millisecond)
			}
			seq := uint32(isn) + 1
			write(mk(seq, srv, 0x10, nil))
			time.Sleep(5 * time.Millisecond)
			for _, fl := range p[5:] {
				var flags byte
				var payload []byte
				switch fl {
				case "psh":
					flags, payload = 0x18, []byte("hello")
				case "ack":
					flags = 0x10
				case "data":
					flags, payload = 0x10, []byte("xy")
				case "rst":
					flags = 0x04
				case "rstack":
					flags = 0x14
				case "fin":
					flags = 0x01
				case "finack":
					flags = 0x11
				case "syn":
					flags = 0x02
				case "synack":
					flags = 0x12
				}
				write(mk(seq, srv, flags, payload))
				seq += uint32(len(payload))
				time.Sleep(3 * time.Millisecond)
			}
		}
	}
	if probe(9999) {
		fmt.Println("PROBE2-OK")
	} else {
		fmt.Println("PROBE2-MISSING")
	}
	os.Stdout.Sync()
	os.Exit(0)
}

func genC02Loop(tier string, seed uint64) {
	rng := NewRng(seed)
	_, my, err := loopback()
	if err != nil {
		fmt.Fprintln(out, "#stat c02loop_lab_unavailable 1")
		return
	}
	myh := ip4(my)
	x := func(fr []byte) string { return "x:" + hx(fr) }
	// (a) the malformed-frame families, one child per family batch
	var batch []string
	for _, actual := range []int{20, 21, 40, 60} {
		for ihl := 0; ihl <= 15; ihl++ {
			for _, tl := range []int{0, 5, 19, 20, 21, ihl*4 - 1, ihl * 4, actual - 1, actual, actual + 1, 65535} {
				if tl >= 0 {
					batch = append(batch, x(ethFrame(ipv4Frame(ihl, tl, 6, actual, nil))))
				}
			}
		}
	}
	runLoopCase(append([]string{myh, "1", "0"}, batch...))
	batch = nil
	for n := 0; n <= 24; n++ {
		batch = append(batch, x(ethFrame(ipPacket(stdPeers[0], my, 6, rng.Bytes(n)))))
	}
	for off := 0; off <= 15; off++ {
		for _, extra := range []int{0, 1, 4, 5, 40, 41} {
			batch = append(batch, x(ethFrame(ipPacket(stdPeers[0], my, 6, tcpSeg(off, rng.Bytes(extra), nil, byte(rng.Intn(64)))))))
		}
	}
	alpha := []byte{0, 1, 2, 3, 8, 255}
	for _, a := range alpha {
		for _, b := range alpha {
			for _, c := range alpha {
				batch = append(batch, x(ethFrame(ipPacket(stdPeers[0], my, 6, tcpSeg(6, []byte{1, a, b, c}, []byte("z"), 0x18)))))
			}
		}
	}
	runLoopCase(append([]string{myh, "1", "0"}, batch...))
	batch = nil
	for i := 0; i < 400; i++ {
		batch = append(batch, x(noiseFrame(rng)))
		batch = append(batch, x(rng.Bytes(14+rng.Intn(1587))))
	}
	for n := 0; n <= 12; n++ {
		batch = append(batch, x(ethFrame(ipPacket(stdPeers[0], my, 17, rng.Bytes(n)))))
		batch = append(batch, x(ethFrame(ipPacket(stdPeers[0], my, 1, rng.Bytes(n)))))
	}
	arpf := ethFrame(append([]byte{0, 1, 8, 0, 20, 20, 0, 1}, rng.Bytes(20)...))
	arpf[12], arpf[13] = 0x08, 0x06
	batch = append(batch, x(arpf))
	runLoopCase(append([]string{myh, "1", "0"}, batch...))
	// (b) scripted connections: every flag sequence of length <= 2 (quick) / 3 (thorough) after the handshake
	words := []string{"psh", "ack", "data", "rst", "rstack", "fin", "finack", "syn", "synack"}
	var seqs [][]string
	for _, a := range words {
		seqs = append(seqs, []string{a})
		for _, b := range words {
			seqs = append(seqs, []string{a, b})
			if tier == "thorough" {
				for _, c := range words {
					seqs = append(seqs, []string{a, b, c})
				}
			}
		}
	}
	// several scripted connections per child (distinct ports), so a stall in any of them is seen by the probe
	per := 15
	for i := 0; i < len(seqs); i += per {
		var steps []string
		for j := i; j < i+per && j < len(seqs); j++ {
			steps = append(steps, fmt.Sprintf("c:%s:%d:%d:%d:%s", ip4(stdPeers[0]), 30000+j, 8080, 1000+j, strings.Join(seqs[j], ":")))
		}
		runLoopCase(append([]string{myh, "1", "0"}, steps...))
	}
	// (c) peers without ARP/route entry
	runLoopCase([]string{myh, "0", "0", fmt.Sprintf("c:%s:%d:%d:%d:psh:fin", ip4(stdPeers[0]), 31000, 8080, 5)})
	// (d) full state table, then more connection attempts
	var steps []string
	for j := 0; j < 5; j++ {
		steps = append(steps, x(ethFrame(ipPacket(stdPeers[1], my, 6, tcpSegment(stdPeers[1], my, uint16(100+j), 8080, 5, 0, 0x02, nil, true)))))
	}
	runLoopCase(append([]string{myh, "1", "1"}, steps...))
}
