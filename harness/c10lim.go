package main

import (
	"context"
	"fmt"
	"net"
	"strings"
	"sync"
	"time"

	"golang.org/x/time/rate"

	"github.com/honeytrap/honeytrap/listener"
	"github.com/honeytrap/honeytrap/server"
	"github.com/honeytrap/honeytrap/services"
	_ "github.com/honeytrap/honeytrap/services/snmp"
)

// C10: the four rate-limited UDP services against HT.Lim.
//
// case line: lim <svc> <ip>:<kind> ...      (datagrams in order, all "now")    output: ip=replies ...
//            bucket <t1> <t2> ...           (x/time/rate under a synthetic clock vs the exact bucket)

func init() {
	register(&Stream{Name: "c10svc", Gen: genC10, Replay: func(l string) {
		f := strings.Fields(l)
		switch {
		case len(f) >= 2 && f[0] == "lim":
			runLim(f[1], f[2:], false)
		case len(f) >= 2 && f[0] == "@limc":
			runLim(f[1], f[2:], true)
		case len(f) >= 1 && f[0] == "bucket":
			runBucket(f[1:])
		}
	}})
}

func snmpReq(pduTag byte, version byte) []byte {
	vb := []byte{0x30, 0x0c, 0x06, 0x08, 0x2b, 0x06, 0x01, 0x02, 0x01, 0x01, 0x01, 0x00, 0x05, 0x00}
	vbl := append([]byte{0x30, byte(len(vb))}, vb...)
	pduBody := append([]byte{0x02, 0x04, 0x01, 0x02, 0x03, 0x04, 0x02, 0x01, 0x00, 0x02, 0x01, 0x00}, vbl...)
	pdu := append([]byte{pduTag, byte(len(pduBody))}, pduBody...)
	body := append([]byte{0x02, 0x01, version, 0x04, 0x06, 'p', 'u', 'b', 'l', 'i', 'c'}, pdu...)
	return append([]byte{0x30, byte(len(body))}, body...)
}

func datagramFor(svc, kind string) []byte {
	switch svc {
	case "tftp":
		switch kind {
		case "rrq":
			return append([]byte{0, 1}, []byte("boot.img\x00octet\x00")...)
		case "wrq":
			return append([]byte{0, 2}, []byte("up.bin\x00octet\x00")...)
		case "data":
			return []byte{0, 3, 0, 1, 'x', 'y'}
		case "data512":
			return append([]byte{0, 3, 0, 1}, make([]byte, 512)...)
		case "rrq-unterminated":
			return append([]byte{0, 1}, []byte("boot.img")...)
		case "ack":
			return []byte{0, 4, 0, 1}
		case "error":
			return []byte{0, 5, 0, 1, 'e', 0}
		case "unknown":
			return []byte{0, 9, 1, 2}
		}
	case "snmp":
		switch kind {
		case "get":
			return snmpReq(0xa0, 0)
		case "getnext":
			return snmpReq(0xa1, 0)
		case "set":
			return snmpReq(0xa3, 0)
		case "v2":
			return snmpReq(0xa0, 1)
		case "garbage":
			return []byte{0x30, 0x03, 0xff, 0xff, 0xff}
		}
	case "counterstrike":
		switch kind {
		case "info":
			return append([]byte{0xff, 0xff, 0xff, 0xff, 0x54}, []byte("Source Engine Query\x00")...)
		case "player":
			return []byte{0xff, 0xff, 0xff, 0xff, 0x55, 0xff, 0xff, 0xff, 0xff}
		case "other":
			return []byte{0xff, 0xff, 0xff, 0xfe, 0x99, 1, 2}
		case "noprefix":
			return []byte("hello there")
		}
	case "memcached":
		b := []byte{0, 1, 0, 0, 0, 1, 0, 0}
		for _, c := range kind {
			switch c {
			case 's':
				b = append(b, []byte("stats\r\n")...)
			case 'f':
				b = append(b, []byte("flush_all\r\n")...)
			case 'g':
				b = append(b, []byte("get somekey\r\n")...)
			case 't':
				b = append(b, []byte("set k 0 0 5\r\nhello\r\n")...)
			case 'b':
				b = append(b, []byte("set k 0\r\n")...)
			}
		}
		return b
	}
	return nil
}

func runLim(svc string, reqs []string, concurrent bool) {
	prefix := "lim "
	if concurrent {
		prefix = "@limc "
	}
	line := prefix + svc + " " + strings.Join(reqs, " ")
	verdict := "ok"
	fn, ok := services.Get(svc)
	if !ok {
		emit(line, "no-such-service", "ok", false)
		return
	}
	rec := newRecChannel()
	s := fn(services.WithChannel(rec))
	var mu sync.Mutex
	replies := map[string]int{}
	var order []string
	panics := 0
	one := func(i int, r string) {
		p := strings.SplitN(r, ":", 2)
		ip := net.ParseIP(p[0])
		if v4 := ip.To4(); v4 != nil && i%2 == 1 {
			ip = v4 // the same IPv4 source in its 4-byte and in its 16-byte form (both occur on real listeners)
		}
		raddr := &net.UDPAddr{IP: ip, Port: 1024 + (i*7919)%60000}
		if q := strings.SplitN(p[1], "@", 2); len(q) == 2 { // kind@port: a fixed source port
			p[1] = q[0]
			fmt.Sscan(q[1], &raddr.Port)
		}
		conn := &listener.DummyUDPConn{
			Buffer: datagramFor(svc, p[1]),
			Laddr:  &net.UDPAddr{IP: net.IPv4(192, 0, 2, 1), Port: 69},
			Raddr:  raddr,
			Fn: func(b []byte, a *net.UDPAddr) (int, error) {
				mu.Lock()
				replies[a.IP.String()]++
				mu.Unlock()
				return len(b), nil
			},
		}
		func() {
			defer func() {
				if r := recover(); r != nil {
					mu.Lock()
					panics++
					mu.Unlock()
				}
			}()
			s.Handle(context.Background(), server.TimeoutConn(conn, 30*time.Second))
		}()
	}
	for _, r := range reqs {
		ip := strings.SplitN(r, ":", 2)[0]
		seen := false
		for _, o := range order {
			if o == ip {
				seen = true
			}
		}
		if !seen {
			order = append(order, ip)
		}
	}
	if concurrent {
		var wg sync.WaitGroup
		start := make(chan struct{})
		for i, r := range reqs {
			wg.Add(1)
			go func(i int, r string) { defer wg.Done(); <-start; one(i, r) }(i, r)
		}
		close(start)
		wg.Wait()
	} else {
		for i, r := range reqs {
			one(i, r)
		}
	}
	var parts []string
	for _, ip := range order {
		n := replies[net.ParseIP(ip).String()]
		parts = append(parts, fmt.Sprintf("%s=%d", ip, n))
		if n > 4 && verdict == "ok" {
			verdict = fmt.Sprintf("viol:more-than-burst-replies:%s received %d response datagrams from %s", ip, n, svc)
		}
	}
	emit(line, strings.Join(parts, " "), verdict, len(reqs) > 4)
}

// runBucket: golang.org/x/time/rate with the limiter's parameters under a synthetic clock.
func runBucket(ts []string) {
	lim := rate.NewLimiter(rate.Every(10*time.Minute), 4)
	base := time.Unix(1700000000, 0)
	var out []byte
	for _, t := range ts {
		var ns int64
		fmt.Sscan(t, &ns)
		if lim.AllowN(base.Add(time.Duration(ns)), 1) {
			out = append(out, '1')
		} else {
			out = append(out, '0')
		}
	}
	emit("bucket "+strings.Join(ts, " "), string(out), "ok", len(ts) > 4)
}

func genC10(tier string, seed uint64) {
	r := NewRng(seed)
	kinds := map[string][]string{
		"tftp":          {"rrq", "wrq", "data", "rrq-unterminated", "ack", "error", "unknown"},
		"snmp":          {"get", "getnext", "set", "v2", "garbage"},
		"counterstrike": {"info", "player", "other", "noprefix"},
		"memcached":     {"s", "f", "g", "t", "b", "sss", "sfgs", "ssssss", "gb", "bs", "sst", "sssssssss"},
	}
	ips := []string{"10.0.0.1", "10.0.0.2", "10.0.0.3"}
	for svc, ks := range kinds {
		// every kind alone x bursts of 1..6, 50, 200 from one IP
		for _, k := range ks {
			for _, n := range []int{1, 2, 3, 4, 5, 6, 50, 200} {
				var reqs []string
				for i := 0; i < n; i++ {
					reqs = append(reqs, ips[0]+":"+k)
				}
				runLim(svc, reqs, false)
			}
		}
		// mixes from one IP, and interleaved bursts from 2-3 IPs
		nm := 30
		if tier == "thorough" {
			nm = 600
		}
		for i := 0; i < nm; i++ {
			nip := 1 + r.Intn(3)
			var reqs []string
			for j := r.Range(1, 40); j > 0; j-- {
				reqs = append(reqs, ips[r.Intn(nip)]+":"+ks[r.Intn(len(ks))])
			}
			runLim(svc, reqs, false)
		}
		if svc == "tftp" {
			// an upload session from one ip:port: WRQ, then many DATA blocks (full blocks keep the transfer open)
			for _, n := range []int{1, 3, 10, 200} {
				reqs := []string{ips[0] + ":wrq@5000"}
				for i := 0; i < n; i++ {
					reqs = append(reqs, ips[0]+":data512@5000")
				}
				reqs = append(reqs, ips[0]+":data@5000", ips[0]+":data@5000", ips[1]+":data512@5000")
				runLim(svc, reqs, false)
			}
		}
		// one source exhausts its allowance, then another source arrives
		var reqs []string
		for i := 0; i < 30; i++ {
			reqs = append(reqs, ips[0]+":"+ks[0])
		}
		for i := 0; i < 6; i++ {
			reqs = append(reqs, ips[1]+":"+ks[0])
		}
		runLim(svc, reqs, false)
		// concurrent first datagrams from fresh sources (implementation + oracle only: the order is the scheduler's)
		rounds := 20
		if tier == "thorough" {
			rounds = 300
		}
		for i := 0; i < rounds; i++ {
			var reqs []string
			ip := fmt.Sprintf("10.1.%d.%d", i/250, i%250+1)
			for j := 0; j < 48; j++ {
				reqs = append(reqs, ip+":"+ks[0])
			}
			runLim(svc, reqs, true)
		}
	}
	// the token bucket library under a synthetic clock, away from exact refill instants
	T := int64(600000000000)
	for i := 0; i < 200; i++ {
		var ts []string
		t := int64(0)
		for j := r.Range(1, 30); j > 0; j-- {
			switch r.Intn(5) {
			case 0:
				t += int64(r.Intn(1000))
			case 1:
				t += T - 1000000
			case 2:
				t += T + 1000000
			case 3:
				t += int64(r.Intn(int(T / 1000000)))*1000000/2 + 3
			default:
				t += 5*T + 7
			}
			ts = append(ts, fmt.Sprint(t))
		}
		runBucket(ts)
	}
}
