package main

import (
	"bytes"
	"context"
	"errors"
	"fmt"
	"io"
	"net"
	"os"
	"strings"
	"sync"
	"time"

	"github.com/honeytrap/honeytrap/config"
	"github.com/honeytrap/honeytrap/event"
	"github.com/honeytrap/honeytrap/listener"
	"github.com/honeytrap/honeytrap/pushers"
	"github.com/honeytrap/honeytrap/server"
	"github.com/honeytrap/honeytrap/services"
)

// ---- a recording listener, registered through the public listener registry ----

type recListener struct {
	mu    sync.Mutex
	addrs []net.Addr
}

func (l *recListener) AddAddress(a net.Addr) {
	l.mu.Lock()
	l.addrs = append(l.addrs, a)
	l.mu.Unlock()
}
func (l *recListener) Start(ctx context.Context) error {
	return errors.New("verif: the recording listener does not start")
}
func (l *recListener) Accept() (net.Conn, error) { select {} }

var lastRec *recListener

// ---- stub services, registered through the public service registry ----

type handled struct {
	id   string
	data []byte
}

var (
	handledMu sync.Mutex
	handledBy []handled
)

type stubPlain struct {
	ID string `toml:"id"`
}

func (s *stubPlain) SetChannel(pushers.Channel) {}
// gateCh, when set, makes every stub wait before its first read (lets the harness force interleavings)
var gateCh chan struct{}

func (s *stubPlain) Handle(ctx context.Context, conn net.Conn) error {
	if g := gateCh; g != nil {
		<-g
	}
	var all []byte
	buf := make([]byte, 300)
	var lastErr error
	for {
		n, err := conn.Read(buf)
		all = append(all, buf[:n]...)
		lastErr = err
		if err != nil || n == 0 {
			break
		}
	}
	handledMu.Lock()
	handledBy = append(handledBy, handled{s.ID, all})
	handledMu.Unlock()
	if os.Getenv("HT_DEBUG") != "" {
		fmt.Fprintf(os.Stderr, "stub %s read %d bytes, last err %v\n", s.ID, len(all), lastErr)
	}
	return nil
}

type stubDet struct {
	stubPlain
	Prefix string `toml:"prefix"`
}

func (s *stubDet) CanHandle(p []byte) bool { return bytes.HasPrefix(p, unhx(s.Prefix)) }

// ---- capture channels, registered through the public channel registry ----

type capChannel struct {
	Name string `toml:"name"`
	mu   sync.Mutex
	got  []string // "<id>/<token>"
}

func (c *capChannel) Send(e event.Event) {
	c.mu.Lock()
	c.got = append(c.got, e.Get("id")+"/"+e.Get("token"))
	c.mu.Unlock()
}

var (
	capMu sync.Mutex
	caps  = map[string]*capChannel{}
)

func init() {
	listener.Register("verif-rec", func(options ...func(listener.Listener) error) (listener.Listener, error) {
		l := &recListener{}
		lastRec = l
		return l, nil
	})
	services.Register("verif-plain", func(options ...services.ServicerFunc) services.Servicer {
		s := &stubPlain{}
		for _, o := range options {
			o(s)
		}
		return s
	})
	services.Register("verif-det", func(options ...services.ServicerFunc) services.Servicer {
		s := &stubDet{}
		for _, o := range options {
			o(s)
		}
		return s
	})
	pushers.Register("verif-cap", func(options ...func(pushers.Channel) error) (pushers.Channel, error) {
		c := &capChannel{}
		for _, o := range options {
			o(c)
		}
		capMu.Lock()
		caps[c.Name] = c
		capMu.Unlock()
		return c, nil
	})
}

var devNull, _ = os.OpenFile(os.DevNull, os.O_WRONLY, 0)

// runServer builds a Honeytrap from TOML and runs the real Run() up to the (failing) listener start.
func runServer(toml string) (*server.Honeytrap, *recListener, error) {
	cfg := &config.Config{}
	saved := os.Stdout
	os.Stdout = devNull // Run and Load print banners/warnings
	defer func() { os.Stdout = saved }()
	if err := cfg.Load(bytes.NewBufferString(toml)); err != nil {
		return nil, nil, err
	}
	hc := server.VerifNew(cfg, "tok-verif")
	lastRec = nil
	hc.Run(context.Background())
	return hc, lastRec, nil
}

func q(s string) string { return `"` + strings.ReplaceAll(strings.ReplaceAll(s, `\`, `\\`), `"`, `\"`) + `"` }
func qlist(xs []string) string {
	ys := make([]string, len(xs))
	for i, x := range xs {
		ys[i] = q(x)
	}
	return "[" + strings.Join(ys, ", ") + "]"
}

// service names: d<hex> = detector service accepting payloads with that prefix; anything else = no detector
func servicesTOML(defined []string) string {
	var b strings.Builder
	b.WriteString("[listener]\ntype = \"verif-rec\"\n")
	for _, n := range defined {
		if strings.HasPrefix(n, "d") {
			fmt.Fprintf(&b, "[service.%s]\ntype = \"verif-det\"\nid = %s\nprefix = %s\n", n, q(n), q(n[1:]))
		} else {
			fmt.Fprintf(&b, "[service.%s]\ntype = \"verif-plain\"\nid = %s\n", n, q(n))
		}
	}
	return b.String()
}

type portEntry struct {
	port     string   // "" absent
	ports    []string // nil absent
	services []string
}

func (e portEntry) String() string {
	p, ps, sv := "-", "-", "-"
	if e.port != "" {
		p = e.port
	}
	if e.ports != nil {
		ps = strings.Join(e.ports, ",")
	}
	if len(e.services) > 0 {
		sv = strings.Join(e.services, ",")
	}
	return p + ";" + ps + ";" + sv
}

func entriesTOML(es []portEntry) string {
	var b strings.Builder
	for _, e := range es {
		b.WriteString("[[port]]\n")
		if e.port != "" {
			fmt.Fprintf(&b, "port = %s\n", q(e.port))
		}
		if e.ports != nil {
			fmt.Fprintf(&b, "ports = %s\n", qlist(e.ports))
		}
		fmt.Fprintf(&b, "services = %s\n", qlist(e.services))
	}
	return b.String()
}

func addrCanon(a net.Addr) string {
	switch t := a.(type) {
	case *net.TCPAddr:
		ip := "*"
		if len(t.IP) != 0 {
			ip = t.IP.String()
		}
		return fmt.Sprintf("tcp/%s:%d", ip, t.Port)
	case *net.UDPAddr:
		ip := "*"
		if len(t.IP) != 0 {
			ip = t.IP.String()
		}
		return fmt.Sprintf("udp/%s:%d", ip, t.Port)
	}
	return "?"
}

// tableString: the addresses handed to the listener, in order, with the services of each (from the port table).
func tableString(hc *server.Honeytrap, rec *recListener) string {
	ports := hc.VerifPorts()
	var parts []string
	if rec != nil {
		for _, a := range rec.addrs {
			parts = append(parts, addrCanon(a)+"=["+strings.Join(ports[a.Network()+"/"+a.String()], ",")+"]")
		}
	}
	return strings.TrimSpace("table " + strings.Join(parts, " "))
}

// ---- fake connections ----

// segConn is an in-memory connection: each client segment is what one Read (at most) returns, then EOF.
// (net.Pipe is not used: its SetReadDeadline fails once the peer has closed, which real sockets do not do.)
type segConn struct {
	mu           sync.Mutex
	segs         [][]byte
	closed       bool
	laddr, raddr net.Addr
}

func (c *segConn) Read(p []byte) (int, error) {
	c.mu.Lock()
	defer c.mu.Unlock()
	if c.closed {
		return 0, io.ErrClosedPipe
	}
	for len(c.segs) > 0 && len(c.segs[0]) == 0 {
		c.segs = c.segs[1:]
	}
	if len(c.segs) == 0 {
		return 0, io.EOF
	}
	n := copy(p, c.segs[0])
	c.segs[0] = c.segs[0][n:]
	return n, nil
}
func (c *segConn) Write(p []byte) (int, error)        { return len(p), nil }
func (c *segConn) Close() error                       { c.mu.Lock(); c.closed = true; c.mu.Unlock(); return nil }
func (c *segConn) LocalAddr() net.Addr                { return c.laddr }
func (c *segConn) RemoteAddr() net.Addr               { return c.raddr }
func (c *segConn) SetDeadline(t time.Time) error      { return nil }
func (c *segConn) SetReadDeadline(t time.Time) error  { return nil }
func (c *segConn) SetWriteDeadline(t time.Time) error { return nil }

// deliver hands a connection with the given local address and client segments to the real handle()
// and returns what the chosen stub service recorded.
func deliver(hc *server.Honeytrap, proto string, ip net.IP, port int, segs [][]byte) (string, []byte, bool) {
	handledMu.Lock()
	handledBy = nil
	handledMu.Unlock()
	if proto == "udp" {
		var all []byte
		for _, s := range segs {
			all = append(all, s...)
		}
		c := &listener.DummyUDPConn{Buffer: all, Laddr: &net.UDPAddr{IP: ip, Port: port}, Raddr: &net.UDPAddr{IP: net.IPv4(10, 0, 0, 9), Port: 4444}}
		hc.VerifHandle(c)
	} else {
		var cp [][]byte
		for _, s := range segs {
			cp = append(cp, append([]byte(nil), s...))
		}
		c := &segConn{segs: cp, laddr: &net.TCPAddr{IP: ip, Port: port}, raddr: &net.TCPAddr{IP: net.IPv4(10, 0, 0, 9), Port: 4444}}
		done := make(chan struct{})
		go func() { hc.VerifHandle(c); close(done) }()
		select {
		case <-done:
		case <-time.After(20 * time.Second):
			return "hang", nil, false
		}
	}
	handledMu.Lock()
	defer handledMu.Unlock()
	if len(handledBy) == 0 {
		return "", nil, false
	}
	if len(handledBy) > 1 {
		return "several", nil, true
	}
	return handledBy[0].id, handledBy[0].data, true
}
