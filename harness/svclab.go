package main

import (
	"fmt"
	"image"
	"image/png"
	"io"
	"io/ioutil"
	"path/filepath"
	"net"
	"os"
	"strings"
	"sync"
	"time"

	"github.com/honeytrap/honeytrap/event"
	"github.com/honeytrap/honeytrap/listener"
	"github.com/honeytrap/honeytrap/pushers"
	"github.com/honeytrap/honeytrap/server"
)

// The service lab: the emulated services configured on a real Honeytrap (real Run(): service construction,
// port table, event bus, filters), connections handed to the real handle() (findService, timeout wrapper,
// recover), events captured by a channel registered through the public registry.

type evCap struct {
	Name string `toml:"name"`
	mu   sync.Mutex
	evs  []event.Event
	by   map[string][]event.Event // by "source-ip:source-port"
	sig  chan struct{}
}

func (c *evCap) Send(e event.Event) {
	k := evAny(e, "source-ip") + ":" + evAny(e, "source-port")
	c.mu.Lock()
	c.evs = append(c.evs, e)
	if c.by == nil {
		c.by = map[string][]event.Event{}
	}
	c.by[k] = append(c.by[k], e)
	c.mu.Unlock()
	select {
	case c.sig <- struct{}{}:
	default:
	}
}

func (c *evCap) snapshot() []event.Event {
	c.mu.Lock()
	defer c.mu.Unlock()
	return append([]event.Event(nil), c.evs...)
}

func (c *evCap) from(k string) []event.Event {
	c.mu.Lock()
	defer c.mu.Unlock()
	return append([]event.Event(nil), c.by[k]...)
}

// forget drops what was captured for a client (long runs would otherwise keep every event)
func (c *evCap) forget(k string) {
	c.mu.Lock()
	delete(c.by, k)
	c.evs = nil
	c.mu.Unlock()
}

func (c *evCap) reset() {
	c.mu.Lock()
	c.evs = nil
	c.by = nil
	c.mu.Unlock()
}

var lastEvCap *evCap

func init() {
	pushers.Register("verif-evs", func(options ...func(pushers.Channel) error) (pushers.Channel, error) {
		c := &evCap{sig: make(chan struct{}, 1)}
		for _, o := range options {
			o(c)
		}
		lastEvCap = c
		return c, nil
	})
}

type labSvc struct {
	name, typ, proto string
	port             int
	toml             string
}

var labServices = []labSvc{
	{"ftp", "ftp", "tcp", 21, ""},
	{"telnet", "telnet", "tcp", 23, ""},
	{"smtp", "smtp", "tcp", 25, ""},
	{"redis", "redis", "tcp", 6379, ""},
	{"memcached", "memcached", "tcp", 11211, ""},
	{"memcachedu", "memcached", "udp", 11211, ""},
	{"http", "http", "tcp", 80, ""},
	{"https", "https", "tcp", 443, ""},
	{"echo", "echo", "tcp", 7, ""},
	{"echou", "echo", "udp", 7, ""},
	{"dns", "dns", "udp", 53, ""},
	{"tftp", "tftp", "udp", 69, ""},
	{"snmp", "snmp", "udp", 161, ""},
	{"ntp", "ntp", "udp", 123, ""},
	{"counterstrike", "counterstrike", "udp", 27015, ""},
	{"ipp", "ipp", "tcp", 631, ""},
	{"ldap", "ldap", "tcp", 389, ""},
	{"elasticsearch", "elasticsearch", "tcp", 9200, ""},
	{"eos", "eos", "tcp", 8888, ""},
	{"ethereum", "ethereum", "tcp", 8545, ""},
	{"docker", "docker", "tcp", 2375, ""},
	{"cwmp", "cwmp", "tcp", 7547, ""},
	{"adb", "adb", "tcp", 5555, ""},
	{"vnc", "vnc", "tcp", 5900, ""},
	{"ssh-auth", "ssh-auth", "tcp", 22, ""},
	{"ssh-simulator", "ssh-simulator", "tcp", 2222, ""},
	// the datagram services configured on a stream port as well (a configuration can bind any service to either
	// protocol; dns serves both)
	{"dns-tcp", "dns", "tcp", 5353, ""},
	{"ntp-tcp", "ntp", "tcp", 5123, ""},
	{"snmp-tcp", "snmp", "tcp", 5161, ""},
	{"tftp-tcp", "tftp", "tcp", 5069, ""},
	{"counterstrike-tcp", "counterstrike", "tcp", 5015, ""},
	// a port shared by two services (the first one with a payload detector): the server looks at the client's first
	// bytes before it chooses
	{"shared", "http", "tcp", 8000, ""},
}

var labScratchDir string

func labScratch() string {
	if labScratchDir == "" {
		labScratchDir, _ = ioutil.TempDir("", "htverif-lab-")
	}
	return labScratchDir
}

// labBody: the configuration body of a lab service (ftp: filesystem under the scratch directory; vnc: a screen image)
func labBody(s labSvc) string {
	if o, ok := labToml[s.name]; ok {
		return o
	}
	switch s.typ {
	case "ftp":
		return "fs_base = " + q(labScratch()) + "\n"
	case "ssh-simulator":
		return "credentials = [\"root:root\"]\n"
	case "vnc":
		p := filepath.Join(labScratch(), "screen.png")
		if _, err := os.Stat(p); err != nil {
			im := image.NewRGBA(image.Rect(0, 0, 64, 48))
			for i := range im.Pix {
				im.Pix[i] = byte(i * 7)
			}
			f, _ := os.Create(p)
			png.Encode(f, im)
			f.Close()
		}
		return "image = " + q(p) + "\nserver-name = \"desk\"\n"
	}
	return s.toml
}

// labToml overrides the configuration body of a lab service
var labToml = map[string]string{}

type svcLab struct {
	hc   *server.Honeytrap
	cap  *evCap
	byNm map[string]labSvc
	next int // next fake client port
	mu   sync.Mutex
}

// newSvcLab configures the named services (all when none given) on one Honeytrap.
func newSvcLab(names ...string) (*svcLab, error) {
	ensureDataDir()
	want := map[string]bool{}
	for _, n := range names {
		want[n] = true
	}
	var b strings.Builder
	b.WriteString("[listener]\ntype = \"verif-rec\"\n")
	lab := &svcLab{byNm: map[string]labSvc{}, next: 20000}
	for _, s := range labServices {
		if len(want) > 0 && !want[s.name] {
			continue
		}
		lab.byNm[s.name] = s
		body := labBody(s)
		fmt.Fprintf(&b, "[service.%s]\ntype = %s\n%s\n", s.name, q(s.typ), body)
		svcs := q(s.name)
		if _, ok := lab.byNm["cwmp"]; ok && s.name == "shared" {
			svcs = q("cwmp") + ", " + q("shared")
		}
		fmt.Fprintf(&b, "[[port]]\nport = %s\nservices = [%s]\n", q(fmt.Sprintf("%s/%d", s.proto, s.port)), svcs)
	}
	b.WriteString("[channel.cap]\ntype = \"verif-evs\"\nname = \"cap\"\n[[filter]]\nchannel = [\"cap\"]\n")
	lastEvCap = nil
	hc, _, err := runServer(b.String())
	if err != nil {
		return nil, err
	}
	if lastEvCap == nil {
		return nil, fmt.Errorf("capture channel not constructed")
	}
	lab.hc, lab.cap = hc, lastEvCap
	return lab, nil
}

// ---- scripted client connection ----

// scriptConn plays client segments: each Read returns at most one segment; in lock-step mode a segment is
// released only after the server has written since the previous one (or a short wait), otherwise at once.
// After the last segment Read reports EOF (the client has closed its sending side).
type scriptConn struct {
	mu           sync.Mutex
	segs         [][]byte
	lockstep     bool
	wrote        bool
	first        bool
	closed       bool
	out          []byte
	laddr, raddr net.Addr
	wsig         chan struct{}
	hold         chan struct{} // when non-nil: Read blocks at end of segments until closed (silent client)
}

func newScriptConn(segs [][]byte, lockstep bool, laddr, raddr net.Addr) *scriptConn {
	var cp [][]byte
	for _, s := range segs {
		if len(s) > 0 {
			cp = append(cp, append([]byte(nil), s...))
		}
	}
	return &scriptConn{segs: cp, lockstep: lockstep, laddr: laddr, raddr: raddr, wsig: make(chan struct{}, 1), first: true}
}

func (c *scriptConn) Read(p []byte) (int, error) {
	if c.lockstep {
		c.mu.Lock()
		need := !c.first && !c.wrote
		c.mu.Unlock()
		if need {
			select {
			case <-c.wsig:
			case <-time.After(15 * time.Millisecond):
			}
		}
	}
	c.mu.Lock()
	if c.closed {
		c.mu.Unlock()
		return 0, io.ErrClosedPipe
	}
	if len(c.segs) == 0 {
		hold := c.hold
		c.mu.Unlock()
		if hold != nil {
			<-hold
			return 0, io.ErrClosedPipe
		}
		return 0, io.EOF
	}
	defer c.mu.Unlock()
	n := copy(p, c.segs[0])
	c.segs[0] = c.segs[0][n:]
	if len(c.segs[0]) == 0 {
		c.segs = c.segs[1:]
		c.first, c.wrote = false, false
	}
	return n, nil
}

func (c *scriptConn) Write(p []byte) (int, error) {
	c.mu.Lock()
	if c.closed {
		c.mu.Unlock()
		return 0, io.ErrClosedPipe
	}
	c.out = append(c.out, p...)
	c.wrote = true
	c.mu.Unlock()
	select {
	case c.wsig <- struct{}{}:
	default:
	}
	return len(p), nil
}

func (c *scriptConn) Close() error {
	c.mu.Lock()
	if !c.closed {
		c.closed = true
		if c.hold != nil {
			close(c.hold)
		}
	}
	c.mu.Unlock()
	return nil
}
func (c *scriptConn) isClosed() bool                     { c.mu.Lock(); defer c.mu.Unlock(); return c.closed }
func (c *scriptConn) output() []byte                     { c.mu.Lock(); defer c.mu.Unlock(); return append([]byte(nil), c.out...) }
func (c *scriptConn) LocalAddr() net.Addr                { return c.laddr }
func (c *scriptConn) RemoteAddr() net.Addr               { return c.raddr }
func (c *scriptConn) SetDeadline(t time.Time) error      { return nil }
func (c *scriptConn) SetReadDeadline(t time.Time) error  { return nil }
func (c *scriptConn) SetWriteDeadline(t time.Time) error { return nil }

// clientAddr hands out a fresh fake client address (distinct IP and port per connection).
func (l *svcLab) clientAddr(udp bool) net.Addr {
	l.mu.Lock()
	l.next++
	n := l.next
	l.mu.Unlock()
	ip := net.IPv4(10, byte(1+n/60000%200), byte(n/250%250), byte(1+n%250))
	port := 1024 + n%60000
	if udp {
		return &net.UDPAddr{IP: ip, Port: port}
	}
	return &net.TCPAddr{IP: ip, Port: port}
}

func addrPort(a net.Addr) string {
	switch t := a.(type) {
	case *net.TCPAddr:
		return fmt.Sprint(t.Port)
	case *net.UDPAddr:
		return fmt.Sprint(t.Port)
	}
	return ""
}
func addrIP(a net.Addr) string {
	switch t := a.(type) {
	case *net.TCPAddr:
		return t.IP.String()
	case *net.UDPAddr:
		return t.IP.String()
	}
	return ""
}

// evAny reads a field of any type as text.
func evAny(e event.Event, key string) string {
	v := ""
	e.Range(func(k, val interface{}) bool {
		if fmt.Sprint(k) == key {
			v = fmt.Sprint(val)
			return false
		}
		return true
	})
	return v
}

// eventsOf returns the captured events whose source is the given client address.
func (l *svcLab) eventsFrom(a net.Addr) []event.Event {
	return l.cap.from(addrIP(a) + ":" + addrPort(a))
}

// settle waits until the number of events from a stays unchanged for the grace period (event pumps of
// ftp/smtp deliver asynchronously), at least `want` of them when given, at most `max`.
func (l *svcLab) settle(a net.Addr, want int, max time.Duration) []event.Event {
	deadline := time.Now().Add(max)
	last, stable := -1, 0
	extended := false
	for {
		evs := l.eventsFrom(a)
		if len(evs) == last {
			stable++
		} else {
			last, stable = len(evs), 0
		}
		if stable >= 2 && len(evs) >= want {
			return evs
		}
		if time.Now().After(deadline) {
			if len(evs) < want && !extended {
				// a loaded machine: give the reporter goroutines more time before judging events missing
				extended = true
				deadline = time.Now().Add(2 * time.Second)
				continue
			}
			return evs
		}
		select {
		case <-l.cap.sig:
		case <-time.After(1500 * time.Microsecond):
		}
	}
}

type runResult struct {
	events   []event.Event
	out      []byte
	returned bool // handle() returned within the time allowed
	client   net.Addr
}

// stream runs one TCP connection with the given client segments through the real handle().
func (l *svcLab) stream(svc string, segs [][]byte, lockstep bool, want int) runResult {
	s := l.byNm[svc]
	ca := l.clientAddr(false)
	c := newScriptConn(segs, lockstep, &net.TCPAddr{IP: net.IPv4(10, 0, 0, 1), Port: s.port}, ca)
	done := make(chan struct{})
	go func() { defer close(done); l.hc.VerifHandle(c) }()
	ret := true
	select {
	case <-done:
	case <-time.After(10 * time.Second):
		ret = false
		c.Close()
	}
	evs := l.settle(ca, want, 300*time.Millisecond)
	return runResult{events: evs, out: c.output(), returned: ret, client: ca}
}

// datagram hands one UDP datagram to the real handle().
func (l *svcLab) datagram(svc string, payload []byte, from net.Addr) runResult {
	s := l.byNm[svc]
	if from == nil {
		from = l.clientAddr(true)
	}
	var outMu sync.Mutex
	var out []byte
	c := &listener.DummyUDPConn{Buffer: append([]byte(nil), payload...), Laddr: &net.UDPAddr{IP: net.IPv4(10, 0, 0, 1), Port: s.port}, Raddr: from.(*net.UDPAddr),
		Fn: func(b []byte, addr *net.UDPAddr) (int, error) {
			outMu.Lock()
			out = append(out, b...)
			outMu.Unlock()
			return len(b), nil
		}}
	done := make(chan struct{})
	go func() { defer close(done); l.hc.VerifHandle(c) }()
	ret := true
	select {
	case <-done:
	case <-time.After(5 * time.Second):
		ret = false
	}
	evs := l.settle(from, 0, 100*time.Millisecond)
	outMu.Lock()
	defer outMu.Unlock()
	return runResult{events: evs, out: append([]byte(nil), out...), returned: ret, client: from}
}

// quiet runs f with the process's stdout pointed at /dev/null (smtp and ntp print client data).
func quiet(f func()) {
	out.Flush()
	saved := os.Stdout
	os.Stdout = devNull
	defer func() { os.Stdout = saved }()
	f()
}
