package main

import (
	"os"
	"fmt"
	"net"
	"strings"
	"time"

	"github.com/honeytrap/honeytrap/event"
	"github.com/honeytrap/honeytrap/listener/canary/ipv4"
)

// C14 / C02 (frame level): the raw listener's TCP state machine against HT.Can.
//
// case line:  can <myip hex> <arp 0|1> op op ...
//   f:<frame hex>:<now>:<iss>:<id>     frame through the receive path (iss/id = values drawn if a state was created)
//   rb:<src>:<sp>:<dst>:<dp>:<iss>     rebase the connection's send sequence space (hook)
// output: per op "<class> <effects> | <tcb> n=<states>" joined by " ; "

func init() {
	register(&Stream{Name: "c14tcp", Gen: genC14, Replay: replayCan})
}

type segPlan struct {
	n   int
	psh bool
}

type connPlan struct {
	peer         net.IP
	sport, dport uint16
	isn          uint32
	segs         []segPlan
	fin          int // -1: no FIN; n >= 0: FIN carrying n bytes
	forceISS     int64
	synOnly      bool   // the client sends its SYN and nothing else (a second SYN for the tuple may follow from another plan)
	lastAck      bool   // after the FIN exchange the client acknowledges the server's FIN (the state is then removed)
	finSeq       uint32 // sequence number of the server's FIN
	finSeen      bool
	carry        int // 1: steer the send sequence space, 2: the IP id, 3: both, so that the ACK of the first data segment has a checksum sum whose fold carries again
	// client state
	phase   int
	srvSeq  uint32 // sequence number of the server's SYN-ACK
	sent    []byte // stream bytes sent so far
	pushed  int    // length of the stream up to and including the first pushed segment (0 = none yet)
	estab   bool
	evSeen  bool
	done    bool
	nextSeq uint32
}

type canRun struct {
	lab     *canLab
	arp     int
	ops     []string
	outs    []string
	verdict string
	nontriv bool
	replay  bool
	timeouts int
}

func (r *canRun) viol(sig, detail string) {
	if r.verdict == "ok" {
		r.verdict = "viol:" + sig + ":" + detail
	}
}

func evMap(e event.Event) map[string]interface{} { return event.ToMap(e) }

func evString(e event.Event) string {
	m := evMap(e)
	cat := fmt.Sprint(m["category"])
	if cat == "tcp" || payloadCategory[cat] {
		if _, ok := m["payload-hex"]; ok {
			sip, dip := net.ParseIP(fmt.Sprint(m["source-ip"])), net.ParseIP(fmt.Sprint(m["destination-ip"]))
			return fmt.Sprintf("ev=%s:%v>%s:%v:%s", ip4(sip), m["source-port"], ip4(dip), m["destination-port"], hexOrDash(fmt.Sprint(m["payload-hex"])))
		}
	}
	return "ev-" + cat
}

// frame injects one frame, waits for the handler goroutine if one is expected to finish,
// and records the op and the canonical output. Returns emitted frames and events.
func (r *canRun) frame(fr []byte, createsState bool, src, dst net.IP, sp, dp uint16, expectEvent bool) ([]txFrame, []event.Event) {
	ev0 := r.lab.ev.Len()
	class, err := r.lab.inject(fr)
	if class == "panic" {
		r.ops = append(r.ops, fmt.Sprintf("f:%s:0:0:0", hx(fr)))
		r.outs = append(r.outs, "panic")
		r.viol("receive-path-panic", fmt.Sprint(err))
		return nil, nil
	}
	if expectEvent {
		d := 3 * time.Second
		if r.timeouts >= 3 {
			d = 100 * time.Millisecond // the tree under test loses events: do not wait out every one
		}
		if !r.lab.ev.waitLen(ev0+1, d) {
			r.timeouts++
		}
	} else if r.replay {
		if _, _, _, _, _, wake := frameInfo(fr); wake {
			r.lab.ev.waitLen(ev0+1, 60*time.Millisecond)
		}
	}
	if _, dec := decodedPorts[dp]; dec && r.lab.ev.Len() > ev0 {
		// the decoded-port handlers report first and close afterwards (deferred): let the close be queued before
		// the frames of this step are collected
		for dl := time.Now().Add(300 * time.Millisecond); time.Now().Before(dl); time.Sleep(200 * time.Microsecond) {
			if t := r.lab.c.VerifLookup(src, dst, sp, dp); t == nil || t.State != 4 {
				break
			}
		}
	}
	var txs []txFrame
	var effs []string
	for _, f := range r.lab.c.VerifDrainTx() {
		t := decodeTx(f)
		txs = append(txs, t)
		effs = append(effs, "tx="+hx(t.raw))
		// every emitted frame: well-formed, checksums valid
		if !t.ok {
			r.viol("tx-malformed", hx(f))
		} else {
			if !t.ipCsumOK {
				r.viol("tx-ip-checksum", hx(f))
			}
			if !t.tcpCsumOK {
				r.viol("tx-tcp-checksum", hx(f))
			}
			ipc, tcpc := carriesTwice(t.raw)
			if ipc {
				carryIPSeen++
			}
			if tcpc {
				carryTCPSeen++
			}
		}
	}
	evs := r.lab.ev.From(ev0)
	for _, e := range evs {
		effs = append(effs, evString(e))
	}
	iss, id := uint32(0), uint32(0)
	var tcb = r.lab.c.VerifLookup(src, dst, sp, dp)
	if createsState && tcb != nil {
		iss, id = tcb.ISS, tcb.ID-1
		// the values drawn for the state this frame created are those of the SYN-ACK it sent: a second SYN for a
		// tuple that already has a state creates another one, and the lookup above returns the older
		for _, t := range txs {
			if t.ok && t.flags&0x12 == 0x12 && len(t.raw) >= 6 {
				iss, id = t.seq-1, uint32(t.raw[4])<<8|uint32(t.raw[5]) // the SYN-ACK carries ISS+1
			}
		}
	}
	r.ops = append(r.ops, fmt.Sprintf("f:%s:0:%d:%d", hx(fr), iss, id))
	out := class
	if class == "tcp" {
		out = strings.TrimRight("tcp "+strings.Join(effs, " "), " ")
		if len(effs) == 0 {
			out = "tcp "
		}
		out += " | " + tcbString(tcb) + fmt.Sprintf(" n=%d", r.lab.c.VerifStateCount())
	}
	r.outs = append(r.outs, out)
	return txs, evs
}

// step advances one connection's scripted client by one frame and applies the property oracle.
func (r *canRun) step(c *connPlan) {
	my := r.lab.myIP
	mk := func(seq, ack uint32, flags byte, payload []byte) []byte {
		return ethFrame(ipPacket(c.peer, my, 6, tcpSegment(c.peer, my, c.sport, c.dport, seq, ack, flags, payload, true)))
	}
	back := func(t txFrame, what string) {
		if !t.src.Equal(my) || !t.dst.Equal(c.peer) || t.sport != c.dport || t.dport != c.sport {
			r.viol("reply-not-addressed-back", fmt.Sprintf("%s: %v:%d>%v:%d for conn %v:%d>%d", what, t.src, t.sport, t.dst, t.dport, c.peer, c.sport, c.dport))
		}
		if r.arp != 0 && !strings.EqualFold(t.ethDst.String(), peerMAC.String()) {
			r.viol("reply-wrong-mac", what)
		}
	}
	switch {
	case c.phase == 0: // SYN
		txs, _ := r.frame(mk(c.isn, 0, 0x02, nil), true, c.peer, my, c.sport, c.dport, false)
		if r.arp == 0 {
			if len(txs) != 0 {
				r.viol("tx-without-arp-entry", "")
			}
			c.done = true
			return
		}
		if len(txs) != 1 || txs[0].flags != 0x12 || txs[0].ack != c.isn+1 || len(txs[0].payload) != 0 {
			r.viol("synack-wrong", fmt.Sprintf("isn=%d got %d frame(s) %+v", c.isn, len(txs), txs))
			c.done = true
			return
		}
		back(txs[0], "syn-ack")
		c.srvSeq = txs[0].seq
		if c.synOnly {
			c.done = true
			return
		}
		if c.forceISS >= 0 {
			if !r.lab.c.VerifRebaseISS(c.peer, my, c.sport, c.dport, uint32(c.forceISS)) {
				r.viol("state-not-found-after-syn", "")
			}
			r.ops = append(r.ops, fmt.Sprintf("rb:%s:%d:%s:%d:%d", ip4(c.peer), c.sport, ip4(my), c.dport, uint32(c.forceISS)))
			r.outs = append(r.outs, "rb")
			// the drawn ISS is carried as seq-1 by this implementation's SYN-ACK; keep the same offset
			tcb := r.lab.c.VerifLookup(c.peer, my, c.sport, c.dport)
			if tcb != nil {
				c.srvSeq = tcb.SndNxt - 1
			}
		}
		if c.carry != 0 && len(c.segs) > 0 && c.segs[0].n > 0 && len(txs[0].raw) >= 40 {
			// the next frame this connection emits is the ACK of the first data segment: steer the values the
			// implementation draws at random (ISS, IP id) so that the 16-bit fold of its checksum sums carries twice
			raw := txs[0].raw
			w := func(b []byte, i int) uint32 { return uint32(b[i])<<8 | uint32(b[i+1]) }
			m4, p4 := my.To4(), c.peer.To4()
			addr := w(m4, 0) + w(m4, 2) + w(p4, 0) + w(p4, 2)
			if c.carry&1 != 0 {
				ack := c.isn + 1 + uint32(c.segs[0].n)
				b := addr + 6 + 20 + uint32(c.dport) + uint32(c.sport) + 0xffff + ack>>16 + ack&0xffff + 0x5010 + w(raw, 20+14)
				nxt := uint32(0xffff)<<16 | (0xffff - b&0xffff)
				// this implementation's SYN-ACK carries ISS+1 and leaves SND.NXT at ISS+2
				if r.lab.c.VerifRebaseISS(c.peer, my, c.sport, c.dport, nxt-2) {
					r.ops = append(r.ops, fmt.Sprintf("rb:%s:%d:%s:%d:%d", ip4(c.peer), c.sport, ip4(my), c.dport, nxt-2))
					r.outs = append(r.outs, "rb")
					if tcb := r.lab.c.VerifLookup(c.peer, my, c.sport, c.dport); tcb != nil {
						c.srvSeq = tcb.SndNxt - 1
					}
				}
			}
			if c.carry&2 != 0 {
				b := uint32(0x4500) + 40 + 0x8006 + addr
				id := uint32(c.isn)<<16 | (0xffff - b&0xffff)
				if r.lab.c.VerifSetID(c.peer, my, c.sport, c.dport, id) {
					r.ops = append(r.ops, fmt.Sprintf("ri:%s:%d:%s:%d:%d", ip4(c.peer), c.sport, ip4(my), c.dport, id))
					r.outs = append(r.outs, "ri")
				}
			}
		}
		c.nextSeq = c.isn + 1
		c.phase = 1
	case c.phase == 1: // handshake ACK
		r.frame(mk(c.nextSeq, c.srvSeq+1, 0x10, nil), false, c.peer, my, c.sport, c.dport, false)
		tcb := r.lab.c.VerifLookup(c.peer, my, c.sport, c.dport)
		if tcb == nil || tcb.State != 4 {
			r.viol("not-established-on-ack", fmt.Sprintf("isn=%d srvseq=%d tcb=%s", c.isn, c.srvSeq, tcbString(tcb)))
			c.done = true
			return
		}
		c.estab = true
		r.nontriv = true
		if os.Getenv("HT_C14_NOSLEEP") == "" {
			time.Sleep(3 * time.Millisecond) // let the handler goroutine block in its first Read
		}
		c.phase = 2
	case c.phase-2 < len(c.segs): // data
		sp := c.segs[c.phase-2]
		payload := make([]byte, sp.n)
		for i := range payload {
			payload[i] = byte('a' + (len(c.sent)+i)%26)
		}
		flags := byte(0x10)
		if sp.psh {
			flags |= 0x08
		}
		expectEv := sp.psh && !c.evSeen
		txs, evs := r.frame(mk(c.nextSeq, c.srvSeq+1, flags, payload), false, c.peer, my, c.sport, c.dport, expectEv)
		c.sent = append(c.sent, payload...)
		c.nextSeq += uint32(sp.n)
		if sp.psh && c.pushed == 0 && !c.evSeen {
			c.pushed = len(c.sent)
		}
		want := c.isn + 1 + uint32(len(c.sent))
		if sp.n > 0 {
			if len(txs) == 0 || txs[0].flags != 0x10 || txs[0].ack != want {
				r.viol("ack-not-exact", fmt.Sprintf("isn=%d sent=%d want ack %d got %+v", c.isn, len(c.sent), want, txs))
			}
		}
		for _, t := range txs {
			back(t, "ack")
			if t.flags&0x01 != 0 {
				c.finSeq, c.finSeen = t.seq, true // the handler closed: the server's FIN
			}
		}
		r.checkEvents(c, evs, expectEv)
		c.phase++
	case c.fin >= 0 && c.phase-2 == len(c.segs): // FIN
		payload := make([]byte, c.fin)
		for i := range payload {
			payload[i] = byte('A' + i%26)
		}
		expectEv := !c.evSeen
		txs, evs := r.frame(mk(c.nextSeq, c.srvSeq+1, 0x11, payload), false, c.peer, my, c.sport, c.dport, expectEv)
		c.sent = append(c.sent, payload...)
		if c.pushed == 0 && !c.evSeen {
			c.pushed = len(c.sent) // FIN implies PUSH
		}
		want := c.isn + 1 + uint32(len(c.sent)) + 1
		answered := false
		for _, t := range txs {
			back(t, "fin-reply")
			if t.ack == want && t.flags&0x10 != 0 {
				answered = true
			}
			if t.flags&0x01 != 0 {
				c.finSeq, c.finSeen = t.seq, true
			}
		}
		if !answered {
			r.viol("fin-not-answered", fmt.Sprintf("isn=%d sent=%d want ack %d got %+v", c.isn, len(c.sent), want, txs))
		}
		r.checkEvents(c, evs, expectEv)
		c.phase++
		c.done = !(c.lastAck && c.finSeen)
	case c.lastAck && c.finSeen && c.fin >= 0 && c.phase-2 == len(c.segs)+1: // the client's ACK of the server's FIN
		r.frame(mk(c.isn+1+uint32(len(c.sent))+1, c.finSeq+1, 0x10, nil), false, c.peer, my, c.sport, c.dport, false)
		c.phase++
	case c.lastAck && c.finSeen && c.fin >= 0 && c.phase-2 == len(c.segs)+2: // ... and a reset: the state is deleted
		n0 := r.lab.c.VerifStateCount()
		r.frame(mk(c.isn+1+uint32(len(c.sent))+1, c.finSeq+1, 0x14, nil), false, c.peer, my, c.sport, c.dport, false)
		if n1 := r.lab.c.VerifStateCount(); n1 != n0-1 {
			r.viol("closed-connection-not-released", fmt.Sprintf("%d states before the reset of the closed connection, %d after", n0, n1))
		}
		c.phase++
		c.done = true
	default:
		c.done = true
	}
}

func (r *canRun) checkEvents(c *connPlan, evs []event.Event, expected bool) {
	my := r.lab.myIP
	got := 0
	wantCat := "tcp"
	if d, ok := decodedPorts[c.dport]; ok {
		wantCat = d
	}
	for _, e := range evs {
		m := evMap(e)
		cat := fmt.Sprint(m["category"])
		if cat != "tcp" && !payloadCategory[cat] {
			continue
		}
		if _, ok := m["payload-hex"]; ok && cat != wantCat {
			r.viol("event-wrong-category", fmt.Sprintf("connection to port %d reported with category %s", c.dport, cat))
		}
		if _, ok := m["payload-hex"]; !ok {
			r.viol("handler-failed", fmt.Sprint(m["message"]))
			continue
		}
		got++
		if fmt.Sprint(m["source-ip"]) != c.peer.String() || fmt.Sprint(m["destination-ip"]) != my.String() ||
			fmt.Sprint(m["source-port"]) != fmt.Sprint(c.sport) || fmt.Sprint(m["destination-port"]) != fmt.Sprint(c.dport) {
			r.viol("event-wrong-addresses", fmt.Sprintf("%v:%v>%v:%v for conn %v:%d>%d", m["source-ip"], m["source-port"], m["destination-ip"], m["destination-port"], c.peer, c.sport, c.dport))
		}
		p := unhx(hexOrDash(fmt.Sprint(m["payload-hex"])))
		if len(p) > len(c.sent) || string(p) != string(c.sent[:len(p)]) {
			r.viol("event-payload-not-prefix", fmt.Sprintf("payload %x stream %x", p, c.sent))
		} else if len(p) < c.pushed && len(p) < 2048 {
			r.viol("event-payload-misses-first-push", fmt.Sprintf("payload %d bytes, first pushed segment ends at %d", len(p), c.pushed))
		}
		c.evSeen = true
	}
	if expected && got == 0 {
		r.viol("no-connection-event", fmt.Sprintf("conn %v:%d>%d", c.peer, c.sport, c.dport))
	}
	if got > 1 {
		r.viol("duplicate-connection-event", "")
	}
}

func (r *canRun) finish() {
	line := fmt.Sprintf("can %s %d %s", ip4(r.lab.myIP), minInt(r.arp, 1), strings.Join(r.ops, " "))
	emit(line, strings.Join(r.outs, " ; "), r.verdict, r.nontriv)
}

func minInt(a, b int) int {
	if a < b {
		return a
	}
	return b
}

func newCanRun(arp int) *canRun {
	lab, err := newCanLab(arp, stdPeers)
	if err != nil {
		fmt.Fprintln(out, "#stat lab_error "+strings.ReplaceAll(err.Error(), " ", "_"))
		return nil
	}
	return &canRun{lab: lab, arp: arp, verdict: "ok"}
}

// runScenario runs the connections under the given schedule (indices into conns; exhausted
// connections are skipped; afterwards the rest is run round-robin).
func runScenario(arp int, conns []*connPlan, sched []int, noise [][]byte) {
	r := newCanRun(arp)
	if r == nil {
		return
	}
	defer r.lab.c.Close()
	ni := 0
	adv := func(i int) {
		c := conns[i%len(conns)]
		if !c.done {
			r.step(c)
			if ni < len(noise) {
				nsrc, ndst, nsp, ndp, nsyn, _ := frameInfo(noise[ni])
				r.frame(noise[ni], nsyn, nsrc, ndst, nsp, ndp, false)
				ni++
			}
		}
	}
	for _, i := range sched {
		adv(i)
	}
	for {
		live := false
		for i, c := range conns {
			if !c.done {
				live = true
				adv(i)
			}
		}
		if !live {
			break
		}
	}
	r.finish()
}

// ports whose handler reads the first bytes and reports them under the protocol's own category
var decodedPorts = map[uint16]string{23: "telnet", 443: "https", 139: "nbt-ip", 445: "smb-ip", 1433: "mssql", 6379: "redis"}
var payloadCategory = map[string]bool{"telnet": true, "https": true, "nbt-ip": true, "smb-ip": true, "mssql": true, "redis": true}

// runHandoff: n connections whose first data segment (PSH) follows the handshake ACK without any pause, so that it is
// processed while the connection's handler goroutine is between starting, finding nothing buffered, and waiting for
// the push signal. Whatever the order, the connection must be reported with the pushed bytes. Oracle only.
func runHandoff(n int, dport uint16, gap time.Duration) {
	r := newCanRun(1)
	if r == nil {
		return
	}
	defer r.lab.c.Close()
	my := r.lab.myIP
	line := fmt.Sprintf("@canhandoff %d %d %d", n, dport, gap.Microseconds())
	verdict := "ok"
	type hc struct {
		peer  net.IP
		sport uint16
		data  []byte
	}
	var cs []hc
	for i := 0; i < n; i++ {
		c := hc{peer: stdPeers[i%4], sport: uint16(20000 + i), data: []byte(fmt.Sprintf("hello-%d", i))}
		isn := uint32(i) * 7919
		mk := func(seq, ack uint32, flags byte, payload []byte) []byte {
			return ethFrame(ipPacket(c.peer, my, 6, tcpSegment(c.peer, my, c.sport, dport, seq, ack, flags, payload, true)))
		}
		r.lab.inject(mk(isn, 0, 0x02, nil))
		r.lab.c.VerifTakeKnock() // the lab runs no knock detector: keep its queue empty
		var srv uint32
		for _, f := range r.lab.c.VerifDrainTx() {
			if t := decodeTx(f); t.ok && t.flags == 0x12 {
				srv = t.seq
			}
		}
		ack, data := mk(isn+1, srv+1, 0x10, nil), mk(isn+1, srv+1, 0x18, c.data)
		r.lab.inject(ack)
		if gap > 0 {
			for t0 := time.Now(); time.Since(t0) < gap; {
			}
		}
		r.lab.inject(data)
		r.lab.c.VerifDrainTx()
		cs = append(cs, c)
	}
	r.lab.ev.waitLen(n, 4*time.Second)
	time.Sleep(20 * time.Millisecond)
	seen := map[string]string{}
	for _, e := range r.lab.ev.From(0) {
		m := evMap(e)
		if _, ok := m["payload-hex"]; ok {
			seen[fmt.Sprintf("%v:%v", m["source-ip"], m["source-port"])] = string(unhx(hexOrDash(fmt.Sprint(m["payload-hex"]))))
		}
	}
	missing, wrong := 0, 0
	first := ""
	for _, c := range cs {
		k := fmt.Sprintf("%v:%d", c.peer, c.sport)
		p, ok := seen[k]
		if !ok {
			missing++
			if first == "" {
				first = k + " not reported within 4 s"
				if os.Getenv("HT_C14_ONLY") != "" {
					first += " tcb=" + tcbString(r.lab.c.VerifLookup(c.peer, my, c.sport, dport)) + fmt.Sprintf(" events=%d", r.lab.ev.Len())
				}
			}
		} else if p != string(c.data) {
			wrong++
			if first == "" {
				first = fmt.Sprintf("%s reported with payload %q, pushed %q", k, p, c.data)
			}
		}
	}
	if missing+wrong > 0 {
		verdict = fmt.Sprintf("viol:pushed-bytes-not-reported:%d of %d connections whose first pushed segment directly followed the handshake: %d not reported, %d with another payload (%s)", missing+wrong, n, missing, wrong, first)
	}
	emit(line, fmt.Sprintf("reported=%d", len(seen)), verdict, true)
}

// runHTTPPort: a connection to a port whose handler parses an HTTP request (80: http, 9200: elasticsearch) and answers
// it. Oracle only: the request is reported under the port's category with the client's addresses, method and target;
// every emitted frame is addressed back with valid checksums; the reply's segments carry consecutive sequence numbers
// starting at the SYN-ACK's + 1 and acknowledge the whole request.
func runHTTPPort(dport uint16, peer net.IP, sport uint16, isn uint32, target string, cuts []int) {
	r := newCanRun(1)
	if r == nil {
		return
	}
	defer r.lab.c.Close()
	my := r.lab.myIP
	req := []byte("GET " + target + " HTTP/1.1\r\nHost: sensor\r\nUser-Agent: probe/1\r\n\r\n")
	cs := []string{"-"}
	for _, c := range cuts {
		cs = append(cs, fmt.Sprint(c))
	}
	line := fmt.Sprintf("@canhttp %d %s %d %d %s %s", dport, ip4(peer), sport, isn, target, strings.Join(cs, ","))
	verdict := "ok"
	viol := func(sig, d string) {
		if verdict == "ok" {
			verdict = "viol:" + sig + ":" + d
		}
	}
	mk := func(seq, ack uint32, flags byte, payload []byte) []byte {
		return ethFrame(ipPacket(peer, my, 6, tcpSegment(peer, my, sport, dport, seq, ack, flags, payload, true)))
	}
	var reply []byte
	var next uint32
	nframes := 0
	collect := func() {
		for _, f := range r.lab.c.VerifDrainTx() {
			t := decodeTx(f)
			nframes++
			if !t.ok {
				viol("tx-malformed", hx(f))
				continue
			}
			if !t.ipCsumOK {
				viol("tx-ip-checksum", hx(f))
			}
			if !t.tcpCsumOK {
				viol("tx-tcp-checksum", fmt.Sprintf("segment with %d payload bytes: %s", len(t.payload), hx(f)))
			}
			if !t.src.Equal(my) || !t.dst.Equal(peer) || t.sport != dport || t.dport != sport {
				viol("reply-not-addressed-back", fmt.Sprintf("%v:%d>%v:%d", t.src, t.sport, t.dst, t.dport))
			}
			if t.flags&0x02 != 0 {
				next = t.seq + 1
				continue
			}
			if len(t.payload) > 0 {
				if t.seq != next {
					viol("reply-sequence-wrong", fmt.Sprintf("segment with %d bytes has seq %d, expected %d", len(t.payload), t.seq, next))
				}
				if t.ack != isn+1+uint32(len(req)) {
					viol("ack-not-exact", fmt.Sprintf("reply segment acknowledges %d, the request ends at %d", t.ack, isn+1+uint32(len(req))))
				}
				reply = append(reply, t.payload...)
				next += uint32(len(t.payload))
			}
		}
	}
	r.lab.inject(mk(isn, 0, 0x02, nil))
	r.lab.c.VerifTakeKnock()
	collect()
	if nframes != 1 {
		viol("synack-wrong", fmt.Sprintf("%d frames for the SYN", nframes))
	}
	srv := next - 1
	r.lab.inject(mk(isn+1, srv+1, 0x10, nil))
	time.Sleep(3 * time.Millisecond)
	seq := isn + 1
	prev := 0
	for i, c := range append(append([]int(nil), cuts...), len(req)) {
		if c <= prev || c > len(req) {
			continue
		}
		flags := byte(0x10)
		if c == len(req) || i%2 == 1 {
			flags |= 0x08
		}
		r.lab.inject(mk(seq, srv+1, flags, req[prev:c]))
		seq += uint32(c - prev)
		prev = c
		collect()
	}
	want := map[uint16]string{80: "http", 9200: "elasticsearch"}[dport]
	found := false
	for dl := time.Now().Add(3 * time.Second); time.Now().Before(dl) && !found; time.Sleep(2 * time.Millisecond) {
		for _, e := range r.lab.ev.From(0) {
			m := evMap(e)
			if fmt.Sprint(m["category"]) == want {
				found = true
				if fmt.Sprint(m["source-ip"]) != peer.String() || fmt.Sprint(m["source-port"]) != fmt.Sprint(sport) || fmt.Sprint(m["destination-ip"]) != my.String() || fmt.Sprint(m["destination-port"]) != fmt.Sprint(dport) {
					viol("event-wrong-addresses", fmt.Sprintf("%v:%v>%v:%v", m["source-ip"], m["source-port"], m["destination-ip"], m["destination-port"]))
				}
				if fmt.Sprint(m["http.method"]) != "GET" || fmt.Sprint(m["http.uri"]) != target {
					viol("event-request-wrong", fmt.Sprintf("method %v target %v, sent GET %s", m["http.method"], m["http.uri"], target))
				}
			}
		}
	}
	if !found {
		viol("no-connection-event", fmt.Sprintf("no %s event for the request to port %d", want, dport))
	}
	time.Sleep(10 * time.Millisecond)
	collect()
	if found && !strings.HasPrefix(string(reply), "HTTP/") {
		viol("reply-not-sent", fmt.Sprintf("the handler's reply did not arrive as in-order segments: %q", reply))
	}
	emit(line, fmt.Sprintf("frames=%d reply=%d", nframes, len(reply)), verdict, found)
}

var carryIPSeen, carryTCPSeen int

// carriesTwice: for an emitted IP packet, whether the sum of the IPv4 header words / of the TCP pseudo header and
// segment words (checksum fields left out) is one whose first 16-bit fold produces a carry of its own
func carriesTwice(ip []byte) (bool, bool) {
	if len(ip) < 40 {
		return false, false
	}
	twice := func(s uint32) bool { return s>>16+s&0xffff > 0xffff }
	var a uint32
	for i := 0; i < 20; i += 2 {
		if i != 10 {
			a += uint32(ip[i])<<8 | uint32(ip[i+1])
		}
	}
	seg := ip[20:]
	b := uint32(6) + uint32(len(seg))
	for i := 12; i < 20; i += 2 {
		b += uint32(ip[i])<<8 | uint32(ip[i+1])
	}
	for i := 0; i+1 < len(seg); i += 2 {
		if i != 16 {
			b += uint32(seg[i])<<8 | uint32(seg[i+1])
		}
	}
	if len(seg)%2 == 1 {
		b += uint32(seg[len(seg)-1]) << 8
	}
	return twice(a), twice(b)
}

func plan(peer net.IP, sport, dport uint16, isn uint32, segs []segPlan, fin int, force int64) *connPlan {
	return &connPlan{peer: peer, sport: sport, dport: dport, isn: isn, segs: segs, fin: fin, forceISS: force}
}

var isnBoundary = []uint32{0, 1, 1<<31 - 1, 1 << 31, 1<<32 - 2, 1<<32 - 1, 0xfffffffa, 12345678}
var issBoundary = []int64{-1, 0, 1, 1<<31 - 1, 1 << 31, 1<<32 - 3, 1<<32 - 2, 1<<32 - 1}
var undecodedPorts = []uint16{8080, 1, 65535, 12345, 21, 25}

func segPlans() [][]segPlan {
	return [][]segPlan{
		{},
		{{1, true}},
		{{5, true}},
		{{2, false}, {3, true}},
		{{7, false}, {0, true}},
		{{3, true}, {4, true}},
		{{100, false}, {101, false}, {1, true}},
		{{1460, false}, {1460, false}, {1080, true}},
	}
}

func genC14(tier string, seed uint64) {
	rng := NewRng(seed)
	os.Stdout = devNull // the canary's http handler prints the request to stdout; records go through `out`
	if os.Getenv("HT_C14_ONLY") == "handoff" {
		for i := 0; i < 40; i++ {
			runHandoff(250, 8080, time.Duration(i%5)*time.Microsecond)
		}
		return
	}
	p1, p2 := stdPeers[0], stdPeers[1]
	// 1. single connections: ISN boundaries x plans x fin variants
	for _, isn := range isnBoundary {
		for pi, sp := range segPlans() {
			for _, fin := range []int{-1, 0, 3} {
				if tier != "thorough" && (pi+int(isn%3)+fin)%2 == 0 && isn != 1<<32-2 {
					continue
				}
				runScenario(1, []*connPlan{plan(p1, 40000+uint16(pi), undecodedPorts[pi%len(undecodedPorts)], isn, sp, fin, -1)}, nil, nil)
			}
		}
	}
	// 2. server ISS boundaries (sequence space rebased through the hook)
	for _, iss := range issBoundary {
		for _, sp := range [][]segPlan{{{4, true}}, {{2, false}, {1, true}}} {
			for _, fin := range []int{-1, 0, 2} {
				runScenario(1, []*connPlan{plan(p1, 41000, 8080, 1<<32-3, sp, fin, iss)}, nil, nil)
			}
		}
	}
	// 2e. a connection that is closed completely (its state removed) while connections opened after it go on: the
	// table then has a hole in front of them
	for vi, order := range [][]int{
		{0, 1, 0, 0, 0, 0, 0, 1, 1, 1, 1},          // A opens, B opens, A runs to its removal, B goes on
		{0, 1, 2, 1, 1, 1, 1, 1, 0, 2, 0, 2, 0, 2}, // the middle one of three is removed
		{0, 0, 1, 0, 0, 0, 1, 0, 1, 1, 1},
		{0, 1, 0, 1, 0, 0, 0, 0, 1, 1, 2, 2, 2, 2, 2}, // a third connection opened into the hole afterwards
	} {
		a := plan(p1, 46000+uint16(vi), 8080, isnBoundary[vi%len(isnBoundary)], []segPlan{{3, true}}, 0, -1)
		a.lastAck = true
		b := plan(p2, 46100+uint16(vi), 8080, 77, []segPlan{{2, false}, {4, true}}, 1, -1)
		c3 := plan(p1, 46200+uint16(vi), 12345, 5, []segPlan{{5, true}}, 0, -1)
		conns := []*connPlan{a, b, c3}
		if vi == 1 {
			b.lastAck = true
			a.lastAck = false
		}
		runScenario(1, conns, order, nil)
	}
	// 2f. a second SYN for a tuple whose handshake is still open, with the same and with another ISN (a client that
	// retransmits, or one that restarted): every SYN is answered with a SYN-ACK acknowledging its own ISN + 1
	for vi, isns := range [][]uint32{{1000, 1000}, {1000, 70000}, {1<<32 - 2, 5}, {0, 1<<32 - 1, 1 << 31}, {7, 7, 8}} {
		var conns []*connPlan
		var order []int
		for k, isn := range isns {
			pl := plan(p1, 47000+uint16(vi), 8080, isn, nil, -1, -1)
			pl.synOnly = true
			conns = append(conns, pl)
			order = append(order, k)
		}
		// another connection goes through its whole life in between and afterwards
		other := plan(p2, 47100+uint16(vi), 8080, 99, []segPlan{{3, true}}, 0, -1)
		conns = append(conns, other)
		order = append(order, len(isns), len(isns), len(isns), len(isns))
		runScenario(1, conns, order, nil)
	}
	// 2a. decoded ports whose handler reports the first bytes read (telnet, https, nbt, smb, mssql, redis)
	for di, dp := range []uint16{23, 443, 139, 445, 1433, 6379} {
		for pi, sp := range segPlans() {
			if tier != "thorough" && (pi+di)%3 != 0 {
				continue
			}
			runScenario(1, []*connPlan{plan(p1, 44000+uint16(pi), dp, isnBoundary[(pi+di)%len(isnBoundary)], sp, []int{-1, 0, 3}[(pi+di)%3], -1)}, nil, nil)
		}
	}
	// 2d. ports whose handler parses a request and answers it (the only frames with payload the listener emits)
	for i, dp := range []uint16{80, 9200, 80, 9200, 80, 80, 9200, 80} {
		target := "/" + strings.Repeat("x", []int{0, 1, 2, 3, 40, 41, 300, 301}[i])
		reqLen := len(target) + 56
		cuts := [][]int{nil, {1}, {5, 20}, {reqLen - 1}, {4, 5, 6, 7}, {reqLen / 2}, nil, {10, 11}}[i]
		runHTTPPort(dp, stdPeers[i%4], uint16(45000+i), isnBoundary[i%len(isnBoundary)], target, cuts)
	}
	genHandoffModel("1")
	genHandoffModel("0")
	// 2c. hand-off of the pushed bytes to the handler goroutine, with no pause and with pauses around the time the
	// goroutine needs to reach its wait
	for _, gap := range []time.Duration{0, 0, time.Microsecond, 2 * time.Microsecond, 5 * time.Microsecond, 10 * time.Microsecond, 20 * time.Microsecond, 50 * time.Microsecond} {
		runHandoff(250, 8080, gap)
	}
	runHandoff(250, 23, 0)
	// 2b. drawn values for which the checksum sums need more than one fold (steered through the hooks): about one
	// emitted frame in 10^4 is of this kind, so random draws do not reach it
	for i, isn := range []uint32{0, 77, 1<<32 - 2, 0x7fff0000, 0xabcdef01, 0x0000ffff} {
		for ci, sp := range [][]segPlan{{{1, true}}, {{2, false}, {3, true}}, {{1460, true}}, {{999, false}, {1, true}}} {
			for _, carry := range []int{1, 2, 3} {
				if tier != "thorough" && (i+ci+carry)%2 == 0 {
					continue
				}
				pl := plan([]net.IP{p1, p2, stdPeers[4]}[(i+ci)%3], 43000+uint16(i*7+ci), undecodedPorts[(i+ci)%len(undecodedPorts)], isn, sp, []int{-1, 0, 2}[(i+carry)%3], -1)
				pl.carry = carry
				runScenario(1, []*connPlan{pl}, nil, nil)
			}
		}
	}
	fmt.Fprintf(out, "#stat c14_frames_ip_sum_folds_twice %d\n#stat c14_frames_tcp_sum_folds_twice %d\n", carryIPSeen, carryTCPSeen)
	// 3. no ARP entry / route fallback
	runScenario(0, []*connPlan{plan(p1, 42000, 8080, 7, []segPlan{{3, true}}, 0, -1)}, nil, nil)
	runScenario(2, []*connPlan{plan(p1, 42001, 8080, 7, []segPlan{{3, true}}, 0, -1)}, nil, nil)
	// 4. simultaneous connections: same peer different ports, different peers same ports, port-swapped pairs
	pairs := [][2]*connPlan{}
	mkPairs := func() [][2]*connPlan {
		return [][2]*connPlan{
			{plan(p1, 1000, 2000, 5, []segPlan{{3, true}}, 0, -1), plan(p1, 2000, 1000, 900, []segPlan{{4, true}}, 0, -1)},
			{plan(p1, 1000, 2000, 5, []segPlan{{3, true}}, 0, -1), plan(p2, 1000, 2000, 900, []segPlan{{4, true}}, 0, -1)},
			{plan(p1, 1000, 2000, 5, []segPlan{{3, true}}, -1, -1), plan(p1, 1001, 2000, 1<<32-2, []segPlan{{2, false}, {2, true}}, 1, -1)},
			{plan(p1, 1000, 2000, 5, []segPlan{{3, true}}, 0, -1), plan(p2, 2000, 1000, 6, []segPlan{{4, true}}, 0, -1)},
		}
	}
	pairs = mkPairs()
	// all interleavings of the two clients' steps (each has <= 5 steps)
	var scheds [][]int
	var rec func(a, b int, cur []int)
	rec = func(a, b int, cur []int) {
		if a == 0 && b == 0 {
			scheds = append(scheds, append([]int(nil), cur...))
			return
		}
		if a > 0 {
			rec(a-1, b, append(cur, 0))
		}
		if b > 0 {
			rec(a, b-1, append(cur, 1))
		}
	}
	rec(4, 4, nil)
	step := 1
	if tier != "thorough" {
		step = 5
	}
	for pi := range pairs {
		for si := 0; si < len(scheds); si += step {
			pp := mkPairs()[pi]
			runScenario(1, []*connPlan{pp[0], pp[1]}, scheds[si], nil)
		}
	}
	// 5. random: 1..4 connections, random plans and schedules, malformed noise frames in between
	n := 60
	if tier == "thorough" {
		n = 1500
	}
	for i := 0; i < n; i++ {
		k := 1 + rng.Intn(4)
		var conns []*connPlan
		for j := 0; j < k; j++ {
			var segs []segPlan
			total := 0
			for s := rng.Intn(9); s > 0 && total < 3900; s-- {
				l := rng.Pick([]int{0, 1, 2, 3, 10, 11, 100, 255, 256, 536, 1000, 1460})
				if total+l > 4000 {
					break
				}
				total += l
				segs = append(segs, segPlan{l, rng.Intn(3) == 0})
			}
			isn := uint32(rng.Next())
			if rng.Intn(3) == 0 {
				isn = isnBoundary[rng.Intn(len(isnBoundary))] - uint32(rng.Intn(3))
			}
			force := int64(-1)
			if rng.Intn(4) == 0 {
				force = issBoundary[1+rng.Intn(len(issBoundary)-1)]
			}
			peer := stdPeers[rng.Intn(3)]
			sport := uint16(rng.Pick([]int{1000, 1001, 2000, 50000}))
			dport := uint16(rng.Pick([]int{2000, 1000, 8080, 65535}))
			dup := false
			for _, c := range conns {
				if c.sport == sport && c.dport == dport && c.peer.Equal(peer) {
					dup = true
				}
			}
			if dup {
				continue
			}
			conns = append(conns, plan(peer, sport, dport, isn, segs, rng.Pick([]int{-1, 0, 0, 1, 5}), force))
		}
		var sched []int
		for s := rng.Intn(30); s > 0; s-- {
			sched = append(sched, rng.Intn(k))
		}
		var noise [][]byte
		for s := rng.Intn(4); s > 0; s-- {
			noise = append(noise, noiseFrame(rng))
		}
		runScenario(1, conns, sched, noise)
	}
}

// noiseFrame builds a malformed or unrelated frame (C02's field-boundary families).
func noiseFrame(rng *Rng) []byte {
	my := net.IPv4(127, 0, 0, 1)
	if _, ip, err := loopback(); err == nil {
		my = ip
	}
	switch rng.Intn(8) {
	case 0:
		return rng.Bytes(14 + rng.Intn(60))
	case 1: // ipv4 with odd IHL / total length
		ihl, tl, actual := rng.Intn(16), rng.Intn(70), 20+rng.Intn(50)
		return ethFrame(ipv4Frame(ihl, tl, rng.Pick([]int{6, 17, 1}), actual, rng))
	case 2: // short tcp segment
		return ethFrame(ipPacket(stdPeers[0], my, 6, rng.Bytes(rng.Intn(24))))
	case 3: // tcp with broken options
		opts := rng.Bytes(4 * (1 + rng.Intn(3)))
		seg := tcpSeg(5+len(opts)/4, opts, rng.Bytes(rng.Intn(8)), byte(rng.Intn(64)))
		return ethFrame(ipPacket(stdPeers[0], my, 6, seg))
	case 4: // tcp to port 22 / other host
		dst := my
		if rng.Bool() {
			dst = net.IPv4(10, 1, 1, 1)
		}
		return ethFrame(ipPacket(stdPeers[0], dst, 6, tcpSegment(stdPeers[0], dst, 999, uint16(rng.Pick([]int{22, 8080})), 1, 0, 0x02, nil, true)))
	case 5: // stray ACK / RST / FIN without a connection
		return ethFrame(ipPacket(stdPeers[2], my, 6, tcpSegment(stdPeers[2], my, 7777, 8080, uint32(rng.Next()), uint32(rng.Next()), byte(rng.Pick([]int{0x10, 0x04, 0x11, 0x14, 0x18, 0x00, 0x3f})), rng.Bytes(rng.Intn(5)), rng.Bool())))
	case 6: // udp length mismatch
		d := udpDatagram(5000, 9999, rng.Bytes(rng.Intn(10)))
		if rng.Bool() {
			d[5]++
		}
		return ethFrame(ipPacket(stdPeers[0], net.IPv4(10, 1, 1, 1), 17, d))
	default: // not ipv4
		f := ethFrame(rng.Bytes(30))
		f[12], f[13] = 0x08, 0x06
		return f
	}
}

// replayCan re-runs the frames of a recorded case line on a fresh listener.
func replayCan(l string) {
	f := strings.Fields(l)
	os.Stdout = devNull
	if len(f) == 4 && f[0] == "@canhandoff" {
		var n, dp, gap int
		fmt.Sscan(f[1], &n)
		fmt.Sscan(f[2], &dp)
		fmt.Sscan(f[3], &gap)
		runHandoff(n, uint16(dp), time.Duration(gap)*time.Microsecond)
		return
	}
	if len(f) == 7 && f[0] == "@canhttp" {
		var dp, sp int
		var isn uint64
		fmt.Sscan(f[1], &dp)
		fmt.Sscan(f[3], &sp)
		fmt.Sscan(f[4], &isn)
		var cuts []int
		for _, c := range strings.Split(f[6], ",")[1:] {
			var k int
			fmt.Sscan(c, &k)
			cuts = append(cuts, k)
		}
		runHTTPPort(uint16(dp), net.IP(unhx(f[2])), uint16(sp), uint32(isn), f[5], cuts)
		return
	}
	if len(f) < 3 || f[0] != "can" {
		return
	}
	arp := 0
	if f[2] == "1" {
		arp = 1
	}
	r := newCanRun(arp)
	if r == nil {
		return
	}
	defer r.lab.c.Close()
	r.replay = true
	for _, op := range f[3:] {
		p := strings.Split(op, ":")
		switch p[0] {
		case "f":
			fr := unhx(p[1])
			src, dst, sp, dp, isSyn, _ := frameInfo(fr)
			r.frame(fr, isSyn, src, dst, sp, dp, false)
		case "rb":
			var sp, dp int
			var iss uint64
			fmt.Sscan(p[2], &sp)
			fmt.Sscan(p[4], &dp)
			fmt.Sscan(p[5], &iss)
			r.lab.c.VerifRebaseISS(net.IP(unhx(p[1])), net.IP(unhx(p[3])), uint16(sp), uint16(dp), uint32(iss))
			r.ops = append(r.ops, op)
			r.outs = append(r.outs, "rb")
		case "ri":
			var sp, dp int
			var id uint64
			fmt.Sscan(p[2], &sp)
			fmt.Sscan(p[4], &dp)
			fmt.Sscan(p[5], &id)
			r.lab.c.VerifSetID(net.IP(unhx(p[1])), net.IP(unhx(p[3])), uint16(sp), uint16(dp), uint32(id))
			r.ops = append(r.ops, op)
			r.outs = append(r.outs, "ri")
		}
	}
	// a literal replay re-derives iss/id from the fresh run, so the op list is re-emitted as run
	r.finish()
}

func frameInfo(fr []byte) (src, dst net.IP, sp, dp uint16, isSyn, wake bool) {
	src, dst = net.IPv4zero, net.IPv4zero
	if len(fr) < 14 || fr[12] != 8 || fr[13] != 0 {
		return
	}
	iph, err := ipv4.Parse(append([]byte(nil), fr[14:]...))
	if err != nil || iph.Protocol != 6 || len(iph.Payload) < 4 {
		return
	}
	src, dst = iph.Src, iph.Dst
	seg := iph.Payload
	sp, dp = uint16(seg[0])<<8|uint16(seg[1]), uint16(seg[2])<<8|uint16(seg[3])
	if len(seg) >= 20 {
		isSyn = seg[13]&0x12 == 0x02
		wake = seg[13]&0x09 != 0
	}
	return
}
