package main

import (
	"context"
	"fmt"
	"net"
	"sort"
	"strings"
	"sync"
	"time"
)

// C20 (detector): the real knockDetector fed by the real handlers (verif hook), real 5 s ticks.
//
// case line: knock k:<srcip>:<dstip>:<proto>:<port>:<t> ... t:<now> ...
// output:    "tick <src>><dst>[tcp/80,udp/53,icmp] ..." per tick, joined by " ; "

func init() {
	register(&Stream{Name: "c20knock", Gen: genC20Knock, Replay: func(l string) {
		f := strings.Fields(l)
		if len(f) < 2 || f[0] != "knock" {
			return
		}
		// rebuild the scenario from the op list: bursts are separated by t: ops
		var sc knockScenario
		var cur []probe
		for _, op := range f[1:] {
			p := strings.Split(op, ":")
			switch p[0] {
			case "k":
				var port int
				fmt.Sscan(p[4], &port)
				cur = append(cur, probe{src: net.IP(unhx(p[1])), proto: p[3], port: uint16(port)})
			case "t":
				if len(cur) > 0 {
					sc.bursts = append(sc.bursts, cur)
					cur = nil
				}
			}
		}
		var mu sync.Mutex
		runKnockScenario(sc, &mu)
	}})
}

type probe struct {
	src   net.IP
	proto string // tcp | udp | icmp
	port  uint16
	gap   time.Duration // pause before this probe
}

type knockScenario struct {
	bursts [][]probe // each burst is followed by waiting for the idle tick
}

func portscanStr(m map[string]interface{}) (src string, s string, ports []string) {
	sip, dip := net.ParseIP(fmt.Sprint(m["source-ip"])), net.ParseIP(fmt.Sprint(m["destination-ip"]))
	if ps, ok := m["portscan.ports"].([]string); ok {
		ports = ps
	}
	return sip.String(), fmt.Sprintf("%s>%s[%s]", ip4(sip), ip4(dip), strings.Join(ports, ",")), ports
}

func runKnockScenario(sc knockScenario, emitMu *sync.Mutex) {
	verdict := "ok"
	viol := func(sig, d string) {
		if verdict == "ok" {
			verdict = "viol:" + sig + ":" + d
		}
	}
	lab, err := newCanLab(1, stdPeers)
	if err != nil {
		return
	}
	defer lab.c.Close()
	ctx, cancel := context.WithCancel(context.Background())
	defer cancel()
	go lab.c.VerifKnockDetector(ctx)
	my := lab.myIP
	var ops, outs []string
	clock := 0
	seenEv := 0
	collect := func(d time.Duration) []map[string]interface{} {
		deadline := time.Now().Add(d)
		var res []map[string]interface{}
		for time.Now().Before(deadline) {
			for _, e := range lab.ev.From(seenEv) {
				seenEv++
				m := evMap(e)
				if fmt.Sprint(m["category"]) == "portscan" {
					res = append(res, m)
				}
			}
			time.Sleep(20 * time.Millisecond)
		}
		return res
	}
	for _, burst := range sc.bursts {
		want := map[string]map[string]bool{} // source -> set of proto/port
		for i, p := range burst {
			if p.gap > 0 {
				time.Sleep(p.gap)
				clock += int(p.gap / time.Millisecond)
			}
			var fr []byte
			switch p.proto {
			case "tcp":
				fr = ethFrame(ipPacket(p.src, my, 6, tcpSegment(p.src, my, uint16(20000+i), p.port, uint32(i), 0, 0x02, nil, true)))
			case "udp":
				fr = ethFrame(ipPacket(p.src, my, 17, udpDatagram(uint16(20000+i), p.port, []byte("x"))))
			case "icmp":
				fr = ethFrame(ipPacket(p.src, my, 1, []byte{8, 0, 0, 0, 0, 1, 0, byte(i)}))
			}
			n0 := lab.ev.Len()
			if cls, e := lab.inject(fr); cls == "panic" {
				viol("receive-path-panic", fmt.Sprint(e))
			}
			if p.proto == "udp" {
				lab.ev.waitLen(n0+1, 2*time.Second) // the udp event follows the knock in the handler goroutine
			}
			lab.c.VerifDrainTx()
			key := p.proto
			if p.proto != "icmp" {
				key = fmt.Sprintf("%s/%d", p.proto, p.port)
			}
			if want[p.src.String()] == nil {
				want[p.src.String()] = map[string]bool{}
			}
			want[p.src.String()][key] = true
			port := int(p.port)
			if p.proto == "icmp" {
				port = 0
			}
			ops = append(ops, fmt.Sprintf("k:%s:%s:%s:%d:%d", ip4(p.src), ip4(my), p.proto, port, clock))
		}
		// first tick: 5 s after the last knock; allow scheduling slack
		evs := collect(6500 * time.Millisecond)
		clock += 5000
		ops = append(ops, fmt.Sprintf("t:%d", clock))
		var strs []string
		got := map[string]int{}
		for _, m := range evs {
			src, s, ports := portscanStr(m)
			strs = append(strs, s)
			got[src]++
			w := want[src]
			if w == nil {
				viol("portscan-for-unknown-source", s)
				continue
			}
			seen := map[string]bool{}
			for _, p := range ports {
				if seen[p] {
					viol("port-listed-twice", s)
				}
				seen[p] = true
				if !w[p] {
					viol("port-not-probed", s+" has "+p)
				}
			}
			for p := range w {
				if !seen[p] {
					viol("probed-port-missing", s+" lacks "+p)
				}
			}
		}
		for src := range want {
			if got[src] == 0 {
				viol("burst-not-reported", src)
			} else if got[src] > 1 {
				viol("burst-reported-more-than-once", fmt.Sprintf("%s: %d events", src, got[src]))
			}
		}
		outs = append(outs, strings.TrimSpace("tick "+strings.Join(strs, " ")))
		// second, idle tick: nothing may be reported again
		evs = collect(5500 * time.Millisecond)
		clock += 5000
		ops = append(ops, fmt.Sprintf("t:%d", clock))
		strs = nil
		for _, m := range evs {
			_, s, _ := portscanStr(m)
			strs = append(strs, s)
			viol("burst-reported-again-on-later-tick", s)
		}
		outs = append(outs, strings.TrimSpace("tick "+strings.Join(strs, " ")))
	}
	emitMu.Lock()
	emit("knock "+strings.Join(ops, " "), strings.Join(outs, " ; "), verdict, true)
	emitMu.Unlock()
}

func genC20Knock(tier string, seed uint64) {
	r := NewRng(seed)
	s := stdPeers
	P := func(src net.IP, proto string, port uint16) probe { return probe{src: src, proto: proto, port: port} }
	var scs []knockScenario
	// single source, mixed protocols, repeated ports
	scs = append(scs, knockScenario{bursts: [][]probe{{P(s[0], "tcp", 8080), P(s[0], "udp", 9999), P(s[0], "icmp", 0), P(s[0], "tcp", 8080), P(s[0], "udp", 9999), P(s[0], "icmp", 0), P(s[0], "udp", 8080), P(s[0], "tcp", 9999)}}})
	scs = append(scs, knockScenario{bursts: [][]probe{{P(s[0], "udp", 7)}}})
	scs = append(scs, knockScenario{bursts: [][]probe{{P(s[0], "icmp", 0)}}})
	scs = append(scs, knockScenario{bursts: [][]probe{{P(s[0], "tcp", 81)}}})
	// 2, 3, 4 sources interleaved
	for k := 2; k <= 4; k++ {
		var b []probe
		for i := 0; i < 4*k; i++ {
			b = append(b, P(s[i%k], []string{"tcp", "udp", "icmp"}[(i/k)%3], uint16(7000+i%3)))
		}
		scs = append(scs, knockScenario{bursts: [][]probe{b}})
		var b2 []probe // all of one source first, then the next
		for j := 0; j < k; j++ {
			for i := 0; i < 3; i++ {
				b2 = append(b2, P(s[j], "udp", uint16(7000+i)))
			}
		}
		scs = append(scs, knockScenario{bursts: [][]probe{b2}})
	}
	// two bursts from the same source (the second is a new burst, reported on its own)
	scs = append(scs, knockScenario{bursts: [][]probe{{P(s[0], "udp", 7001), P(s[0], "udp", 7002)}, {P(s[0], "udp", 7001), P(s[0], "udp", 7003)}}})
	scs = append(scs, knockScenario{bursts: [][]probe{{P(s[0], "tcp", 7001), P(s[1], "udp", 7002)}, {P(s[1], "udp", 7002), P(s[0], "icmp", 0)}}})
	// long burst: 101 probes at once, then 49 more spread over ~10 s (still one burst: gaps < 5 s)
	{
		var b []probe
		for i := 0; i < 101; i++ {
			b = append(b, P(s[2], "udp", uint16(10000+i)))
		}
		for i := 0; i < 49; i++ {
			p := P(s[2], "udp", uint16(10101+i))
			p.gap = 200 * time.Millisecond
			b = append(b, p)
		}
		scs = append(scs, knockScenario{bursts: [][]probe{b}})
	}
	// exactly 100 and 150 distinct + repeated ports in one go
	{
		var b []probe
		for i := 0; i < 150; i++ {
			b = append(b, P(s[3], []string{"tcp", "udp"}[i%2], uint16(12000+i%40)))
		}
		scs = append(scs, knockScenario{bursts: [][]probe{b}})
	}
	nr := 4
	if tier == "thorough" {
		nr = 40
	}
	for i := 0; i < nr; i++ {
		k := 1 + r.Intn(4)
		var b []probe
		for j := r.Range(1, 60); j > 0; j-- {
			b = append(b, P(s[r.Intn(k)], []string{"tcp", "udp", "icmp", "udp"}[r.Intn(4)], uint16(r.Pick([]int{1, 7, 8080, 9999, 65535, 1234}))))
		}
		scs = append(scs, knockScenario{bursts: [][]probe{b}})
	}
	// run in parallel (each scenario waits out real 5 s ticks), emit in scenario order
	var mu sync.Mutex
	var wg sync.WaitGroup
	sem := make(chan struct{}, 24)
	sort.SliceStable(scs, func(i, j int) bool { return len(scs[i].bursts) > len(scs[j].bursts) })
	for _, sc := range scs {
		wg.Add(1)
		sem <- struct{}{}
		go func(sc knockScenario) {
			defer wg.Done()
			defer func() { <-sem }()
			runKnockScenario(sc, &mu)
		}(sc)
	}
	wg.Wait()
}
