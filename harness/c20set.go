package main

import (
	"fmt"
	"strings"

	"github.com/honeytrap/honeytrap/listener/canary"
)

// C20 (container): listener/canary/unique-set.go against HT.Knock.USet.
//
// case line: uset op op ...   (items are small ints; uniqueFunc = equal modulo 10)
//   a<n> add, r<n> remove, c count, e each, er each removing the visited item,
//   ex<n> each removing item n at every visit, f<n> find

func init() {
	register(&Stream{Name: "c20set", Gen: genC20Set, Replay: func(l string) {
		f := strings.Fields(l)
		if len(f) >= 1 && f[0] == "uset" {
			impl, v, nt := runUSet(f[1:])
			emit(l, impl, v, nt)
		}
	}})
}

func runUSet(ops []string) (impl, verdict string, nontrivial bool) {
	verdict = "ok"
	viol := func(sig, d string) {
		if verdict == "ok" {
			verdict = "viol:" + sig + ":" + d
		}
	}
	var outs []string
	defer func() {
		if r := recover(); r != nil {
			outs = append(outs, "panic")
			impl = strings.Join(outs, " ")
			viol("uniqueset-panic", fmt.Sprint(r))
		}
	}()
	us := canary.NewUniqueSet(func(a, b interface{}) bool { return a.(int)%10 == b.(int)%10 })
	contents := func() []int {
		var xs []int
		us.Each(func(_ int, v interface{}) { xs = append(xs, v.(int)) })
		return xs
	}
	checkSet := func(where string) {
		xs := contents()
		if len(xs) != us.Count() {
			viol("count-mismatch", where)
		}
		seen := map[int]bool{}
		for _, x := range xs {
			if seen[x%10] {
				viol("duplicate-in-set", fmt.Sprintf("%s: %v", where, xs))
			}
			seen[x%10] = true
		}
	}
	for _, op := range ops {
		var n int
		if len(op) > 1 {
			fmt.Sscanf(strings.TrimLeft(op[1:], "rx"), "%d", &n)
		}
		before := contents()
		switch {
		case op[0] == 'a':
			r := us.Add(n).(int)
			outs = append(outs, fmt.Sprint(r))
			if r%10 != n%10 {
				viol("add-returned-unequal", op)
			}
			found := false
			for _, x := range contents() {
				if x == r {
					found = true
				}
			}
			if !found {
				viol("add-result-not-in-set", op)
			}
			nontrivial = nontrivial || len(before) > 0
		case op[0] == 'r':
			us.Remove(n)
			outs = append(outs, "_")
			for _, x := range contents() {
				if x == n {
					viol("removed-item-still-present", op)
				}
			}
		case op == "c":
			outs = append(outs, fmt.Sprint(us.Count()))
		case op[0] == 'f':
			v := us.Find(func(x interface{}) bool { return x.(int)%10 == n%10 })
			if v == nil {
				outs = append(outs, "nil")
			} else {
				outs = append(outs, fmt.Sprint(v))
			}
		case op[0] == 'e':
			var vis []string
			var visN []int
			us.Each(func(i int, v interface{}) {
				if v == nil {
					vis = append(vis, "nil")
					visN = append(visN, -1)
				} else {
					vis = append(vis, fmt.Sprint(v))
					visN = append(visN, v.(int))
				}
				switch {
				case op == "er":
					us.Remove(v)
				case strings.HasPrefix(op, "ex"):
					us.Remove(n)
				}
			})
			outs = append(outs, "["+strings.Join(vis, ",")+"]")
			// Each must visit exactly the items present when it started, once each, in order
			if fmt.Sprint(visN) != fmt.Sprint(before) && !(len(visN) == 0 && len(before) == 0) {
				viol("each-visits-wrong-items", fmt.Sprintf("%s: set %v visited %v", op, before, visN))
			}
			if op != "e" && len(before) >= 2 {
				nontrivial = true
			}
		default:
			outs = append(outs, "bad-op")
		}
		checkSet(op)
	}
	return strings.Join(outs, " "), verdict, nontrivial
}

func genC20Set(tier string, seed uint64) {
	ops := []string{"a1", "a2", "a3", "a11", "r1", "r2", "r3", "r11", "c", "e", "er", "ex2", "f1"}
	maxFull, maxModel := 5, 4
	if tier == "thorough" {
		maxFull = 6
	}
	implOnly := 0
	var seq []string
	var rec func()
	rec = func() {
		if len(seq) > 0 {
			impl, v, nt := runUSet(seq)
			if len(seq) <= maxModel || v != "ok" {
				emit("uset "+strings.Join(seq, " "), impl, v, nt)
			} else {
				implOnly++
			}
		}
		if len(seq) == maxFull {
			return
		}
		for _, o := range ops {
			seq = append(seq, o)
			rec()
			seq = seq[:len(seq)-1]
		}
	}
	rec()
	fmt.Fprintf(out, "#stat exhaustive_impl_only_cases %d\n", implOnly)
	// sampled longer sequences over more keys
	r := NewRng(seed)
	for i := 0; i < 3000; i++ {
		k := 5 + r.Intn(20)
		s := make([]string, k)
		for j := range s {
			n := r.Pick([]int{1, 2, 3, 4, 5, 11, 12, 21, 33})
			switch r.Intn(8) {
			case 0, 1, 2:
				s[j] = fmt.Sprintf("a%d", n)
			case 3:
				s[j] = fmt.Sprintf("r%d", n)
			case 4:
				s[j] = "er"
			case 5:
				s[j] = fmt.Sprintf("ex%d", n)
			case 6:
				s[j] = "e"
			default:
				s[j] = r.Pick2("c", fmt.Sprintf("f%d", n))
			}
		}
		impl, v, nt := runUSet(s)
		emit("uset "+strings.Join(s, " "), impl, v, nt)
	}
}
