package main

import (
	"fmt"
	"strings"

	"github.com/honeytrap/honeytrap/services/decoder"
)

// C17 (decoder part): services/decoder/decoder.go against HT.Dec.
//
// case line:  dec <hex> op op ...     ops: byte i16 i32 u32 pb pi16 copy:<n> seek:<n> data avail

func init() {
	register(&Stream{Name: "c17dec", Gen: genC17Dec, Replay: func(l string) {
		f := strings.Fields(l)
		if len(f) < 2 || f[0] != "dec" {
			return
		}
		impl, verdict, nt := runDec(unhx(f[1]), f[2:])
		emit(l, impl, verdict, nt)
	}})
}

func be(b []byte) uint64 {
	var v uint64
	for _, x := range b {
		v = v<<8 | uint64(x)
	}
	return v
}

// runDec runs the real decoder and the property oracle.
func runDec(data []byte, ops []string) (impl string, verdict string, nontrivial bool) {
	var outs []string
	verdict = "ok"
	viol := func(sig, detail string) {
		if verdict == "ok" {
			verdict = "viol:" + sig + ":" + detail
		}
	}
	buf := append([]byte(nil), data...)
	d := decoder.NewDecoder(buf)
	n := len(buf)
	cur := ""
	func() {
		defer func() {
			if r := recover(); r != nil {
				outs = append(outs, "panic")
				sig := "decoder-panic"
				if strings.HasPrefix(cur, "copy:-") {
					sig = "copy-negative-size"
				} else if cur == "data" {
					sig = "data-length-ge-0x8000"
				}
				viol(sig, fmt.Sprintf("op %s: %v", cur, r))
			}
		}()
		for _, op := range ops {
			cur = op
			off := n - d.Available()
			if off < 0 || off > n {
				viol("offset-out-of-bounds", fmt.Sprintf("before %s off=%d len=%d", op, off, n))
			}
			d2 := d
			_ = d2
			errBefore := d.LastError() != nil
			read := func(size int, consume bool, got int64, signed bool) {
				off2 := n - d.Available()
				if off+size <= n {
					nontrivial = true
					want := int64(be(buf[off : off+size]))
					if signed {
						switch size {
						case 2:
							want = int64(int16(want))
						case 4:
							want = int64(int32(want))
						}
					}
					adv := 0
					if consume {
						adv = size
					}
					if got != want || off2 != off+adv {
						viol("read-wrong-value", fmt.Sprintf("%s at %d: got %d want %d off' %d", op, off, got, want, off2))
					}
				} else {
					if got != 0 || off2 != off || d.LastError() == nil {
						viol("short-read-not-rejected", fmt.Sprintf("%s at %d len %d: got %d off' %d", op, off, n, got, off2))
					}
				}
				outs = append(outs, fmt.Sprint(got))
			}
			switch {
			case op == "byte":
				read(1, true, int64(d.Byte()), false)
			case op == "i16":
				read(2, true, int64(d.Int16()), true)
			case op == "i32":
				read(4, true, int64(d.Int32()), true)
			case op == "u32":
				read(4, true, int64(d.Uint32()), false)
			case op == "pb":
				read(1, false, int64(d.PeekByte()), false)
			case op == "pi16":
				read(2, false, int64(d.PeekInt16()), true)
			case op == "avail":
				outs = append(outs, fmt.Sprint(d.Available()))
			case strings.HasPrefix(op, "seek:"):
				var k int
				fmt.Sscanf(op[5:], "%d", &k)
				d.Seek(k)
				off2 := n - d.Available()
				if k >= -off && k <= n-off {
					if off2 != off+k {
						viol("seek-wrong", fmt.Sprintf("%s at %d: off' %d", op, off, off2))
					}
				} else if off2 != off || d.LastError() == nil {
					viol("seek-out-of-bounds-accepted", fmt.Sprintf("%s at %d len %d: off' %d", op, off, n, off2))
				}
				outs = append(outs, "_")
			case strings.HasPrefix(op, "copy:"):
				var k int
				fmt.Sscanf(op[5:], "%d", &k)
				c := d.Copy(k)
				off2 := n - d.Available()
				if k >= 0 && k <= n-off {
					nontrivial = true
					if c == nil || string(c) != string(buf[off:off+k]) || off2 != off+k {
						viol("copy-wrong", fmt.Sprintf("%s at %d: %x off' %d", op, off, c, off2))
					}
				} else if c != nil || off2 != off || d.LastError() == nil {
					viol("copy-out-of-bounds-accepted", fmt.Sprintf("%s at %d len %d: %x off' %d", op, off, n, c, off2))
				}
				if c == nil {
					outs = append(outs, "nil")
				} else {
					outs = append(outs, hx(c))
				}
			case op == "data":
				// Data() returns a string: a nil and an empty result are the same value.
				s := d.Data()
				off2 := n - d.Available()
				if off+2 <= n {
					l := int(int16(be(buf[off : off+2])))
					if l >= 0 && off+2+l <= n {
						nontrivial = true
						if s != string(buf[off+2:off+2+l]) || off2 != off+2+l {
							viol("data-wrong", fmt.Sprintf("data at %d: %x off' %d", off, s, off2))
						}
					} else if s != "" || off2 != off+2 {
						viol("data-out-of-bounds-accepted", fmt.Sprintf("data at %d len %d l %d: %x off' %d", off, n, l, s, off2))
					}
				} else if s != "" || off2 != off || d.LastError() == nil {
					viol("data-short-not-rejected", fmt.Sprintf("data at %d len %d: %x off' %d", off, n, s, off2))
				}
				outs = append(outs, "s"+hx([]byte(s)))
			default:
				outs = append(outs, "bad-op")
			}
			if !errBefore && false {
				_ = errBefore
			}
		}
		off := n - d.Available()
		if off < 0 || off > n {
			viol("offset-out-of-bounds", fmt.Sprintf("final off=%d len=%d", off, n))
		}
		outs = append(outs, fmt.Sprintf("off=%d err=%s", off, b01(d.LastError() != nil)))
	}()
	return strings.Join(outs, " "), verdict, nontrivial
}

func decOps() []string {
	ops := []string{"byte", "i16", "i32", "u32", "pb", "pi16", "data", "avail"}
	for k := -3; k <= 8; k++ {
		ops = append(ops, fmt.Sprintf("copy:%d", k), fmt.Sprintf("seek:%d", k))
	}
	return ops
}

func decBuffers(tier string) [][]byte {
	var res [][]byte
	seen := map[string]bool{}
	add := func(b []byte) {
		if !seen[string(b)] {
			seen[string(b)] = true
			res = append(res, b)
		}
	}
	heads := [][]byte{{}, {0x00, 0x01}, {0x00, 0x02}, {0x00, 0x00}, {0x7f, 0xff}, {0x80, 0x00}, {0xff, 0xff}, {0xff, 0xfe}, {0x00, 0x04}}
	fills := []byte{0x00, 0xff, 0x5a}
	if tier == "thorough" {
		heads = append(heads, []byte{0xff, 0xfd}, []byte{0x00, 0x03}, []byte{0x01, 0x00})
		fills = append(fills, 0x80, 0x7f)
	}
	for n := 0; n <= 6; n++ {
		for _, h := range heads {
			for _, f := range fills {
				b := make([]byte, n)
				for i := range b {
					b[i] = f
				}
				copy(b, h)
				add(b)
			}
		}
		inc := make([]byte, n)
		for i := range inc {
			inc[i] = byte(i + 1)
		}
		add(inc)
	}
	return res
}

func genC17Dec(tier string, seed uint64) {
	ops := decOps()
	bufs := decBuffers(tier)
	maxFull := 3 // sequences up to this length are enumerated exhaustively on the implementation
	if tier == "thorough" {
		maxFull = 4
	}
	const maxModel = 2 // sequences up to this length also go to the Lean model exhaustively
	oracleOnly := 0
	var seq []string
	var rec func(depth int, data []byte)
	rec = func(depth int, data []byte) {
		if len(seq) > 0 {
			impl, verdict, nt := runDec(data, seq)
			if len(seq) <= maxModel || verdict != "ok" {
				emit("dec "+hx(data)+" "+strings.Join(seq, " "), impl, verdict, nt)
			} else {
				oracleOnly++
			}
		}
		if depth == maxFull {
			return
		}
		for _, o := range ops {
			seq = append(seq, o)
			rec(depth+1, data)
			seq = seq[:len(seq)-1]
		}
	}
	for _, b := range bufs {
		rec(0, b)
	}
	fmt.Fprintf(out, "#stat exhaustive_impl_only_cases %d\n", oracleOnly)
	fmt.Fprintf(out, "#stat exhaustive_space buffers=%d ops=%d maxlen=%d\n", len(bufs), len(ops), maxFull)
	// sampled: longer sequences, larger buffers, wide arguments (incl. length prefixes >= 0x8000
	// in buffers large enough for offset+l to be non-negative)
	r := NewRng(seed)
	nS := 6000
	if tier == "thorough" {
		nS = 60000
	}
	wide := []int{-40000, -32768, -32767, -129, -128, -9, -4, -1, 0, 1, 2, 3, 4, 5, 7, 9, 16, 127, 128, 255, 256, 32767, 32768, 65535, 65536, 1 << 31, -(1 << 31), 1<<63 - 1, -(1 << 63), 1<<63 - 8}
	for i := 0; i < nS; i++ {
		var data []byte
		kind := r.Intn(3)
		if i%200 == 0 {
			kind = 3
		}
		switch kind {
		case 0:
			data = r.Bytes(r.Intn(12))
		case 1:
			data = r.Bytes(r.Intn(300))
		case 2: // length-prefixed records, mostly valid
			for k := r.Intn(4); k >= 0; k-- {
				l := r.Intn(6)
				hdr := []byte{0, byte(l)}
				switch r.Intn(8) {
				case 0:
					hdr = []byte{0xff, byte(256 - l)} // negative length
				case 1:
					hdr = []byte{0x80, byte(l)}
				}
				data = append(data, hdr...)
				data = append(data, r.Bytes(l)...)
			}
		case 3:
			data = r.Bytes(40000 + r.Intn(100))
			if r.Bool() { // plant a negative length prefix deep in the buffer
				p := 33000 + r.Intn(6000)
				data[p], data[p+1] = 0x80|byte(r.Intn(128)), byte(r.Intn(256))
				seqs := []string{fmt.Sprintf("seek:%d", p), "data", "avail"}
				impl, verdict, nt := runDec(data, seqs)
				emit("dec "+hx(data)+" "+strings.Join(seqs, " "), impl, verdict, nt)
				continue
			}
		}
		k := 1 + r.Intn(10)
		seqs := make([]string, k)
		for j := range seqs {
			switch r.Intn(6) {
			case 0:
				seqs[j] = fmt.Sprintf("copy:%d", wide[r.Intn(len(wide))])
			case 1:
				seqs[j] = fmt.Sprintf("seek:%d", wide[r.Intn(len(wide))])
			default:
				seqs[j] = ops[r.Intn(len(ops))]
			}
		}
		impl, verdict, nt := runDec(data, seqs)
		emit("dec "+hx(data)+" "+strings.Join(seqs, " "), impl, verdict, nt)
	}
}
