package ssh

import (
	"errors"
	"io"
	"net"
)

// streamLocalChannelOpenDirectMsg is a struct used for SSH_MSG_CHANNEL_OPEN message
// with "direct-streamlocal@openssh.com" string.
//
// See openssh-portable/PROTOCOL, section 2.4. connection: Unix domain socket forwarding
// https://github.com/openssh/openssh-portable/blob/master/PROTOCOL#L235
type streamLocalChannelOpenDirectMsg struct {
	socketPath string
	reserved0  string
	reserved1  uint32
}

// forwardedStreamLocalPayload is a struct used for SSH_MSG_CHANNEL_OPEN message
// with "forwarded-streamlocal@openssh.com" string.
type forwardedStreamLocalPayload struct {
	SocketPath string
	Reserved0  string
}

// streamLocalChannelForwardMsg is a struct used for SSH2_MSG_GLOBAL_REQUEST message
// with "streamlocal-forward@openssh.com"/"cancel-streamlocal-forward@openssh.com" string.
type streamLocalChannelForwardMsg struct {
	socketPath string
}

// ListenUnix is similar to ListenTCP but uses a Unix domain socket.
func (c *Client) ListenUnix(socketPath string) (net.Listener, error) {
	c.handleForwardsOnce.Do(c.handleForwards)
	m := streamLocalChannelForwardMsg{
		socketPath,
	}
	// send message
	ok, _, err := c.SendRequest("streamlocal-forward@openssh.com", true, Marshal(&m))
	if err != nil {
		return nil, err
	}
	if !ok {
		return nil, errors.New("ssh: streamlocal-forward@openssh.com request denied by peer")
	}
	ch := c.forwards.add(&net.UnixAddr{Name: socketPath, Net: "unix"})

	return &unixListener{socketPath, c, ch}, nil
}

func (c *Client) dialStreamLocal(socketPath string) (Channel, error) {
	msg := streamLocalChannelOpenDirectMsg{
		socketPath: socketPath,
	}
	ch, in, err := c.OpenChannel("direct-streamlocal@openssh.com", Marshal(&msg))
	if err != nil {
		return nil, err
	}
	go DiscardRequests(in)
	return ch, err
}

type unixListener struct {
	socketPath string

	conn *Client
	in   <-chan forward
}

// Accept waits for and returns the next connection to the listener.
func (l *unixListener) Accept() (net.Conn, error) {
	s, ok := <-l.in
	if !ok {
		return nil, io.EOF
	}
	ch, incoming, err := s.newCh.Accept()
	if err != nil {
		return nil, err
	}
	go DiscardRequests(incoming)

	return &chanConn{
		Channel: ch,
		laddr: &net.UnixAddr{
			Name: l.socketPath,
			Net:  "unix",
		},
		raddr: &net.UnixAddr{
			Name: "@",
			Net:  "unix",
		},
	}, nil
}

// Close closes the listener.
func (l *unixListener) Close() error {
	// this also closes the listener.
	l.conn.forwards.remove(&net.UnixAddr{Name: l.socketPath, Net: "unix"})
	m := streamLocalChannelForwardMsg{
		l.socketPath,
	}
	ok, _, err := l.conn.SendRequest("cancel-streamlocal-forward@openssh.com", true, Marshal(&m))
	if err == nil && !ok {
		err = errors.New("ssh: cancel-streamlocal-forward@openssh.com failed")
	}
	return err
}

// Addr returns the listener's network address.
func (l *unixListener) Addr() net.Addr {
	return &net.UnixAddr{
		Name: l.socketPath,
		Net:  "unix",
	}
}
