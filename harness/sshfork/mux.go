// Copyright 2013 The Go Authors. All rights reserved.
// Use of this source code is governed by a BSD-style
// license that can be found in the LICENSE file.

package ssh

import (
	"encoding/binary"
	"fmt"
	"io"
	"log"
	"sync"
	"sync/atomic"
)

// debugMux, if set, causes messages in the connection protocol to be
// logged.
const debugMux = false

// chanList is a thread safe channel list.
type chanList struct {
	// protects concurrent access to chans
	sync.Mutex

	// chans are indexed by the local id of the channel, which the
	// other side should send in the PeersId field.
	chans []*channel

	// This is a debugging aid: it offsets all IDs by this
	// amount. This helps distinguish otherwise identical
	// server/client muxes
	offset uint32
}

// Assigns a channel ID to the given channel.
func (c *chanList) add(ch *channel) uint32 {
	c.Lock()
	defer c.Unlock()
	for i := range c.chans {
		if c.chans[i] == nil {
			c.chans[i] = ch
			return uint32(i) + c.offset
		}
	}
	c.chans = append(c.chans, ch)
	return uint32(len(c.chans)-1) + c.offset
}

// getChan returns the channel for the given ID.
func (c *chanList) getChan(id uint32) *channel {
	id -= c.offset

	c.Lock()
	defer c.Unlock()
	if id < uint32(len(c.chans)) {
		return c.chans[id]
	}
	return nil
}

func (c *chanList) remove(id uint32) {
	id -= c.offset
	c.Lock()
	if id < uint32(len(c.chans)) {
		c.chans[id] = nil
	}
	c.Unlock()
}

// dropAll forgets all channels it knows, returning them in a slice.
func (c *chanList) dropAll() []*channel {
	c.Lock()
	defer c.Unlock()
	var r []*channel

	for _, ch := range c.chans {
		if ch == nil {
			continue
		}
		r = append(r, ch)
	}
	c.chans = nil
	return r
}

// mux represents the state for the SSH connection protocol, which
// multiplexes many channels onto a single packet transport.
type mux struct {
	conn     packetConn
	chanList chanList

	incomingChannels chan NewChannel

	globalSentMu     sync.Mutex
	globalResponses  chan interface{}
	incomingRequests chan *Request

	errCond *sync.Cond
	err     error
}

// When debugging, each new chanList instantiation has a different
// offset.
var globalOff uint32

func (m *mux) Wait() error {
	m.errCond.L.Lock()
	defer m.errCond.L.Unlock()
	for m.err == nil {
		m.errCond.Wait()
	}
	return m.err
}

// newMux returns a mux that runs over the given connection.
func newMux(p packetConn) *mux {
	m := &mux{
		conn:             p,
		incomingChannels: make(chan NewChannel, chanSize),
		globalResponses:  make(chan interface{}, 1),
		incomingRequests: make(chan *Request, chanSize),
		errCond:          newCond(),
	}
	if debugMux {
		m.chanList.offset = atomic.AddUint32(&globalOff, 1)
	}

	go m.loop()
	return m
}

func (m *mux) sendMessage(msg interface{}) error {
	p := Marshal(msg)
	if debugMux {
		log.Printf("send global(%d): %#v", m.chanList.offset, msg)
	}
	return m.conn.writePacket(p)
}

func (m *mux) SendRequest(name string, wantReply bool, payload []byte) (bool, []byte, error) {
	if wantReply {
		m.globalSentMu.Lock()
		defer m.globalSentMu.Unlock()
	}

	if err := m.sendMessage(globalRequestMsg{
		Type:      name,
		WantReply: wantReply,
		Data:      payload,
	}); err != nil {
		return false, nil, err
	}

	if !wantReply {
		return false, nil, nil
	}

	msg, ok := <-m.globalResponses
	if !ok {
		return false, nil, io.EOF
	}
	switch msg := msg.(type) {
	case *globalRequestFailureMsg:
		return false, msg.Data, nil
	case *globalRequestSuccessMsg:
		return true, msg.Data, nil
	default:
		return false, nil, fmt.Errorf("ssh: unexpected response to request: %#v", msg)
	}
}

// ackRequest must be called after processing a global request that
// has WantReply set.
func (m *mux) ackRequest(ok bool, data []byte) error {
	if ok {
		return m.sendMessage(globalRequestSuccessMsg{Data: data})
	}
	return m.sendMessage(globalRequestFailureMsg{Data: data})
}

func (m *mux) Close() error {
	return m.conn.Close()
}

// loop runs the connection machine. It will process packets until an
// error is encountered. To synchronize on loop exit, use mux.Wait.
func (m *mux) loop() {
	var err error
	for err == nil {
		err = m.onePacket()
	}

	for _, ch := range m.chanList.dropAll() {
		ch.close()
	}

	close(m.incomingChannels)
	close(m.incomingRequests)
	close(m.globalResponses)

	m.conn.Close()

	m.errCond.L.Lock()
	m.err = err
	m.errCond.Broadcast()
	m.errCond.L.Unlock()

	if debugMux {
		log.Println("loop exit", err)
	}
}

// onePacket reads and processes one packet.
func (m *mux) onePacket() error {
	packet, err := m.conn.readPacket()
	if err != nil {
		return err
	}

	if debugMux {
		if packet[0] == msgChannelData || packet[0] == msgChannelExtendedData {
			log.Printf("decoding(%d): data packet - %d bytes", m.chanList.offset, len(packet))
		} else {
			p, _ := decode(packet)
			log.Printf("decoding(%d): %d %#v - %d bytes", m.chanList.offset, packet[0], p, len(packet))
		}
	}

	switch packet[0] {
	case msgChannelOpen:
		return m.handleChannelOpen(packet)
	case msgGlobalRequest, msgRequestSuccess, msgRequestFailure:
		return m.handleGlobalPacket(packet)
	}

	// assume a channel packet.
	if len(packet) < 5 {
		return parseError(packet[0])
	}
	id := binary.BigEndian.Uint32(packet[1:])
	ch := m.chanList.getChan(id)
	if ch == nil {
		return fmt.Errorf("ssh: invalid channel %d", id)
	}

	return ch.handlePacket(packet)
}

func (m *mux) handleGlobalPacket(packet []byte) error {
	msg, err := decode(packet)
	if err != nil {
		return err
	}

	switch msg := msg.(type) {
	case *globalRequestMsg:
		m.incomingRequests <- &Request{
			Type:      msg.Type,
			WantReply: msg.WantReply,
			Payload:   msg.Data,
			mux:       m,
		}
	case *globalRequestSuccessMsg, *globalRequestFailureMsg:
		m.globalResponses <- msg
	default:
		panic(fmt.Sprintf("not a global message %#v", msg))
	}

	return nil
}

// handleChannelOpen schedules a channel to be Accept()ed.
func (m *mux) handleChannelOpen(packet []byte) error {
	var msg channelOpenMsg
	if err := Unmarshal(packet, &msg); err != nil {
		return err
	}

	if msg.MaxPacketSize < minPacketLength || msg.MaxPacketSize > 1<<31 {
		failMsg := channelOpenFailureMsg{
			PeersID:  msg.PeersID,
			Reason:   ConnectionFailed,
			Message:  "invalid request",
			Language: "en_US.UTF-8",
		}
		return m.sendMessage(failMsg)
	}

	c := m.newChannel(msg.ChanType, channelInbound, msg.TypeSpecificData)
	c.remoteId = msg.PeersID
	c.maxRemotePayload = msg.MaxPacketSize
	c.remoteWin.add(msg.PeersWindow)
	m.incomingChannels <- c
	return nil
}

func (m *mux) OpenChannel(chanType string, extra []byte) (Channel, <-chan *Request, error) {
	ch, err := m.openChannel(chanType, extra)
	if err != nil {
		return nil, nil, err
	}

	return ch, ch.incomingRequests, nil
}

func (m *mux) openChannel(chanType string, extra []byte) (*channel, error) {
	ch := m.newChannel(chanType, channelOutbound, extra)

	ch.maxIncomingPayload = channelMaxPacket

	open := channelOpenMsg{
		ChanType:         chanType,
		PeersWindow:      ch.myWindow,
		MaxPacketSize:    ch.maxIncomingPayload,
		TypeSpecificData: extra,
		PeersID:          ch.localId,
	}
	if err := m.sendMessage(open); err != nil {
		return nil, err
	}

	switch msg := (<-ch.msg).(type) {
	case *channelOpenConfirmMsg:
		return ch, nil
	case *channelOpenFailureMsg:
		return nil, &OpenChannelError{msg.Reason, msg.Message}
	default:
		return nil, fmt.Errorf("ssh: unexpected packet in response to channel open: %T", msg)
	}
}
