// Copyright 2012 The Go Authors. All rights reserved.
// Use of this source code is governed by a BSD-style
// license that can be found in the LICENSE file.

package ssh

import (
	"bytes"
	"errors"
	"fmt"
	"io"
	"net"
	"sort"
	"time"
)

// These constants from [PROTOCOL.certkeys] represent the algorithm names
// for certificate types supported by this package.
const (
	CertAlgoRSAv01        = "ssh-rsa-cert-v01@openssh.com"
	CertAlgoDSAv01        = "ssh-dss-cert-v01@openssh.com"
	CertAlgoECDSA256v01   = "ecdsa-sha2-nistp256-cert-v01@openssh.com"
	CertAlgoECDSA384v01   = "ecdsa-sha2-nistp384-cert-v01@openssh.com"
	CertAlgoECDSA521v01   = "ecdsa-sha2-nistp521-cert-v01@openssh.com"
	CertAlgoSKECDSA256v01 = "sk-ecdsa-sha2-nistp256-cert-v01@openssh.com"
	CertAlgoED25519v01    = "ssh-ed25519-cert-v01@openssh.com"
	CertAlgoSKED25519v01  = "sk-ssh-ed25519-cert-v01@openssh.com"
)

// Certificate types distinguish between host and user
// certificates. The values can be set in the CertType field of
// Certificate.
const (
	UserCert = 1
	HostCert = 2
)

// Signature represents a cryptographic signature.
type Signature struct {
	Format string
	Blob   []byte
	Rest   []byte `ssh:"rest"`
}

// CertTimeInfinity can be used for OpenSSHCertV01.ValidBefore to indicate that
// a certificate does not expire.
const CertTimeInfinity = 1<<64 - 1

// An Certificate represents an OpenSSH certificate as defined in
// [PROTOCOL.certkeys]?rev=1.8. The Certificate type implements the
// PublicKey interface, so it can be unmarshaled using
// ParsePublicKey.
type Certificate struct {
	Nonce           []byte
	Key             PublicKey
	Serial          uint64
	CertType        uint32
	KeyId           string
	ValidPrincipals []string
	ValidAfter      uint64
	ValidBefore     uint64
	Permissions
	Reserved     []byte
	SignatureKey PublicKey
	Signature    *Signature
}

// genericCertData holds the key-independent part of the certificate data.
// Overall, certificates contain an nonce, public key fields and
// key-independent fields.
type genericCertData struct {
	Serial          uint64
	CertType        uint32
	KeyId           string
	ValidPrincipals []byte
	ValidAfter      uint64
	ValidBefore     uint64
	CriticalOptions []byte
	Extensions      []byte
	Reserved        []byte
	SignatureKey    []byte
	Signature       []byte
}

func marshalStringList(namelist []string) []byte {
	var to []byte
	for _, name := range namelist {
		s := struct{ N string }{name}
		to = append(to, Marshal(&s)...)
	}
	return to
}

type optionsTuple struct {
	Key   string
	Value []byte
}

type optionsTupleValue struct {
	Value string
}

// serialize a map of critical options or extensions
// issue #10569 - per [PROTOCOL.certkeys] and SSH implementation,
// we need two length prefixes for a non-empty string value
func marshalTuples(tups map[string]string) []byte {
	keys := make([]string, 0, len(tups))
	for key := range tups {
		keys = append(keys, key)
	}
	sort.Strings(keys)

	var ret []byte
	for _, key := range keys {
		s := optionsTuple{Key: key}
		if value := tups[key]; len(value) > 0 {
			s.Value = Marshal(&optionsTupleValue{value})
		}
		ret = append(ret, Marshal(&s)...)
	}
	return ret
}

// issue #10569 - per [PROTOCOL.certkeys] and SSH implementation,
// we need two length prefixes for a non-empty option value
func parseTuples(in []byte) (map[string]string, error) {
	tups := map[string]string{}
	var lastKey string
	var haveLastKey bool

	for len(in) > 0 {
		var key, val, extra []byte
		var ok bool

		if key, in, ok = parseString(in); !ok {
			return nil, errShortRead
		}
		keyStr := string(key)
		// according to [PROTOCOL.certkeys], the names must be in
		// lexical order.
		if haveLastKey && keyStr <= lastKey {
			return nil, fmt.Errorf("ssh: certificate options are not in lexical order")
		}
		lastKey, haveLastKey = keyStr, true
		// the next field is a data field, which if non-empty has a string embedded
		if val, in, ok = parseString(in); !ok {
			return nil, errShortRead
		}
		if len(val) > 0 {
			val, extra, ok = parseString(val)
			if !ok {
				return nil, errShortRead
			}
			if len(extra) > 0 {
				return nil, fmt.Errorf("ssh: unexpected trailing data after certificate option value")
			}
			tups[keyStr] = string(val)
		} else {
			tups[keyStr] = ""
		}
	}
	return tups, nil
}

func parseCert(in []byte, privAlgo string) (*Certificate, error) {
	nonce, rest, ok := parseString(in)
	if !ok {
		return nil, errShortRead
	}

	key, rest, err := parsePubKey(rest, privAlgo)
	if err != nil {
		return nil, err
	}

	var g genericCertData
	if err := Unmarshal(rest, &g); err != nil {
		return nil, err
	}

	c := &Certificate{
		Nonce:       nonce,
		Key:         key,
		Serial:      g.Serial,
		CertType:    g.CertType,
		KeyId:       g.KeyId,
		ValidAfter:  g.ValidAfter,
		ValidBefore: g.ValidBefore,
	}

	for principals := g.ValidPrincipals; len(principals) > 0; {
		principal, rest, ok := parseString(principals)
		if !ok {
			return nil, errShortRead
		}
		c.ValidPrincipals = append(c.ValidPrincipals, string(principal))
		principals = rest
	}

	c.CriticalOptions, err = parseTuples(g.CriticalOptions)
	if err != nil {
		return nil, err
	}
	c.Extensions, err = parseTuples(g.Extensions)
	if err != nil {
		return nil, err
	}
	c.Reserved = g.Reserved
	k, err := ParsePublicKey(g.SignatureKey)
	if err != nil {
		return nil, err
	}

	c.SignatureKey = k
	c.Signature, rest, ok = parseSignatureBody(g.Signature)
	if !ok || len(rest) > 0 {
		return nil, errors.New("ssh: signature parse error")
	}

	return c, nil
}

type openSSHCertSigner struct {
	pub    *Certificate
	signer Signer
}

type algorithmOpenSSHCertSigner struct {
	*openSSHCertSigner
	algorithmSigner AlgorithmSigner
}

// NewCertSigner returns a Signer that signs with the given Certificate, whose
// private key is held by signer. It returns an error if the public key in cert
// doesn't match the key used by signer.
func NewCertSigner(cert *Certificate, signer Signer) (Signer, error) {
	if bytes.Compare(cert.Key.Marshal(), signer.PublicKey().Marshal()) != 0 {
		return nil, errors.New("ssh: signer and cert have different public key")
	}

	if algorithmSigner, ok := signer.(AlgorithmSigner); ok {
		return &algorithmOpenSSHCertSigner{
			&openSSHCertSigner{cert, signer}, algorithmSigner}, nil
	} else {
		return &openSSHCertSigner{cert, signer}, nil
	}
}

func (s *openSSHCertSigner) Sign(rand io.Reader, data []byte) (*Signature, error) {
	return s.signer.Sign(rand, data)
}

func (s *openSSHCertSigner) PublicKey() PublicKey {
	return s.pub
}

func (s *algorithmOpenSSHCertSigner) SignWithAlgorithm(rand io.Reader, data []byte, algorithm string) (*Signature, error) {
	return s.algorithmSigner.SignWithAlgorithm(rand, data, algorithm)
}

const sourceAddressCriticalOption = "source-address"

// CertChecker does the work of verifying a certificate. Its methods
// can be plugged into ClientConfig.HostKeyCallback and
// ServerConfig.PublicKeyCallback. For the CertChecker to work,
// minimally, the IsAuthority callback should be set.
type CertChecker struct {
	// SupportedCriticalOptions lists the CriticalOptions that the
	// server application layer understands. These are only used
	// for user certificates.
	SupportedCriticalOptions []string

	// IsUserAuthority should return true if the key is recognized as an
	// authority for the given user certificate. This allows for
	// certificates to be signed by other certificates. This must be set
	// if this CertChecker will be checking user certificates.
	IsUserAuthority func(auth PublicKey) bool

	// IsHostAuthority should report whether the key is recognized as
	// an authority for this host. This allows for certificates to be
	// signed by other keys, and for those other keys to only be valid
	// signers for particular hostnames. This must be set if this
	// CertChecker will be checking host certificates.
	IsHostAuthority func(auth PublicKey, address string) bool

	// Clock is used for verifying time stamps. If nil, time.Now
	// is used.
	Clock func() time.Time

	// UserKeyFallback is called when CertChecker.Authenticate encounters a
	// public key that is not a certificate. It must implement validation
	// of user keys or else, if nil, all such keys are rejected.
	UserKeyFallback func(conn ConnMetadata, key PublicKey) (*Permissions, error)

	// HostKeyFallback is called when CertChecker.CheckHostKey encounters a
	// public key that is not a certificate. It must implement host key
	// validation or else, if nil, all such keys are rejected.
	HostKeyFallback HostKeyCallback

	// IsRevoked is called for each certificate so that revocation checking
	// can be implemented. It should return true if the given certificate
	// is revoked and false otherwise. If nil, no certificates are
	// considered to have been revoked.
	IsRevoked func(cert *Certificate) bool
}

// CheckHostKey checks a host key certificate. This method can be
// plugged into ClientConfig.HostKeyCallback.
func (c *CertChecker) CheckHostKey(addr string, remote net.Addr, key PublicKey) error {
	cert, ok := key.(*Certificate)
	if !ok {
		if c.HostKeyFallback != nil {
			return c.HostKeyFallback(addr, remote, key)
		}
		return errors.New("ssh: non-certificate host key")
	}
	if cert.CertType != HostCert {
		return fmt.Errorf("ssh: certificate presented as a host key has type %d", cert.CertType)
	}
	if !c.IsHostAuthority(cert.SignatureKey, addr) {
		return fmt.Errorf("ssh: no authorities for hostname: %v", addr)
	}

	hostname, _, err := net.SplitHostPort(addr)
	if err != nil {
		return err
	}

	// Pass hostname only as principal for host certificates (consistent with OpenSSH)
	return c.CheckCert(hostname, cert)
}

// Authenticate checks a user certificate. Authenticate can be used as
// a value for ServerConfig.PublicKeyCallback.
func (c *CertChecker) Authenticate(conn ConnMetadata, pubKey PublicKey) (*Permissions, error) {
	cert, ok := pubKey.(*Certificate)
	if !ok {
		if c.UserKeyFallback != nil {
			return c.UserKeyFallback(conn, pubKey)
		}
		return nil, errors.New("ssh: normal key pairs not accepted")
	}

	if cert.CertType != UserCert {
		return nil, fmt.Errorf("ssh: cert has type %d", cert.CertType)
	}
	if !c.IsUserAuthority(cert.SignatureKey) {
		return nil, fmt.Errorf("ssh: certificate signed by unrecognized authority")
	}

	if err := c.CheckCert(conn.User(), cert); err != nil {
		return nil, err
	}

	return &cert.Permissions, nil
}

// CheckCert checks CriticalOptions, ValidPrincipals, revocation, timestamp and
// the signature of the certificate.
func (c *CertChecker) CheckCert(principal string, cert *Certificate) error {
	if c.IsRevoked != nil && c.IsRevoked(cert) {
		return fmt.Errorf("ssh: certificate serial %d revoked", cert.Serial)
	}

	for opt := range cert.CriticalOptions {
		// sourceAddressCriticalOption will be enforced by
		// serverAuthenticate
		if opt == sourceAddressCriticalOption {
			continue
		}

		found := false
		for _, supp := range c.SupportedCriticalOptions {
			if supp == opt {
				found = true
				break
			}
		}
		if !found {
			return fmt.Errorf("ssh: unsupported critical option %q in certificate", opt)
		}
	}

	if len(cert.ValidPrincipals) > 0 {
		// By default, certs are valid for all users/hosts.
		found := false
		for _, p := range cert.ValidPrincipals {
			if p == principal {
				found = true
				break
			}
		}
		if !found {
			return fmt.Errorf("ssh: principal %q not in the set of valid principals for given certificate: %q", principal, cert.ValidPrincipals)
		}
	}

	clock := c.Clock
	if clock == nil {
		clock = time.Now
	}

	unixNow := clock().Unix()
	if after := int64(cert.ValidAfter); after < 0 || unixNow < int64(cert.ValidAfter) {
		return fmt.Errorf("ssh: cert is not yet valid")
	}
	if before := int64(cert.ValidBefore); cert.ValidBefore != uint64(CertTimeInfinity) && (unixNow >= before || before < 0) {
		return fmt.Errorf("ssh: cert has expired")
	}
	if err := cert.SignatureKey.Verify(cert.bytesForSigning(), cert.Signature); err != nil {
		return fmt.Errorf("ssh: certificate signature does not verify")
	}

	return nil
}

// SignCert sets c.SignatureKey to the authority's public key and stores a
// Signature, by authority, in the certificate.
func (c *Certificate) SignCert(rand io.Reader, authority Signer) error {
	c.Nonce = make([]byte, 32)
	if _, err := io.ReadFull(rand, c.Nonce); err != nil {
		return err
	}
	c.SignatureKey = authority.PublicKey()

	sig, err := authority.Sign(rand, c.bytesForSigning())
	if err != nil {
		return err
	}
	c.Signature = sig
	return nil
}

var certAlgoNames = map[string]string{
	KeyAlgoRSA:        CertAlgoRSAv01,
	KeyAlgoDSA:        CertAlgoDSAv01,
	KeyAlgoECDSA256:   CertAlgoECDSA256v01,
	KeyAlgoECDSA384:   CertAlgoECDSA384v01,
	KeyAlgoECDSA521:   CertAlgoECDSA521v01,
	KeyAlgoSKECDSA256: CertAlgoSKECDSA256v01,
	KeyAlgoED25519:    CertAlgoED25519v01,
	KeyAlgoSKED25519:  CertAlgoSKED25519v01,
}

// certToPrivAlgo returns the underlying algorithm for a certificate algorithm.
// Panics if a non-certificate algorithm is passed.
func certToPrivAlgo(algo string) string {
	for privAlgo, pubAlgo := range certAlgoNames {
		if pubAlgo == algo {
			return privAlgo
		}
	}
	panic("unknown cert algorithm")
}

func (cert *Certificate) bytesForSigning() []byte {
	c2 := *cert
	c2.Signature = nil
	out := c2.Marshal()
	// Drop trailing signature length.
	return out[:len(out)-4]
}

// Marshal serializes c into OpenSSH's wire format. It is part of the
// PublicKey interface.
func (c *Certificate) Marshal() []byte {
	generic := genericCertData{
		Serial:          c.Serial,
		CertType:        c.CertType,
		KeyId:           c.KeyId,
		ValidPrincipals: marshalStringList(c.ValidPrincipals),
		ValidAfter:      uint64(c.ValidAfter),
		ValidBefore:     uint64(c.ValidBefore),
		CriticalOptions: marshalTuples(c.CriticalOptions),
		Extensions:      marshalTuples(c.Extensions),
		Reserved:        c.Reserved,
		SignatureKey:    c.SignatureKey.Marshal(),
	}
	if c.Signature != nil {
		generic.Signature = Marshal(c.Signature)
	}
	genericBytes := Marshal(&generic)
	keyBytes := c.Key.Marshal()
	_, keyBytes, _ = parseString(keyBytes)
	prefix := Marshal(&struct {
		Name  string
		Nonce []byte
		Key   []byte `ssh:"rest"`
	}{c.Type(), c.Nonce, keyBytes})

	result := make([]byte, 0, len(prefix)+len(genericBytes))
	result = append(result, prefix...)
	result = append(result, genericBytes...)
	return result
}

// Type returns the key name. It is part of the PublicKey interface.
func (c *Certificate) Type() string {
	algo, ok := certAlgoNames[c.Key.Type()]
	if !ok {
		panic("unknown cert key type " + c.Key.Type())
	}
	return algo
}

// Verify verifies a signature against the certificate's public
// key. It is part of the PublicKey interface.
func (c *Certificate) Verify(data []byte, sig *Signature) error {
	return c.Key.Verify(data, sig)
}

func parseSignatureBody(in []byte) (out *Signature, rest []byte, ok bool) {
	format, in, ok := parseString(in)
	if !ok {
		return
	}

	out = &Signature{
		Format: string(format),
	}

	if out.Blob, in, ok = parseString(in); !ok {
		return
	}

	switch out.Format {
	case KeyAlgoSKECDSA256, CertAlgoSKECDSA256v01, KeyAlgoSKED25519, CertAlgoSKED25519v01:
		out.Rest = in
		return out, nil, ok
	}

	return out, in, ok
}

func parseSignature(in []byte) (out *Signature, rest []byte, ok bool) {
	sigBytes, rest, ok := parseString(in)
	if !ok {
		return
	}

	out, trailing, ok := parseSignatureBody(sigBytes)
	if !ok || len(trailing) > 0 {
		return nil, nil, false
	}
	return
}
