// Copyright 2013 The Go Authors. All rights reserved.
// Use of this source code is governed by a BSD-style
// license that can be found in the LICENSE file.

package ssh

import (
	"crypto"
	"crypto/ecdsa"
	"crypto/elliptic"
	"crypto/rand"
	"crypto/subtle"
	"encoding/binary"
	"errors"
	"fmt"
	"io"
	"math/big"

	"golang.org/x/crypto/curve25519"
)

const (
	kexAlgoDH1SHA1          = "diffie-hellman-group1-sha1"
	kexAlgoDH14SHA1         = "diffie-hellman-group14-sha1"
	kexAlgoECDH256          = "ecdh-sha2-nistp256"
	kexAlgoECDH384          = "ecdh-sha2-nistp384"
	kexAlgoECDH521          = "ecdh-sha2-nistp521"
	kexAlgoCurve25519SHA256 = "curve25519-sha256@libssh.org"

	// For the following kex only the client half contains a production
	// ready implementation. The server half only consists of a minimal
	// implementation to satisfy the automated tests.
	kexAlgoDHGEXSHA1   = "diffie-hellman-group-exchange-sha1"
	kexAlgoDHGEXSHA256 = "diffie-hellman-group-exchange-sha256"
)

// kexResult captures the outcome of a key exchange.
type kexResult struct {
	// Session hash. See also RFC 4253, section 8.
	H []byte

	// Shared secret. See also RFC 4253, section 8.
	K []byte

	// Host key as hashed into H.
	HostKey []byte

	// Signature of H.
	Signature []byte

	// A cryptographic hash function that matches the security
	// level of the key exchange algorithm. It is used for
	// calculating H, and for deriving keys from H and K.
	Hash crypto.Hash

	// The session ID, which is the first H computed. This is used
	// to derive key material inside the transport.
	SessionID []byte
}

// handshakeMagics contains data that is always included in the
// session hash.
type handshakeMagics struct {
	clientVersion, serverVersion []byte
	clientKexInit, serverKexInit []byte
}

func (m *handshakeMagics) write(w io.Writer) {
	writeString(w, m.clientVersion)
	writeString(w, m.serverVersion)
	writeString(w, m.clientKexInit)
	writeString(w, m.serverKexInit)
}

// kexAlgorithm abstracts different key exchange algorithms.
type kexAlgorithm interface {
	// Server runs server-side key agreement, signing the result
	// with a hostkey.
	Server(p packetConn, rand io.Reader, magics *handshakeMagics, s Signer) (*kexResult, error)

	// Client runs the client-side key agreement. Caller is
	// responsible for verifying the host key signature.
	Client(p packetConn, rand io.Reader, magics *handshakeMagics) (*kexResult, error)
}

// dhGroup is a multiplicative group suitable for implementing Diffie-Hellman key agreement.
type dhGroup struct {
	g, p, pMinus1 *big.Int
}

func (group *dhGroup) diffieHellman(theirPublic, myPrivate *big.Int) (*big.Int, error) {
	if theirPublic.Cmp(bigOne) <= 0 || theirPublic.Cmp(group.pMinus1) >= 0 {
		return nil, errors.New("ssh: DH parameter out of bounds")
	}
	return new(big.Int).Exp(theirPublic, myPrivate, group.p), nil
}

func (group *dhGroup) Client(c packetConn, randSource io.Reader, magics *handshakeMagics) (*kexResult, error) {
	hashFunc := crypto.SHA1

	var x *big.Int
	for {
		var err error
		if x, err = rand.Int(randSource, group.pMinus1); err != nil {
			return nil, err
		}
		if x.Sign() > 0 {
			break
		}
	}

	X := new(big.Int).Exp(group.g, x, group.p)
	kexDHInit := kexDHInitMsg{
		X: X,
	}
	if err := c.writePacket(Marshal(&kexDHInit)); err != nil {
		return nil, err
	}

	packet, err := c.readPacket()
	if err != nil {
		return nil, err
	}

	var kexDHReply kexDHReplyMsg
	if err = Unmarshal(packet, &kexDHReply); err != nil {
		return nil, err
	}

	ki, err := group.diffieHellman(kexDHReply.Y, x)
	if err != nil {
		return nil, err
	}

	h := hashFunc.New()
	magics.write(h)
	writeString(h, kexDHReply.HostKey)
	writeInt(h, X)
	writeInt(h, kexDHReply.Y)
	K := make([]byte, intLength(ki))
	marshalInt(K, ki)
	h.Write(K)

	return &kexResult{
		H:         h.Sum(nil),
		K:         K,
		HostKey:   kexDHReply.HostKey,
		Signature: kexDHReply.Signature,
		Hash:      crypto.SHA1,
	}, nil
}

func (group *dhGroup) Server(c packetConn, randSource io.Reader, magics *handshakeMagics, priv Signer) (result *kexResult, err error) {
	hashFunc := crypto.SHA1
	packet, err := c.readPacket()
	if err != nil {
		return
	}
	var kexDHInit kexDHInitMsg
	if err = Unmarshal(packet, &kexDHInit); err != nil {
		return
	}

	var y *big.Int
	for {
		if y, err = rand.Int(randSource, group.pMinus1); err != nil {
			return
		}
		if y.Sign() > 0 {
			break
		}
	}

	Y := new(big.Int).Exp(group.g, y, group.p)
	ki, err := group.diffieHellman(kexDHInit.X, y)
	if err != nil {
		return nil, err
	}

	hostKeyBytes := priv.PublicKey().Marshal()

	h := hashFunc.New()
	magics.write(h)
	writeString(h, hostKeyBytes)
	writeInt(h, kexDHInit.X)
	writeInt(h, Y)

	K := make([]byte, intLength(ki))
	marshalInt(K, ki)
	h.Write(K)

	H := h.Sum(nil)

	// H is already a hash, but the hostkey signing will apply its
	// own key-specific hash algorithm.
	sig, err := signAndMarshal(priv, randSource, H)
	if err != nil {
		return nil, err
	}

	kexDHReply := kexDHReplyMsg{
		HostKey:   hostKeyBytes,
		Y:         Y,
		Signature: sig,
	}
	packet = Marshal(&kexDHReply)

	err = c.writePacket(packet)
	return &kexResult{
		H:         H,
		K:         K,
		HostKey:   hostKeyBytes,
		Signature: sig,
		Hash:      crypto.SHA1,
	}, err
}

// ecdh performs Elliptic Curve Diffie-Hellman key exchange as
// described in RFC 5656, section 4.
type ecdh struct {
	curve elliptic.Curve
}

func (kex *ecdh) Client(c packetConn, rand io.Reader, magics *handshakeMagics) (*kexResult, error) {
	ephKey, err := ecdsa.GenerateKey(kex.curve, rand)
	if err != nil {
		return nil, err
	}

	kexInit := kexECDHInitMsg{
		ClientPubKey: elliptic.Marshal(kex.curve, ephKey.PublicKey.X, ephKey.PublicKey.Y),
	}

	serialized := Marshal(&kexInit)
	if err := c.writePacket(serialized); err != nil {
		return nil, err
	}

	packet, err := c.readPacket()
	if err != nil {
		return nil, err
	}

	var reply kexECDHReplyMsg
	if err = Unmarshal(packet, &reply); err != nil {
		return nil, err
	}

	x, y, err := unmarshalECKey(kex.curve, reply.EphemeralPubKey)
	if err != nil {
		return nil, err
	}

	// generate shared secret
	secret, _ := kex.curve.ScalarMult(x, y, ephKey.D.Bytes())

	h := ecHash(kex.curve).New()
	magics.write(h)
	writeString(h, reply.HostKey)
	writeString(h, kexInit.ClientPubKey)
	writeString(h, reply.EphemeralPubKey)
	K := make([]byte, intLength(secret))
	marshalInt(K, secret)
	h.Write(K)

	return &kexResult{
		H:         h.Sum(nil),
		K:         K,
		HostKey:   reply.HostKey,
		Signature: reply.Signature,
		Hash:      ecHash(kex.curve),
	}, nil
}

// unmarshalECKey parses and checks an EC key.
func unmarshalECKey(curve elliptic.Curve, pubkey []byte) (x, y *big.Int, err error) {
	x, y = elliptic.Unmarshal(curve, pubkey)
	if x == nil {
		return nil, nil, errors.New("ssh: elliptic.Unmarshal failure")
	}
	if !validateECPublicKey(curve, x, y) {
		return nil, nil, errors.New("ssh: public key not on curve")
	}
	return x, y, nil
}

// validateECPublicKey checks that the point is a valid public key for
// the given curve. See [SEC1], 3.2.2
func validateECPublicKey(curve elliptic.Curve, x, y *big.Int) bool {
	if x.Sign() == 0 && y.Sign() == 0 {
		return false
	}

	if x.Cmp(curve.Params().P) >= 0 {
		return false
	}

	if y.Cmp(curve.Params().P) >= 0 {
		return false
	}

	if !curve.IsOnCurve(x, y) {
		return false
	}

	// We don't check if N * PubKey == 0, since
	//
	// - the NIST curves have cofactor = 1, so this is implicit.
	// (We don't foresee an implementation that supports non NIST
	// curves)
	//
	// - for ephemeral keys, we don't need to worry about small
	// subgroup attacks.
	return true
}

func (kex *ecdh) Server(c packetConn, rand io.Reader, magics *handshakeMagics, priv Signer) (result *kexResult, err error) {
	packet, err := c.readPacket()
	if err != nil {
		return nil, err
	}

	var kexECDHInit kexECDHInitMsg
	if err = Unmarshal(packet, &kexECDHInit); err != nil {
		return nil, err
	}

	clientX, clientY, err := unmarshalECKey(kex.curve, kexECDHInit.ClientPubKey)
	if err != nil {
		return nil, err
	}

	// We could cache this key across multiple users/multiple
	// connection attempts, but the benefit is small. OpenSSH
	// generates a new key for each incoming connection.
	ephKey, err := ecdsa.GenerateKey(kex.curve, rand)
	if err != nil {
		return nil, err
	}

	hostKeyBytes := priv.PublicKey().Marshal()

	serializedEphKey := elliptic.Marshal(kex.curve, ephKey.PublicKey.X, ephKey.PublicKey.Y)

	// generate shared secret
	secret, _ := kex.curve.ScalarMult(clientX, clientY, ephKey.D.Bytes())

	h := ecHash(kex.curve).New()
	magics.write(h)
	writeString(h, hostKeyBytes)
	writeString(h, kexECDHInit.ClientPubKey)
	writeString(h, serializedEphKey)

	K := make([]byte, intLength(secret))
	marshalInt(K, secret)
	h.Write(K)

	H := h.Sum(nil)

	// H is already a hash, but the hostkey signing will apply its
	// own key-specific hash algorithm.
	sig, err := signAndMarshal(priv, rand, H)
	if err != nil {
		return nil, err
	}

	reply := kexECDHReplyMsg{
		EphemeralPubKey: serializedEphKey,
		HostKey:         hostKeyBytes,
		Signature:       sig,
	}

	serialized := Marshal(&reply)
	if err := c.writePacket(serialized); err != nil {
		return nil, err
	}

	return &kexResult{
		H:         H,
		K:         K,
		HostKey:   reply.HostKey,
		Signature: sig,
		Hash:      ecHash(kex.curve),
	}, nil
}

var kexAlgoMap = map[string]kexAlgorithm{}

func init() {
	// This is the group called diffie-hellman-group1-sha1 in RFC
	// 4253 and Oakley Group 2 in RFC 2409.
	p, _ := new(big.Int).SetString("FFFFFFFFFFFFFFFFC90FDAA22168C234C4C6628B80DC1CD129024E088A67CC74020BBEA63B139B22514A08798E3404DDEF9519B3CD3A431B302B0A6DF25F14374FE1356D6D51C245E485B576625E7EC6F44C42E9A637ED6B0BFF5CB6F406B7EDEE386BFB5A899FA5AE9F24117C4B1FE649286651ECE65381FFFFFFFFFFFFFFFF", 16)
	kexAlgoMap[kexAlgoDH1SHA1] = &dhGroup{
		g:       new(big.Int).SetInt64(2),
		p:       p,
		pMinus1: new(big.Int).Sub(p, bigOne),
	}

	// This is the group called diffie-hellman-group14-sha1 in RFC
	// 4253 and Oakley Group 14 in RFC 3526.
	p, _ = new(big.Int).SetString("FFFFFFFFFFFFFFFFC90FDAA22168C234C4C6628B80DC1CD129024E088A67CC74020BBEA63B139B22514A08798E3404DDEF9519B3CD3A431B302B0A6DF25F14374FE1356D6D51C245E485B576625E7EC6F44C42E9A637ED6B0BFF5CB6F406B7EDEE386BFB5A899FA5AE9F24117C4B1FE649286651ECE45B3DC2007CB8A163BF0598DA48361C55D39A69163FA8FD24CF5F83655D23DCA3AD961C62F356208552BB9ED529077096966D670C354E4ABC9804F1746C08CA18217C32905E462E36CE3BE39E772C180E86039B2783A2EC07A28FB5C55DF06F4C52C9DE2BCBF6955817183995497CEA956AE515D2261898FA051015728E5A8AACAA68FFFFFFFFFFFFFFFF", 16)

	kexAlgoMap[kexAlgoDH14SHA1] = &dhGroup{
		g:       new(big.Int).SetInt64(2),
		p:       p,
		pMinus1: new(big.Int).Sub(p, bigOne),
	}

	kexAlgoMap[kexAlgoECDH521] = &ecdh{elliptic.P521()}
	kexAlgoMap[kexAlgoECDH384] = &ecdh{elliptic.P384()}
	kexAlgoMap[kexAlgoECDH256] = &ecdh{elliptic.P256()}
	kexAlgoMap[kexAlgoCurve25519SHA256] = &curve25519sha256{}
	kexAlgoMap[kexAlgoDHGEXSHA1] = &dhGEXSHA{hashFunc: crypto.SHA1}
	kexAlgoMap[kexAlgoDHGEXSHA256] = &dhGEXSHA{hashFunc: crypto.SHA256}
}

// curve25519sha256 implements the curve25519-sha256@libssh.org key
// agreement protocol, as described in
// https://git.libssh.org/projects/libssh.git/tree/doc/curve25519-sha256@libssh.org.txt
type curve25519sha256 struct{}

type curve25519KeyPair struct {
	priv [32]byte
	pub  [32]byte
}

func (kp *curve25519KeyPair) generate(rand io.Reader) error {
	if _, err := io.ReadFull(rand, kp.priv[:]); err != nil {
		return err
	}
	curve25519.ScalarBaseMult(&kp.pub, &kp.priv)
	return nil
}

// curve25519Zeros is just an array of 32 zero bytes so that we have something
// convenient to compare against in order to reject curve25519 points with the
// wrong order.
var curve25519Zeros [32]byte

func (kex *curve25519sha256) Client(c packetConn, rand io.Reader, magics *handshakeMagics) (*kexResult, error) {
	var kp curve25519KeyPair
	if err := kp.generate(rand); err != nil {
		return nil, err
	}
	if err := c.writePacket(Marshal(&kexECDHInitMsg{kp.pub[:]})); err != nil {
		return nil, err
	}

	packet, err := c.readPacket()
	if err != nil {
		return nil, err
	}

	var reply kexECDHReplyMsg
	if err = Unmarshal(packet, &reply); err != nil {
		return nil, err
	}
	if len(reply.EphemeralPubKey) != 32 {
		return nil, errors.New("ssh: peer's curve25519 public value has wrong length")
	}

	var servPub, secret [32]byte
	copy(servPub[:], reply.EphemeralPubKey)
	curve25519.ScalarMult(&secret, &kp.priv, &servPub)
	if subtle.ConstantTimeCompare(secret[:], curve25519Zeros[:]) == 1 {
		return nil, errors.New("ssh: peer's curve25519 public value has wrong order")
	}

	h := crypto.SHA256.New()
	magics.write(h)
	writeString(h, reply.HostKey)
	writeString(h, kp.pub[:])
	writeString(h, reply.EphemeralPubKey)

	ki := new(big.Int).SetBytes(secret[:])
	K := make([]byte, intLength(ki))
	marshalInt(K, ki)
	h.Write(K)

	return &kexResult{
		H:         h.Sum(nil),
		K:         K,
		HostKey:   reply.HostKey,
		Signature: reply.Signature,
		Hash:      crypto.SHA256,
	}, nil
}

func (kex *curve25519sha256) Server(c packetConn, rand io.Reader, magics *handshakeMagics, priv Signer) (result *kexResult, err error) {
	packet, err := c.readPacket()
	if err != nil {
		return
	}
	var kexInit kexECDHInitMsg
	if err = Unmarshal(packet, &kexInit); err != nil {
		return
	}

	if len(kexInit.ClientPubKey) != 32 {
		return nil, errors.New("ssh: peer's curve25519 public value has wrong length")
	}

	var kp curve25519KeyPair
	if err := kp.generate(rand); err != nil {
		return nil, err
	}

	var clientPub, secret [32]byte
	copy(clientPub[:], kexInit.ClientPubKey)
	curve25519.ScalarMult(&secret, &kp.priv, &clientPub)
	if subtle.ConstantTimeCompare(secret[:], curve25519Zeros[:]) == 1 {
		return nil, errors.New("ssh: peer's curve25519 public value has wrong order")
	}

	hostKeyBytes := priv.PublicKey().Marshal()

	h := crypto.SHA256.New()
	magics.write(h)
	writeString(h, hostKeyBytes)
	writeString(h, kexInit.ClientPubKey)
	writeString(h, kp.pub[:])

	ki := new(big.Int).SetBytes(secret[:])
	K := make([]byte, intLength(ki))
	marshalInt(K, ki)
	h.Write(K)

	H := h.Sum(nil)

	sig, err := signAndMarshal(priv, rand, H)
	if err != nil {
		return nil, err
	}

	reply := kexECDHReplyMsg{
		EphemeralPubKey: kp.pub[:],
		HostKey:         hostKeyBytes,
		Signature:       sig,
	}
	if err := c.writePacket(Marshal(&reply)); err != nil {
		return nil, err
	}
	return &kexResult{
		H:         H,
		K:         K,
		HostKey:   hostKeyBytes,
		Signature: sig,
		Hash:      crypto.SHA256,
	}, nil
}

// dhGEXSHA implements the diffie-hellman-group-exchange-sha1 and
// diffie-hellman-group-exchange-sha256 key agreement protocols,
// as described in RFC 4419
type dhGEXSHA struct {
	g, p     *big.Int
	hashFunc crypto.Hash
}

const numMRTests = 64

const (
	dhGroupExchangeMinimumBits   = 2048
	dhGroupExchangePreferredBits = 2048
	dhGroupExchangeMaximumBits   = 8192
)

func (gex *dhGEXSHA) diffieHellman(theirPublic, myPrivate *big.Int) (*big.Int, error) {
	if theirPublic.Sign() <= 0 || theirPublic.Cmp(gex.p) >= 0 {
		return nil, fmt.Errorf("ssh: DH parameter out of bounds")
	}
	return new(big.Int).Exp(theirPublic, myPrivate, gex.p), nil
}

func (gex *dhGEXSHA) Client(c packetConn, randSource io.Reader, magics *handshakeMagics) (*kexResult, error) {
	// Send GexRequest
	kexDHGexRequest := kexDHGexRequestMsg{
		MinBits:      dhGroupExchangeMinimumBits,
		PreferedBits: dhGroupExchangePreferredBits,
		MaxBits:      dhGroupExchangeMaximumBits,
	}
	if err := c.writePacket(Marshal(&kexDHGexRequest)); err != nil {
		return nil, err
	}

	// Receive GexGroup
	packet, err := c.readPacket()
	if err != nil {
		return nil, err
	}

	var kexDHGexGroup kexDHGexGroupMsg
	if err = Unmarshal(packet, &kexDHGexGroup); err != nil {
		return nil, err
	}

	// reject if p's bit length < dhGroupExchangeMinimumBits or > dhGroupExchangeMaximumBits
	if kexDHGexGroup.P.BitLen() < dhGroupExchangeMinimumBits || kexDHGexGroup.P.BitLen() > dhGroupExchangeMaximumBits {
		return nil, fmt.Errorf("ssh: server-generated gex p is out of range (%d bits)", kexDHGexGroup.P.BitLen())
	}

	gex.p = kexDHGexGroup.P
	gex.g = kexDHGexGroup.G

	// Check if p is safe by verifing that p and (p-1)/2 are primes
	one := big.NewInt(1)
	var pHalf = &big.Int{}
	pHalf.Rsh(gex.p, 1)
	if !gex.p.ProbablyPrime(numMRTests) || !pHalf.ProbablyPrime(numMRTests) {
		return nil, fmt.Errorf("ssh: server provided gex p is not safe")
	}

	// Check if g is safe by verifing that g > 1 and g < p - 1
	var pMinusOne = &big.Int{}
	pMinusOne.Sub(gex.p, one)
	if gex.g.Cmp(one) != 1 && gex.g.Cmp(pMinusOne) != -1 {
		return nil, fmt.Errorf("ssh: server provided gex g is not safe")
	}

	// Send GexInit
	x, err := rand.Int(randSource, pHalf)
	if err != nil {
		return nil, err
	}
	X := new(big.Int).Exp(gex.g, x, gex.p)
	kexDHGexInit := kexDHGexInitMsg{
		X: X,
	}
	if err := c.writePacket(Marshal(&kexDHGexInit)); err != nil {
		return nil, err
	}

	// Receive GexReply
	packet, err = c.readPacket()
	if err != nil {
		return nil, err
	}

	var kexDHGexReply kexDHGexReplyMsg
	if err = Unmarshal(packet, &kexDHGexReply); err != nil {
		return nil, err
	}

	kInt, err := gex.diffieHellman(kexDHGexReply.Y, x)
	if err != nil {
		return nil, err
	}

	// Check if k is safe by verifing that k > 1 and k < p - 1
	if kInt.Cmp(one) != 1 && kInt.Cmp(pMinusOne) != -1 {
		return nil, fmt.Errorf("ssh: derived k is not safe")
	}

	h := gex.hashFunc.New()
	magics.write(h)
	writeString(h, kexDHGexReply.HostKey)
	binary.Write(h, binary.BigEndian, uint32(dhGroupExchangeMinimumBits))
	binary.Write(h, binary.BigEndian, uint32(dhGroupExchangePreferredBits))
	binary.Write(h, binary.BigEndian, uint32(dhGroupExchangeMaximumBits))
	writeInt(h, gex.p)
	writeInt(h, gex.g)
	writeInt(h, X)
	writeInt(h, kexDHGexReply.Y)
	K := make([]byte, intLength(kInt))
	marshalInt(K, kInt)
	h.Write(K)

	return &kexResult{
		H:         h.Sum(nil),
		K:         K,
		HostKey:   kexDHGexReply.HostKey,
		Signature: kexDHGexReply.Signature,
		Hash:      gex.hashFunc,
	}, nil
}

// Server half implementation of the Diffie Hellman Key Exchange with SHA1 and SHA256.
//
// This is a minimal implementation to satisfy the automated tests.
func (gex *dhGEXSHA) Server(c packetConn, randSource io.Reader, magics *handshakeMagics, priv Signer) (result *kexResult, err error) {
	// Receive GexRequest
	packet, err := c.readPacket()
	if err != nil {
		return
	}
	var kexDHGexRequest kexDHGexRequestMsg
	if err = Unmarshal(packet, &kexDHGexRequest); err != nil {
		return
	}

	// smoosh the user's preferred size into our own limits
	if kexDHGexRequest.PreferedBits > dhGroupExchangeMaximumBits {
		kexDHGexRequest.PreferedBits = dhGroupExchangeMaximumBits
	}
	if kexDHGexRequest.PreferedBits < dhGroupExchangeMinimumBits {
		kexDHGexRequest.PreferedBits = dhGroupExchangeMinimumBits
	}
	// fix min/max if they're inconsistent.  technically, we could just pout
	// and hang up, but there's no harm in giving them the benefit of the
	// doubt and just picking a bitsize for them.
	if kexDHGexRequest.MinBits > kexDHGexRequest.PreferedBits {
		kexDHGexRequest.MinBits = kexDHGexRequest.PreferedBits
	}
	if kexDHGexRequest.MaxBits < kexDHGexRequest.PreferedBits {
		kexDHGexRequest.MaxBits = kexDHGexRequest.PreferedBits
	}

	// Send GexGroup
	// This is the group called diffie-hellman-group14-sha1 in RFC
	// 4253 and Oakley Group 14 in RFC 3526.
	p, _ := new(big.Int).SetString("FFFFFFFFFFFFFFFFC90FDAA22168C234C4C6628B80DC1CD129024E088A67CC74020BBEA63B139B22514A08798E3404DDEF9519B3CD3A431B302B0A6DF25F14374FE1356D6D51C245E485B576625E7EC6F44C42E9A637ED6B0BFF5CB6F406B7EDEE386BFB5A899FA5AE9F24117C4B1FE649286651ECE45B3DC2007CB8A163BF0598DA48361C55D39A69163FA8FD24CF5F83655D23DCA3AD961C62F356208552BB9ED529077096966D670C354E4ABC9804F1746C08CA18217C32905E462E36CE3BE39E772C180E86039B2783A2EC07A28FB5C55DF06F4C52C9DE2BCBF6955817183995497CEA956AE515D2261898FA051015728E5A8AACAA68FFFFFFFFFFFFFFFF", 16)
	gex.p = p
	gex.g = big.NewInt(2)

	kexDHGexGroup := kexDHGexGroupMsg{
		P: gex.p,
		G: gex.g,
	}
	if err := c.writePacket(Marshal(&kexDHGexGroup)); err != nil {
		return nil, err
	}

	// Receive GexInit
	packet, err = c.readPacket()
	if err != nil {
		return
	}
	var kexDHGexInit kexDHGexInitMsg
	if err = Unmarshal(packet, &kexDHGexInit); err != nil {
		return
	}

	var pHalf = &big.Int{}
	pHalf.Rsh(gex.p, 1)

	y, err := rand.Int(randSource, pHalf)
	if err != nil {
		return
	}

	Y := new(big.Int).Exp(gex.g, y, gex.p)
	kInt, err := gex.diffieHellman(kexDHGexInit.X, y)
	if err != nil {
		return nil, err
	}

	hostKeyBytes := priv.PublicKey().Marshal()

	h := gex.hashFunc.New()
	magics.write(h)
	writeString(h, hostKeyBytes)
	binary.Write(h, binary.BigEndian, uint32(dhGroupExchangeMinimumBits))
	binary.Write(h, binary.BigEndian, uint32(dhGroupExchangePreferredBits))
	binary.Write(h, binary.BigEndian, uint32(dhGroupExchangeMaximumBits))
	writeInt(h, gex.p)
	writeInt(h, gex.g)
	writeInt(h, kexDHGexInit.X)
	writeInt(h, Y)

	K := make([]byte, intLength(kInt))
	marshalInt(K, kInt)
	h.Write(K)

	H := h.Sum(nil)

	// H is already a hash, but the hostkey signing will apply its
	// own key-specific hash algorithm.
	sig, err := signAndMarshal(priv, randSource, H)
	if err != nil {
		return nil, err
	}

	kexDHGexReply := kexDHGexReplyMsg{
		HostKey:   hostKeyBytes,
		Y:         Y,
		Signature: sig,
	}
	packet = Marshal(&kexDHGexReply)

	err = c.writePacket(packet)

	return &kexResult{
		H:         H,
		K:         K,
		HostKey:   hostKeyBytes,
		Signature: sig,
		Hash:      gex.hashFunc,
	}, err
}
