// Copyright 2012 The Go Authors. All rights reserved.
// Use of this source code is governed by a BSD-style
// license that can be found in the LICENSE file.

package ssh

import (
	"io"
	"sync"
)

// buffer provides a linked list buffer for data exchange
// between producer and consumer. Theoretically the buffer is
// of unlimited capacity as it does no allocation of its own.
type buffer struct {
	// protects concurrent access to head, tail and closed
	*sync.Cond

	head *element // the buffer that will be read first
	tail *element // the buffer that will be read last

	closed bool
}

// An element represents a single link in a linked list.
type element struct {
	buf  []byte
	next *element
}

// newBuffer returns an empty buffer that is not closed.
func newBuffer() *buffer {
	e := new(element)
	b := &buffer{
		Cond: newCond(),
		head: e,
		tail: e,
	}
	return b
}

// write makes buf available for Read to receive.
// buf must not be modified after the call to write.
func (b *buffer) write(buf []byte) {
	b.Cond.L.Lock()
	e := &element{buf: buf}
	b.tail.next = e
	b.tail = e
	b.Cond.Signal()
	b.Cond.L.Unlock()
}

// eof closes the buffer. Reads from the buffer once all
// the data has been consumed will receive io.EOF.
func (b *buffer) eof() {
	b.Cond.L.Lock()
	b.closed = true
	b.Cond.Signal()
	b.Cond.L.Unlock()
}

// Read reads data from the internal buffer in buf.  Reads will block
// if no data is available, or until the buffer is closed.
func (b *buffer) Read(buf []byte) (n int, err error) {
	b.Cond.L.Lock()
	defer b.Cond.L.Unlock()

	for len(buf) > 0 {
		// if there is data in b.head, copy it
		if len(b.head.buf) > 0 {
			r := copy(buf, b.head.buf)
			buf, b.head.buf = buf[r:], b.head.buf[r:]
			n += r
			continue
		}
		// if there is a next buffer, make it the head
		if len(b.head.buf) == 0 && b.head != b.tail {
			b.head = b.head.next
			continue
		}

		// if at least one byte has been copied, return
		if n > 0 {
			break
		}

		// if nothing was read, and there is nothing outstanding
		// check to see if the buffer is closed.
		if b.closed {
			err = io.EOF
			break
		}
		// out of buffers, wait for producer
		b.Cond.Wait()
	}
	return
}
