// Copyright 2011 The Go Authors. All rights reserved.
// Use of this source code is governed by a BSD-style
// license that can be found in the LICENSE file.

package ssh

import (
	"errors"
	"fmt"
	"io"
	"math/rand"
	"net"
	"strconv"
	"strings"
	"sync"
	"time"
)

// Listen requests the remote peer open a listening socket on
// addr. Incoming connections will be available by calling Accept on
// the returned net.Listener. The listener must be serviced, or the
// SSH connection may hang.
// N must be "tcp", "tcp4", "tcp6", or "unix".
func (c *Client) Listen(n, addr string) (net.Listener, error) {
	switch n {
	case "tcp", "tcp4", "tcp6":
		laddr, err := net.ResolveTCPAddr(n, addr)
		if err != nil {
			return nil, err
		}
		return c.ListenTCP(laddr)
	case "unix":
		return c.ListenUnix(addr)
	default:
		return nil, fmt.Errorf("ssh: unsupported protocol: %s", n)
	}
}

// Automatic port allocation is broken with OpenSSH before 6.0. See
// also https://bugzilla.mindrot.org/show_bug.cgi?id=2017.  In
// particular, OpenSSH 5.9 sends a channelOpenMsg with port number 0,
// rather than the actual port number. This means you can never open
// two different listeners with auto allocated ports. We work around
// this by trying explicit ports until we succeed.

const openSSHPrefix = "OpenSSH_"

var portRandomizer = rand.New(rand.NewSource(time.Now().UnixNano()))

// isBrokenOpenSSHVersion returns true if the given version string
// specifies a version of OpenSSH that is known to have a bug in port
// forwarding.
func isBrokenOpenSSHVersion(versionStr string) bool {
	i := strings.Index(versionStr, openSSHPrefix)
	if i < 0 {
		return false
	}
	i += len(openSSHPrefix)
	j := i
	for ; j < len(versionStr); j++ {
		if versionStr[j] < '0' || versionStr[j] > '9' {
			break
		}
	}
	version, _ := strconv.Atoi(versionStr[i:j])
	return version < 6
}

// autoPortListenWorkaround simulates automatic port allocation by
// trying random ports repeatedly.
func (c *Client) autoPortListenWorkaround(laddr *net.TCPAddr) (net.Listener, error) {
	var sshListener net.Listener
	var err error
	const tries = 10
	for i := 0; i < tries; i++ {
		addr := *laddr
		addr.Port = 1024 + portRandomizer.Intn(60000)
		sshListener, err = c.ListenTCP(&addr)
		if err == nil {
			laddr.Port = addr.Port
			return sshListener, err
		}
	}
	return nil, fmt.Errorf("ssh: listen on random port failed after %d tries: %v", tries, err)
}

// RFC 4254 7.1
type channelForwardMsg struct {
	addr  string
	rport uint32
}

// handleForwards starts goroutines handling forwarded connections.
// It's called on first use by (*Client).ListenTCP to not launch
// goroutines until needed.
func (c *Client) handleForwards() {
	go c.forwards.handleChannels(c.HandleChannelOpen("forwarded-tcpip"))
	go c.forwards.handleChannels(c.HandleChannelOpen("forwarded-streamlocal@openssh.com"))
}

// ListenTCP requests the remote peer open a listening socket
// on laddr. Incoming connections will be available by calling
// Accept on the returned net.Listener.
func (c *Client) ListenTCP(laddr *net.TCPAddr) (net.Listener, error) {
	c.handleForwardsOnce.Do(c.handleForwards)
	if laddr.Port == 0 && isBrokenOpenSSHVersion(string(c.ServerVersion())) {
		return c.autoPortListenWorkaround(laddr)
	}

	m := channelForwardMsg{
		laddr.IP.String(),
		uint32(laddr.Port),
	}
	// send message
	ok, resp, err := c.SendRequest("tcpip-forward", true, Marshal(&m))
	if err != nil {
		return nil, err
	}
	if !ok {
		return nil, errors.New("ssh: tcpip-forward request denied by peer")
	}

	// If the original port was 0, then the remote side will
	// supply a real port number in the response.
	if laddr.Port == 0 {
		var p struct {
			Port uint32
		}
		if err := Unmarshal(resp, &p); err != nil {
			return nil, err
		}
		laddr.Port = int(p.Port)
	}

	// Register this forward, using the port number we obtained.
	ch := c.forwards.add(laddr)

	return &tcpListener{laddr, c, ch}, nil
}

// forwardList stores a mapping between remote
// forward requests and the tcpListeners.
type forwardList struct {
	sync.Mutex
	entries []forwardEntry
}

// forwardEntry represents an established mapping of a laddr on a
// remote ssh server to a channel connected to a tcpListener.
type forwardEntry struct {
	laddr net.Addr
	c     chan forward
}

// forward represents an incoming forwarded tcpip connection. The
// arguments to add/remove/lookup should be address as specified in
// the original forward-request.
type forward struct {
	newCh NewChannel // the ssh client channel underlying this forward
	raddr net.Addr   // the raddr of the incoming connection
}

func (l *forwardList) add(addr net.Addr) chan forward {
	l.Lock()
	defer l.Unlock()
	f := forwardEntry{
		laddr: addr,
		c:     make(chan forward, 1),
	}
	l.entries = append(l.entries, f)
	return f.c
}

// See RFC 4254, section 7.2
type forwardedTCPPayload struct {
	Addr       string
	Port       uint32
	OriginAddr string
	OriginPort uint32
}

// parseTCPAddr parses the originating address from the remote into a *net.TCPAddr.
func parseTCPAddr(addr string, port uint32) (*net.TCPAddr, error) {
	if port == 0 || port > 65535 {
		return nil, fmt.Errorf("ssh: port number out of range: %d", port)
	}
	ip := net.ParseIP(string(addr))
	if ip == nil {
		return nil, fmt.Errorf("ssh: cannot parse IP address %q", addr)
	}
	return &net.TCPAddr{IP: ip, Port: int(port)}, nil
}

func (l *forwardList) handleChannels(in <-chan NewChannel) {
	for ch := range in {
		var (
			laddr net.Addr
			raddr net.Addr
			err   error
		)
		switch channelType := ch.ChannelType(); channelType {
		case "forwarded-tcpip":
			var payload forwardedTCPPayload
			if err = Unmarshal(ch.ExtraData(), &payload); err != nil {
				ch.Reject(ConnectionFailed, "could not parse forwarded-tcpip payload: "+err.Error())
				continue
			}

			// RFC 4254 section 7.2 specifies that incoming
			// addresses should list the address, in string
			// format. It is implied that this should be an IP
			// address, as it would be impossible to connect to it
			// otherwise.
			laddr, err = parseTCPAddr(payload.Addr, payload.Port)
			if err != nil {
				ch.Reject(ConnectionFailed, err.Error())
				continue
			}
			raddr, err = parseTCPAddr(payload.OriginAddr, payload.OriginPort)
			if err != nil {
				ch.Reject(ConnectionFailed, err.Error())
				continue
			}

		case "forwarded-streamlocal@openssh.com":
			var payload forwardedStreamLocalPayload
			if err = Unmarshal(ch.ExtraData(), &payload); err != nil {
				ch.Reject(ConnectionFailed, "could not parse forwarded-streamlocal@openssh.com payload: "+err.Error())
				continue
			}
			laddr = &net.UnixAddr{
				Name: payload.SocketPath,
				Net:  "unix",
			}
			raddr = &net.UnixAddr{
				Name: "@",
				Net:  "unix",
			}
		default:
			panic(fmt.Errorf("ssh: unknown channel type %s", channelType))
		}
		if ok := l.forward(laddr, raddr, ch); !ok {
			// Section 7.2, implementations MUST reject spurious incoming
			// connections.
			ch.Reject(Prohibited, "no forward for address")
			continue
		}

	}
}

// remove removes the forward entry, and the channel feeding its
// listener.
func (l *forwardList) remove(addr net.Addr) {
	l.Lock()
	defer l.Unlock()
	for i, f := range l.entries {
		if addr.Network() == f.laddr.Network() && addr.String() == f.laddr.String() {
			l.entries = append(l.entries[:i], l.entries[i+1:]...)
			close(f.c)
			return
		}
	}
}

// closeAll closes and clears all forwards.
func (l *forwardList) closeAll() {
	l.Lock()
	defer l.Unlock()
	for _, f := range l.entries {
		close(f.c)
	}
	l.entries = nil
}

func (l *forwardList) forward(laddr, raddr net.Addr, ch NewChannel) bool {
	l.Lock()
	defer l.Unlock()
	for _, f := range l.entries {
		if laddr.Network() == f.laddr.Network() && laddr.String() == f.laddr.String() {
			f.c <- forward{newCh: ch, raddr: raddr}
			return true
		}
	}
	return false
}

type tcpListener struct {
	laddr *net.TCPAddr

	conn *Client
	in   <-chan forward
}

// Accept waits for and returns the next connection to the listener.
func (l *tcpListener) Accept() (net.Conn, error) {
	s, ok := <-l.in
	if !ok {
		return nil, io.EOF
	}
	ch, incoming, err := s.newCh.Accept()
	if err != nil {
		return nil, err
	}
	go DiscardRequests(incoming)

	return &chanConn{
		Channel: ch,
		laddr:   l.laddr,
		raddr:   s.raddr,
	}, nil
}

// Close closes the listener.
func (l *tcpListener) Close() error {
	m := channelForwardMsg{
		l.laddr.IP.String(),
		uint32(l.laddr.Port),
	}

	// this also closes the listener.
	l.conn.forwards.remove(l.laddr)
	ok, _, err := l.conn.SendRequest("cancel-tcpip-forward", true, Marshal(&m))
	if err == nil && !ok {
		err = errors.New("ssh: cancel-tcpip-forward failed")
	}
	return err
}

// Addr returns the listener's network address.
func (l *tcpListener) Addr() net.Addr {
	return l.laddr
}

// Dial initiates a connection to the addr from the remote host.
// The resulting connection has a zero LocalAddr() and RemoteAddr().
func (c *Client) Dial(n, addr string) (net.Conn, error) {
	var ch Channel
	switch n {
	case "tcp", "tcp4", "tcp6":
		// Parse the address into host and numeric port.
		host, portString, err := net.SplitHostPort(addr)
		if err != nil {
			return nil, err
		}
		port, err := strconv.ParseUint(portString, 10, 16)
		if err != nil {
			return nil, err
		}
		ch, err = c.dial(net.IPv4zero.String(), 0, host, int(port))
		if err != nil {
			return nil, err
		}
		// Use a zero address for local and remote address.
		zeroAddr := &net.TCPAddr{
			IP:   net.IPv4zero,
			Port: 0,
		}
		return &chanConn{
			Channel: ch,
			laddr:   zeroAddr,
			raddr:   zeroAddr,
		}, nil
	case "unix":
		var err error
		ch, err = c.dialStreamLocal(addr)
		if err != nil {
			return nil, err
		}
		return &chanConn{
			Channel: ch,
			laddr: &net.UnixAddr{
				Name: "@",
				Net:  "unix",
			},
			raddr: &net.UnixAddr{
				Name: addr,
				Net:  "unix",
			},
		}, nil
	default:
		return nil, fmt.Errorf("ssh: unsupported protocol: %s", n)
	}
}

// DialTCP connects to the remote address raddr on the network net,
// which must be "tcp", "tcp4", or "tcp6".  If laddr is not nil, it is used
// as the local address for the connection.
func (c *Client) DialTCP(n string, laddr, raddr *net.TCPAddr) (net.Conn, error) {
	if laddr == nil {
		laddr = &net.TCPAddr{
			IP:   net.IPv4zero,
			Port: 0,
		}
	}
	ch, err := c.dial(laddr.IP.String(), laddr.Port, raddr.IP.String(), raddr.Port)
	if err != nil {
		return nil, err
	}
	return &chanConn{
		Channel: ch,
		laddr:   laddr,
		raddr:   raddr,
	}, nil
}

// RFC 4254 7.2
type channelOpenDirectMsg struct {
	raddr string
	rport uint32
	laddr string
	lport uint32
}

func (c *Client) dial(laddr string, lport int, raddr string, rport int) (Channel, error) {
	msg := channelOpenDirectMsg{
		raddr: raddr,
		rport: uint32(rport),
		laddr: laddr,
		lport: uint32(lport),
	}
	ch, in, err := c.OpenChannel("direct-tcpip", Marshal(&msg))
	if err != nil {
		return nil, err
	}
	go DiscardRequests(in)
	return ch, err
}

type tcpChan struct {
	Channel // the backing channel
}

// chanConn fulfills the net.Conn interface without
// the tcpChan having to hold laddr or raddr directly.
type chanConn struct {
	Channel
	laddr, raddr net.Addr
}

// LocalAddr returns the local network address.
func (t *chanConn) LocalAddr() net.Addr {
	return t.laddr
}

// RemoteAddr returns the remote network address.
func (t *chanConn) RemoteAddr() net.Addr {
	return t.raddr
}

// SetDeadline sets the read and write deadlines associated
// with the connection.
func (t *chanConn) SetDeadline(deadline time.Time) error {
	if err := t.SetReadDeadline(deadline); err != nil {
		return err
	}
	return t.SetWriteDeadline(deadline)
}

// SetReadDeadline sets the read deadline.
// A zero value for t means Read will not time out.
// After the deadline, the error from Read will implement net.Error
// with Timeout() == true.
func (t *chanConn) SetReadDeadline(deadline time.Time) error {
	// for compatibility with previous version,
	// the error message contains "tcpChan"
	return errors.New("ssh: tcpChan: deadline not supported")
}

// SetWriteDeadline exists to satisfy the net.Conn interface
// but is not implemented by this type.  It always returns an error.
func (t *chanConn) SetWriteDeadline(deadline time.Time) error {
	return errors.New("ssh: tcpChan: deadline not supported")
}
