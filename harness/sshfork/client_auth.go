// Copyright 2011 The Go Authors. All rights reserved.
// Use of this source code is governed by a BSD-style
// license that can be found in the LICENSE file.

package ssh

import (
	"bytes"
	"errors"
	"fmt"
	"io"
)

type authResult int

const (
	authFailure authResult = iota
	authPartialSuccess
	authSuccess
)

// clientAuthenticate authenticates with the remote server. See RFC 4252.
func (c *connection) clientAuthenticate(config *ClientConfig) error {
	// initiate user auth session
	if err := c.transport.writePacket(Marshal(&serviceRequestMsg{serviceUserAuth})); err != nil {
		return err
	}
	packet, err := c.transport.readPacket()
	if err != nil {
		return err
	}
	var serviceAccept serviceAcceptMsg
	if err := Unmarshal(packet, &serviceAccept); err != nil {
		return err
	}

	// during the authentication phase the client first attempts the "none" method
	// then any untried methods suggested by the server.
	tried := make(map[string]bool)
	var lastMethods []string

	sessionID := c.transport.getSessionID()
	for auth := AuthMethod(new(noneAuth)); auth != nil; {
		ok, methods, err := auth.auth(sessionID, config.User, c.transport, config.Rand)
		if err != nil {
			return err
		}
		if ok == authSuccess {
			// success
			return nil
		} else if ok == authFailure {
			tried[auth.method()] = true
		}
		if methods == nil {
			methods = lastMethods
		}
		lastMethods = methods

		auth = nil

	findNext:
		for _, a := range config.Auth {
			candidateMethod := a.method()
			if tried[candidateMethod] {
				continue
			}
			for _, meth := range methods {
				if meth == candidateMethod {
					auth = a
					break findNext
				}
			}
		}
	}
	return fmt.Errorf("ssh: unable to authenticate, attempted methods %v, no supported methods remain", keys(tried))
}

func keys(m map[string]bool) []string {
	s := make([]string, 0, len(m))

	for key := range m {
		s = append(s, key)
	}
	return s
}

// An AuthMethod represents an instance of an RFC 4252 authentication method.
type AuthMethod interface {
	// auth authenticates user over transport t.
	// Returns true if authentication is successful.
	// If authentication is not successful, a []string of alternative
	// method names is returned. If the slice is nil, it will be ignored
	// and the previous set of possible methods will be reused.
	auth(session []byte, user string, p packetConn, rand io.Reader) (authResult, []string, error)

	// method returns the RFC 4252 method name.
	method() string
}

// "none" authentication, RFC 4252 section 5.2.
type noneAuth int

func (n *noneAuth) auth(session []byte, user string, c packetConn, rand io.Reader) (authResult, []string, error) {
	if err := c.writePacket(Marshal(&userAuthRequestMsg{
		User:    user,
		Service: serviceSSH,
		Method:  "none",
	})); err != nil {
		return authFailure, nil, err
	}

	return handleAuthResponse(c)
}

func (n *noneAuth) method() string {
	return "none"
}

// passwordCallback is an AuthMethod that fetches the password through
// a function call, e.g. by prompting the user.
type passwordCallback func() (password string, err error)

func (cb passwordCallback) auth(session []byte, user string, c packetConn, rand io.Reader) (authResult, []string, error) {
	type passwordAuthMsg struct {
		User     string `sshtype:"50"`
		Service  string
		Method   string
		Reply    bool
		Password string
	}

	pw, err := cb()
	// REVIEW NOTE: is there a need to support skipping a password attempt?
	// The program may only find out that the user doesn't have a password
	// when prompting.
	if err != nil {
		return authFailure, nil, err
	}

	if err := c.writePacket(Marshal(&passwordAuthMsg{
		User:     user,
		Service:  serviceSSH,
		Method:   cb.method(),
		Reply:    false,
		Password: pw,
	})); err != nil {
		return authFailure, nil, err
	}

	return handleAuthResponse(c)
}

func (cb passwordCallback) method() string {
	return "password"
}

// Password returns an AuthMethod using the given password.
func Password(secret string) AuthMethod {
	return passwordCallback(func() (string, error) { return secret, nil })
}

// PasswordCallback returns an AuthMethod that uses a callback for
// fetching a password.
func PasswordCallback(prompt func() (secret string, err error)) AuthMethod {
	return passwordCallback(prompt)
}

type publickeyAuthMsg struct {
	User    string `sshtype:"50"`
	Service string
	Method  string
	// HasSig indicates to the receiver packet that the auth request is signed and
	// should be used for authentication of the request.
	HasSig   bool
	Algoname string
	PubKey   []byte
	// Sig is tagged with "rest" so Marshal will exclude it during
	// validateKey
	Sig []byte `ssh:"rest"`
}

// publicKeyCallback is an AuthMethod that uses a set of key
// pairs for authentication.
type publicKeyCallback func() ([]Signer, error)

func (cb publicKeyCallback) method() string {
	return "publickey"
}

func (cb publicKeyCallback) auth(session []byte, user string, c packetConn, rand io.Reader) (authResult, []string, error) {
	// Authentication is performed by sending an enquiry to test if a key is
	// acceptable to the remote. If the key is acceptable, the client will
	// attempt to authenticate with the valid key.  If not the client will repeat
	// the process with the remaining keys.

	signers, err := cb()
	if err != nil {
		return authFailure, nil, err
	}
	var methods []string
	for _, signer := range signers {
		ok, err := validateKey(signer.PublicKey(), user, c)
		if err != nil {
			return authFailure, nil, err
		}
		if !ok {
			continue
		}

		pub := signer.PublicKey()
		pubKey := pub.Marshal()
		sign, err := signer.Sign(rand, buildDataSignedForAuth(session, userAuthRequestMsg{
			User:    user,
			Service: serviceSSH,
			Method:  cb.method(),
		}, []byte(pub.Type()), pubKey))
		if err != nil {
			return authFailure, nil, err
		}

		// manually wrap the serialized signature in a string
		s := Marshal(sign)
		sig := make([]byte, stringLength(len(s)))
		marshalString(sig, s)
		msg := publickeyAuthMsg{
			User:     user,
			Service:  serviceSSH,
			Method:   cb.method(),
			HasSig:   true,
			Algoname: pub.Type(),
			PubKey:   pubKey,
			Sig:      sig,
		}
		p := Marshal(&msg)
		if err := c.writePacket(p); err != nil {
			return authFailure, nil, err
		}
		var success authResult
		success, methods, err = handleAuthResponse(c)
		if err != nil {
			return authFailure, nil, err
		}

		// If authentication succeeds or the list of available methods does not
		// contain the "publickey" method, do not attempt to authenticate with any
		// other keys.  According to RFC 4252 Section 7, the latter can occur when
		// additional authentication methods are required.
		if success == authSuccess || !containsMethod(methods, cb.method()) {
			return success, methods, err
		}
	}

	return authFailure, methods, nil
}

func containsMethod(methods []string, method string) bool {
	for _, m := range methods {
		if m == method {
			return true
		}
	}

	return false
}

// validateKey validates the key provided is acceptable to the server.
func validateKey(key PublicKey, user string, c packetConn) (bool, error) {
	pubKey := key.Marshal()
	msg := publickeyAuthMsg{
		User:     user,
		Service:  serviceSSH,
		Method:   "publickey",
		HasSig:   false,
		Algoname: key.Type(),
		PubKey:   pubKey,
	}
	if err := c.writePacket(Marshal(&msg)); err != nil {
		return false, err
	}

	return confirmKeyAck(key, c)
}

func confirmKeyAck(key PublicKey, c packetConn) (bool, error) {
	pubKey := key.Marshal()
	algoname := key.Type()

	for {
		packet, err := c.readPacket()
		if err != nil {
			return false, err
		}
		switch packet[0] {
		case msgUserAuthBanner:
			if err := handleBannerResponse(c, packet); err != nil {
				return false, err
			}
		case msgUserAuthPubKeyOk:
			var msg userAuthPubKeyOkMsg
			if err := Unmarshal(packet, &msg); err != nil {
				return false, err
			}
			if msg.Algo != algoname || !bytes.Equal(msg.PubKey, pubKey) {
				return false, nil
			}
			return true, nil
		case msgUserAuthFailure:
			return false, nil
		default:
			return false, unexpectedMessageError(msgUserAuthSuccess, packet[0])
		}
	}
}

// PublicKeys returns an AuthMethod that uses the given key
// pairs.
func PublicKeys(signers ...Signer) AuthMethod {
	return publicKeyCallback(func() ([]Signer, error) { return signers, nil })
}

// PublicKeysCallback returns an AuthMethod that runs the given
// function to obtain a list of key pairs.
func PublicKeysCallback(getSigners func() (signers []Signer, err error)) AuthMethod {
	return publicKeyCallback(getSigners)
}

// handleAuthResponse returns whether the preceding authentication request succeeded
// along with a list of remaining authentication methods to try next and
// an error if an unexpected response was received.
func handleAuthResponse(c packetConn) (authResult, []string, error) {
	for {
		packet, err := c.readPacket()
		if err != nil {
			return authFailure, nil, err
		}

		switch packet[0] {
		case msgUserAuthBanner:
			if err := handleBannerResponse(c, packet); err != nil {
				return authFailure, nil, err
			}
		case msgUserAuthFailure:
			var msg userAuthFailureMsg
			if err := Unmarshal(packet, &msg); err != nil {
				return authFailure, nil, err
			}
			if msg.PartialSuccess {
				return authPartialSuccess, msg.Methods, nil
			}
			return authFailure, msg.Methods, nil
		case msgUserAuthSuccess:
			return authSuccess, nil, nil
		default:
			return authFailure, nil, unexpectedMessageError(msgUserAuthSuccess, packet[0])
		}
	}
}

func handleBannerResponse(c packetConn, packet []byte) error {
	var msg userAuthBannerMsg
	if err := Unmarshal(packet, &msg); err != nil {
		return err
	}

	transport, ok := c.(*handshakeTransport)
	if !ok {
		return nil
	}

	if transport.bannerCallback != nil {
		return transport.bannerCallback(msg.Message)
	}

	return nil
}

// KeyboardInteractiveChallenge should print questions, optionally
// disabling echoing (e.g. for passwords), and return all the answers.
// Challenge may be called multiple times in a single session. After
// successful authentication, the server may send a challenge with no
// questions, for which the user and instruction messages should be
// printed.  RFC 4256 section 3.3 details how the UI should behave for
// both CLI and GUI environments.
type KeyboardInteractiveChallenge func(user, instruction string, questions []string, echos []bool) (answers []string, err error)

// KeyboardInteractive returns an AuthMethod using a prompt/response
// sequence controlled by the server.
func KeyboardInteractive(challenge KeyboardInteractiveChallenge) AuthMethod {
	return challenge
}

func (cb KeyboardInteractiveChallenge) method() string {
	return "keyboard-interactive"
}

func (cb KeyboardInteractiveChallenge) auth(session []byte, user string, c packetConn, rand io.Reader) (authResult, []string, error) {
	type initiateMsg struct {
		User       string `sshtype:"50"`
		Service    string
		Method     string
		Language   string
		Submethods string
	}

	if err := c.writePacket(Marshal(&initiateMsg{
		User:    user,
		Service: serviceSSH,
		Method:  "keyboard-interactive",
	})); err != nil {
		return authFailure, nil, err
	}

	for {
		packet, err := c.readPacket()
		if err != nil {
			return authFailure, nil, err
		}

		// like handleAuthResponse, but with less options.
		switch packet[0] {
		case msgUserAuthBanner:
			if err := handleBannerResponse(c, packet); err != nil {
				return authFailure, nil, err
			}
			continue
		case msgUserAuthInfoRequest:
			// OK
		case msgUserAuthFailure:
			var msg userAuthFailureMsg
			if err := Unmarshal(packet, &msg); err != nil {
				return authFailure, nil, err
			}
			if msg.PartialSuccess {
				return authPartialSuccess, msg.Methods, nil
			}
			return authFailure, msg.Methods, nil
		case msgUserAuthSuccess:
			return authSuccess, nil, nil
		default:
			return authFailure, nil, unexpectedMessageError(msgUserAuthInfoRequest, packet[0])
		}

		var msg userAuthInfoRequestMsg
		if err := Unmarshal(packet, &msg); err != nil {
			return authFailure, nil, err
		}

		// Manually unpack the prompt/echo pairs.
		rest := msg.Prompts
		var prompts []string
		var echos []bool
		for i := 0; i < int(msg.NumPrompts); i++ {
			prompt, r, ok := parseString(rest)
			if !ok || len(r) == 0 {
				return authFailure, nil, errors.New("ssh: prompt format error")
			}
			prompts = append(prompts, string(prompt))
			echos = append(echos, r[0] != 0)
			rest = r[1:]
		}

		if len(rest) != 0 {
			return authFailure, nil, errors.New("ssh: extra data following keyboard-interactive pairs")
		}

		answers, err := cb(msg.User, msg.Instruction, prompts, echos)
		if err != nil {
			return authFailure, nil, err
		}

		if len(answers) != len(prompts) {
			return authFailure, nil, errors.New("ssh: not enough answers from keyboard-interactive callback")
		}
		responseLength := 1 + 4
		for _, a := range answers {
			responseLength += stringLength(len(a))
		}
		serialized := make([]byte, responseLength)
		p := serialized
		p[0] = msgUserAuthInfoResponse
		p = p[1:]
		p = marshalUint32(p, uint32(len(answers)))
		for _, a := range answers {
			p = marshalString(p, []byte(a))
		}

		if err := c.writePacket(serialized); err != nil {
			return authFailure, nil, err
		}
	}
}

type retryableAuthMethod struct {
	authMethod AuthMethod
	maxTries   int
}

func (r *retryableAuthMethod) auth(session []byte, user string, c packetConn, rand io.Reader) (ok authResult, methods []string, err error) {
	for i := 0; r.maxTries <= 0 || i < r.maxTries; i++ {
		ok, methods, err = r.authMethod.auth(session, user, c, rand)
		if ok != authFailure || err != nil { // either success, partial success or error terminate
			return ok, methods, err
		}
	}
	return ok, methods, err
}

func (r *retryableAuthMethod) method() string {
	return r.authMethod.method()
}

// RetryableAuthMethod is a decorator for other auth methods enabling them to
// be retried up to maxTries before considering that AuthMethod itself failed.
// If maxTries is <= 0, will retry indefinitely
//
// This is useful for interactive clients using challenge/response type
// authentication (e.g. Keyboard-Interactive, Password, etc) where the user
// could mistype their response resulting in the server issuing a
// SSH_MSG_USERAUTH_FAILURE (rfc4252 #8 [password] and rfc4256 #3.4
// [keyboard-interactive]); Without this decorator, the non-retryable
// AuthMethod would be removed from future consideration, and never tried again
// (and so the user would never be able to retry their entry).
func RetryableAuthMethod(auth AuthMethod, maxTries int) AuthMethod {
	return &retryableAuthMethod{authMethod: auth, maxTries: maxTries}
}

// GSSAPIWithMICAuthMethod is an AuthMethod with "gssapi-with-mic" authentication.
// See RFC 4462 section 3
// gssAPIClient is implementation of the GSSAPIClient interface, see the definition of the interface for details.
// target is the server host you want to log in to.
func GSSAPIWithMICAuthMethod(gssAPIClient GSSAPIClient, target string) AuthMethod {
	if gssAPIClient == nil {
		panic("gss-api client must be not nil with enable gssapi-with-mic")
	}
	return &gssAPIWithMICCallback{gssAPIClient: gssAPIClient, target: target}
}

type gssAPIWithMICCallback struct {
	gssAPIClient GSSAPIClient
	target       string
}

func (g *gssAPIWithMICCallback) auth(session []byte, user string, c packetConn, rand io.Reader) (authResult, []string, error) {
	m := &userAuthRequestMsg{
		User:    user,
		Service: serviceSSH,
		Method:  g.method(),
	}
	// The GSS-API authentication method is initiated when the client sends an SSH_MSG_USERAUTH_REQUEST.
	// See RFC 4462 section 3.2.
	m.Payload = appendU32(m.Payload, 1)
	m.Payload = appendString(m.Payload, string(krb5OID))
	if err := c.writePacket(Marshal(m)); err != nil {
		return authFailure, nil, err
	}
	// The server responds to the SSH_MSG_USERAUTH_REQUEST with either an
	// SSH_MSG_USERAUTH_FAILURE if none of the mechanisms are supported or
	// with an SSH_MSG_USERAUTH_GSSAPI_RESPONSE.
	// See RFC 4462 section 3.3.
	// OpenSSH supports Kerberos V5 mechanism only for GSS-API authentication,so I don't want to check
	// selected mech if it is valid.
	packet, err := c.readPacket()
	if err != nil {
		return authFailure, nil, err
	}
	userAuthGSSAPIResp := &userAuthGSSAPIResponse{}
	if err := Unmarshal(packet, userAuthGSSAPIResp); err != nil {
		return authFailure, nil, err
	}
	// Start the loop into the exchange token.
	// See RFC 4462 section 3.4.
	var token []byte
	defer g.gssAPIClient.DeleteSecContext()
	for {
		// Initiates the establishment of a security context between the application and a remote peer.
		nextToken, needContinue, err := g.gssAPIClient.InitSecContext("host@"+g.target, token, false)
		if err != nil {
			return authFailure, nil, err
		}
		if len(nextToken) > 0 {
			if err := c.writePacket(Marshal(&userAuthGSSAPIToken{
				Token: nextToken,
			})); err != nil {
				return authFailure, nil, err
			}
		}
		if !needContinue {
			break
		}
		packet, err = c.readPacket()
		if err != nil {
			return authFailure, nil, err
		}
		switch packet[0] {
		case msgUserAuthFailure:
			var msg userAuthFailureMsg
			if err := Unmarshal(packet, &msg); err != nil {
				return authFailure, nil, err
			}
			if msg.PartialSuccess {
				return authPartialSuccess, msg.Methods, nil
			}
			return authFailure, msg.Methods, nil
		case msgUserAuthGSSAPIError:
			userAuthGSSAPIErrorResp := &userAuthGSSAPIError{}
			if err := Unmarshal(packet, userAuthGSSAPIErrorResp); err != nil {
				return authFailure, nil, err
			}
			return authFailure, nil, fmt.Errorf("GSS-API Error:\n"+
				"Major Status: %d\n"+
				"Minor Status: %d\n"+
				"Error Message: %s\n", userAuthGSSAPIErrorResp.MajorStatus, userAuthGSSAPIErrorResp.MinorStatus,
				userAuthGSSAPIErrorResp.Message)
		case msgUserAuthGSSAPIToken:
			userAuthGSSAPITokenReq := &userAuthGSSAPIToken{}
			if err := Unmarshal(packet, userAuthGSSAPITokenReq); err != nil {
				return authFailure, nil, err
			}
			token = userAuthGSSAPITokenReq.Token
		}
	}
	// Binding Encryption Keys.
	// See RFC 4462 section 3.5.
	micField := buildMIC(string(session), user, "ssh-connection", "gssapi-with-mic")
	micToken, err := g.gssAPIClient.GetMIC(micField)
	if err != nil {
		return authFailure, nil, err
	}
	if err := c.writePacket(Marshal(&userAuthGSSAPIMIC{
		MIC: micToken,
	})); err != nil {
		return authFailure, nil, err
	}
	return handleAuthResponse(c)
}

func (g *gssAPIWithMICCallback) method() string {
	return "gssapi-with-mic"
}
