// Copyright 2012 The Go Authors. All rights reserved.
// Use of this source code is governed by a BSD-style
// license that can be found in the LICENSE file.

package ssh

import (
	"bytes"
	"crypto"
	"crypto/dsa"
	"crypto/ecdsa"
	"crypto/elliptic"
	"crypto/md5"
	"crypto/rsa"
	"crypto/sha256"
	"crypto/x509"
	"encoding/asn1"
	"encoding/base64"
	"encoding/hex"
	"encoding/pem"
	"errors"
	"fmt"
	"io"
	"math/big"
	"strings"

	"golang.org/x/crypto/ed25519"
)

// These constants represent the algorithm names for key types supported by this
// package.
const (
	KeyAlgoRSA        = "ssh-rsa"
	KeyAlgoDSA        = "ssh-dss"
	KeyAlgoECDSA256   = "ecdsa-sha2-nistp256"
	KeyAlgoSKECDSA256 = "sk-ecdsa-sha2-nistp256@openssh.com"
	KeyAlgoECDSA384   = "ecdsa-sha2-nistp384"
	KeyAlgoECDSA521   = "ecdsa-sha2-nistp521"
	KeyAlgoED25519    = "ssh-ed25519"
	KeyAlgoSKED25519  = "sk-ssh-ed25519@openssh.com"
)

// These constants represent non-default signature algorithms that are supported
// as algorithm parameters to AlgorithmSigner.SignWithAlgorithm methods. See
// [PROTOCOL.agent] section 4.5.1 and
// https://tools.ietf.org/html/draft-ietf-curdle-rsa-sha2-10
const (
	SigAlgoRSA        = "ssh-rsa"
	SigAlgoRSASHA2256 = "rsa-sha2-256"
	SigAlgoRSASHA2512 = "rsa-sha2-512"
)

// parsePubKey parses a public key of the given algorithm.
// Use ParsePublicKey for keys with prepended algorithm.
func parsePubKey(in []byte, algo string) (pubKey PublicKey, rest []byte, err error) {
	switch algo {
	case KeyAlgoRSA:
		return parseRSA(in)
	case KeyAlgoDSA:
		return parseDSA(in)
	case KeyAlgoECDSA256, KeyAlgoECDSA384, KeyAlgoECDSA521:
		return parseECDSA(in)
	case KeyAlgoSKECDSA256:
		return parseSKECDSA(in)
	case KeyAlgoED25519:
		return parseED25519(in)
	case KeyAlgoSKED25519:
		return parseSKEd25519(in)
	case CertAlgoRSAv01, CertAlgoDSAv01, CertAlgoECDSA256v01, CertAlgoECDSA384v01, CertAlgoECDSA521v01, CertAlgoSKECDSA256v01, CertAlgoED25519v01, CertAlgoSKED25519v01:
		cert, err := parseCert(in, certToPrivAlgo(algo))
		if err != nil {
			return nil, nil, err
		}
		return cert, nil, nil
	}
	return nil, nil, fmt.Errorf("ssh: unknown key algorithm: %v", algo)
}

// parseAuthorizedKey parses a public key in OpenSSH authorized_keys format
// (see sshd(8) manual page) once the options and key type fields have been
// removed.
func parseAuthorizedKey(in []byte) (out PublicKey, comment string, err error) {
	in = bytes.TrimSpace(in)

	i := bytes.IndexAny(in, " \t")
	if i == -1 {
		i = len(in)
	}
	base64Key := in[:i]

	key := make([]byte, base64.StdEncoding.DecodedLen(len(base64Key)))
	n, err := base64.StdEncoding.Decode(key, base64Key)
	if err != nil {
		return nil, "", err
	}
	key = key[:n]
	out, err = ParsePublicKey(key)
	if err != nil {
		return nil, "", err
	}
	comment = string(bytes.TrimSpace(in[i:]))
	return out, comment, nil
}

// ParseKnownHosts parses an entry in the format of the known_hosts file.
//
// The known_hosts format is documented in the sshd(8) manual page. This
// function will parse a single entry from in. On successful return, marker
// will contain the optional marker value (i.e. "cert-authority" or "revoked")
// or else be empty, hosts will contain the hosts that this entry matches,
// pubKey will contain the public key and comment will contain any trailing
// comment at the end of the line. See the sshd(8) manual page for the various
// forms that a host string can take.
//
// The unparsed remainder of the input will be returned in rest. This function
// can be called repeatedly to parse multiple entries.
//
// If no entries were found in the input then err will be io.EOF. Otherwise a
// non-nil err value indicates a parse error.
func ParseKnownHosts(in []byte) (marker string, hosts []string, pubKey PublicKey, comment string, rest []byte, err error) {
	for len(in) > 0 {
		end := bytes.IndexByte(in, '\n')
		if end != -1 {
			rest = in[end+1:]
			in = in[:end]
		} else {
			rest = nil
		}

		end = bytes.IndexByte(in, '\r')
		if end != -1 {
			in = in[:end]
		}

		in = bytes.TrimSpace(in)
		if len(in) == 0 || in[0] == '#' {
			in = rest
			continue
		}

		i := bytes.IndexAny(in, " \t")
		if i == -1 {
			in = rest
			continue
		}

		// Strip out the beginning of the known_host key.
		// This is either an optional marker or a (set of) hostname(s).
		keyFields := bytes.Fields(in)
		if len(keyFields) < 3 || len(keyFields) > 5 {
			return "", nil, nil, "", nil, errors.New("ssh: invalid entry in known_hosts data")
		}

		// keyFields[0] is either "@cert-authority", "@revoked" or a comma separated
		// list of hosts
		marker := ""
		if keyFields[0][0] == '@' {
			marker = string(keyFields[0][1:])
			keyFields = keyFields[1:]
		}

		hosts := string(keyFields[0])
		// keyFields[1] contains the key type (e.g. “ssh-rsa”).
		// However, that information is duplicated inside the
		// base64-encoded key and so is ignored here.

		key := bytes.Join(keyFields[2:], []byte(" "))
		if pubKey, comment, err = parseAuthorizedKey(key); err != nil {
			return "", nil, nil, "", nil, err
		}

		return marker, strings.Split(hosts, ","), pubKey, comment, rest, nil
	}

	return "", nil, nil, "", nil, io.EOF
}

// ParseAuthorizedKeys parses a public key from an authorized_keys
// file used in OpenSSH according to the sshd(8) manual page.
func ParseAuthorizedKey(in []byte) (out PublicKey, comment string, options []string, rest []byte, err error) {
	for len(in) > 0 {
		end := bytes.IndexByte(in, '\n')
		if end != -1 {
			rest = in[end+1:]
			in = in[:end]
		} else {
			rest = nil
		}

		end = bytes.IndexByte(in, '\r')
		if end != -1 {
			in = in[:end]
		}

		in = bytes.TrimSpace(in)
		if len(in) == 0 || in[0] == '#' {
			in = rest
			continue
		}

		i := bytes.IndexAny(in, " \t")
		if i == -1 {
			in = rest
			continue
		}

		if out, comment, err = parseAuthorizedKey(in[i:]); err == nil {
			return out, comment, options, rest, nil
		}

		// No key type recognised. Maybe there's an options field at
		// the beginning.
		var b byte
		inQuote := false
		var candidateOptions []string
		optionStart := 0
		for i, b = range in {
			isEnd := !inQuote && (b == ' ' || b == '\t')
			if (b == ',' && !inQuote) || isEnd {
				if i-optionStart > 0 {
					candidateOptions = append(candidateOptions, string(in[optionStart:i]))
				}
				optionStart = i + 1
			}
			if isEnd {
				break
			}
			if b == '"' && (i == 0 || (i > 0 && in[i-1] != '\\')) {
				inQuote = !inQuote
			}
		}
		for i < len(in) && (in[i] == ' ' || in[i] == '\t') {
			i++
		}
		if i == len(in) {
			// Invalid line: unmatched quote
			in = rest
			continue
		}

		in = in[i:]
		i = bytes.IndexAny(in, " \t")
		if i == -1 {
			in = rest
			continue
		}

		if out, comment, err = parseAuthorizedKey(in[i:]); err == nil {
			options = candidateOptions
			return out, comment, options, rest, nil
		}

		in = rest
		continue
	}

	return nil, "", nil, nil, errors.New("ssh: no key found")
}

// ParsePublicKey parses an SSH public key formatted for use in
// the SSH wire protocol according to RFC 4253, section 6.6.
func ParsePublicKey(in []byte) (out PublicKey, err error) {
	algo, in, ok := parseString(in)
	if !ok {
		return nil, errShortRead
	}
	var rest []byte
	out, rest, err = parsePubKey(in, string(algo))
	if len(rest) > 0 {
		return nil, errors.New("ssh: trailing junk in public key")
	}

	return out, err
}

// MarshalAuthorizedKey serializes key for inclusion in an OpenSSH
// authorized_keys file. The return value ends with newline.
func MarshalAuthorizedKey(key PublicKey) []byte {
	b := &bytes.Buffer{}
	b.WriteString(key.Type())
	b.WriteByte(' ')
	e := base64.NewEncoder(base64.StdEncoding, b)
	e.Write(key.Marshal())
	e.Close()
	b.WriteByte('\n')
	return b.Bytes()
}

// PublicKey is an abstraction of different types of public keys.
type PublicKey interface {
	// Type returns the key's type, e.g. "ssh-rsa".
	Type() string

	// Marshal returns the serialized key data in SSH wire format,
	// with the name prefix. To unmarshal the returned data, use
	// the ParsePublicKey function.
	Marshal() []byte

	// Verify that sig is a signature on the given data using this
	// key. This function will hash the data appropriately first.
	Verify(data []byte, sig *Signature) error
}

// CryptoPublicKey, if implemented by a PublicKey,
// returns the underlying crypto.PublicKey form of the key.
type CryptoPublicKey interface {
	CryptoPublicKey() crypto.PublicKey
}

// A Signer can create signatures that verify against a public key.
type Signer interface {
	// PublicKey returns an associated PublicKey instance.
	PublicKey() PublicKey

	// Sign returns raw signature for the given data. This method
	// will apply the hash specified for the keytype to the data.
	Sign(rand io.Reader, data []byte) (*Signature, error)
}

// A AlgorithmSigner is a Signer that also supports specifying a specific
// algorithm to use for signing.
type AlgorithmSigner interface {
	Signer

	// SignWithAlgorithm is like Signer.Sign, but allows specification of a
	// non-default signing algorithm. See the SigAlgo* constants in this
	// package for signature algorithms supported by this package. Callers may
	// pass an empty string for the algorithm in which case the AlgorithmSigner
	// will use its default algorithm.
	SignWithAlgorithm(rand io.Reader, data []byte, algorithm string) (*Signature, error)
}

type rsaPublicKey rsa.PublicKey

func (r *rsaPublicKey) Type() string {
	return "ssh-rsa"
}

// parseRSA parses an RSA key according to RFC 4253, section 6.6.
func parseRSA(in []byte) (out PublicKey, rest []byte, err error) {
	var w struct {
		E    *big.Int
		N    *big.Int
		Rest []byte `ssh:"rest"`
	}
	if err := Unmarshal(in, &w); err != nil {
		return nil, nil, err
	}

	if w.E.BitLen() > 24 {
		return nil, nil, errors.New("ssh: exponent too large")
	}
	e := w.E.Int64()
	if e < 3 || e&1 == 0 {
		return nil, nil, errors.New("ssh: incorrect exponent")
	}

	var key rsa.PublicKey
	key.E = int(e)
	key.N = w.N
	return (*rsaPublicKey)(&key), w.Rest, nil
}

func (r *rsaPublicKey) Marshal() []byte {
	e := new(big.Int).SetInt64(int64(r.E))
	// RSA publickey struct layout should match the struct used by
	// parseRSACert in the x/crypto/ssh/agent package.
	wirekey := struct {
		Name string
		E    *big.Int
		N    *big.Int
	}{
		KeyAlgoRSA,
		e,
		r.N,
	}
	return Marshal(&wirekey)
}

func (r *rsaPublicKey) Verify(data []byte, sig *Signature) error {
	var hash crypto.Hash
	switch sig.Format {
	case SigAlgoRSA:
		hash = crypto.SHA1
	case SigAlgoRSASHA2256:
		hash = crypto.SHA256
	case SigAlgoRSASHA2512:
		hash = crypto.SHA512
	default:
		return fmt.Errorf("ssh: signature type %s for key type %s", sig.Format, r.Type())
	}
	h := hash.New()
	h.Write(data)
	digest := h.Sum(nil)
	return rsa.VerifyPKCS1v15((*rsa.PublicKey)(r), hash, digest, sig.Blob)
}

func (r *rsaPublicKey) CryptoPublicKey() crypto.PublicKey {
	return (*rsa.PublicKey)(r)
}

type dsaPublicKey dsa.PublicKey

func (k *dsaPublicKey) Type() string {
	return "ssh-dss"
}

func checkDSAParams(param *dsa.Parameters) error {
	// SSH specifies FIPS 186-2, which only provided a single size
	// (1024 bits) DSA key. FIPS 186-3 allows for larger key
	// sizes, which would confuse SSH.
	if l := param.P.BitLen(); l != 1024 {
		return fmt.Errorf("ssh: unsupported DSA key size %d", l)
	}

	return nil
}

// parseDSA parses an DSA key according to RFC 4253, section 6.6.
func parseDSA(in []byte) (out PublicKey, rest []byte, err error) {
	var w struct {
		P, Q, G, Y *big.Int
		Rest       []byte `ssh:"rest"`
	}
	if err := Unmarshal(in, &w); err != nil {
		return nil, nil, err
	}

	param := dsa.Parameters{
		P: w.P,
		Q: w.Q,
		G: w.G,
	}
	if err := checkDSAParams(&param); err != nil {
		return nil, nil, err
	}

	key := &dsaPublicKey{
		Parameters: param,
		Y:          w.Y,
	}
	return key, w.Rest, nil
}

func (k *dsaPublicKey) Marshal() []byte {
	// DSA publickey struct layout should match the struct used by
	// parseDSACert in the x/crypto/ssh/agent package.
	w := struct {
		Name       string
		P, Q, G, Y *big.Int
	}{
		k.Type(),
		k.P,
		k.Q,
		k.G,
		k.Y,
	}

	return Marshal(&w)
}

func (k *dsaPublicKey) Verify(data []byte, sig *Signature) error {
	if sig.Format != k.Type() {
		return fmt.Errorf("ssh: signature type %s for key type %s", sig.Format, k.Type())
	}
	h := crypto.SHA1.New()
	h.Write(data)
	digest := h.Sum(nil)

	// Per RFC 4253, section 6.6,
	// The value for 'dss_signature_blob' is encoded as a string containing
	// r, followed by s (which are 160-bit integers, without lengths or
	// padding, unsigned, and in network byte order).
	// For DSS purposes, sig.Blob should be exactly 40 bytes in length.
	if len(sig.Blob) != 40 {
		return errors.New("ssh: DSA signature parse error")
	}
	r := new(big.Int).SetBytes(sig.Blob[:20])
	s := new(big.Int).SetBytes(sig.Blob[20:])
	if dsa.Verify((*dsa.PublicKey)(k), digest, r, s) {
		return nil
	}
	return errors.New("ssh: signature did not verify")
}

func (k *dsaPublicKey) CryptoPublicKey() crypto.PublicKey {
	return (*dsa.PublicKey)(k)
}

type dsaPrivateKey struct {
	*dsa.PrivateKey
}

func (k *dsaPrivateKey) PublicKey() PublicKey {
	return (*dsaPublicKey)(&k.PrivateKey.PublicKey)
}

func (k *dsaPrivateKey) Sign(rand io.Reader, data []byte) (*Signature, error) {
	return k.SignWithAlgorithm(rand, data, "")
}

func (k *dsaPrivateKey) SignWithAlgorithm(rand io.Reader, data []byte, algorithm string) (*Signature, error) {
	if algorithm != "" && algorithm != k.PublicKey().Type() {
		return nil, fmt.Errorf("ssh: unsupported signature algorithm %s", algorithm)
	}

	h := crypto.SHA1.New()
	h.Write(data)
	digest := h.Sum(nil)
	r, s, err := dsa.Sign(rand, k.PrivateKey, digest)
	if err != nil {
		return nil, err
	}

	sig := make([]byte, 40)
	rb := r.Bytes()
	sb := s.Bytes()

	copy(sig[20-len(rb):20], rb)
	copy(sig[40-len(sb):], sb)

	return &Signature{
		Format: k.PublicKey().Type(),
		Blob:   sig,
	}, nil
}

type ecdsaPublicKey ecdsa.PublicKey

func (k *ecdsaPublicKey) Type() string {
	return "ecdsa-sha2-" + k.nistID()
}

func (k *ecdsaPublicKey) nistID() string {
	switch k.Params().BitSize {
	case 256:
		return "nistp256"
	case 384:
		return "nistp384"
	case 521:
		return "nistp521"
	}
	panic("ssh: unsupported ecdsa key size")
}

type ed25519PublicKey ed25519.PublicKey

func (k ed25519PublicKey) Type() string {
	return KeyAlgoED25519
}

func parseED25519(in []byte) (out PublicKey, rest []byte, err error) {
	var w struct {
		KeyBytes []byte
		Rest     []byte `ssh:"rest"`
	}

	if err := Unmarshal(in, &w); err != nil {
		return nil, nil, err
	}

	key := ed25519.PublicKey(w.KeyBytes)

	return (ed25519PublicKey)(key), w.Rest, nil
}

func (k ed25519PublicKey) Marshal() []byte {
	w := struct {
		Name     string
		KeyBytes []byte
	}{
		KeyAlgoED25519,
		[]byte(k),
	}
	return Marshal(&w)
}

func (k ed25519PublicKey) Verify(b []byte, sig *Signature) error {
	if sig.Format != k.Type() {
		return fmt.Errorf("ssh: signature type %s for key type %s", sig.Format, k.Type())
	}

	edKey := (ed25519.PublicKey)(k)
	if ok := ed25519.Verify(edKey, b, sig.Blob); !ok {
		return errors.New("ssh: signature did not verify")
	}

	return nil
}

func (k ed25519PublicKey) CryptoPublicKey() crypto.PublicKey {
	return ed25519.PublicKey(k)
}

func supportedEllipticCurve(curve elliptic.Curve) bool {
	return curve == elliptic.P256() || curve == elliptic.P384() || curve == elliptic.P521()
}

// ecHash returns the hash to match the given elliptic curve, see RFC
// 5656, section 6.2.1
func ecHash(curve elliptic.Curve) crypto.Hash {
	bitSize := curve.Params().BitSize
	switch {
	case bitSize <= 256:
		return crypto.SHA256
	case bitSize <= 384:
		return crypto.SHA384
	}
	return crypto.SHA512
}

// parseECDSA parses an ECDSA key according to RFC 5656, section 3.1.
func parseECDSA(in []byte) (out PublicKey, rest []byte, err error) {
	var w struct {
		Curve    string
		KeyBytes []byte
		Rest     []byte `ssh:"rest"`
	}

	if err := Unmarshal(in, &w); err != nil {
		return nil, nil, err
	}

	key := new(ecdsa.PublicKey)

	switch w.Curve {
	case "nistp256":
		key.Curve = elliptic.P256()
	case "nistp384":
		key.Curve = elliptic.P384()
	case "nistp521":
		key.Curve = elliptic.P521()
	default:
		return nil, nil, errors.New("ssh: unsupported curve")
	}

	key.X, key.Y = elliptic.Unmarshal(key.Curve, w.KeyBytes)
	if key.X == nil || key.Y == nil {
		return nil, nil, errors.New("ssh: invalid curve point")
	}
	return (*ecdsaPublicKey)(key), w.Rest, nil
}

func (k *ecdsaPublicKey) Marshal() []byte {
	// See RFC 5656, section 3.1.
	keyBytes := elliptic.Marshal(k.Curve, k.X, k.Y)
	// ECDSA publickey struct layout should match the struct used by
	// parseECDSACert in the x/crypto/ssh/agent package.
	w := struct {
		Name string
		ID   string
		Key  []byte
	}{
		k.Type(),
		k.nistID(),
		keyBytes,
	}

	return Marshal(&w)
}

func (k *ecdsaPublicKey) Verify(data []byte, sig *Signature) error {
	if sig.Format != k.Type() {
		return fmt.Errorf("ssh: signature type %s for key type %s", sig.Format, k.Type())
	}

	h := ecHash(k.Curve).New()
	h.Write(data)
	digest := h.Sum(nil)

	// Per RFC 5656, section 3.1.2,
	// The ecdsa_signature_blob value has the following specific encoding:
	//    mpint    r
	//    mpint    s
	var ecSig struct {
		R *big.Int
		S *big.Int
	}

	if err := Unmarshal(sig.Blob, &ecSig); err != nil {
		return err
	}

	if ecdsa.Verify((*ecdsa.PublicKey)(k), digest, ecSig.R, ecSig.S) {
		return nil
	}
	return errors.New("ssh: signature did not verify")
}

func (k *ecdsaPublicKey) CryptoPublicKey() crypto.PublicKey {
	return (*ecdsa.PublicKey)(k)
}

// skFields holds the additional fields present in U2F/FIDO2 signatures.
// See openssh/PROTOCOL.u2f 'SSH U2F Signatures' for details.
type skFields struct {
	// Flags contains U2F/FIDO2 flags such as 'user present'
	Flags byte
	// Counter is a monotonic signature counter which can be
	// used to detect concurrent use of a private key, should
	// it be extracted from hardware.
	Counter uint32
}

type skECDSAPublicKey struct {
	// application is a URL-like string, typically "ssh:" for SSH.
	// see openssh/PROTOCOL.u2f for details.
	application string
	ecdsa.PublicKey
}

func (k *skECDSAPublicKey) Type() string {
	return KeyAlgoSKECDSA256
}

func (k *skECDSAPublicKey) nistID() string {
	return "nistp256"
}

func parseSKECDSA(in []byte) (out PublicKey, rest []byte, err error) {
	var w struct {
		Curve       string
		KeyBytes    []byte
		Application string
		Rest        []byte `ssh:"rest"`
	}

	if err := Unmarshal(in, &w); err != nil {
		return nil, nil, err
	}

	key := new(skECDSAPublicKey)
	key.application = w.Application

	if w.Curve != "nistp256" {
		return nil, nil, errors.New("ssh: unsupported curve")
	}
	key.Curve = elliptic.P256()

	key.X, key.Y = elliptic.Unmarshal(key.Curve, w.KeyBytes)
	if key.X == nil || key.Y == nil {
		return nil, nil, errors.New("ssh: invalid curve point")
	}

	return key, w.Rest, nil
}

func (k *skECDSAPublicKey) Marshal() []byte {
	// See RFC 5656, section 3.1.
	keyBytes := elliptic.Marshal(k.Curve, k.X, k.Y)
	w := struct {
		Name        string
		ID          string
		Key         []byte
		Application string
	}{
		k.Type(),
		k.nistID(),
		keyBytes,
		k.application,
	}

	return Marshal(&w)
}

func (k *skECDSAPublicKey) Verify(data []byte, sig *Signature) error {
	if sig.Format != k.Type() {
		return fmt.Errorf("ssh: signature type %s for key type %s", sig.Format, k.Type())
	}

	h := ecHash(k.Curve).New()
	h.Write([]byte(k.application))
	appDigest := h.Sum(nil)

	h.Reset()
	h.Write(data)
	dataDigest := h.Sum(nil)

	var ecSig struct {
		R *big.Int
		S *big.Int
	}
	if err := Unmarshal(sig.Blob, &ecSig); err != nil {
		return err
	}

	var skf skFields
	if err := Unmarshal(sig.Rest, &skf); err != nil {
		return err
	}

	blob := struct {
		ApplicationDigest []byte `ssh:"rest"`
		Flags             byte
		Counter           uint32
		MessageDigest     []byte `ssh:"rest"`
	}{
		appDigest,
		skf.Flags,
		skf.Counter,
		dataDigest,
	}

	original := Marshal(blob)

	h.Reset()
	h.Write(original)
	digest := h.Sum(nil)

	if ecdsa.Verify((*ecdsa.PublicKey)(&k.PublicKey), digest, ecSig.R, ecSig.S) {
		return nil
	}
	return errors.New("ssh: signature did not verify")
}

type skEd25519PublicKey struct {
	// application is a URL-like string, typically "ssh:" for SSH.
	// see openssh/PROTOCOL.u2f for details.
	application string
	ed25519.PublicKey
}

func (k *skEd25519PublicKey) Type() string {
	return KeyAlgoSKED25519
}

func parseSKEd25519(in []byte) (out PublicKey, rest []byte, err error) {
	var w struct {
		KeyBytes    []byte
		Application string
		Rest        []byte `ssh:"rest"`
	}

	if err := Unmarshal(in, &w); err != nil {
		return nil, nil, err
	}

	key := new(skEd25519PublicKey)
	key.application = w.Application
	key.PublicKey = ed25519.PublicKey(w.KeyBytes)

	return key, w.Rest, nil
}

func (k *skEd25519PublicKey) Marshal() []byte {
	w := struct {
		Name        string
		KeyBytes    []byte
		Application string
	}{
		KeyAlgoSKED25519,
		[]byte(k.PublicKey),
		k.application,
	}
	return Marshal(&w)
}

func (k *skEd25519PublicKey) Verify(data []byte, sig *Signature) error {
	if sig.Format != k.Type() {
		return fmt.Errorf("ssh: signature type %s for key type %s", sig.Format, k.Type())
	}

	h := sha256.New()
	h.Write([]byte(k.application))
	appDigest := h.Sum(nil)

	h.Reset()
	h.Write(data)
	dataDigest := h.Sum(nil)

	var edSig struct {
		Signature []byte `ssh:"rest"`
	}

	if err := Unmarshal(sig.Blob, &edSig); err != nil {
		return err
	}

	var skf skFields
	if err := Unmarshal(sig.Rest, &skf); err != nil {
		return err
	}

	blob := struct {
		ApplicationDigest []byte `ssh:"rest"`
		Flags             byte
		Counter           uint32
		MessageDigest     []byte `ssh:"rest"`
	}{
		appDigest,
		skf.Flags,
		skf.Counter,
		dataDigest,
	}

	original := Marshal(blob)

	edKey := (ed25519.PublicKey)(k.PublicKey)
	if ok := ed25519.Verify(edKey, original, edSig.Signature); !ok {
		return errors.New("ssh: signature did not verify")
	}

	return nil
}

// NewSignerFromKey takes an *rsa.PrivateKey, *dsa.PrivateKey,
// *ecdsa.PrivateKey or any other crypto.Signer and returns a
// corresponding Signer instance. ECDSA keys must use P-256, P-384 or
// P-521. DSA keys must use parameter size L1024N160.
func NewSignerFromKey(key interface{}) (Signer, error) {
	switch key := key.(type) {
	case crypto.Signer:
		return NewSignerFromSigner(key)
	case *dsa.PrivateKey:
		return newDSAPrivateKey(key)
	default:
		return nil, fmt.Errorf("ssh: unsupported key type %T", key)
	}
}

func newDSAPrivateKey(key *dsa.PrivateKey) (Signer, error) {
	if err := checkDSAParams(&key.PublicKey.Parameters); err != nil {
		return nil, err
	}

	return &dsaPrivateKey{key}, nil
}

type wrappedSigner struct {
	signer crypto.Signer
	pubKey PublicKey
}

// NewSignerFromSigner takes any crypto.Signer implementation and
// returns a corresponding Signer interface. This can be used, for
// example, with keys kept in hardware modules.
func NewSignerFromSigner(signer crypto.Signer) (Signer, error) {
	pubKey, err := NewPublicKey(signer.Public())
	if err != nil {
		return nil, err
	}

	return &wrappedSigner{signer, pubKey}, nil
}

func (s *wrappedSigner) PublicKey() PublicKey {
	return s.pubKey
}

func (s *wrappedSigner) Sign(rand io.Reader, data []byte) (*Signature, error) {
	return s.SignWithAlgorithm(rand, data, "")
}

func (s *wrappedSigner) SignWithAlgorithm(rand io.Reader, data []byte, algorithm string) (*Signature, error) {
	var hashFunc crypto.Hash

	if _, ok := s.pubKey.(*rsaPublicKey); ok {
		// RSA keys support a few hash functions determined by the requested signature algorithm
		switch algorithm {
		case "", SigAlgoRSA:
			algorithm = SigAlgoRSA
			hashFunc = crypto.SHA1
		case SigAlgoRSASHA2256:
			hashFunc = crypto.SHA256
		case SigAlgoRSASHA2512:
			hashFunc = crypto.SHA512
		default:
			return nil, fmt.Errorf("ssh: unsupported signature algorithm %s", algorithm)
		}
	} else {
		// The only supported algorithm for all other key types is the same as the type of the key
		if algorithm == "" {
			algorithm = s.pubKey.Type()
		} else if algorithm != s.pubKey.Type() {
			return nil, fmt.Errorf("ssh: unsupported signature algorithm %s", algorithm)
		}

		switch key := s.pubKey.(type) {
		case *dsaPublicKey:
			hashFunc = crypto.SHA1
		case *ecdsaPublicKey:
			hashFunc = ecHash(key.Curve)
		case ed25519PublicKey:
		default:
			return nil, fmt.Errorf("ssh: unsupported key type %T", key)
		}
	}

	var digest []byte
	if hashFunc != 0 {
		h := hashFunc.New()
		h.Write(data)
		digest = h.Sum(nil)
	} else {
		digest = data
	}

	signature, err := s.signer.Sign(rand, digest, hashFunc)
	if err != nil {
		return nil, err
	}

	// crypto.Signer.Sign is expected to return an ASN.1-encoded signature
	// for ECDSA and DSA, but that's not the encoding expected by SSH, so
	// re-encode.
	switch s.pubKey.(type) {
	case *ecdsaPublicKey, *dsaPublicKey:
		type asn1Signature struct {
			R, S *big.Int
		}
		asn1Sig := new(asn1Signature)
		_, err := asn1.Unmarshal(signature, asn1Sig)
		if err != nil {
			return nil, err
		}

		switch s.pubKey.(type) {
		case *ecdsaPublicKey:
			signature = Marshal(asn1Sig)

		case *dsaPublicKey:
			signature = make([]byte, 40)
			r := asn1Sig.R.Bytes()
			s := asn1Sig.S.Bytes()
			copy(signature[20-len(r):20], r)
			copy(signature[40-len(s):40], s)
		}
	}

	return &Signature{
		Format: algorithm,
		Blob:   signature,
	}, nil
}

// NewPublicKey takes an *rsa.PublicKey, *dsa.PublicKey, *ecdsa.PublicKey,
// or ed25519.PublicKey returns a corresponding PublicKey instance.
// ECDSA keys must use P-256, P-384 or P-521.
func NewPublicKey(key interface{}) (PublicKey, error) {
	switch key := key.(type) {
	case *rsa.PublicKey:
		return (*rsaPublicKey)(key), nil
	case *ecdsa.PublicKey:
		if !supportedEllipticCurve(key.Curve) {
			return nil, errors.New("ssh: only P-256, P-384 and P-521 EC keys are supported")
		}
		return (*ecdsaPublicKey)(key), nil
	case *dsa.PublicKey:
		return (*dsaPublicKey)(key), nil
	case ed25519.PublicKey:
		return (ed25519PublicKey)(key), nil
	default:
		return nil, fmt.Errorf("ssh: unsupported key type %T", key)
	}
}

// ParsePrivateKey returns a Signer from a PEM encoded private key. It supports
// the same keys as ParseRawPrivateKey. If the private key is encrypted, it
// will return a PassphraseMissingError.
func ParsePrivateKey(pemBytes []byte) (Signer, error) {
	key, err := ParseRawPrivateKey(pemBytes)
	if err != nil {
		return nil, err
	}

	return NewSignerFromKey(key)
}

// ParsePrivateKeyWithPassphrase returns a Signer from a PEM encoded private
// key and passphrase. It supports the same keys as
// ParseRawPrivateKeyWithPassphrase.
func ParsePrivateKeyWithPassphrase(pemBytes, passphrase []byte) (Signer, error) {
	key, err := ParseRawPrivateKeyWithPassphrase(pemBytes, passphrase)
	if err != nil {
		return nil, err
	}

	return NewSignerFromKey(key)
}

// encryptedBlock tells whether a private key is
// encrypted by examining its Proc-Type header
// for a mention of ENCRYPTED
// according to RFC 1421 Section 4.6.1.1.
func encryptedBlock(block *pem.Block) bool {
	return strings.Contains(block.Headers["Proc-Type"], "ENCRYPTED")
}

// A PassphraseMissingError indicates that parsing this private key requires a
// passphrase. Use ParsePrivateKeyWithPassphrase.
type PassphraseMissingError struct {
	// PublicKey will be set if the private key format includes an unencrypted
	// public key along with the encrypted private key.
	PublicKey PublicKey
}

func (*PassphraseMissingError) Error() string {
	return "ssh: this private key is passphrase protected"
}

// ParseRawPrivateKey returns a private key from a PEM encoded private key. It
// supports RSA (PKCS#1), PKCS#8, DSA (OpenSSL), and ECDSA private keys. If the
// private key is encrypted, it will return a PassphraseMissingError.
func ParseRawPrivateKey(pemBytes []byte) (interface{}, error) {
	block, _ := pem.Decode(pemBytes)
	if block == nil {
		return nil, errors.New("ssh: no key found")
	}

	if encryptedBlock(block) {
		return nil, &PassphraseMissingError{}
	}

	switch block.Type {
	case "RSA PRIVATE KEY":
		return x509.ParsePKCS1PrivateKey(block.Bytes)
	// RFC5208 - https://tools.ietf.org/html/rfc5208
	case "PRIVATE KEY":
		return x509.ParsePKCS8PrivateKey(block.Bytes)
	case "EC PRIVATE KEY":
		return x509.ParseECPrivateKey(block.Bytes)
	case "DSA PRIVATE KEY":
		return ParseDSAPrivateKey(block.Bytes)
	case "OPENSSH PRIVATE KEY":
		return parseOpenSSHPrivateKey(block.Bytes)
	default:
		return nil, fmt.Errorf("ssh: unsupported key type %q", block.Type)
	}
}

// ParseRawPrivateKeyWithPassphrase returns a private key decrypted with
// passphrase from a PEM encoded private key. If wrong passphrase, return
// x509.IncorrectPasswordError.
func ParseRawPrivateKeyWithPassphrase(pemBytes, passphrase []byte) (interface{}, error) {
	block, _ := pem.Decode(pemBytes)
	if block == nil {
		return nil, errors.New("ssh: no key found")
	}

	if !encryptedBlock(block) || !x509.IsEncryptedPEMBlock(block) {
		return nil, errors.New("ssh: not an encrypted key")
	}

	buf, err := x509.DecryptPEMBlock(block, passphrase)
	if err != nil {
		if err == x509.IncorrectPasswordError {
			return nil, err
		}
		return nil, fmt.Errorf("ssh: cannot decode encrypted private keys: %v", err)
	}

	switch block.Type {
	case "RSA PRIVATE KEY":
		return x509.ParsePKCS1PrivateKey(buf)
	case "EC PRIVATE KEY":
		return x509.ParseECPrivateKey(buf)
	case "DSA PRIVATE KEY":
		return ParseDSAPrivateKey(buf)
	default:
		return nil, fmt.Errorf("ssh: unsupported key type %q", block.Type)
	}
}

// ParseDSAPrivateKey returns a DSA private key from its ASN.1 DER encoding, as
// specified by the OpenSSL DSA man page.
func ParseDSAPrivateKey(der []byte) (*dsa.PrivateKey, error) {
	var k struct {
		Version int
		P       *big.Int
		Q       *big.Int
		G       *big.Int
		Pub     *big.Int
		Priv    *big.Int
	}
	rest, err := asn1.Unmarshal(der, &k)
	if err != nil {
		return nil, errors.New("ssh: failed to parse DSA key: " + err.Error())
	}
	if len(rest) > 0 {
		return nil, errors.New("ssh: garbage after DSA key")
	}

	return &dsa.PrivateKey{
		PublicKey: dsa.PublicKey{
			Parameters: dsa.Parameters{
				P: k.P,
				Q: k.Q,
				G: k.G,
			},
			Y: k.Pub,
		},
		X: k.Priv,
	}, nil
}

// Implemented based on the documentation at
// https://github.com/openssh/openssh-portable/blob/master/PROTOCOL.key
func parseOpenSSHPrivateKey(key []byte) (crypto.PrivateKey, error) {
	const magic = "openssh-key-v1\x00"
	if len(key) < len(magic) || string(key[:len(magic)]) != magic {
		return nil, errors.New("ssh: invalid openssh private key format")
	}
	remaining := key[len(magic):]

	var w struct {
		CipherName   string
		KdfName      string
		KdfOpts      string
		NumKeys      uint32
		PubKey       []byte
		PrivKeyBlock []byte
	}

	if err := Unmarshal(remaining, &w); err != nil {
		return nil, err
	}

	if w.KdfName != "none" || w.CipherName != "none" {
		return nil, errors.New("ssh: cannot decode encrypted private keys")
	}

	pk1 := struct {
		Check1  uint32
		Check2  uint32
		Keytype string
		Rest    []byte `ssh:"rest"`
	}{}

	if err := Unmarshal(w.PrivKeyBlock, &pk1); err != nil {
		return nil, err
	}

	if pk1.Check1 != pk1.Check2 {
		return nil, errors.New("ssh: checkint mismatch")
	}

	// we only handle ed25519 and rsa keys currently
	switch pk1.Keytype {
	case KeyAlgoRSA:
		// https://github.com/openssh/openssh-portable/blob/master/sshkey.c#L2760-L2773
		key := struct {
			N       *big.Int
			E       *big.Int
			D       *big.Int
			Iqmp    *big.Int
			P       *big.Int
			Q       *big.Int
			Comment string
			Pad     []byte `ssh:"rest"`
		}{}

		if err := Unmarshal(pk1.Rest, &key); err != nil {
			return nil, err
		}

		for i, b := range key.Pad {
			if int(b) != i+1 {
				return nil, errors.New("ssh: padding not as expected")
			}
		}

		pk := &rsa.PrivateKey{
			PublicKey: rsa.PublicKey{
				N: key.N,
				E: int(key.E.Int64()),
			},
			D:      key.D,
			Primes: []*big.Int{key.P, key.Q},
		}

		if err := pk.Validate(); err != nil {
			return nil, err
		}

		pk.Precompute()

		return pk, nil
	case KeyAlgoED25519:
		key := struct {
			Pub     []byte
			Priv    []byte
			Comment string
			Pad     []byte `ssh:"rest"`
		}{}

		if err := Unmarshal(pk1.Rest, &key); err != nil {
			return nil, err
		}

		if len(key.Priv) != ed25519.PrivateKeySize {
			return nil, errors.New("ssh: private key unexpected length")
		}

		for i, b := range key.Pad {
			if int(b) != i+1 {
				return nil, errors.New("ssh: padding not as expected")
			}
		}

		pk := ed25519.PrivateKey(make([]byte, ed25519.PrivateKeySize))
		copy(pk, key.Priv)
		return &pk, nil
	default:
		return nil, errors.New("ssh: unhandled key type")
	}
}

// FingerprintLegacyMD5 returns the user presentation of the key's
// fingerprint as described by RFC 4716 section 4.
func FingerprintLegacyMD5(pubKey PublicKey) string {
	md5sum := md5.Sum(pubKey.Marshal())
	hexarray := make([]string, len(md5sum))
	for i, c := range md5sum {
		hexarray[i] = hex.EncodeToString([]byte{c})
	}
	return strings.Join(hexarray, ":")
}

// FingerprintSHA256 returns the user presentation of the key's
// fingerprint as unpadded base64 encoded sha256 hash.
// This format was introduced from OpenSSH 6.8.
// https://www.openssh.com/txt/release-6.8
// https://tools.ietf.org/html/rfc4648#section-3.2 (unpadded base64 encoding)
func FingerprintSHA256(pubKey PublicKey) string {
	sha256sum := sha256.Sum256(pubKey.Marshal())
	hash := base64.RawStdEncoding.EncodeToString(sha256sum[:])
	return "SHA256:" + hash
}
