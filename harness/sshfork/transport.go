// Copyright 2011 The Go Authors. All rights reserved.
// Use of this source code is governed by a BSD-style
// license that can be found in the LICENSE file.

package ssh

import (
	"bufio"
	"bytes"
	"errors"
	"io"
	"log"
)

// debugTransport if set, will print packet types as they go over the
// wire. No message decoding is done, to minimize the impact on timing.
const debugTransport = false

const (
	gcmCipherID    = "aes128-gcm@openssh.com"
	aes128cbcID    = "aes128-cbc"
	tripledescbcID = "3des-cbc"
)

// packetConn represents a transport that implements packet based
// operations.
type packetConn interface {
	// Encrypt and send a packet of data to the remote peer.
	writePacket(packet []byte) error

	// Read a packet from the connection. The read is blocking,
	// i.e. if error is nil, then the returned byte slice is
	// always non-empty.
	readPacket() ([]byte, error)

	// Close closes the write-side of the connection.
	Close() error
}

// transport is the keyingTransport that implements the SSH packet
// protocol.
type transport struct {
	reader connectionState
	writer connectionState

	bufReader *bufio.Reader
	bufWriter *bufio.Writer
	rand      io.Reader
	isClient  bool
	io.Closer
}

// packetCipher represents a combination of SSH encryption/MAC
// protocol.  A single instance should be used for one direction only.
type packetCipher interface {
	// writeCipherPacket encrypts the packet and writes it to w. The
	// contents of the packet are generally scrambled.
	writeCipherPacket(seqnum uint32, w io.Writer, rand io.Reader, packet []byte) error

	// readCipherPacket reads and decrypts a packet of data. The
	// returned packet may be overwritten by future calls of
	// readPacket.
	readCipherPacket(seqnum uint32, r io.Reader) ([]byte, error)
}

// connectionState represents one side (read or write) of the
// connection. This is necessary because each direction has its own
// keys, and can even have its own algorithms
type connectionState struct {
	packetCipher
	seqNum           uint32
	dir              direction
	pendingKeyChange chan packetCipher
}

// prepareKeyChange sets up key material for a keychange. The key changes in
// both directions are triggered by reading and writing a msgNewKey packet
// respectively.
func (t *transport) prepareKeyChange(algs *algorithms, kexResult *kexResult) error {
	ciph, err := newPacketCipher(t.reader.dir, algs.r, kexResult)
	if err != nil {
		return err
	}
	t.reader.pendingKeyChange <- ciph

	ciph, err = newPacketCipher(t.writer.dir, algs.w, kexResult)
	if err != nil {
		return err
	}
	t.writer.pendingKeyChange <- ciph

	return nil
}

func (t *transport) printPacket(p []byte, write bool) {
	if len(p) == 0 {
		return
	}
	who := "server"
	if t.isClient {
		who = "client"
	}
	what := "read"
	if write {
		what = "write"
	}

	log.Println(what, who, p[0])
}

// Read and decrypt next packet.
func (t *transport) readPacket() (p []byte, err error) {
	for {
		p, err = t.reader.readPacket(t.bufReader)
		if err != nil {
			break
		}
		if len(p) == 0 || (p[0] != msgIgnore && p[0] != msgDebug) {
			break
		}
	}
	if debugTransport {
		t.printPacket(p, false)
	}

	return p, err
}

func (s *connectionState) readPacket(r *bufio.Reader) ([]byte, error) {
	packet, err := s.packetCipher.readCipherPacket(s.seqNum, r)
	s.seqNum++
	if err == nil && len(packet) == 0 {
		err = errors.New("ssh: zero length packet")
	}

	if len(packet) > 0 {
		switch packet[0] {
		case msgNewKeys:
			select {
			case cipher := <-s.pendingKeyChange:
				s.packetCipher = cipher
			default:
				return nil, errors.New("ssh: got bogus newkeys message")
			}

		case msgDisconnect:
			// Transform a disconnect message into an
			// error. Since this is lowest level at which
			// we interpret message types, doing it here
			// ensures that we don't have to handle it
			// elsewhere.
			var msg disconnectMsg
			if err := Unmarshal(packet, &msg); err != nil {
				return nil, err
			}
			return nil, &msg
		}
	}

	// The packet may point to an internal buffer, so copy the
	// packet out here.
	fresh := make([]byte, len(packet))
	copy(fresh, packet)

	return fresh, err
}

func (t *transport) writePacket(packet []byte) error {
	if debugTransport {
		t.printPacket(packet, true)
	}
	return t.writer.writePacket(t.bufWriter, t.rand, packet)
}

func (s *connectionState) writePacket(w *bufio.Writer, rand io.Reader, packet []byte) error {
	changeKeys := len(packet) > 0 && packet[0] == msgNewKeys

	err := s.packetCipher.writeCipherPacket(s.seqNum, w, rand, packet)
	if err != nil {
		return err
	}
	if err = w.Flush(); err != nil {
		return err
	}
	s.seqNum++
	if changeKeys {
		select {
		case cipher := <-s.pendingKeyChange:
			s.packetCipher = cipher
		default:
			panic("ssh: no key material for msgNewKeys")
		}
	}
	return err
}

func newTransport(rwc io.ReadWriteCloser, rand io.Reader, isClient bool) *transport {
	t := &transport{
		bufReader: bufio.NewReader(rwc),
		bufWriter: bufio.NewWriter(rwc),
		rand:      rand,
		reader: connectionState{
			packetCipher:     &streamPacketCipher{cipher: noneCipher{}},
			pendingKeyChange: make(chan packetCipher, 1),
		},
		writer: connectionState{
			packetCipher:     &streamPacketCipher{cipher: noneCipher{}},
			pendingKeyChange: make(chan packetCipher, 1),
		},
		Closer: rwc,
	}
	t.isClient = isClient

	if isClient {
		t.reader.dir = serverKeys
		t.writer.dir = clientKeys
	} else {
		t.reader.dir = clientKeys
		t.writer.dir = serverKeys
	}

	return t
}

type direction struct {
	ivTag     []byte
	keyTag    []byte
	macKeyTag []byte
}

var (
	serverKeys = direction{[]byte{'B'}, []byte{'D'}, []byte{'F'}}
	clientKeys = direction{[]byte{'A'}, []byte{'C'}, []byte{'E'}}
)

// setupKeys sets the cipher and MAC keys from kex.K, kex.H and sessionId, as
// described in RFC 4253, section 6.4. direction should either be serverKeys
// (to setup server->client keys) or clientKeys (for client->server keys).
func newPacketCipher(d direction, algs directionAlgorithms, kex *kexResult) (packetCipher, error) {
	cipherMode := cipherModes[algs.Cipher]
	macMode := macModes[algs.MAC]

	iv := make([]byte, cipherMode.ivSize)
	key := make([]byte, cipherMode.keySize)
	macKey := make([]byte, macMode.keySize)

	generateKeyMaterial(iv, d.ivTag, kex)
	generateKeyMaterial(key, d.keyTag, kex)
	generateKeyMaterial(macKey, d.macKeyTag, kex)

	return cipherModes[algs.Cipher].create(key, iv, macKey, algs)
}

// generateKeyMaterial fills out with key material generated from tag, K, H
// and sessionId, as specified in RFC 4253, section 7.2.
func generateKeyMaterial(out, tag []byte, r *kexResult) {
	var digestsSoFar []byte

	h := r.Hash.New()
	for len(out) > 0 {
		h.Reset()
		h.Write(r.K)
		h.Write(r.H)

		if len(digestsSoFar) == 0 {
			h.Write(tag)
			h.Write(r.SessionID)
		} else {
			h.Write(digestsSoFar)
		}

		digest := h.Sum(nil)
		n := copy(out, digest)
		out = out[n:]
		if len(out) > 0 {
			digestsSoFar = append(digestsSoFar, digest...)
		}
	}
}

const packageVersion = "SSH-2.0-Go"

// Sends and receives a version line.  The versionLine string should
// be US ASCII, start with "SSH-2.0-", and should not include a
// newline. exchangeVersions returns the other side's version line.
func exchangeVersions(rw io.ReadWriter, versionLine []byte) (them []byte, err error) {
	// Contrary to the RFC, we do not ignore lines that don't
	// start with "SSH-2.0-" to make the library usable with
	// nonconforming servers.
	for _, c := range versionLine {
		// The spec disallows non US-ASCII chars, and
		// specifically forbids null chars.
		if c < 32 {
			return nil, errors.New("ssh: junk character in version line")
		}
	}
	if _, err = rw.Write(append(versionLine, '\r', '\n')); err != nil {
		return
	}

	them, err = readVersion(rw)
	return them, err
}

// maxVersionStringBytes is the maximum number of bytes that we'll
// accept as a version string. RFC 4253 section 4.2 limits this at 255
// chars
const maxVersionStringBytes = 255

// Read version string as specified by RFC 4253, section 4.2.
func readVersion(r io.Reader) ([]byte, error) {
	versionString := make([]byte, 0, 64)
	var ok bool
	var buf [1]byte

	for length := 0; length < maxVersionStringBytes; length++ {
		_, err := io.ReadFull(r, buf[:])
		if err != nil {
			return nil, err
		}
		// The RFC says that the version should be terminated with \r\n
		// but several SSH servers actually only send a \n.
		if buf[0] == '\n' {
			if !bytes.HasPrefix(versionString, []byte("SSH-")) {
				// RFC 4253 says we need to ignore all version string lines
				// except the one containing the SSH version (provided that
				// all the lines do not exceed 255 bytes in total).
				versionString = versionString[:0]
				continue
			}
			ok = true
			break
		}

		// non ASCII chars are disallowed, but we are lenient,
		// since Go doesn't use null-terminated strings.

		// The RFC allows a comment after a space, however,
		// all of it (version and comments) goes into the
		// session hash.
		versionString = append(versionString, buf[0])
	}

	if !ok {
		return nil, errors.New("ssh: overflow reading version string")
	}

	// There might be a '\r' on the end which we should remove.
	if len(versionString) > 0 && versionString[len(versionString)-1] == '\r' {
		versionString = versionString[:len(versionString)-1]
	}
	return versionString, nil
}
