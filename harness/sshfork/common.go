// Copyright 2011 The Go Authors. All rights reserved.
// Use of this source code is governed by a BSD-style
// license that can be found in the LICENSE file.

package ssh

import (
	"crypto"
	"crypto/rand"
	"fmt"
	"io"
	"math"
	"sync"

	_ "crypto/sha1"
	_ "crypto/sha256"
	_ "crypto/sha512"
)

// These are string constants in the SSH protocol.
const (
	compressionNone = "none"
	serviceUserAuth = "ssh-userauth"
	serviceSSH      = "ssh-connection"
)

// supportedCiphers lists ciphers we support but might not recommend.
var supportedCiphers = []string{
	"aes128-ctr", "aes192-ctr", "aes256-ctr",
	"aes128-gcm@openssh.com",
	chacha20Poly1305ID,
	"arcfour256", "arcfour128", "arcfour",
	aes128cbcID,
	tripledescbcID,
}

// preferredCiphers specifies the default preference for ciphers.
var preferredCiphers = []string{
	"aes128-gcm@openssh.com",
	chacha20Poly1305ID,
	"aes128-ctr", "aes192-ctr", "aes256-ctr",
}

// supportedKexAlgos specifies the supported key-exchange algorithms in
// preference order.
var supportedKexAlgos = []string{
	kexAlgoCurve25519SHA256,
	// P384 and P521 are not constant-time yet, but since we don't
	// reuse ephemeral keys, using them for ECDH should be OK.
	kexAlgoECDH256, kexAlgoECDH384, kexAlgoECDH521,
	kexAlgoDH14SHA1, kexAlgoDH1SHA1,
}

// serverForbiddenKexAlgos contains key exchange algorithms, that are forbidden
// for the server half.
var serverForbiddenKexAlgos = map[string]struct{}{
	kexAlgoDHGEXSHA1:   {}, // server half implementation is only minimal to satisfy the automated tests
	kexAlgoDHGEXSHA256: {}, // server half implementation is only minimal to satisfy the automated tests
}

// preferredKexAlgos specifies the default preference for key-exchange algorithms
// in preference order.
var preferredKexAlgos = []string{
	kexAlgoCurve25519SHA256,
	kexAlgoECDH256, kexAlgoECDH384, kexAlgoECDH521,
	kexAlgoDH14SHA1,
}

// supportedHostKeyAlgos specifies the supported host-key algorithms (i.e. methods
// of authenticating servers) in preference order.
var supportedHostKeyAlgos = []string{
	CertAlgoRSAv01, CertAlgoDSAv01, CertAlgoECDSA256v01,
	CertAlgoECDSA384v01, CertAlgoECDSA521v01, CertAlgoED25519v01,

	KeyAlgoECDSA256, KeyAlgoECDSA384, KeyAlgoECDSA521,
	KeyAlgoRSA, KeyAlgoDSA,

	KeyAlgoED25519,
}

// supportedMACs specifies a default set of MAC algorithms in preference order.
// This is based on RFC 4253, section 6.4, but with hmac-md5 variants removed
// because they have reached the end of their useful life.
var supportedMACs = []string{
	"hmac-sha2-256-etm@openssh.com", "hmac-sha2-256", "hmac-sha1", "hmac-sha1-96",
}

var supportedCompressions = []string{compressionNone}

// hashFuncs keeps the mapping of supported algorithms to their respective
// hashes needed for signature verification.
var hashFuncs = map[string]crypto.Hash{
	KeyAlgoRSA:          crypto.SHA1,
	KeyAlgoDSA:          crypto.SHA1,
	KeyAlgoECDSA256:     crypto.SHA256,
	KeyAlgoECDSA384:     crypto.SHA384,
	KeyAlgoECDSA521:     crypto.SHA512,
	CertAlgoRSAv01:      crypto.SHA1,
	CertAlgoDSAv01:      crypto.SHA1,
	CertAlgoECDSA256v01: crypto.SHA256,
	CertAlgoECDSA384v01: crypto.SHA384,
	CertAlgoECDSA521v01: crypto.SHA512,
}

// unexpectedMessageError results when the SSH message that we received didn't
// match what we wanted.
func unexpectedMessageError(expected, got uint8) error {
	return fmt.Errorf("ssh: unexpected message type %d (expected %d)", got, expected)
}

// parseError results from a malformed SSH message.
func parseError(tag uint8) error {
	return fmt.Errorf("ssh: parse error in message type %d", tag)
}

func findCommon(what string, client []string, server []string) (common string, err error) {
	for _, c := range client {
		for _, s := range server {
			if c == s {
				return c, nil
			}
		}
	}
	return "", fmt.Errorf("ssh: no common algorithm for %s; client offered: %v, server offered: %v", what, client, server)
}

// directionAlgorithms records algorithm choices in one direction (either read or write)
type directionAlgorithms struct {
	Cipher      string
	MAC         string
	Compression string
}

// rekeyBytes returns a rekeying intervals in bytes.
func (a *directionAlgorithms) rekeyBytes() int64 {
	// According to RFC4344 block ciphers should rekey after
	// 2^(BLOCKSIZE/4) blocks. For all AES flavors BLOCKSIZE is
	// 128.
	switch a.Cipher {
	case "aes128-ctr", "aes192-ctr", "aes256-ctr", gcmCipherID, aes128cbcID:
		return 16 * (1 << 32)

	}

	// For others, stick with RFC4253 recommendation to rekey after 1 Gb of data.
	return 1 << 30
}

type algorithms struct {
	kex     string
	hostKey string
	w       directionAlgorithms
	r       directionAlgorithms
}

func findAgreedAlgorithms(isClient bool, clientKexInit, serverKexInit *kexInitMsg) (algs *algorithms, err error) {
	result := &algorithms{}

	result.kex, err = findCommon("key exchange", clientKexInit.KexAlgos, serverKexInit.KexAlgos)
	if err != nil {
		return
	}

	result.hostKey, err = findCommon("host key", clientKexInit.ServerHostKeyAlgos, serverKexInit.ServerHostKeyAlgos)
	if err != nil {
		return
	}

	stoc, ctos := &result.w, &result.r
	if isClient {
		ctos, stoc = stoc, ctos
	}

	ctos.Cipher, err = findCommon("client to server cipher", clientKexInit.CiphersClientServer, serverKexInit.CiphersClientServer)
	if err != nil {
		return
	}

	stoc.Cipher, err = findCommon("server to client cipher", clientKexInit.CiphersServerClient, serverKexInit.CiphersServerClient)
	if err != nil {
		return
	}

	ctos.MAC, err = findCommon("client to server MAC", clientKexInit.MACsClientServer, serverKexInit.MACsClientServer)
	if err != nil {
		return
	}

	stoc.MAC, err = findCommon("server to client MAC", clientKexInit.MACsServerClient, serverKexInit.MACsServerClient)
	if err != nil {
		return
	}

	ctos.Compression, err = findCommon("client to server compression", clientKexInit.CompressionClientServer, serverKexInit.CompressionClientServer)
	if err != nil {
		return
	}

	stoc.Compression, err = findCommon("server to client compression", clientKexInit.CompressionServerClient, serverKexInit.CompressionServerClient)
	if err != nil {
		return
	}

	return result, nil
}

// If rekeythreshold is too small, we can't make any progress sending
// stuff.
const minRekeyThreshold uint64 = 256

// Config contains configuration data common to both ServerConfig and
// ClientConfig.
type Config struct {
	// Rand provides the source of entropy for cryptographic
	// primitives. If Rand is nil, the cryptographic random reader
	// in package crypto/rand will be used.
	Rand io.Reader

	// The maximum number of bytes sent or received after which a
	// new key is negotiated. It must be at least 256. If
	// unspecified, a size suitable for the chosen cipher is used.
	RekeyThreshold uint64

	// The allowed key exchanges algorithms. If unspecified then a
	// default set of algorithms is used.
	KeyExchanges []string

	// The allowed cipher algorithms. If unspecified then a sensible
	// default is used.
	Ciphers []string

	// The allowed MAC algorithms. If unspecified then a sensible default
	// is used.
	MACs []string
}

// SetDefaults sets sensible values for unset fields in config. This is
// exported for testing: Configs passed to SSH functions are copied and have
// default values set automatically.
func (c *Config) SetDefaults() {
	if c.Rand == nil {
		c.Rand = rand.Reader
	}
	if c.Ciphers == nil {
		c.Ciphers = preferredCiphers
	}
	var ciphers []string
	for _, c := range c.Ciphers {
		if cipherModes[c] != nil {
			// reject the cipher if we have no cipherModes definition
			ciphers = append(ciphers, c)
		}
	}
	c.Ciphers = ciphers

	if c.KeyExchanges == nil {
		c.KeyExchanges = preferredKexAlgos
	}

	if c.MACs == nil {
		c.MACs = supportedMACs
	}

	if c.RekeyThreshold == 0 {
		// cipher specific default
	} else if c.RekeyThreshold < minRekeyThreshold {
		c.RekeyThreshold = minRekeyThreshold
	} else if c.RekeyThreshold >= math.MaxInt64 {
		// Avoid weirdness if somebody uses -1 as a threshold.
		c.RekeyThreshold = math.MaxInt64
	}
}

// buildDataSignedForAuth returns the data that is signed in order to prove
// possession of a private key. See RFC 4252, section 7.
func buildDataSignedForAuth(sessionID []byte, req userAuthRequestMsg, algo, pubKey []byte) []byte {
	data := struct {
		Session []byte
		Type    byte
		User    string
		Service string
		Method  string
		Sign    bool
		Algo    []byte
		PubKey  []byte
	}{
		sessionID,
		msgUserAuthRequest,
		req.User,
		req.Service,
		req.Method,
		true,
		algo,
		pubKey,
	}
	return Marshal(data)
}

func appendU16(buf []byte, n uint16) []byte {
	return append(buf, byte(n>>8), byte(n))
}

func appendU32(buf []byte, n uint32) []byte {
	return append(buf, byte(n>>24), byte(n>>16), byte(n>>8), byte(n))
}

func appendU64(buf []byte, n uint64) []byte {
	return append(buf,
		byte(n>>56), byte(n>>48), byte(n>>40), byte(n>>32),
		byte(n>>24), byte(n>>16), byte(n>>8), byte(n))
}

func appendInt(buf []byte, n int) []byte {
	return appendU32(buf, uint32(n))
}

func appendString(buf []byte, s string) []byte {
	buf = appendU32(buf, uint32(len(s)))
	buf = append(buf, s...)
	return buf
}

func appendBool(buf []byte, b bool) []byte {
	if b {
		return append(buf, 1)
	}
	return append(buf, 0)
}

// newCond is a helper to hide the fact that there is no usable zero
// value for sync.Cond.
func newCond() *sync.Cond { return sync.NewCond(new(sync.Mutex)) }

// window represents the buffer available to clients
// wishing to write to a channel.
type window struct {
	*sync.Cond
	win          uint32 // RFC 4254 5.2 says the window size can grow to 2^32-1
	writeWaiters int
	closed       bool
}

// add adds win to the amount of window available
// for consumers.
func (w *window) add(win uint32) bool {
	// a zero sized window adjust is a noop.
	if win == 0 {
		return true
	}
	w.L.Lock()
	if w.win+win < win {
		w.L.Unlock()
		return false
	}
	w.win += win
	// It is unusual that multiple goroutines would be attempting to reserve
	// window space, but not guaranteed. Use broadcast to notify all waiters
	// that additional window is available.
	w.Broadcast()
	w.L.Unlock()
	return true
}

// close sets the window to closed, so all reservations fail
// immediately.
func (w *window) close() {
	w.L.Lock()
	w.closed = true
	w.Broadcast()
	w.L.Unlock()
}

// reserve reserves win from the available window capacity.
// If no capacity remains, reserve will block. reserve may
// return less than requested.
func (w *window) reserve(win uint32) (uint32, error) {
	var err error
	w.L.Lock()
	w.writeWaiters++
	w.Broadcast()
	for w.win == 0 && !w.closed {
		w.Wait()
	}
	w.writeWaiters--
	if w.win < win {
		win = w.win
	}
	w.win -= win
	if w.closed {
		err = io.EOF
	}
	w.L.Unlock()
	return win, err
}

// waitWriterBlocked waits until some goroutine is blocked for further
// writes. It is used in tests only.
func (w *window) waitWriterBlocked() {
	w.Cond.L.Lock()
	for w.writeWaiters == 0 {
		w.Cond.Wait()
	}
	w.Cond.L.Unlock()
}
