// Copyright 2011 The Go Authors. All rights reserved.
// Use of this source code is governed by a BSD-style
// license that can be found in the LICENSE file.

package ssh

import (
	"bytes"
	"encoding/binary"
	"errors"
	"fmt"
	"io"
	"math/big"
	"reflect"
	"strconv"
	"strings"
)

// These are SSH message type numbers. They are scattered around several
// documents but many were taken from [SSH-PARAMETERS].
const (
	msgIgnore        = 2
	msgUnimplemented = 3
	msgDebug         = 4
	msgNewKeys       = 21
)

// SSH messages:
//
// These structures mirror the wire format of the corresponding SSH messages.
// They are marshaled using reflection with the marshal and unmarshal functions
// in this file. The only wrinkle is that a final member of type []byte with a
// ssh tag of "rest" receives the remainder of a packet when unmarshaling.

// See RFC 4253, section 11.1.
const msgDisconnect = 1

// disconnectMsg is the message that signals a disconnect. It is also
// the error type returned from mux.Wait()
type disconnectMsg struct {
	Reason   uint32 `sshtype:"1"`
	Message  string
	Language string
}

func (d *disconnectMsg) Error() string {
	return fmt.Sprintf("ssh: disconnect, reason %d: %s", d.Reason, d.Message)
}

// See RFC 4253, section 7.1.
const msgKexInit = 20

type kexInitMsg struct {
	Cookie                  [16]byte `sshtype:"20"`
	KexAlgos                []string
	ServerHostKeyAlgos      []string
	CiphersClientServer     []string
	CiphersServerClient     []string
	MACsClientServer        []string
	MACsServerClient        []string
	CompressionClientServer []string
	CompressionServerClient []string
	LanguagesClientServer   []string
	LanguagesServerClient   []string
	FirstKexFollows         bool
	Reserved                uint32
}

// See RFC 4253, section 8.

// Diffie-Helman
const msgKexDHInit = 30

type kexDHInitMsg struct {
	X *big.Int `sshtype:"30"`
}

const msgKexECDHInit = 30

type kexECDHInitMsg struct {
	ClientPubKey []byte `sshtype:"30"`
}

const msgKexECDHReply = 31

type kexECDHReplyMsg struct {
	HostKey         []byte `sshtype:"31"`
	EphemeralPubKey []byte
	Signature       []byte
}

const msgKexDHReply = 31

type kexDHReplyMsg struct {
	HostKey   []byte `sshtype:"31"`
	Y         *big.Int
	Signature []byte
}

// See RFC 4419, section 5.
const msgKexDHGexGroup = 31

type kexDHGexGroupMsg struct {
	P *big.Int `sshtype:"31"`
	G *big.Int
}

const msgKexDHGexInit = 32

type kexDHGexInitMsg struct {
	X *big.Int `sshtype:"32"`
}

const msgKexDHGexReply = 33

type kexDHGexReplyMsg struct {
	HostKey   []byte `sshtype:"33"`
	Y         *big.Int
	Signature []byte
}

const msgKexDHGexRequest = 34

type kexDHGexRequestMsg struct {
	MinBits      uint32 `sshtype:"34"`
	PreferedBits uint32
	MaxBits      uint32
}

// See RFC 4253, section 10.
const msgServiceRequest = 5

type serviceRequestMsg struct {
	Service string `sshtype:"5"`
}

// See RFC 4253, section 10.
const msgServiceAccept = 6

type serviceAcceptMsg struct {
	Service string `sshtype:"6"`
}

// See RFC 4252, section 5.
const msgUserAuthRequest = 50

type userAuthRequestMsg struct {
	User    string `sshtype:"50"`
	Service string
	Method  string
	Payload []byte `ssh:"rest"`
}

// Used for debug printouts of packets.
type userAuthSuccessMsg struct {
}

// See RFC 4252, section 5.1
const msgUserAuthFailure = 51

type userAuthFailureMsg struct {
	Methods        []string `sshtype:"51"`
	PartialSuccess bool
}

// See RFC 4252, section 5.1
const msgUserAuthSuccess = 52

// See RFC 4252, section 5.4
const msgUserAuthBanner = 53

type userAuthBannerMsg struct {
	Message string `sshtype:"53"`
	// unused, but required to allow message parsing
	Language string
}

// See RFC 4256, section 3.2
const msgUserAuthInfoRequest = 60
const msgUserAuthInfoResponse = 61

type userAuthInfoRequestMsg struct {
	User               string `sshtype:"60"`
	Instruction        string
	DeprecatedLanguage string
	NumPrompts         uint32
	Prompts            []byte `ssh:"rest"`
}

// See RFC 4254, section 5.1.
const msgChannelOpen = 90

type channelOpenMsg struct {
	ChanType         string `sshtype:"90"`
	PeersID          uint32
	PeersWindow      uint32
	MaxPacketSize    uint32
	TypeSpecificData []byte `ssh:"rest"`
}

const msgChannelExtendedData = 95
const msgChannelData = 94

// Used for debug print outs of packets.
type channelDataMsg struct {
	PeersID uint32 `sshtype:"94"`
	Length  uint32
	Rest    []byte `ssh:"rest"`
}

// See RFC 4254, section 5.1.
const msgChannelOpenConfirm = 91

type channelOpenConfirmMsg struct {
	PeersID          uint32 `sshtype:"91"`
	MyID             uint32
	MyWindow         uint32
	MaxPacketSize    uint32
	TypeSpecificData []byte `ssh:"rest"`
}

// See RFC 4254, section 5.1.
const msgChannelOpenFailure = 92

type channelOpenFailureMsg struct {
	PeersID  uint32 `sshtype:"92"`
	Reason   RejectionReason
	Message  string
	Language string
}

const msgChannelRequest = 98

type channelRequestMsg struct {
	PeersID             uint32 `sshtype:"98"`
	Request             string
	WantReply           bool
	RequestSpecificData []byte `ssh:"rest"`
}

// See RFC 4254, section 5.4.
const msgChannelSuccess = 99

type channelRequestSuccessMsg struct {
	PeersID uint32 `sshtype:"99"`
}

// See RFC 4254, section 5.4.
const msgChannelFailure = 100

type channelRequestFailureMsg struct {
	PeersID uint32 `sshtype:"100"`
}

// See RFC 4254, section 5.3
const msgChannelClose = 97

type channelCloseMsg struct {
	PeersID uint32 `sshtype:"97"`
}

// See RFC 4254, section 5.3
const msgChannelEOF = 96

type channelEOFMsg struct {
	PeersID uint32 `sshtype:"96"`
}

// See RFC 4254, section 4
const msgGlobalRequest = 80

type globalRequestMsg struct {
	Type      string `sshtype:"80"`
	WantReply bool
	Data      []byte `ssh:"rest"`
}

// See RFC 4254, section 4
const msgRequestSuccess = 81

type globalRequestSuccessMsg struct {
	Data []byte `ssh:"rest" sshtype:"81"`
}

// See RFC 4254, section 4
const msgRequestFailure = 82

type globalRequestFailureMsg struct {
	Data []byte `ssh:"rest" sshtype:"82"`
}

// See RFC 4254, section 5.2
const msgChannelWindowAdjust = 93

type windowAdjustMsg struct {
	PeersID         uint32 `sshtype:"93"`
	AdditionalBytes uint32
}

// See RFC 4252, section 7
const msgUserAuthPubKeyOk = 60

type userAuthPubKeyOkMsg struct {
	Algo   string `sshtype:"60"`
	PubKey []byte
}

// See RFC 4462, section 3
const msgUserAuthGSSAPIResponse = 60

type userAuthGSSAPIResponse struct {
	SupportMech []byte `sshtype:"60"`
}

const msgUserAuthGSSAPIToken = 61

type userAuthGSSAPIToken struct {
	Token []byte `sshtype:"61"`
}

const msgUserAuthGSSAPIMIC = 66

type userAuthGSSAPIMIC struct {
	MIC []byte `sshtype:"66"`
}

// See RFC 4462, section 3.9
const msgUserAuthGSSAPIErrTok = 64

type userAuthGSSAPIErrTok struct {
	ErrorToken []byte `sshtype:"64"`
}

// See RFC 4462, section 3.8
const msgUserAuthGSSAPIError = 65

type userAuthGSSAPIError struct {
	MajorStatus uint32 `sshtype:"65"`
	MinorStatus uint32
	Message     string
	LanguageTag string
}

// typeTags returns the possible type bytes for the given reflect.Type, which
// should be a struct. The possible values are separated by a '|' character.
func typeTags(structType reflect.Type) (tags []byte) {
	tagStr := structType.Field(0).Tag.Get("sshtype")

	for _, tag := range strings.Split(tagStr, "|") {
		i, err := strconv.Atoi(tag)
		if err == nil {
			tags = append(tags, byte(i))
		}
	}

	return tags
}

func fieldError(t reflect.Type, field int, problem string) error {
	if problem != "" {
		problem = ": " + problem
	}
	return fmt.Errorf("ssh: unmarshal error for field %s of type %s%s", t.Field(field).Name, t.Name(), problem)
}

var errShortRead = errors.New("ssh: short read")

// Unmarshal parses data in SSH wire format into a structure. The out
// argument should be a pointer to struct. If the first member of the
// struct has the "sshtype" tag set to a '|'-separated set of numbers
// in decimal, the packet must start with one of those numbers. In
// case of error, Unmarshal returns a ParseError or
// UnexpectedMessageError.
func Unmarshal(data []byte, out interface{}) error {
	v := reflect.ValueOf(out).Elem()
	structType := v.Type()
	expectedTypes := typeTags(structType)

	var expectedType byte
	if len(expectedTypes) > 0 {
		expectedType = expectedTypes[0]
	}

	if len(data) == 0 {
		return parseError(expectedType)
	}

	if len(expectedTypes) > 0 {
		goodType := false
		for _, e := range expectedTypes {
			if e > 0 && data[0] == e {
				goodType = true
				break
			}
		}
		if !goodType {
			return fmt.Errorf("ssh: unexpected message type %d (expected one of %v)", data[0], expectedTypes)
		}
		data = data[1:]
	}

	var ok bool
	for i := 0; i < v.NumField(); i++ {
		field := v.Field(i)
		t := field.Type()
		switch t.Kind() {
		case reflect.Bool:
			if len(data) < 1 {
				return errShortRead
			}
			field.SetBool(data[0] != 0)
			data = data[1:]
		case reflect.Array:
			if t.Elem().Kind() != reflect.Uint8 {
				return fieldError(structType, i, "array of unsupported type")
			}
			if len(data) < t.Len() {
				return errShortRead
			}
			for j, n := 0, t.Len(); j < n; j++ {
				field.Index(j).Set(reflect.ValueOf(data[j]))
			}
			data = data[t.Len():]
		case reflect.Uint64:
			var u64 uint64
			if u64, data, ok = parseUint64(data); !ok {
				return errShortRead
			}
			field.SetUint(u64)
		case reflect.Uint32:
			var u32 uint32
			if u32, data, ok = parseUint32(data); !ok {
				return errShortRead
			}
			field.SetUint(uint64(u32))
		case reflect.Uint8:
			if len(data) < 1 {
				return errShortRead
			}
			field.SetUint(uint64(data[0]))
			data = data[1:]
		case reflect.String:
			var s []byte
			if s, data, ok = parseString(data); !ok {
				return fieldError(structType, i, "")
			}
			field.SetString(string(s))
		case reflect.Slice:
			switch t.Elem().Kind() {
			case reflect.Uint8:
				if structType.Field(i).Tag.Get("ssh") == "rest" {
					field.Set(reflect.ValueOf(data))
					data = nil
				} else {
					var s []byte
					if s, data, ok = parseString(data); !ok {
						return errShortRead
					}
					field.Set(reflect.ValueOf(s))
				}
			case reflect.String:
				var nl []string
				if nl, data, ok = parseNameList(data); !ok {
					return errShortRead
				}
				field.Set(reflect.ValueOf(nl))
			default:
				return fieldError(structType, i, "slice of unsupported type")
			}
		case reflect.Ptr:
			if t == bigIntType {
				var n *big.Int
				if n, data, ok = parseInt(data); !ok {
					return errShortRead
				}
				field.Set(reflect.ValueOf(n))
			} else {
				return fieldError(structType, i, "pointer to unsupported type")
			}
		default:
			return fieldError(structType, i, fmt.Sprintf("unsupported type: %v", t))
		}
	}

	if len(data) != 0 {
		return parseError(expectedType)
	}

	return nil
}

// Marshal serializes the message in msg to SSH wire format.  The msg
// argument should be a struct or pointer to struct. If the first
// member has the "sshtype" tag set to a number in decimal, that
// number is prepended to the result. If the last of member has the
// "ssh" tag set to "rest", its contents are appended to the output.
func Marshal(msg interface{}) []byte {
	out := make([]byte, 0, 64)
	return marshalStruct(out, msg)
}

func marshalStruct(out []byte, msg interface{}) []byte {
	v := reflect.Indirect(reflect.ValueOf(msg))
	msgTypes := typeTags(v.Type())
	if len(msgTypes) > 0 {
		out = append(out, msgTypes[0])
	}

	for i, n := 0, v.NumField(); i < n; i++ {
		field := v.Field(i)
		switch t := field.Type(); t.Kind() {
		case reflect.Bool:
			var v uint8
			if field.Bool() {
				v = 1
			}
			out = append(out, v)
		case reflect.Array:
			if t.Elem().Kind() != reflect.Uint8 {
				panic(fmt.Sprintf("array of non-uint8 in field %d: %T", i, field.Interface()))
			}
			for j, l := 0, t.Len(); j < l; j++ {
				out = append(out, uint8(field.Index(j).Uint()))
			}
		case reflect.Uint32:
			out = appendU32(out, uint32(field.Uint()))
		case reflect.Uint64:
			out = appendU64(out, uint64(field.Uint()))
		case reflect.Uint8:
			out = append(out, uint8(field.Uint()))
		case reflect.String:
			s := field.String()
			out = appendInt(out, len(s))
			out = append(out, s...)
		case reflect.Slice:
			switch t.Elem().Kind() {
			case reflect.Uint8:
				if v.Type().Field(i).Tag.Get("ssh") != "rest" {
					out = appendInt(out, field.Len())
				}
				out = append(out, field.Bytes()...)
			case reflect.String:
				offset := len(out)
				out = appendU32(out, 0)
				if n := field.Len(); n > 0 {
					for j := 0; j < n; j++ {
						f := field.Index(j)
						if j != 0 {
							out = append(out, ',')
						}
						out = append(out, f.String()...)
					}
					// overwrite length value
					binary.BigEndian.PutUint32(out[offset:], uint32(len(out)-offset-4))
				}
			default:
				panic(fmt.Sprintf("slice of unknown type in field %d: %T", i, field.Interface()))
			}
		case reflect.Ptr:
			if t == bigIntType {
				var n *big.Int
				nValue := reflect.ValueOf(&n)
				nValue.Elem().Set(field)
				needed := intLength(n)
				oldLength := len(out)

				if cap(out)-len(out) < needed {
					newOut := make([]byte, len(out), 2*(len(out)+needed))
					copy(newOut, out)
					out = newOut
				}
				out = out[:oldLength+needed]
				marshalInt(out[oldLength:], n)
			} else {
				panic(fmt.Sprintf("pointer to unknown type in field %d: %T", i, field.Interface()))
			}
		}
	}

	return out
}

var bigOne = big.NewInt(1)

func parseString(in []byte) (out, rest []byte, ok bool) {
	if len(in) < 4 {
		return
	}
	length := binary.BigEndian.Uint32(in)
	in = in[4:]
	if uint32(len(in)) < length {
		return
	}
	out = in[:length]
	rest = in[length:]
	ok = true
	return
}

var (
	comma         = []byte{','}
	emptyNameList = []string{}
)

func parseNameList(in []byte) (out []string, rest []byte, ok bool) {
	contents, rest, ok := parseString(in)
	if !ok {
		return
	}
	if len(contents) == 0 {
		out = emptyNameList
		return
	}
	parts := bytes.Split(contents, comma)
	out = make([]string, len(parts))
	for i, part := range parts {
		out[i] = string(part)
	}
	return
}

func parseInt(in []byte) (out *big.Int, rest []byte, ok bool) {
	contents, rest, ok := parseString(in)
	if !ok {
		return
	}
	out = new(big.Int)

	if len(contents) > 0 && contents[0]&0x80 == 0x80 {
		// This is a negative number
		notBytes := make([]byte, len(contents))
		for i := range notBytes {
			notBytes[i] = ^contents[i]
		}
		out.SetBytes(notBytes)
		out.Add(out, bigOne)
		out.Neg(out)
	} else {
		// Positive number
		out.SetBytes(contents)
	}
	ok = true
	return
}

func parseUint32(in []byte) (uint32, []byte, bool) {
	if len(in) < 4 {
		return 0, nil, false
	}
	return binary.BigEndian.Uint32(in), in[4:], true
}

func parseUint64(in []byte) (uint64, []byte, bool) {
	if len(in) < 8 {
		return 0, nil, false
	}
	return binary.BigEndian.Uint64(in), in[8:], true
}

func intLength(n *big.Int) int {
	length := 4 /* length bytes */
	if n.Sign() < 0 {
		nMinus1 := new(big.Int).Neg(n)
		nMinus1.Sub(nMinus1, bigOne)
		bitLen := nMinus1.BitLen()
		if bitLen%8 == 0 {
			// The number will need 0xff padding
			length++
		}
		length += (bitLen + 7) / 8
	} else if n.Sign() == 0 {
		// A zero is the zero length string
	} else {
		bitLen := n.BitLen()
		if bitLen%8 == 0 {
			// The number will need 0x00 padding
			length++
		}
		length += (bitLen + 7) / 8
	}

	return length
}

func marshalUint32(to []byte, n uint32) []byte {
	binary.BigEndian.PutUint32(to, n)
	return to[4:]
}

func marshalUint64(to []byte, n uint64) []byte {
	binary.BigEndian.PutUint64(to, n)
	return to[8:]
}

func marshalInt(to []byte, n *big.Int) []byte {
	lengthBytes := to
	to = to[4:]
	length := 0

	if n.Sign() < 0 {
		// A negative number has to be converted to two's-complement
		// form. So we'll subtract 1 and invert. If the
		// most-significant-bit isn't set then we'll need to pad the
		// beginning with 0xff in order to keep the number negative.
		nMinus1 := new(big.Int).Neg(n)
		nMinus1.Sub(nMinus1, bigOne)
		bytes := nMinus1.Bytes()
		for i := range bytes {
			bytes[i] ^= 0xff
		}
		if len(bytes) == 0 || bytes[0]&0x80 == 0 {
			to[0] = 0xff
			to = to[1:]
			length++
		}
		nBytes := copy(to, bytes)
		to = to[nBytes:]
		length += nBytes
	} else if n.Sign() == 0 {
		// A zero is the zero length string
	} else {
		bytes := n.Bytes()
		if len(bytes) > 0 && bytes[0]&0x80 != 0 {
			// We'll have to pad this with a 0x00 in order to
			// stop it looking like a negative number.
			to[0] = 0
			to = to[1:]
			length++
		}
		nBytes := copy(to, bytes)
		to = to[nBytes:]
		length += nBytes
	}

	lengthBytes[0] = byte(length >> 24)
	lengthBytes[1] = byte(length >> 16)
	lengthBytes[2] = byte(length >> 8)
	lengthBytes[3] = byte(length)
	return to
}

func writeInt(w io.Writer, n *big.Int) {
	length := intLength(n)
	buf := make([]byte, length)
	marshalInt(buf, n)
	w.Write(buf)
}

func writeString(w io.Writer, s []byte) {
	var lengthBytes [4]byte
	lengthBytes[0] = byte(len(s) >> 24)
	lengthBytes[1] = byte(len(s) >> 16)
	lengthBytes[2] = byte(len(s) >> 8)
	lengthBytes[3] = byte(len(s))
	w.Write(lengthBytes[:])
	w.Write(s)
}

func stringLength(n int) int {
	return 4 + n
}

func marshalString(to []byte, s []byte) []byte {
	to[0] = byte(len(s) >> 24)
	to[1] = byte(len(s) >> 16)
	to[2] = byte(len(s) >> 8)
	to[3] = byte(len(s))
	to = to[4:]
	copy(to, s)
	return to[len(s):]
}

var bigIntType = reflect.TypeOf((*big.Int)(nil))

// Decode a packet into its corresponding message.
func decode(packet []byte) (interface{}, error) {
	var msg interface{}
	switch packet[0] {
	case msgDisconnect:
		msg = new(disconnectMsg)
	case msgServiceRequest:
		msg = new(serviceRequestMsg)
	case msgServiceAccept:
		msg = new(serviceAcceptMsg)
	case msgKexInit:
		msg = new(kexInitMsg)
	case msgKexDHInit:
		msg = new(kexDHInitMsg)
	case msgKexDHReply:
		msg = new(kexDHReplyMsg)
	case msgUserAuthRequest:
		msg = new(userAuthRequestMsg)
	case msgUserAuthSuccess:
		return new(userAuthSuccessMsg), nil
	case msgUserAuthFailure:
		msg = new(userAuthFailureMsg)
	case msgUserAuthPubKeyOk:
		msg = new(userAuthPubKeyOkMsg)
	case msgGlobalRequest:
		msg = new(globalRequestMsg)
	case msgRequestSuccess:
		msg = new(globalRequestSuccessMsg)
	case msgRequestFailure:
		msg = new(globalRequestFailureMsg)
	case msgChannelOpen:
		msg = new(channelOpenMsg)
	case msgChannelData:
		msg = new(channelDataMsg)
	case msgChannelOpenConfirm:
		msg = new(channelOpenConfirmMsg)
	case msgChannelOpenFailure:
		msg = new(channelOpenFailureMsg)
	case msgChannelWindowAdjust:
		msg = new(windowAdjustMsg)
	case msgChannelEOF:
		msg = new(channelEOFMsg)
	case msgChannelClose:
		msg = new(channelCloseMsg)
	case msgChannelRequest:
		msg = new(channelRequestMsg)
	case msgChannelSuccess:
		msg = new(channelRequestSuccessMsg)
	case msgChannelFailure:
		msg = new(channelRequestFailureMsg)
	case msgUserAuthGSSAPIToken:
		msg = new(userAuthGSSAPIToken)
	case msgUserAuthGSSAPIMIC:
		msg = new(userAuthGSSAPIMIC)
	case msgUserAuthGSSAPIErrTok:
		msg = new(userAuthGSSAPIErrTok)
	case msgUserAuthGSSAPIError:
		msg = new(userAuthGSSAPIError)
	default:
		return nil, unexpectedMessageError(0, packet[0])
	}
	if err := Unmarshal(packet, msg); err != nil {
		return nil, err
	}
	return msg, nil
}

var packetTypeNames = map[byte]string{
	msgDisconnect:          "disconnectMsg",
	msgServiceRequest:      "serviceRequestMsg",
	msgServiceAccept:       "serviceAcceptMsg",
	msgKexInit:             "kexInitMsg",
	msgKexDHInit:           "kexDHInitMsg",
	msgKexDHReply:          "kexDHReplyMsg",
	msgUserAuthRequest:     "userAuthRequestMsg",
	msgUserAuthSuccess:     "userAuthSuccessMsg",
	msgUserAuthFailure:     "userAuthFailureMsg",
	msgUserAuthPubKeyOk:    "userAuthPubKeyOkMsg",
	msgGlobalRequest:       "globalRequestMsg",
	msgRequestSuccess:      "globalRequestSuccessMsg",
	msgRequestFailure:      "globalRequestFailureMsg",
	msgChannelOpen:         "channelOpenMsg",
	msgChannelData:         "channelDataMsg",
	msgChannelOpenConfirm:  "channelOpenConfirmMsg",
	msgChannelOpenFailure:  "channelOpenFailureMsg",
	msgChannelWindowAdjust: "windowAdjustMsg",
	msgChannelEOF:          "channelEOFMsg",
	msgChannelClose:        "channelCloseMsg",
	msgChannelRequest:      "channelRequestMsg",
	msgChannelSuccess:      "channelRequestSuccessMsg",
	msgChannelFailure:      "channelRequestFailureMsg",
}
