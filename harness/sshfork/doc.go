// Copyright 2011 The Go Authors. All rights reserved.
// Use of this source code is governed by a BSD-style
// license that can be found in the LICENSE file.

/*
Package ssh implements an SSH client and server.

SSH is a transport security protocol, an authentication protocol and a
family of application protocols. The most typical application level
protocol is a remote shell and this is specifically implemented.  However,
the multiplexed nature of SSH is exposed to users that wish to support
others.

References:
  [PROTOCOL.certkeys]: http://cvsweb.openbsd.org/cgi-bin/cvsweb/src/usr.bin/ssh/PROTOCOL.certkeys?rev=HEAD
  [SSH-PARAMETERS]:    http://www.iana.org/assignments/ssh-parameters/ssh-parameters.xml#ssh-parameters-1

This package does not fall under the stability promise of the Go language itself,
so its API may be changed when pressing needs arise.
*/
package ssh
