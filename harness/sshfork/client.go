// Copyright 2011 The Go Authors. All rights reserved.
// Use of this source code is governed by a BSD-style
// license that can be found in the LICENSE file.

package ssh

import (
	"bytes"
	"errors"
	"fmt"
	"net"
	"os"
	"sync"
	"time"
)

// Client implements a traditional SSH client that supports shells,
// subprocesses, TCP port/streamlocal forwarding and tunneled dialing.
type Client struct {
	Conn

	handleForwardsOnce sync.Once // guards calling (*Client).handleForwards

	forwards        forwardList // forwarded tcpip connections from the remote side
	mu              sync.Mutex
	channelHandlers map[string]chan NewChannel
}

// HandleChannelOpen returns a channel on which NewChannel requests
// for the given type are sent. If the type already is being handled,
// nil is returned. The channel is closed when the connection is closed.
func (c *Client) HandleChannelOpen(channelType string) <-chan NewChannel {
	c.mu.Lock()
	defer c.mu.Unlock()
	if c.channelHandlers == nil {
		// The SSH channel has been closed.
		c := make(chan NewChannel)
		close(c)
		return c
	}

	ch := c.channelHandlers[channelType]
	if ch != nil {
		return nil
	}

	ch = make(chan NewChannel, chanSize)
	c.channelHandlers[channelType] = ch
	return ch
}

// NewClient creates a Client on top of the given connection.
func NewClient(c Conn, chans <-chan NewChannel, reqs <-chan *Request) *Client {
	conn := &Client{
		Conn:            c,
		channelHandlers: make(map[string]chan NewChannel, 1),
	}

	go conn.handleGlobalRequests(reqs)
	go conn.handleChannelOpens(chans)
	go func() {
		conn.Wait()
		conn.forwards.closeAll()
	}()
	return conn
}

// NewClientConn establishes an authenticated SSH connection using c
// as the underlying transport.  The Request and NewChannel channels
// must be serviced or the connection will hang.
func NewClientConn(c net.Conn, addr string, config *ClientConfig) (Conn, <-chan NewChannel, <-chan *Request, error) {
	fullConf := *config
	fullConf.SetDefaults()
	if fullConf.HostKeyCallback == nil {
		c.Close()
		return nil, nil, nil, errors.New("ssh: must specify HostKeyCallback")
	}

	conn := &connection{
		sshConn: sshConn{conn: c},
	}

	if err := conn.clientHandshake(addr, &fullConf); err != nil {
		c.Close()
		return nil, nil, nil, fmt.Errorf("ssh: handshake failed: %v", err)
	}
	conn.mux = newMux(conn.transport)
	return conn, conn.mux.incomingChannels, conn.mux.incomingRequests, nil
}

// clientHandshake performs the client side key exchange. See RFC 4253 Section
// 7.
func (c *connection) clientHandshake(dialAddress string, config *ClientConfig) error {
	if config.ClientVersion != "" {
		c.clientVersion = []byte(config.ClientVersion)
	} else {
		c.clientVersion = []byte(packageVersion)
	}
	var err error
	c.serverVersion, err = exchangeVersions(c.sshConn.conn, c.clientVersion)
	if err != nil {
		return err
	}

	c.transport = newClientTransport(
		newTransport(c.sshConn.conn, config.Rand, true /* is client */),
		c.clientVersion, c.serverVersion, config, dialAddress, c.sshConn.RemoteAddr())
	if err := c.transport.waitSession(); err != nil {
		return err
	}

	c.sessionID = c.transport.getSessionID()
	return c.clientAuthenticate(config)
}

// verifyHostKeySignature verifies the host key obtained in the key
// exchange.
func verifyHostKeySignature(hostKey PublicKey, result *kexResult) error {
	sig, rest, ok := parseSignatureBody(result.Signature)
	if len(rest) > 0 || !ok {
		return errors.New("ssh: signature parse error")
	}

	return hostKey.Verify(result.H, sig)
}

// NewSession opens a new Session for this client. (A session is a remote
// execution of a program.)
func (c *Client) NewSession() (*Session, error) {
	ch, in, err := c.OpenChannel("session", nil)
	if err != nil {
		return nil, err
	}
	return newSession(ch, in)
}

func (c *Client) handleGlobalRequests(incoming <-chan *Request) {
	for r := range incoming {
		// This handles keepalive messages and matches
		// the behaviour of OpenSSH.
		r.Reply(false, nil)
	}
}

// handleChannelOpens channel open messages from the remote side.
func (c *Client) handleChannelOpens(in <-chan NewChannel) {
	for ch := range in {
		c.mu.Lock()
		handler := c.channelHandlers[ch.ChannelType()]
		c.mu.Unlock()

		if handler != nil {
			handler <- ch
		} else {
			ch.Reject(UnknownChannelType, fmt.Sprintf("unknown channel type: %v", ch.ChannelType()))
		}
	}

	c.mu.Lock()
	for _, ch := range c.channelHandlers {
		close(ch)
	}
	c.channelHandlers = nil
	c.mu.Unlock()
}

// Dial starts a client connection to the given SSH server. It is a
// convenience function that connects to the given network address,
// initiates the SSH handshake, and then sets up a Client.  For access
// to incoming channels and requests, use net.Dial with NewClientConn
// instead.
func Dial(network, addr string, config *ClientConfig) (*Client, error) {
	conn, err := net.DialTimeout(network, addr, config.Timeout)
	if err != nil {
		return nil, err
	}
	c, chans, reqs, err := NewClientConn(conn, addr, config)
	if err != nil {
		return nil, err
	}
	return NewClient(c, chans, reqs), nil
}

// HostKeyCallback is the function type used for verifying server
// keys.  A HostKeyCallback must return nil if the host key is OK, or
// an error to reject it. It receives the hostname as passed to Dial
// or NewClientConn. The remote address is the RemoteAddr of the
// net.Conn underlying the SSH connection.
type HostKeyCallback func(hostname string, remote net.Addr, key PublicKey) error

// BannerCallback is the function type used for treat the banner sent by
// the server. A BannerCallback receives the message sent by the remote server.
type BannerCallback func(message string) error

// A ClientConfig structure is used to configure a Client. It must not be
// modified after having been passed to an SSH function.
type ClientConfig struct {
	// Config contains configuration that is shared between clients and
	// servers.
	Config

	// User contains the username to authenticate as.
	User string

	// Auth contains possible authentication methods to use with the
	// server. Only the first instance of a particular RFC 4252 method will
	// be used during authentication.
	Auth []AuthMethod

	// HostKeyCallback is called during the cryptographic
	// handshake to validate the server's host key. The client
	// configuration must supply this callback for the connection
	// to succeed. The functions InsecureIgnoreHostKey or
	// FixedHostKey can be used for simplistic host key checks.
	HostKeyCallback HostKeyCallback

	// BannerCallback is called during the SSH dance to display a custom
	// server's message. The client configuration can supply this callback to
	// handle it as wished. The function BannerDisplayStderr can be used for
	// simplistic display on Stderr.
	BannerCallback BannerCallback

	// ClientVersion contains the version identification string that will
	// be used for the connection. If empty, a reasonable default is used.
	ClientVersion string

	// HostKeyAlgorithms lists the key types that the client will
	// accept from the server as host key, in order of
	// preference. If empty, a reasonable default is used. Any
	// string returned from PublicKey.Type method may be used, or
	// any of the CertAlgoXxxx and KeyAlgoXxxx constants.
	HostKeyAlgorithms []string

	// Timeout is the maximum amount of time for the TCP connection to establish.
	//
	// A Timeout of zero means no timeout.
	Timeout time.Duration
}

// InsecureIgnoreHostKey returns a function that can be used for
// ClientConfig.HostKeyCallback to accept any host key. It should
// not be used for production code.
func InsecureIgnoreHostKey() HostKeyCallback {
	return func(hostname string, remote net.Addr, key PublicKey) error {
		return nil
	}
}

type fixedHostKey struct {
	key PublicKey
}

func (f *fixedHostKey) check(hostname string, remote net.Addr, key PublicKey) error {
	if f.key == nil {
		return fmt.Errorf("ssh: required host key was nil")
	}
	if !bytes.Equal(key.Marshal(), f.key.Marshal()) {
		return fmt.Errorf("ssh: host key mismatch")
	}
	return nil
}

// FixedHostKey returns a function for use in
// ClientConfig.HostKeyCallback to accept only a specific host key.
func FixedHostKey(key PublicKey) HostKeyCallback {
	hk := &fixedHostKey{key}
	return hk.check
}

// BannerDisplayStderr returns a function that can be used for
// ClientConfig.BannerCallback to display banners on os.Stderr.
func BannerDisplayStderr() BannerCallback {
	return func(banner string) error {
		_, err := os.Stderr.WriteString(banner)

		return err
	}
}
