// Copyright 2011 The Go Authors. All rights reserved.
// Use of this source code is governed by a BSD-style
// license that can be found in the LICENSE file.

package ssh

// Session implements an interactive session described in
// "RFC 4254, section 6".

import (
	"bytes"
	"encoding/binary"
	"errors"
	"fmt"
	"io"
	"io/ioutil"
	"sync"
)

type Signal string

// POSIX signals as listed in RFC 4254 Section 6.10.
const (
	SIGABRT Signal = "ABRT"
	SIGALRM Signal = "ALRM"
	SIGFPE  Signal = "FPE"
	SIGHUP  Signal = "HUP"
	SIGILL  Signal = "ILL"
	SIGINT  Signal = "INT"
	SIGKILL Signal = "KILL"
	SIGPIPE Signal = "PIPE"
	SIGQUIT Signal = "QUIT"
	SIGSEGV Signal = "SEGV"
	SIGTERM Signal = "TERM"
	SIGUSR1 Signal = "USR1"
	SIGUSR2 Signal = "USR2"
)

var signals = map[Signal]int{
	SIGABRT: 6,
	SIGALRM: 14,
	SIGFPE:  8,
	SIGHUP:  1,
	SIGILL:  4,
	SIGINT:  2,
	SIGKILL: 9,
	SIGPIPE: 13,
	SIGQUIT: 3,
	SIGSEGV: 11,
	SIGTERM: 15,
}

type TerminalModes map[uint8]uint32

// POSIX terminal mode flags as listed in RFC 4254 Section 8.
const (
	tty_OP_END    = 0
	VINTR         = 1
	VQUIT         = 2
	VERASE        = 3
	VKILL         = 4
	VEOF          = 5
	VEOL          = 6
	VEOL2         = 7
	VSTART        = 8
	VSTOP         = 9
	VSUSP         = 10
	VDSUSP        = 11
	VREPRINT      = 12
	VWERASE       = 13
	VLNEXT        = 14
	VFLUSH        = 15
	VSWTCH        = 16
	VSTATUS       = 17
	VDISCARD      = 18
	IGNPAR        = 30
	PARMRK        = 31
	INPCK         = 32
	ISTRIP        = 33
	INLCR         = 34
	IGNCR         = 35
	ICRNL         = 36
	IUCLC         = 37
	IXON          = 38
	IXANY         = 39
	IXOFF         = 40
	IMAXBEL       = 41
	ISIG          = 50
	ICANON        = 51
	XCASE         = 52
	ECHO          = 53
	ECHOE         = 54
	ECHOK         = 55
	ECHONL        = 56
	NOFLSH        = 57
	TOSTOP        = 58
	IEXTEN        = 59
	ECHOCTL       = 60
	ECHOKE        = 61
	PENDIN        = 62
	OPOST         = 70
	OLCUC         = 71
	ONLCR         = 72
	OCRNL         = 73
	ONOCR         = 74
	ONLRET        = 75
	CS7           = 90
	CS8           = 91
	PARENB        = 92
	PARODD        = 93
	TTY_OP_ISPEED = 128
	TTY_OP_OSPEED = 129
)

// A Session represents a connection to a remote command or shell.
type Session struct {
	// Stdin specifies the remote process's standard input.
	// If Stdin is nil, the remote process reads from an empty
	// bytes.Buffer.
	Stdin io.Reader

	// Stdout and Stderr specify the remote process's standard
	// output and error.
	//
	// If either is nil, Run connects the corresponding file
	// descriptor to an instance of ioutil.Discard. There is a
	// fixed amount of buffering that is shared for the two streams.
	// If either blocks it may eventually cause the remote
	// command to block.
	Stdout io.Writer
	Stderr io.Writer

	ch        Channel // the channel backing this session
	started   bool    // true once Start, Run or Shell is invoked.
	copyFuncs []func() error
	errors    chan error // one send per copyFunc

	// true if pipe method is active
	stdinpipe, stdoutpipe, stderrpipe bool

	// stdinPipeWriter is non-nil if StdinPipe has not been called
	// and Stdin was specified by the user; it is the write end of
	// a pipe connecting Session.Stdin to the stdin channel.
	stdinPipeWriter io.WriteCloser

	exitStatus chan error
}

// SendRequest sends an out-of-band channel request on the SSH channel
// underlying the session.
func (s *Session) SendRequest(name string, wantReply bool, payload []byte) (bool, error) {
	return s.ch.SendRequest(name, wantReply, payload)
}

func (s *Session) Close() error {
	return s.ch.Close()
}

// RFC 4254 Section 6.4.
type setenvRequest struct {
	Name  string
	Value string
}

// Setenv sets an environment variable that will be applied to any
// command executed by Shell or Run.
func (s *Session) Setenv(name, value string) error {
	msg := setenvRequest{
		Name:  name,
		Value: value,
	}
	ok, err := s.ch.SendRequest("env", true, Marshal(&msg))
	if err == nil && !ok {
		err = errors.New("ssh: setenv failed")
	}
	return err
}

// RFC 4254 Section 6.2.
type ptyRequestMsg struct {
	Term     string
	Columns  uint32
	Rows     uint32
	Width    uint32
	Height   uint32
	Modelist string
}

// RequestPty requests the association of a pty with the session on the remote host.
func (s *Session) RequestPty(term string, h, w int, termmodes TerminalModes) error {
	var tm []byte
	for k, v := range termmodes {
		kv := struct {
			Key byte
			Val uint32
		}{k, v}

		tm = append(tm, Marshal(&kv)...)
	}
	tm = append(tm, tty_OP_END)
	req := ptyRequestMsg{
		Term:     term,
		Columns:  uint32(w),
		Rows:     uint32(h),
		Width:    uint32(w * 8),
		Height:   uint32(h * 8),
		Modelist: string(tm),
	}
	ok, err := s.ch.SendRequest("pty-req", true, Marshal(&req))
	if err == nil && !ok {
		err = errors.New("ssh: pty-req failed")
	}
	return err
}

// RFC 4254 Section 6.5.
type subsystemRequestMsg struct {
	Subsystem string
}

// RequestSubsystem requests the association of a subsystem with the session on the remote host.
// A subsystem is a predefined command that runs in the background when the ssh session is initiated
func (s *Session) RequestSubsystem(subsystem string) error {
	msg := subsystemRequestMsg{
		Subsystem: subsystem,
	}
	ok, err := s.ch.SendRequest("subsystem", true, Marshal(&msg))
	if err == nil && !ok {
		err = errors.New("ssh: subsystem request failed")
	}
	return err
}

// RFC 4254 Section 6.7.
type ptyWindowChangeMsg struct {
	Columns uint32
	Rows    uint32
	Width   uint32
	Height  uint32
}

// WindowChange informs the remote host about a terminal window dimension change to h rows and w columns.
func (s *Session) WindowChange(h, w int) error {
	req := ptyWindowChangeMsg{
		Columns: uint32(w),
		Rows:    uint32(h),
		Width:   uint32(w * 8),
		Height:  uint32(h * 8),
	}
	_, err := s.ch.SendRequest("window-change", false, Marshal(&req))
	return err
}

// RFC 4254 Section 6.9.
type signalMsg struct {
	Signal string
}

// Signal sends the given signal to the remote process.
// sig is one of the SIG* constants.
func (s *Session) Signal(sig Signal) error {
	msg := signalMsg{
		Signal: string(sig),
	}

	_, err := s.ch.SendRequest("signal", false, Marshal(&msg))
	return err
}

// RFC 4254 Section 6.5.
type execMsg struct {
	Command string
}

// Start runs cmd on the remote host. Typically, the remote
// server passes cmd to the shell for interpretation.
// A Session only accepts one call to Run, Start or Shell.
func (s *Session) Start(cmd string) error {
	if s.started {
		return errors.New("ssh: session already started")
	}
	req := execMsg{
		Command: cmd,
	}

	ok, err := s.ch.SendRequest("exec", true, Marshal(&req))
	if err == nil && !ok {
		err = fmt.Errorf("ssh: command %v failed", cmd)
	}
	if err != nil {
		return err
	}
	return s.start()
}

// Run runs cmd on the remote host. Typically, the remote
// server passes cmd to the shell for interpretation.
// A Session only accepts one call to Run, Start, Shell, Output,
// or CombinedOutput.
//
// The returned error is nil if the command runs, has no problems
// copying stdin, stdout, and stderr, and exits with a zero exit
// status.
//
// If the remote server does not send an exit status, an error of type
// *ExitMissingError is returned. If the command completes
// unsuccessfully or is interrupted by a signal, the error is of type
// *ExitError. Other error types may be returned for I/O problems.
func (s *Session) Run(cmd string) error {
	err := s.Start(cmd)
	if err != nil {
		return err
	}
	return s.Wait()
}

// Output runs cmd on the remote host and returns its standard output.
func (s *Session) Output(cmd string) ([]byte, error) {
	if s.Stdout != nil {
		return nil, errors.New("ssh: Stdout already set")
	}
	var b bytes.Buffer
	s.Stdout = &b
	err := s.Run(cmd)
	return b.Bytes(), err
}

type singleWriter struct {
	b  bytes.Buffer
	mu sync.Mutex
}

func (w *singleWriter) Write(p []byte) (int, error) {
	w.mu.Lock()
	defer w.mu.Unlock()
	return w.b.Write(p)
}

// CombinedOutput runs cmd on the remote host and returns its combined
// standard output and standard error.
func (s *Session) CombinedOutput(cmd string) ([]byte, error) {
	if s.Stdout != nil {
		return nil, errors.New("ssh: Stdout already set")
	}
	if s.Stderr != nil {
		return nil, errors.New("ssh: Stderr already set")
	}
	var b singleWriter
	s.Stdout = &b
	s.Stderr = &b
	err := s.Run(cmd)
	return b.b.Bytes(), err
}

// Shell starts a login shell on the remote host. A Session only
// accepts one call to Run, Start, Shell, Output, or CombinedOutput.
func (s *Session) Shell() error {
	if s.started {
		return errors.New("ssh: session already started")
	}

	ok, err := s.ch.SendRequest("shell", true, nil)
	if err == nil && !ok {
		return errors.New("ssh: could not start shell")
	}
	if err != nil {
		return err
	}
	return s.start()
}

func (s *Session) start() error {
	s.started = true

	type F func(*Session)
	for _, setupFd := range []F{(*Session).stdin, (*Session).stdout, (*Session).stderr} {
		setupFd(s)
	}

	s.errors = make(chan error, len(s.copyFuncs))
	for _, fn := range s.copyFuncs {
		go func(fn func() error) {
			s.errors <- fn()
		}(fn)
	}
	return nil
}

// Wait waits for the remote command to exit.
//
// The returned error is nil if the command runs, has no problems
// copying stdin, stdout, and stderr, and exits with a zero exit
// status.
//
// If the remote server does not send an exit status, an error of type
// *ExitMissingError is returned. If the command completes
// unsuccessfully or is interrupted by a signal, the error is of type
// *ExitError. Other error types may be returned for I/O problems.
func (s *Session) Wait() error {
	if !s.started {
		return errors.New("ssh: session not started")
	}
	waitErr := <-s.exitStatus

	if s.stdinPipeWriter != nil {
		s.stdinPipeWriter.Close()
	}
	var copyError error
	for range s.copyFuncs {
		if err := <-s.errors; err != nil && copyError == nil {
			copyError = err
		}
	}
	if waitErr != nil {
		return waitErr
	}
	return copyError
}

func (s *Session) wait(reqs <-chan *Request) error {
	wm := Waitmsg{status: -1}
	// Wait for msg channel to be closed before returning.
	for msg := range reqs {
		switch msg.Type {
		case "exit-status":
			wm.status = int(binary.BigEndian.Uint32(msg.Payload))
		case "exit-signal":
			var sigval struct {
				Signal     string
				CoreDumped bool
				Error      string
				Lang       string
			}
			if err := Unmarshal(msg.Payload, &sigval); err != nil {
				return err
			}

			// Must sanitize strings?
			wm.signal = sigval.Signal
			wm.msg = sigval.Error
			wm.lang = sigval.Lang
		default:
			// This handles keepalives and matches
			// OpenSSH's behaviour.
			if msg.WantReply {
				msg.Reply(false, nil)
			}
		}
	}
	if wm.status == 0 {
		return nil
	}
	if wm.status == -1 {
		// exit-status was never sent from server
		if wm.signal == "" {
			// signal was not sent either.  RFC 4254
			// section 6.10 recommends against this
			// behavior, but it is allowed, so we let
			// clients handle it.
			return &ExitMissingError{}
		}
		wm.status = 128
		if _, ok := signals[Signal(wm.signal)]; ok {
			wm.status += signals[Signal(wm.signal)]
		}
	}

	return &ExitError{wm}
}

// ExitMissingError is returned if a session is torn down cleanly, but
// the server sends no confirmation of the exit status.
type ExitMissingError struct{}

func (e *ExitMissingError) Error() string {
	return "wait: remote command exited without exit status or exit signal"
}

func (s *Session) stdin() {
	if s.stdinpipe {
		return
	}
	var stdin io.Reader
	if s.Stdin == nil {
		stdin = new(bytes.Buffer)
	} else {
		r, w := io.Pipe()
		go func() {
			_, err := io.Copy(w, s.Stdin)
			w.CloseWithError(err)
		}()
		stdin, s.stdinPipeWriter = r, w
	}
	s.copyFuncs = append(s.copyFuncs, func() error {
		_, err := io.Copy(s.ch, stdin)
		if err1 := s.ch.CloseWrite(); err == nil && err1 != io.EOF {
			err = err1
		}
		return err
	})
}

func (s *Session) stdout() {
	if s.stdoutpipe {
		return
	}
	if s.Stdout == nil {
		s.Stdout = ioutil.Discard
	}
	s.copyFuncs = append(s.copyFuncs, func() error {
		_, err := io.Copy(s.Stdout, s.ch)
		return err
	})
}

func (s *Session) stderr() {
	if s.stderrpipe {
		return
	}
	if s.Stderr == nil {
		s.Stderr = ioutil.Discard
	}
	s.copyFuncs = append(s.copyFuncs, func() error {
		_, err := io.Copy(s.Stderr, s.ch.Stderr())
		return err
	})
}

// sessionStdin reroutes Close to CloseWrite.
type sessionStdin struct {
	io.Writer
	ch Channel
}

func (s *sessionStdin) Close() error {
	return s.ch.CloseWrite()
}

// StdinPipe returns a pipe that will be connected to the
// remote command's standard input when the command starts.
func (s *Session) StdinPipe() (io.WriteCloser, error) {
	if s.Stdin != nil {
		return nil, errors.New("ssh: Stdin already set")
	}
	if s.started {
		return nil, errors.New("ssh: StdinPipe after process started")
	}
	s.stdinpipe = true
	return &sessionStdin{s.ch, s.ch}, nil
}

// StdoutPipe returns a pipe that will be connected to the
// remote command's standard output when the command starts.
// There is a fixed amount of buffering that is shared between
// stdout and stderr streams. If the StdoutPipe reader is
// not serviced fast enough it may eventually cause the
// remote command to block.
func (s *Session) StdoutPipe() (io.Reader, error) {
	if s.Stdout != nil {
		return nil, errors.New("ssh: Stdout already set")
	}
	if s.started {
		return nil, errors.New("ssh: StdoutPipe after process started")
	}
	s.stdoutpipe = true
	return s.ch, nil
}

// StderrPipe returns a pipe that will be connected to the
// remote command's standard error when the command starts.
// There is a fixed amount of buffering that is shared between
// stdout and stderr streams. If the StderrPipe reader is
// not serviced fast enough it may eventually cause the
// remote command to block.
func (s *Session) StderrPipe() (io.Reader, error) {
	if s.Stderr != nil {
		return nil, errors.New("ssh: Stderr already set")
	}
	if s.started {
		return nil, errors.New("ssh: StderrPipe after process started")
	}
	s.stderrpipe = true
	return s.ch.Stderr(), nil
}

// newSession returns a new interactive session on the remote host.
func newSession(ch Channel, reqs <-chan *Request) (*Session, error) {
	s := &Session{
		ch: ch,
	}
	s.exitStatus = make(chan error, 1)
	go func() {
		s.exitStatus <- s.wait(reqs)
	}()

	return s, nil
}

// An ExitError reports unsuccessful completion of a remote command.
type ExitError struct {
	Waitmsg
}

func (e *ExitError) Error() string {
	return e.Waitmsg.String()
}

// Waitmsg stores the information about an exited remote command
// as reported by Wait.
type Waitmsg struct {
	status int
	signal string
	msg    string
	lang   string
}

// ExitStatus returns the exit status of the remote command.
func (w Waitmsg) ExitStatus() int {
	return w.status
}

// Signal returns the exit signal of the remote command if
// it was terminated violently.
func (w Waitmsg) Signal() string {
	return w.signal
}

// Msg returns the exit message given by the remote command
func (w Waitmsg) Msg() string {
	return w.msg
}

// Lang returns the language tag. See RFC 3066
func (w Waitmsg) Lang() string {
	return w.lang
}

func (w Waitmsg) String() string {
	str := fmt.Sprintf("Process exited with status %v", w.status)
	if w.signal != "" {
		str += fmt.Sprintf(" from signal %v", w.signal)
	}
	if w.msg != "" {
		str += fmt.Sprintf(". Reason was: %v", w.msg)
	}
	return str
}
