// Copyright 2013 The Go Authors. All rights reserved.
// Use of this source code is governed by a BSD-style
// license that can be found in the LICENSE file.

package ssh

import (
	"crypto/rand"
	"errors"
	"fmt"
	"io"
	"log"
	"net"
	"sync"
)

// debugHandshake, if set, prints messages sent and received.  Key
// exchange messages are printed as if DH were used, so the debug
// messages are wrong when using ECDH.
const debugHandshake = false

// chanSize sets the amount of buffering SSH connections. This is
// primarily for testing: setting chanSize=0 uncovers deadlocks more
// quickly.
const chanSize = 16

// keyingTransport is a packet based transport that supports key
// changes. It need not be thread-safe. It should pass through
// msgNewKeys in both directions.
type keyingTransport interface {
	packetConn

	// prepareKeyChange sets up a key change. The key change for a
	// direction will be effected if a msgNewKeys message is sent
	// or received.
	prepareKeyChange(*algorithms, *kexResult) error
}

// handshakeTransport implements rekeying on top of a keyingTransport
// and offers a thread-safe writePacket() interface.
type handshakeTransport struct {
	conn   keyingTransport
	config *Config

	serverVersion []byte
	clientVersion []byte

	// hostKeys is non-empty if we are the server. In that case,
	// it contains all host keys that can be used to sign the
	// connection.
	hostKeys []Signer

	// hostKeyAlgorithms is non-empty if we are the client. In that case,
	// we accept these key types from the server as host key.
	hostKeyAlgorithms []string

	// On read error, incoming is closed, and readError is set.
	incoming  chan []byte
	readError error

	mu             sync.Mutex
	writeError     error
	sentInitPacket []byte
	sentInitMsg    *kexInitMsg
	pendingPackets [][]byte // Used when a key exchange is in progress.

	// If the read loop wants to schedule a kex, it pings this
	// channel, and the write loop will send out a kex
	// message.
	requestKex chan struct{}

	// If the other side requests or confirms a kex, its kexInit
	// packet is sent here for the write loop to find it.
	startKex chan *pendingKex

	// data for host key checking
	hostKeyCallback HostKeyCallback
	dialAddress     string
	remoteAddr      net.Addr

	// bannerCallback is non-empty if we are the client and it has been set in
	// ClientConfig. In that case it is called during the user authentication
	// dance to handle a custom server's message.
	bannerCallback BannerCallback

	// Algorithms agreed in the last key exchange.
	algorithms *algorithms

	readPacketsLeft uint32
	readBytesLeft   int64

	writePacketsLeft uint32
	writeBytesLeft   int64

	// The session ID or nil if first kex did not complete yet.
	sessionID []byte
}

type pendingKex struct {
	otherInit []byte
	done      chan error
}

func newHandshakeTransport(conn keyingTransport, config *Config, clientVersion, serverVersion []byte) *handshakeTransport {
	t := &handshakeTransport{
		conn:          conn,
		serverVersion: serverVersion,
		clientVersion: clientVersion,
		incoming:      make(chan []byte, chanSize),
		requestKex:    make(chan struct{}, 1),
		startKex:      make(chan *pendingKex, 1),

		config: config,
	}
	t.resetReadThresholds()
	t.resetWriteThresholds()

	// We always start with a mandatory key exchange.
	t.requestKex <- struct{}{}
	return t
}

func newClientTransport(conn keyingTransport, clientVersion, serverVersion []byte, config *ClientConfig, dialAddr string, addr net.Addr) *handshakeTransport {
	t := newHandshakeTransport(conn, &config.Config, clientVersion, serverVersion)
	t.dialAddress = dialAddr
	t.remoteAddr = addr
	t.hostKeyCallback = config.HostKeyCallback
	t.bannerCallback = config.BannerCallback
	if config.HostKeyAlgorithms != nil {
		t.hostKeyAlgorithms = config.HostKeyAlgorithms
	} else {
		t.hostKeyAlgorithms = supportedHostKeyAlgos
	}
	go t.readLoop()
	go t.kexLoop()
	return t
}

func newServerTransport(conn keyingTransport, clientVersion, serverVersion []byte, config *ServerConfig) *handshakeTransport {
	t := newHandshakeTransport(conn, &config.Config, clientVersion, serverVersion)
	t.hostKeys = config.hostKeys
	go t.readLoop()
	go t.kexLoop()
	return t
}

func (t *handshakeTransport) getSessionID() []byte {
	return t.sessionID
}

// waitSession waits for the session to be established. This should be
// the first thing to call after instantiating handshakeTransport.
func (t *handshakeTransport) waitSession() error {
	p, err := t.readPacket()
	if err != nil {
		return err
	}
	if p[0] != msgNewKeys {
		return fmt.Errorf("ssh: first packet should be msgNewKeys")
	}

	return nil
}

func (t *handshakeTransport) id() string {
	if len(t.hostKeys) > 0 {
		return "server"
	}
	return "client"
}

func (t *handshakeTransport) printPacket(p []byte, write bool) {
	action := "got"
	if write {
		action = "sent"
	}

	if p[0] == msgChannelData || p[0] == msgChannelExtendedData {
		log.Printf("%s %s data (packet %d bytes)", t.id(), action, len(p))
	} else {
		msg, err := decode(p)
		log.Printf("%s %s %T %v (%v)", t.id(), action, msg, msg, err)
	}
}

func (t *handshakeTransport) readPacket() ([]byte, error) {
	p, ok := <-t.incoming
	if !ok {
		return nil, t.readError
	}
	return p, nil
}

func (t *handshakeTransport) readLoop() {
	first := true
	for {
		p, err := t.readOnePacket(first)
		first = false
		if err != nil {
			t.readError = err
			close(t.incoming)
			break
		}
		if p[0] == msgIgnore || p[0] == msgDebug {
			continue
		}
		t.incoming <- p
	}

	// Stop writers too.
	t.recordWriteError(t.readError)

	// Unblock the writer should it wait for this.
	close(t.startKex)

	// Don't close t.requestKex; it's also written to from writePacket.
}

func (t *handshakeTransport) pushPacket(p []byte) error {
	if debugHandshake {
		t.printPacket(p, true)
	}
	return t.conn.writePacket(p)
}

func (t *handshakeTransport) getWriteError() error {
	t.mu.Lock()
	defer t.mu.Unlock()
	return t.writeError
}

func (t *handshakeTransport) recordWriteError(err error) {
	t.mu.Lock()
	defer t.mu.Unlock()
	if t.writeError == nil && err != nil {
		t.writeError = err
	}
}

func (t *handshakeTransport) requestKeyExchange() {
	select {
	case t.requestKex <- struct{}{}:
	default:
		// something already requested a kex, so do nothing.
	}
}

func (t *handshakeTransport) resetWriteThresholds() {
	t.writePacketsLeft = packetRekeyThreshold
	if t.config.RekeyThreshold > 0 {
		t.writeBytesLeft = int64(t.config.RekeyThreshold)
	} else if t.algorithms != nil {
		t.writeBytesLeft = t.algorithms.w.rekeyBytes()
	} else {
		t.writeBytesLeft = 1 << 30
	}
}

func (t *handshakeTransport) kexLoop() {

write:
	for t.getWriteError() == nil {
		var request *pendingKex
		var sent bool

		for request == nil || !sent {
			var ok bool
			select {
			case request, ok = <-t.startKex:
				if !ok {
					break write
				}
			case <-t.requestKex:
				break
			}

			if !sent {
				if err := t.sendKexInit(); err != nil {
					t.recordWriteError(err)
					break
				}
				sent = true
			}
		}

		if err := t.getWriteError(); err != nil {
			if request != nil {
				request.done <- err
			}
			break
		}

		// We're not servicing t.requestKex, but that is OK:
		// we never block on sending to t.requestKex.

		// We're not servicing t.startKex, but the remote end
		// has just sent us a kexInitMsg, so it can't send
		// another key change request, until we close the done
		// channel on the pendingKex request.

		err := t.enterKeyExchange(request.otherInit)

		t.mu.Lock()
		t.writeError = err
		t.sentInitPacket = nil
		t.sentInitMsg = nil

		t.resetWriteThresholds()

		// we have completed the key exchange. Since the
		// reader is still blocked, it is safe to clear out
		// the requestKex channel. This avoids the situation
		// where: 1) we consumed our own request for the
		// initial kex, and 2) the kex from the remote side
		// caused another send on the requestKex channel,
	clear:
		for {
			select {
			case <-t.requestKex:
				//
			default:
				break clear
			}
		}

		request.done <- t.writeError

		// kex finished. Push packets that we received while
		// the kex was in progress. Don't look at t.startKex
		// and don't increment writtenSinceKex: if we trigger
		// another kex while we are still busy with the last
		// one, things will become very confusing.
		for _, p := range t.pendingPackets {
			t.writeError = t.pushPacket(p)
			if t.writeError != nil {
				break
			}
		}
		t.pendingPackets = t.pendingPackets[:0]
		t.mu.Unlock()
	}

	// drain startKex channel. We don't service t.requestKex
	// because nobody does blocking sends there.
	go func() {
		for init := range t.startKex {
			init.done <- t.writeError
		}
	}()

	// Unblock reader.
	t.conn.Close()
}

// The protocol uses uint32 for packet counters, so we can't let them
// reach 1<<32.  We will actually read and write more packets than
// this, though: the other side may send more packets, and after we
// hit this limit on writing we will send a few more packets for the
// key exchange itself.
const packetRekeyThreshold = (1 << 31)

func (t *handshakeTransport) resetReadThresholds() {
	t.readPacketsLeft = packetRekeyThreshold
	if t.config.RekeyThreshold > 0 {
		t.readBytesLeft = int64(t.config.RekeyThreshold)
	} else if t.algorithms != nil {
		t.readBytesLeft = t.algorithms.r.rekeyBytes()
	} else {
		t.readBytesLeft = 1 << 30
	}
}

func (t *handshakeTransport) readOnePacket(first bool) ([]byte, error) {
	p, err := t.conn.readPacket()
	if err != nil {
		return nil, err
	}

	if t.readPacketsLeft > 0 {
		t.readPacketsLeft--
	} else {
		t.requestKeyExchange()
	}

	if t.readBytesLeft > 0 {
		t.readBytesLeft -= int64(len(p))
	} else {
		t.requestKeyExchange()
	}

	if debugHandshake {
		t.printPacket(p, false)
	}

	if first && p[0] != msgKexInit {
		return nil, fmt.Errorf("ssh: first packet should be msgKexInit")
	}

	if p[0] != msgKexInit {
		return p, nil
	}

	firstKex := t.sessionID == nil

	kex := pendingKex{
		done:      make(chan error, 1),
		otherInit: p,
	}
	t.startKex <- &kex
	err = <-kex.done

	if debugHandshake {
		log.Printf("%s exited key exchange (first %v), err %v", t.id(), firstKex, err)
	}

	if err != nil {
		return nil, err
	}

	t.resetReadThresholds()

	// By default, a key exchange is hidden from higher layers by
	// translating it into msgIgnore.
	successPacket := []byte{msgIgnore}
	if firstKex {
		// sendKexInit() for the first kex waits for
		// msgNewKeys so the authentication process is
		// guaranteed to happen over an encrypted transport.
		successPacket = []byte{msgNewKeys}
	}

	return successPacket, nil
}

// sendKexInit sends a key change message.
func (t *handshakeTransport) sendKexInit() error {
	t.mu.Lock()
	defer t.mu.Unlock()
	if t.sentInitMsg != nil {
		// kexInits may be sent either in response to the other side,
		// or because our side wants to initiate a key change, so we
		// may have already sent a kexInit. In that case, don't send a
		// second kexInit.
		return nil
	}

	msg := &kexInitMsg{
		KexAlgos:                t.config.KeyExchanges,
		CiphersClientServer:     t.config.Ciphers,
		CiphersServerClient:     t.config.Ciphers,
		MACsClientServer:        t.config.MACs,
		MACsServerClient:        t.config.MACs,
		CompressionClientServer: supportedCompressions,
		CompressionServerClient: supportedCompressions,
	}
	io.ReadFull(rand.Reader, msg.Cookie[:])

	if len(t.hostKeys) > 0 {
		for _, k := range t.hostKeys {
			msg.ServerHostKeyAlgos = append(
				msg.ServerHostKeyAlgos, k.PublicKey().Type())
		}
	} else {
		msg.ServerHostKeyAlgos = t.hostKeyAlgorithms
	}
	packet := Marshal(msg)

	// writePacket destroys the contents, so save a copy.
	packetCopy := make([]byte, len(packet))
	copy(packetCopy, packet)

	if err := t.pushPacket(packetCopy); err != nil {
		return err
	}

	t.sentInitMsg = msg
	t.sentInitPacket = packet

	return nil
}

func (t *handshakeTransport) writePacket(p []byte) error {
	switch p[0] {
	case msgKexInit:
		return errors.New("ssh: only handshakeTransport can send kexInit")
	case msgNewKeys:
		return errors.New("ssh: only handshakeTransport can send newKeys")
	}

	t.mu.Lock()
	defer t.mu.Unlock()
	if t.writeError != nil {
		return t.writeError
	}

	if t.sentInitMsg != nil {
		// Copy the packet so the writer can reuse the buffer.
		cp := make([]byte, len(p))
		copy(cp, p)
		t.pendingPackets = append(t.pendingPackets, cp)
		return nil
	}

	if t.writeBytesLeft > 0 {
		t.writeBytesLeft -= int64(len(p))
	} else {
		t.requestKeyExchange()
	}

	if t.writePacketsLeft > 0 {
		t.writePacketsLeft--
	} else {
		t.requestKeyExchange()
	}

	if err := t.pushPacket(p); err != nil {
		t.writeError = err
	}

	return nil
}

func (t *handshakeTransport) Close() error {
	return t.conn.Close()
}

func (t *handshakeTransport) enterKeyExchange(otherInitPacket []byte) error {
	if debugHandshake {
		log.Printf("%s entered key exchange", t.id())
	}

	otherInit := &kexInitMsg{}
	if err := Unmarshal(otherInitPacket, otherInit); err != nil {
		return err
	}

	magics := handshakeMagics{
		clientVersion: t.clientVersion,
		serverVersion: t.serverVersion,
		clientKexInit: otherInitPacket,
		serverKexInit: t.sentInitPacket,
	}

	clientInit := otherInit
	serverInit := t.sentInitMsg
	isClient := len(t.hostKeys) == 0
	if isClient {
		clientInit, serverInit = serverInit, clientInit

		magics.clientKexInit = t.sentInitPacket
		magics.serverKexInit = otherInitPacket
	}

	var err error
	t.algorithms, err = findAgreedAlgorithms(isClient, clientInit, serverInit)
	if err != nil {
		return err
	}

	// We don't send FirstKexFollows, but we handle receiving it.
	//
	// RFC 4253 section 7 defines the kex and the agreement method for
	// first_kex_packet_follows. It states that the guessed packet
	// should be ignored if the "kex algorithm and/or the host
	// key algorithm is guessed wrong (server and client have
	// different preferred algorithm), or if any of the other
	// algorithms cannot be agreed upon". The other algorithms have
	// already been checked above so the kex algorithm and host key
	// algorithm are checked here.
	if otherInit.FirstKexFollows && (clientInit.KexAlgos[0] != serverInit.KexAlgos[0] || clientInit.ServerHostKeyAlgos[0] != serverInit.ServerHostKeyAlgos[0]) {
		// other side sent a kex message for the wrong algorithm,
		// which we have to ignore.
		if _, err := t.conn.readPacket(); err != nil {
			return err
		}
	}

	kex, ok := kexAlgoMap[t.algorithms.kex]
	if !ok {
		return fmt.Errorf("ssh: unexpected key exchange algorithm %v", t.algorithms.kex)
	}

	var result *kexResult
	if len(t.hostKeys) > 0 {
		result, err = t.server(kex, t.algorithms, &magics)
	} else {
		result, err = t.client(kex, t.algorithms, &magics)
	}

	if err != nil {
		return err
	}

	if t.sessionID == nil {
		t.sessionID = result.H
	}
	result.SessionID = t.sessionID

	if err := t.conn.prepareKeyChange(t.algorithms, result); err != nil {
		return err
	}
	if err = t.conn.writePacket([]byte{msgNewKeys}); err != nil {
		return err
	}
	if packet, err := t.conn.readPacket(); err != nil {
		return err
	} else if packet[0] != msgNewKeys {
		return unexpectedMessageError(msgNewKeys, packet[0])
	}

	return nil
}

func (t *handshakeTransport) server(kex kexAlgorithm, algs *algorithms, magics *handshakeMagics) (*kexResult, error) {
	var hostKey Signer
	for _, k := range t.hostKeys {
		if algs.hostKey == k.PublicKey().Type() {
			hostKey = k
		}
	}

	r, err := kex.Server(t.conn, t.config.Rand, magics, hostKey)
	return r, err
}

func (t *handshakeTransport) client(kex kexAlgorithm, algs *algorithms, magics *handshakeMagics) (*kexResult, error) {
	result, err := kex.Client(t.conn, t.config.Rand, magics)
	if err != nil {
		return nil, err
	}

	hostKey, err := ParsePublicKey(result.HostKey)
	if err != nil {
		return nil, err
	}

	if err := verifyHostKeySignature(hostKey, result); err != nil {
		return nil, err
	}

	err = t.hostKeyCallback(t.dialAddress, t.remoteAddr, hostKey)
	if err != nil {
		return nil, err
	}

	return result, nil
}
