// Copyright 2011 The Go Authors. All rights reserved.
// Use of this source code is governed by a BSD-style
// license that can be found in the LICENSE file.

package ssh

import (
	"encoding/asn1"
	"errors"
)

var krb5OID []byte

func init() {
	krb5OID, _ = asn1.Marshal(krb5Mesh)
}

// GSSAPIClient provides the API to plug-in GSSAPI authentication for client logins.
type GSSAPIClient interface {
	// InitSecContext initiates the establishment of a security context for GSS-API between the
	// ssh client and ssh server. Initially the token parameter should be specified as nil.
	// The routine may return a outputToken which should be transferred to
	// the ssh server, where the ssh server will present it to
	// AcceptSecContext. If no token need be sent, InitSecContext will indicate this by setting
	// needContinue to false. To complete the context
	// establishment, one or more reply tokens may be required from the ssh
	// server;if so, InitSecContext will return a needContinue which is true.
	// In this case, InitSecContext should be called again when the
	// reply token is received from the ssh server, passing the reply
	// token to InitSecContext via the token parameters.
	// See RFC 2743 section 2.2.1 and RFC 4462 section 3.4.
	InitSecContext(target string, token []byte, isGSSDelegCreds bool) (outputToken []byte, needContinue bool, err error)
	// GetMIC generates a cryptographic MIC for the SSH2 message, and places
	// the MIC in a token for transfer to the ssh server.
	// The contents of the MIC field are obtained by calling GSS_GetMIC()
	// over the following, using the GSS-API context that was just
	// established:
	//  string    session identifier
	//  byte      SSH_MSG_USERAUTH_REQUEST
	//  string    user name
	//  string    service
	//  string    "gssapi-with-mic"
	// See RFC 2743 section 2.3.1 and RFC 4462 3.5.
	GetMIC(micFiled []byte) ([]byte, error)
	// Whenever possible, it should be possible for
	// DeleteSecContext() calls to be successfully processed even
	// if other calls cannot succeed, thereby enabling context-related
	// resources to be released.
	// In addition to deleting established security contexts,
	// gss_delete_sec_context must also be able to delete "half-built"
	// security contexts resulting from an incomplete sequence of
	// InitSecContext()/AcceptSecContext() calls.
	// See RFC 2743 section 2.2.3.
	DeleteSecContext() error
}

// GSSAPIServer provides the API to plug in GSSAPI authentication for server logins.
type GSSAPIServer interface {
	// AcceptSecContext allows a remotely initiated security context between the application
	// and a remote peer to be established by the ssh client. The routine may return a
	// outputToken which should be transferred to the ssh client,
	// where the ssh client will present it to InitSecContext.
	// If no token need be sent, AcceptSecContext will indicate this
	// by setting the needContinue to false. To
	// complete the context establishment, one or more reply tokens may be
	// required from the ssh client. if so, AcceptSecContext
	// will return a needContinue which is true, in which case it
	// should be called again when the reply token is received from the ssh
	// client, passing the token to AcceptSecContext via the
	// token parameters.
	// The srcName return value is the authenticated username.
	// See RFC 2743 section 2.2.2 and RFC 4462 section 3.4.
	AcceptSecContext(token []byte) (outputToken []byte, srcName string, needContinue bool, err error)
	// VerifyMIC verifies that a cryptographic MIC, contained in the token parameter,
	// fits the supplied message is received from the ssh client.
	// See RFC 2743 section 2.3.2.
	VerifyMIC(micField []byte, micToken []byte) error
	// Whenever possible, it should be possible for
	// DeleteSecContext() calls to be successfully processed even
	// if other calls cannot succeed, thereby enabling context-related
	// resources to be released.
	// In addition to deleting established security contexts,
	// gss_delete_sec_context must also be able to delete "half-built"
	// security contexts resulting from an incomplete sequence of
	// InitSecContext()/AcceptSecContext() calls.
	// See RFC 2743 section 2.2.3.
	DeleteSecContext() error
}

var (
	// OpenSSH supports Kerberos V5 mechanism only for GSS-API authentication,
	// so we also support the krb5 mechanism only.
	// See RFC 1964 section 1.
	krb5Mesh = asn1.ObjectIdentifier{1, 2, 840, 113554, 1, 2, 2}
)

// The GSS-API authentication method is initiated when the client sends an SSH_MSG_USERAUTH_REQUEST
// See RFC 4462 section 3.2.
type userAuthRequestGSSAPI struct {
	N    uint32
	OIDS []asn1.ObjectIdentifier
}

func parseGSSAPIPayload(payload []byte) (*userAuthRequestGSSAPI, error) {
	n, rest, ok := parseUint32(payload)
	if !ok {
		return nil, errors.New("parse uint32 failed")
	}
	s := &userAuthRequestGSSAPI{
		N:    n,
		OIDS: make([]asn1.ObjectIdentifier, n),
	}
	for i := 0; i < int(n); i++ {
		var (
			desiredMech []byte
			err         error
		)
		desiredMech, rest, ok = parseString(rest)
		if !ok {
			return nil, errors.New("parse string failed")
		}
		if rest, err = asn1.Unmarshal(desiredMech, &s.OIDS[i]); err != nil {
			return nil, err
		}

	}
	return s, nil
}

// See RFC 4462 section 3.6.
func buildMIC(sessionID string, username string, service string, authMethod string) []byte {
	out := make([]byte, 0, 0)
	out = appendString(out, sessionID)
	out = append(out, msgUserAuthRequest)
	out = appendString(out, username)
	out = appendString(out, service)
	out = appendString(out, authMethod)
	return out
}
