// Copyright 2011 The Go Authors. All rights reserved.
// Use of this source code is governed by a BSD-style
// license that can be found in the LICENSE file.

package ssh

import (
	"crypto/aes"
	"crypto/cipher"
	"crypto/des"
	"crypto/rc4"
	"crypto/subtle"
	"encoding/binary"
	"errors"
	"fmt"
	"hash"
	"io"
	"io/ioutil"

	"golang.org/x/crypto/chacha20"
	"golang.org/x/crypto/poly1305"
)

const (
	packetSizeMultiple = 16 // TODO(huin) this should be determined by the cipher.

	// RFC 4253 section 6.1 defines a minimum packet size of 32768 that implementations
	// MUST be able to process (plus a few more kilobytes for padding and mac). The RFC
	// indicates implementations SHOULD be able to handle larger packet sizes, but then
	// waffles on about reasonable limits.
	//
	// OpenSSH caps their maxPacket at 256kB so we choose to do
	// the same. maxPacket is also used to ensure that uint32
	// length fields do not overflow, so it should remain well
	// below 4G.
	maxPacket = 256 * 1024
)

// noneCipher implements cipher.Stream and provides no encryption. It is used
// by the transport before the first key-exchange.
type noneCipher struct{}

func (c noneCipher) XORKeyStream(dst, src []byte) {
	copy(dst, src)
}

func newAESCTR(key, iv []byte) (cipher.Stream, error) {
	c, err := aes.NewCipher(key)
	if err != nil {
		return nil, err
	}
	return cipher.NewCTR(c, iv), nil
}

func newRC4(key, iv []byte) (cipher.Stream, error) {
	return rc4.NewCipher(key)
}

type cipherMode struct {
	keySize int
	ivSize  int
	create  func(key, iv []byte, macKey []byte, algs directionAlgorithms) (packetCipher, error)
}

func streamCipherMode(skip int, createFunc func(key, iv []byte) (cipher.Stream, error)) func(key, iv []byte, macKey []byte, algs directionAlgorithms) (packetCipher, error) {
	return func(key, iv, macKey []byte, algs directionAlgorithms) (packetCipher, error) {
		stream, err := createFunc(key, iv)
		if err != nil {
			return nil, err
		}

		var streamDump []byte
		if skip > 0 {
			streamDump = make([]byte, 512)
		}

		for remainingToDump := skip; remainingToDump > 0; {
			dumpThisTime := remainingToDump
			if dumpThisTime > len(streamDump) {
				dumpThisTime = len(streamDump)
			}
			stream.XORKeyStream(streamDump[:dumpThisTime], streamDump[:dumpThisTime])
			remainingToDump -= dumpThisTime
		}

		mac := macModes[algs.MAC].new(macKey)
		return &streamPacketCipher{
			mac:       mac,
			etm:       macModes[algs.MAC].etm,
			macResult: make([]byte, mac.Size()),
			cipher:    stream,
		}, nil
	}
}

// cipherModes documents properties of supported ciphers. Ciphers not included
// are not supported and will not be negotiated, even if explicitly requested in
// ClientConfig.Crypto.Ciphers.
var cipherModes = map[string]*cipherMode{
	// Ciphers from RFC4344, which introduced many CTR-based ciphers. Algorithms
	// are defined in the order specified in the RFC.
	"aes128-ctr": {16, aes.BlockSize, streamCipherMode(0, newAESCTR)},
	"aes192-ctr": {24, aes.BlockSize, streamCipherMode(0, newAESCTR)},
	"aes256-ctr": {32, aes.BlockSize, streamCipherMode(0, newAESCTR)},

	// Ciphers from RFC4345, which introduces security-improved arcfour ciphers.
	// They are defined in the order specified in the RFC.
	"arcfour128": {16, 0, streamCipherMode(1536, newRC4)},
	"arcfour256": {32, 0, streamCipherMode(1536, newRC4)},

	// Cipher defined in RFC 4253, which describes SSH Transport Layer Protocol.
	// Note that this cipher is not safe, as stated in RFC 4253: "Arcfour (and
	// RC4) has problems with weak keys, and should be used with caution."
	// RFC4345 introduces improved versions of Arcfour.
	"arcfour": {16, 0, streamCipherMode(0, newRC4)},

	// AEAD ciphers
	gcmCipherID:        {16, 12, newGCMCipher},
	chacha20Poly1305ID: {64, 0, newChaCha20Cipher},

	// CBC mode is insecure and so is not included in the default config.
	// (See http://www.isg.rhul.ac.uk/~kp/SandPfinal.pdf). If absolutely
	// needed, it's possible to specify a custom Config to enable it.
	// You should expect that an active attacker can recover plaintext if
	// you do.
	aes128cbcID: {16, aes.BlockSize, newAESCBCCipher},

	// 3des-cbc is insecure and is not included in the default
	// config.
	tripledescbcID: {24, des.BlockSize, newTripleDESCBCCipher},
}

// prefixLen is the length of the packet prefix that contains the packet length
// and number of padding bytes.
const prefixLen = 5

// streamPacketCipher is a packetCipher using a stream cipher.
type streamPacketCipher struct {
	mac    hash.Hash
	cipher cipher.Stream
	etm    bool

	// The following members are to avoid per-packet allocations.
	prefix      [prefixLen]byte
	seqNumBytes [4]byte
	padding     [2 * packetSizeMultiple]byte
	packetData  []byte
	macResult   []byte
}

// readCipherPacket reads and decrypt a single packet from the reader argument.
func (s *streamPacketCipher) readCipherPacket(seqNum uint32, r io.Reader) ([]byte, error) {
	if _, err := io.ReadFull(r, s.prefix[:]); err != nil {
		return nil, err
	}

	var encryptedPaddingLength [1]byte
	if s.mac != nil && s.etm {
		copy(encryptedPaddingLength[:], s.prefix[4:5])
		s.cipher.XORKeyStream(s.prefix[4:5], s.prefix[4:5])
	} else {
		s.cipher.XORKeyStream(s.prefix[:], s.prefix[:])
	}

	length := binary.BigEndian.Uint32(s.prefix[0:4])
	paddingLength := uint32(s.prefix[4])

	var macSize uint32
	if s.mac != nil {
		s.mac.Reset()
		binary.BigEndian.PutUint32(s.seqNumBytes[:], seqNum)
		s.mac.Write(s.seqNumBytes[:])
		if s.etm {
			s.mac.Write(s.prefix[:4])
			s.mac.Write(encryptedPaddingLength[:])
		} else {
			s.mac.Write(s.prefix[:])
		}
		macSize = uint32(s.mac.Size())
	}

	if length <= paddingLength+1 {
		return nil, errors.New("ssh: invalid packet length, packet too small")
	}

	if length > maxPacket {
		return nil, errors.New("ssh: invalid packet length, packet too large")
	}

	// the maxPacket check above ensures that length-1+macSize
	// does not overflow.
	if uint32(cap(s.packetData)) < length-1+macSize {
		s.packetData = make([]byte, length-1+macSize)
	} else {
		s.packetData = s.packetData[:length-1+macSize]
	}

	if _, err := io.ReadFull(r, s.packetData); err != nil {
		return nil, err
	}
	mac := s.packetData[length-1:]
	data := s.packetData[:length-1]

	if s.mac != nil && s.etm {
		s.mac.Write(data)
	}

	s.cipher.XORKeyStream(data, data)

	if s.mac != nil {
		if !s.etm {
			s.mac.Write(data)
		}
		s.macResult = s.mac.Sum(s.macResult[:0])
		if subtle.ConstantTimeCompare(s.macResult, mac) != 1 {
			return nil, errors.New("ssh: MAC failure")
		}
	}

	return s.packetData[:length-paddingLength-1], nil
}

// writeCipherPacket encrypts and sends a packet of data to the writer argument
func (s *streamPacketCipher) writeCipherPacket(seqNum uint32, w io.Writer, rand io.Reader, packet []byte) error {
	if len(packet) > maxPacket {
		return errors.New("ssh: packet too large")
	}

	aadlen := 0
	if s.mac != nil && s.etm {
		// packet length is not encrypted for EtM modes
		aadlen = 4
	}

	paddingLength := packetSizeMultiple - (prefixLen+len(packet)-aadlen)%packetSizeMultiple
	if paddingLength < 4 {
		paddingLength += packetSizeMultiple
	}

	length := len(packet) + 1 + paddingLength
	binary.BigEndian.PutUint32(s.prefix[:], uint32(length))
	s.prefix[4] = byte(paddingLength)
	padding := s.padding[:paddingLength]
	if _, err := io.ReadFull(rand, padding); err != nil {
		return err
	}

	if s.mac != nil {
		s.mac.Reset()
		binary.BigEndian.PutUint32(s.seqNumBytes[:], seqNum)
		s.mac.Write(s.seqNumBytes[:])

		if s.etm {
			// For EtM algorithms, the packet length must stay unencrypted,
			// but the following data (padding length) must be encrypted
			s.cipher.XORKeyStream(s.prefix[4:5], s.prefix[4:5])
		}

		s.mac.Write(s.prefix[:])

		if !s.etm {
			// For non-EtM algorithms, the algorithm is applied on unencrypted data
			s.mac.Write(packet)
			s.mac.Write(padding)
		}
	}

	if !(s.mac != nil && s.etm) {
		// For EtM algorithms, the padding length has already been encrypted
		// and the packet length must remain unencrypted
		s.cipher.XORKeyStream(s.prefix[:], s.prefix[:])
	}

	s.cipher.XORKeyStream(packet, packet)
	s.cipher.XORKeyStream(padding, padding)

	if s.mac != nil && s.etm {
		// For EtM algorithms, packet and padding must be encrypted
		s.mac.Write(packet)
		s.mac.Write(padding)
	}

	if _, err := w.Write(s.prefix[:]); err != nil {
		return err
	}
	if _, err := w.Write(packet); err != nil {
		return err
	}
	if _, err := w.Write(padding); err != nil {
		return err
	}

	if s.mac != nil {
		s.macResult = s.mac.Sum(s.macResult[:0])
		if _, err := w.Write(s.macResult); err != nil {
			return err
		}
	}

	return nil
}

type gcmCipher struct {
	aead   cipher.AEAD
	prefix [4]byte
	iv     []byte
	buf    []byte
}

func newGCMCipher(key, iv, unusedMacKey []byte, unusedAlgs directionAlgorithms) (packetCipher, error) {
	c, err := aes.NewCipher(key)
	if err != nil {
		return nil, err
	}

	aead, err := cipher.NewGCM(c)
	if err != nil {
		return nil, err
	}

	return &gcmCipher{
		aead: aead,
		iv:   iv,
	}, nil
}

const gcmTagSize = 16

// EmptyPlaintext (htverif): when set, the next packets written with the AES-GCM cipher carry an empty plaintext
// (length field 0, only the authentication tag) — a well-authenticated packet that no conforming client sends.
var EmptyPlaintext bool

func (c *gcmCipher) writeCipherPacket(seqNum uint32, w io.Writer, rand io.Reader, packet []byte) error {
	if EmptyPlaintext {
		binary.BigEndian.PutUint32(c.prefix[:], 0)
		if _, err := w.Write(c.prefix[:]); err != nil {
			return err
		}
		c.buf = c.aead.Seal(c.buf[:0], c.iv, nil, c.prefix[:])
		if _, err := w.Write(c.buf); err != nil {
			return err
		}
		c.incIV()
		return nil
	}
	// Pad out to multiple of 16 bytes. This is different from the
	// stream cipher because that encrypts the length too.
	padding := byte(packetSizeMultiple - (1+len(packet))%packetSizeMultiple)
	if padding < 4 {
		padding += packetSizeMultiple
	}

	length := uint32(len(packet) + int(padding) + 1)
	binary.BigEndian.PutUint32(c.prefix[:], length)
	if _, err := w.Write(c.prefix[:]); err != nil {
		return err
	}

	if cap(c.buf) < int(length) {
		c.buf = make([]byte, length)
	} else {
		c.buf = c.buf[:length]
	}

	c.buf[0] = padding
	copy(c.buf[1:], packet)
	if _, err := io.ReadFull(rand, c.buf[1+len(packet):]); err != nil {
		return err
	}
	c.buf = c.aead.Seal(c.buf[:0], c.iv, c.buf, c.prefix[:])
	if _, err := w.Write(c.buf); err != nil {
		return err
	}
	c.incIV()

	return nil
}

func (c *gcmCipher) incIV() {
	for i := 4 + 7; i >= 4; i-- {
		c.iv[i]++
		if c.iv[i] != 0 {
			break
		}
	}
}

func (c *gcmCipher) readCipherPacket(seqNum uint32, r io.Reader) ([]byte, error) {
	if _, err := io.ReadFull(r, c.prefix[:]); err != nil {
		return nil, err
	}
	length := binary.BigEndian.Uint32(c.prefix[:])
	if length > maxPacket {
		return nil, errors.New("ssh: max packet length exceeded")
	}

	if cap(c.buf) < int(length+gcmTagSize) {
		c.buf = make([]byte, length+gcmTagSize)
	} else {
		c.buf = c.buf[:length+gcmTagSize]
	}

	if _, err := io.ReadFull(r, c.buf); err != nil {
		return nil, err
	}

	plain, err := c.aead.Open(c.buf[:0], c.iv, c.buf, c.prefix[:])
	if err != nil {
		return nil, err
	}
	c.incIV()

	padding := plain[0]
	if padding < 4 {
		// padding is a byte, so it automatically satisfies
		// the maximum size, which is 255.
		return nil, fmt.Errorf("ssh: illegal padding %d", padding)
	}

	if int(padding+1) >= len(plain) {
		return nil, fmt.Errorf("ssh: padding %d too large", padding)
	}
	plain = plain[1 : length-uint32(padding)]
	return plain, nil
}

// cbcCipher implements aes128-cbc cipher defined in RFC 4253 section 6.1
type cbcCipher struct {
	mac       hash.Hash
	macSize   uint32
	decrypter cipher.BlockMode
	encrypter cipher.BlockMode

	// The following members are to avoid per-packet allocations.
	seqNumBytes [4]byte
	packetData  []byte
	macResult   []byte

	// Amount of data we should still read to hide which
	// verification error triggered.
	oracleCamouflage uint32
}

func newCBCCipher(c cipher.Block, key, iv, macKey []byte, algs directionAlgorithms) (packetCipher, error) {
	cbc := &cbcCipher{
		mac:        macModes[algs.MAC].new(macKey),
		decrypter:  cipher.NewCBCDecrypter(c, iv),
		encrypter:  cipher.NewCBCEncrypter(c, iv),
		packetData: make([]byte, 1024),
	}
	if cbc.mac != nil {
		cbc.macSize = uint32(cbc.mac.Size())
	}

	return cbc, nil
}

func newAESCBCCipher(key, iv, macKey []byte, algs directionAlgorithms) (packetCipher, error) {
	c, err := aes.NewCipher(key)
	if err != nil {
		return nil, err
	}

	cbc, err := newCBCCipher(c, key, iv, macKey, algs)
	if err != nil {
		return nil, err
	}

	return cbc, nil
}

func newTripleDESCBCCipher(key, iv, macKey []byte, algs directionAlgorithms) (packetCipher, error) {
	c, err := des.NewTripleDESCipher(key)
	if err != nil {
		return nil, err
	}

	cbc, err := newCBCCipher(c, key, iv, macKey, algs)
	if err != nil {
		return nil, err
	}

	return cbc, nil
}

func maxUInt32(a, b int) uint32 {
	if a > b {
		return uint32(a)
	}
	return uint32(b)
}

const (
	cbcMinPacketSizeMultiple = 8
	cbcMinPacketSize         = 16
	cbcMinPaddingSize        = 4
)

// cbcError represents a verification error that may leak information.
type cbcError string

func (e cbcError) Error() string { return string(e) }

func (c *cbcCipher) readCipherPacket(seqNum uint32, r io.Reader) ([]byte, error) {
	p, err := c.readCipherPacketLeaky(seqNum, r)
	if err != nil {
		if _, ok := err.(cbcError); ok {
			// Verification error: read a fixed amount of
			// data, to make distinguishing between
			// failing MAC and failing length check more
			// difficult.
			io.CopyN(ioutil.Discard, r, int64(c.oracleCamouflage))
		}
	}
	return p, err
}

func (c *cbcCipher) readCipherPacketLeaky(seqNum uint32, r io.Reader) ([]byte, error) {
	blockSize := c.decrypter.BlockSize()

	// Read the header, which will include some of the subsequent data in the
	// case of block ciphers - this is copied back to the payload later.
	// How many bytes of payload/padding will be read with this first read.
	firstBlockLength := uint32((prefixLen + blockSize - 1) / blockSize * blockSize)
	firstBlock := c.packetData[:firstBlockLength]
	if _, err := io.ReadFull(r, firstBlock); err != nil {
		return nil, err
	}

	c.oracleCamouflage = maxPacket + 4 + c.macSize - firstBlockLength

	c.decrypter.CryptBlocks(firstBlock, firstBlock)
	length := binary.BigEndian.Uint32(firstBlock[:4])
	if length > maxPacket {
		return nil, cbcError("ssh: packet too large")
	}
	if length+4 < maxUInt32(cbcMinPacketSize, blockSize) {
		// The minimum size of a packet is 16 (or the cipher block size, whichever
		// is larger) bytes.
		return nil, cbcError("ssh: packet too small")
	}
	// The length of the packet (including the length field but not the MAC) must
	// be a multiple of the block size or 8, whichever is larger.
	if (length+4)%maxUInt32(cbcMinPacketSizeMultiple, blockSize) != 0 {
		return nil, cbcError("ssh: invalid packet length multiple")
	}

	paddingLength := uint32(firstBlock[4])
	if paddingLength < cbcMinPaddingSize || length <= paddingLength+1 {
		return nil, cbcError("ssh: invalid packet length")
	}

	// Positions within the c.packetData buffer:
	macStart := 4 + length
	paddingStart := macStart - paddingLength

	// Entire packet size, starting before length, ending at end of mac.
	entirePacketSize := macStart + c.macSize

	// Ensure c.packetData is large enough for the entire packet data.
	if uint32(cap(c.packetData)) < entirePacketSize {
		// Still need to upsize and copy, but this should be rare at runtime, only
		// on upsizing the packetData buffer.
		c.packetData = make([]byte, entirePacketSize)
		copy(c.packetData, firstBlock)
	} else {
		c.packetData = c.packetData[:entirePacketSize]
	}

	n, err := io.ReadFull(r, c.packetData[firstBlockLength:])
	if err != nil {
		return nil, err
	}
	c.oracleCamouflage -= uint32(n)

	remainingCrypted := c.packetData[firstBlockLength:macStart]
	c.decrypter.CryptBlocks(remainingCrypted, remainingCrypted)

	mac := c.packetData[macStart:]
	if c.mac != nil {
		c.mac.Reset()
		binary.BigEndian.PutUint32(c.seqNumBytes[:], seqNum)
		c.mac.Write(c.seqNumBytes[:])
		c.mac.Write(c.packetData[:macStart])
		c.macResult = c.mac.Sum(c.macResult[:0])
		if subtle.ConstantTimeCompare(c.macResult, mac) != 1 {
			return nil, cbcError("ssh: MAC failure")
		}
	}

	return c.packetData[prefixLen:paddingStart], nil
}

func (c *cbcCipher) writeCipherPacket(seqNum uint32, w io.Writer, rand io.Reader, packet []byte) error {
	effectiveBlockSize := maxUInt32(cbcMinPacketSizeMultiple, c.encrypter.BlockSize())

	// Length of encrypted portion of the packet (header, payload, padding).
	// Enforce minimum padding and packet size.
	encLength := maxUInt32(prefixLen+len(packet)+cbcMinPaddingSize, cbcMinPaddingSize)
	// Enforce block size.
	encLength = (encLength + effectiveBlockSize - 1) / effectiveBlockSize * effectiveBlockSize

	length := encLength - 4
	paddingLength := int(length) - (1 + len(packet))

	// Overall buffer contains: header, payload, padding, mac.
	// Space for the MAC is reserved in the capacity but not the slice length.
	bufferSize := encLength + c.macSize
	if uint32(cap(c.packetData)) < bufferSize {
		c.packetData = make([]byte, encLength, bufferSize)
	} else {
		c.packetData = c.packetData[:encLength]
	}

	p := c.packetData

	// Packet header.
	binary.BigEndian.PutUint32(p, length)
	p = p[4:]
	p[0] = byte(paddingLength)

	// Payload.
	p = p[1:]
	copy(p, packet)

	// Padding.
	p = p[len(packet):]
	if _, err := io.ReadFull(rand, p); err != nil {
		return err
	}

	if c.mac != nil {
		c.mac.Reset()
		binary.BigEndian.PutUint32(c.seqNumBytes[:], seqNum)
		c.mac.Write(c.seqNumBytes[:])
		c.mac.Write(c.packetData)
		// The MAC is now appended into the capacity reserved for it earlier.
		c.packetData = c.mac.Sum(c.packetData)
	}

	c.encrypter.CryptBlocks(c.packetData[:encLength], c.packetData[:encLength])

	if _, err := w.Write(c.packetData); err != nil {
		return err
	}

	return nil
}

const chacha20Poly1305ID = "chacha20-poly1305@openssh.com"

// chacha20Poly1305Cipher implements the chacha20-poly1305@openssh.com
// AEAD, which is described here:
//
//   https://tools.ietf.org/html/draft-josefsson-ssh-chacha20-poly1305-openssh-00
//
// the methods here also implement padding, which RFC4253 Section 6
// also requires of stream ciphers.
type chacha20Poly1305Cipher struct {
	lengthKey  [32]byte
	contentKey [32]byte
	buf        []byte
}

func newChaCha20Cipher(key, unusedIV, unusedMACKey []byte, unusedAlgs directionAlgorithms) (packetCipher, error) {
	if len(key) != 64 {
		panic(len(key))
	}

	c := &chacha20Poly1305Cipher{
		buf: make([]byte, 256),
	}

	copy(c.contentKey[:], key[:32])
	copy(c.lengthKey[:], key[32:])
	return c, nil
}

func (c *chacha20Poly1305Cipher) readCipherPacket(seqNum uint32, r io.Reader) ([]byte, error) {
	nonce := make([]byte, 12)
	binary.BigEndian.PutUint32(nonce[8:], seqNum)
	s, err := chacha20.NewUnauthenticatedCipher(c.contentKey[:], nonce)
	if err != nil {
		return nil, err
	}
	var polyKey, discardBuf [32]byte
	s.XORKeyStream(polyKey[:], polyKey[:])
	s.XORKeyStream(discardBuf[:], discardBuf[:]) // skip the next 32 bytes

	encryptedLength := c.buf[:4]
	if _, err := io.ReadFull(r, encryptedLength); err != nil {
		return nil, err
	}

	var lenBytes [4]byte
	ls, err := chacha20.NewUnauthenticatedCipher(c.lengthKey[:], nonce)
	if err != nil {
		return nil, err
	}
	ls.XORKeyStream(lenBytes[:], encryptedLength)

	length := binary.BigEndian.Uint32(lenBytes[:])
	if length > maxPacket {
		return nil, errors.New("ssh: invalid packet length, packet too large")
	}

	contentEnd := 4 + length
	packetEnd := contentEnd + poly1305.TagSize
	if uint32(cap(c.buf)) < packetEnd {
		c.buf = make([]byte, packetEnd)
		copy(c.buf[:], encryptedLength)
	} else {
		c.buf = c.buf[:packetEnd]
	}

	if _, err := io.ReadFull(r, c.buf[4:packetEnd]); err != nil {
		return nil, err
	}

	var mac [poly1305.TagSize]byte
	copy(mac[:], c.buf[contentEnd:packetEnd])
	if !poly1305.Verify(&mac, c.buf[:contentEnd], &polyKey) {
		return nil, errors.New("ssh: MAC failure")
	}

	plain := c.buf[4:contentEnd]
	s.XORKeyStream(plain, plain)

	padding := plain[0]
	if padding < 4 {
		// padding is a byte, so it automatically satisfies
		// the maximum size, which is 255.
		return nil, fmt.Errorf("ssh: illegal padding %d", padding)
	}

	if int(padding)+1 >= len(plain) {
		return nil, fmt.Errorf("ssh: padding %d too large", padding)
	}

	plain = plain[1 : len(plain)-int(padding)]

	return plain, nil
}

func (c *chacha20Poly1305Cipher) writeCipherPacket(seqNum uint32, w io.Writer, rand io.Reader, payload []byte) error {
	nonce := make([]byte, 12)
	binary.BigEndian.PutUint32(nonce[8:], seqNum)
	s, err := chacha20.NewUnauthenticatedCipher(c.contentKey[:], nonce)
	if err != nil {
		return err
	}
	var polyKey, discardBuf [32]byte
	s.XORKeyStream(polyKey[:], polyKey[:])
	s.XORKeyStream(discardBuf[:], discardBuf[:]) // skip the next 32 bytes

	// There is no blocksize, so fall back to multiple of 8 byte
	// padding, as described in RFC 4253, Sec 6.
	const packetSizeMultiple = 8

	padding := packetSizeMultiple - (1+len(payload))%packetSizeMultiple
	if padding < 4 {
		padding += packetSizeMultiple
	}

	// size (4 bytes), padding (1), payload, padding, tag.
	totalLength := 4 + 1 + len(payload) + padding + poly1305.TagSize
	if cap(c.buf) < totalLength {
		c.buf = make([]byte, totalLength)
	} else {
		c.buf = c.buf[:totalLength]
	}

	binary.BigEndian.PutUint32(c.buf, uint32(1+len(payload)+padding))
	ls, err := chacha20.NewUnauthenticatedCipher(c.lengthKey[:], nonce)
	if err != nil {
		return err
	}
	ls.XORKeyStream(c.buf, c.buf[:4])
	c.buf[4] = byte(padding)
	copy(c.buf[5:], payload)
	packetEnd := 5 + len(payload) + padding
	if _, err := io.ReadFull(rand, c.buf[5+len(payload):packetEnd]); err != nil {
		return err
	}

	s.XORKeyStream(c.buf[4:], c.buf[4:packetEnd])

	var mac [poly1305.TagSize]byte
	poly1305.Sum(&mac, c.buf[:packetEnd], &polyKey)

	copy(c.buf[packetEnd:], mac[:])

	if _, err := w.Write(c.buf); err != nil {
		return err
	}
	return nil
}
