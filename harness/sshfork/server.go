// Copyright 2011 The Go Authors. All rights reserved.
// Use of this source code is governed by a BSD-style
// license that can be found in the LICENSE file.

package ssh

import (
	"bytes"
	"errors"
	"fmt"
	"io"
	"net"
	"strings"
)

// The Permissions type holds fine-grained permissions that are
// specific to a user or a specific authentication method for a user.
// The Permissions value for a successful authentication attempt is
// available in ServerConn, so it can be used to pass information from
// the user-authentication phase to the application layer.
type Permissions struct {
	// CriticalOptions indicate restrictions to the default
	// permissions, and are typically used in conjunction with
	// user certificates. The standard for SSH certificates
	// defines "force-command" (only allow the given command to
	// execute) and "source-address" (only allow connections from
	// the given address). The SSH package currently only enforces
	// the "source-address" critical option. It is up to server
	// implementations to enforce other critical options, such as
	// "force-command", by checking them after the SSH handshake
	// is successful. In general, SSH servers should reject
	// connections that specify critical options that are unknown
	// or not supported.
	CriticalOptions map[string]string

	// Extensions are extra functionality that the server may
	// offer on authenticated connections. Lack of support for an
	// extension does not preclude authenticating a user. Common
	// extensions are "permit-agent-forwarding",
	// "permit-X11-forwarding". The Go SSH library currently does
	// not act on any extension, and it is up to server
	// implementations to honor them. Extensions can be used to
	// pass data from the authentication callbacks to the server
	// application layer.
	Extensions map[string]string
}

type GSSAPIWithMICConfig struct {
	// AllowLogin, must be set, is called when gssapi-with-mic
	// authentication is selected (RFC 4462 section 3). The srcName is from the
	// results of the GSS-API authentication. The format is username@DOMAIN.
	// GSSAPI just guarantees to the server who the user is, but not if they can log in, and with what permissions.
	// This callback is called after the user identity is established with GSSAPI to decide if the user can login with
	// which permissions. If the user is allowed to login, it should return a nil error.
	AllowLogin func(conn ConnMetadata, srcName string) (*Permissions, error)

	// Server must be set. It's the implementation
	// of the GSSAPIServer interface. See GSSAPIServer interface for details.
	Server GSSAPIServer
}

// ServerConfig holds server specific configuration data.
type ServerConfig struct {
	// Config contains configuration shared between client and server.
	Config

	hostKeys []Signer

	// NoClientAuth is true if clients are allowed to connect without
	// authenticating.
	NoClientAuth bool

	// MaxAuthTries specifies the maximum number of authentication attempts
	// permitted per connection. If set to a negative number, the number of
	// attempts are unlimited. If set to zero, the number of attempts are limited
	// to 6.
	MaxAuthTries int

	// PasswordCallback, if non-nil, is called when a user
	// attempts to authenticate using a password.
	PasswordCallback func(conn ConnMetadata, password []byte) (*Permissions, error)

	// PublicKeyCallback, if non-nil, is called when a client
	// offers a public key for authentication. It must return a nil error
	// if the given public key can be used to authenticate the
	// given user. For example, see CertChecker.Authenticate. A
	// call to this function does not guarantee that the key
	// offered is in fact used to authenticate. To record any data
	// depending on the public key, store it inside a
	// Permissions.Extensions entry.
	PublicKeyCallback func(conn ConnMetadata, key PublicKey) (*Permissions, error)

	// KeyboardInteractiveCallback, if non-nil, is called when
	// keyboard-interactive authentication is selected (RFC
	// 4256). The client object's Challenge function should be
	// used to query the user. The callback may offer multiple
	// Challenge rounds. To avoid information leaks, the client
	// should be presented a challenge even if the user is
	// unknown.
	KeyboardInteractiveCallback func(conn ConnMetadata, client KeyboardInteractiveChallenge) (*Permissions, error)

	// AuthLogCallback, if non-nil, is called to log all authentication
	// attempts.
	AuthLogCallback func(conn ConnMetadata, method string, err error)

	// ServerVersion is the version identification string to announce in
	// the public handshake.
	// If empty, a reasonable default is used.
	// Note that RFC 4253 section 4.2 requires that this string start with
	// "SSH-2.0-".
	ServerVersion string

	// BannerCallback, if present, is called and the return string is sent to
	// the client after key exchange completed but before authentication.
	BannerCallback func(conn ConnMetadata) string

	// GSSAPIWithMICConfig includes gssapi server and callback, which if both non-nil, is used
	// when gssapi-with-mic authentication is selected (RFC 4462 section 3).
	GSSAPIWithMICConfig *GSSAPIWithMICConfig
}

// AddHostKey adds a private key as a host key. If an existing host
// key exists with the same algorithm, it is overwritten. Each server
// config must have at least one host key.
func (s *ServerConfig) AddHostKey(key Signer) {
	for i, k := range s.hostKeys {
		if k.PublicKey().Type() == key.PublicKey().Type() {
			s.hostKeys[i] = key
			return
		}
	}

	s.hostKeys = append(s.hostKeys, key)
}

// cachedPubKey contains the results of querying whether a public key is
// acceptable for a user.
type cachedPubKey struct {
	user       string
	pubKeyData []byte
	result     error
	perms      *Permissions
}

const maxCachedPubKeys = 16

// pubKeyCache caches tests for public keys.  Since SSH clients
// will query whether a public key is acceptable before attempting to
// authenticate with it, we end up with duplicate queries for public
// key validity.  The cache only applies to a single ServerConn.
type pubKeyCache struct {
	keys []cachedPubKey
}

// get returns the result for a given user/algo/key tuple.
func (c *pubKeyCache) get(user string, pubKeyData []byte) (cachedPubKey, bool) {
	for _, k := range c.keys {
		if k.user == user && bytes.Equal(k.pubKeyData, pubKeyData) {
			return k, true
		}
	}
	return cachedPubKey{}, false
}

// add adds the given tuple to the cache.
func (c *pubKeyCache) add(candidate cachedPubKey) {
	if len(c.keys) < maxCachedPubKeys {
		c.keys = append(c.keys, candidate)
	}
}

// ServerConn is an authenticated SSH connection, as seen from the
// server
type ServerConn struct {
	Conn

	// If the succeeding authentication callback returned a
	// non-nil Permissions pointer, it is stored here.
	Permissions *Permissions
}

// NewServerConn starts a new SSH server with c as the underlying
// transport.  It starts with a handshake and, if the handshake is
// unsuccessful, it closes the connection and returns an error.  The
// Request and NewChannel channels must be serviced, or the connection
// will hang.
//
// The returned error may be of type *ServerAuthError for
// authentication errors.
func NewServerConn(c net.Conn, config *ServerConfig) (*ServerConn, <-chan NewChannel, <-chan *Request, error) {
	fullConf := *config
	fullConf.SetDefaults()
	if fullConf.MaxAuthTries == 0 {
		fullConf.MaxAuthTries = 6
	}
	// Check if the config contains any unsupported key exchanges
	for _, kex := range fullConf.KeyExchanges {
		if _, ok := serverForbiddenKexAlgos[kex]; ok {
			return nil, nil, nil, fmt.Errorf("ssh: unsupported key exchange %s for server", kex)
		}
	}

	s := &connection{
		sshConn: sshConn{conn: c},
	}
	perms, err := s.serverHandshake(&fullConf)
	if err != nil {
		c.Close()
		return nil, nil, nil, err
	}
	return &ServerConn{s, perms}, s.mux.incomingChannels, s.mux.incomingRequests, nil
}

// signAndMarshal signs the data with the appropriate algorithm,
// and serializes the result in SSH wire format.
func signAndMarshal(k Signer, rand io.Reader, data []byte) ([]byte, error) {
	sig, err := k.Sign(rand, data)
	if err != nil {
		return nil, err
	}

	return Marshal(sig), nil
}

// handshake performs key exchange and user authentication.
func (s *connection) serverHandshake(config *ServerConfig) (*Permissions, error) {
	if len(config.hostKeys) == 0 {
		return nil, errors.New("ssh: server has no host keys")
	}

	if !config.NoClientAuth && config.PasswordCallback == nil && config.PublicKeyCallback == nil &&
		config.KeyboardInteractiveCallback == nil && (config.GSSAPIWithMICConfig == nil ||
		config.GSSAPIWithMICConfig.AllowLogin == nil || config.GSSAPIWithMICConfig.Server == nil) {
		return nil, errors.New("ssh: no authentication methods configured but NoClientAuth is also false")
	}

	if config.ServerVersion != "" {
		s.serverVersion = []byte(config.ServerVersion)
	} else {
		s.serverVersion = []byte(packageVersion)
	}
	var err error
	s.clientVersion, err = exchangeVersions(s.sshConn.conn, s.serverVersion)
	if err != nil {
		return nil, err
	}

	tr := newTransport(s.sshConn.conn, config.Rand, false /* not client */)
	s.transport = newServerTransport(tr, s.clientVersion, s.serverVersion, config)

	if err := s.transport.waitSession(); err != nil {
		return nil, err
	}

	// We just did the key change, so the session ID is established.
	s.sessionID = s.transport.getSessionID()

	var packet []byte
	if packet, err = s.transport.readPacket(); err != nil {
		return nil, err
	}

	var serviceRequest serviceRequestMsg
	if err = Unmarshal(packet, &serviceRequest); err != nil {
		return nil, err
	}
	if serviceRequest.Service != serviceUserAuth {
		return nil, errors.New("ssh: requested service '" + serviceRequest.Service + "' before authenticating")
	}
	serviceAccept := serviceAcceptMsg{
		Service: serviceUserAuth,
	}
	if err := s.transport.writePacket(Marshal(&serviceAccept)); err != nil {
		return nil, err
	}

	perms, err := s.serverAuthenticate(config)
	if err != nil {
		return nil, err
	}
	s.mux = newMux(s.transport)
	return perms, err
}

func isAcceptableAlgo(algo string) bool {
	switch algo {
	case KeyAlgoRSA, KeyAlgoDSA, KeyAlgoECDSA256, KeyAlgoECDSA384, KeyAlgoECDSA521, KeyAlgoSKECDSA256, KeyAlgoED25519, KeyAlgoSKED25519,
		CertAlgoRSAv01, CertAlgoDSAv01, CertAlgoECDSA256v01, CertAlgoECDSA384v01, CertAlgoECDSA521v01, CertAlgoSKECDSA256v01, CertAlgoED25519v01, CertAlgoSKED25519v01:
		return true
	}
	return false
}

func checkSourceAddress(addr net.Addr, sourceAddrs string) error {
	if addr == nil {
		return errors.New("ssh: no address known for client, but source-address match required")
	}

	tcpAddr, ok := addr.(*net.TCPAddr)
	if !ok {
		return fmt.Errorf("ssh: remote address %v is not an TCP address when checking source-address match", addr)
	}

	for _, sourceAddr := range strings.Split(sourceAddrs, ",") {
		if allowedIP := net.ParseIP(sourceAddr); allowedIP != nil {
			if allowedIP.Equal(tcpAddr.IP) {
				return nil
			}
		} else {
			_, ipNet, err := net.ParseCIDR(sourceAddr)
			if err != nil {
				return fmt.Errorf("ssh: error parsing source-address restriction %q: %v", sourceAddr, err)
			}

			if ipNet.Contains(tcpAddr.IP) {
				return nil
			}
		}
	}

	return fmt.Errorf("ssh: remote address %v is not allowed because of source-address restriction", addr)
}

func gssExchangeToken(gssapiConfig *GSSAPIWithMICConfig, firstToken []byte, s *connection,
	sessionID []byte, userAuthReq userAuthRequestMsg) (authErr error, perms *Permissions, err error) {
	gssAPIServer := gssapiConfig.Server
	defer gssAPIServer.DeleteSecContext()
	var srcName string
	for {
		var (
			outToken     []byte
			needContinue bool
		)
		outToken, srcName, needContinue, err = gssAPIServer.AcceptSecContext(firstToken)
		if err != nil {
			return err, nil, nil
		}
		if len(outToken) != 0 {
			if err := s.transport.writePacket(Marshal(&userAuthGSSAPIToken{
				Token: outToken,
			})); err != nil {
				return nil, nil, err
			}
		}
		if !needContinue {
			break
		}
		packet, err := s.transport.readPacket()
		if err != nil {
			return nil, nil, err
		}
		userAuthGSSAPITokenReq := &userAuthGSSAPIToken{}
		if err := Unmarshal(packet, userAuthGSSAPITokenReq); err != nil {
			return nil, nil, err
		}
	}
	packet, err := s.transport.readPacket()
	if err != nil {
		return nil, nil, err
	}
	userAuthGSSAPIMICReq := &userAuthGSSAPIMIC{}
	if err := Unmarshal(packet, userAuthGSSAPIMICReq); err != nil {
		return nil, nil, err
	}
	mic := buildMIC(string(sessionID), userAuthReq.User, userAuthReq.Service, userAuthReq.Method)
	if err := gssAPIServer.VerifyMIC(mic, userAuthGSSAPIMICReq.MIC); err != nil {
		return err, nil, nil
	}
	perms, authErr = gssapiConfig.AllowLogin(s, srcName)
	return authErr, perms, nil
}

// ServerAuthError represents server authentication errors and is
// sometimes returned by NewServerConn. It appends any authentication
// errors that may occur, and is returned if all of the authentication
// methods provided by the user failed to authenticate.
type ServerAuthError struct {
	// Errors contains authentication errors returned by the authentication
	// callback methods. The first entry is typically ErrNoAuth.
	Errors []error
}

func (l ServerAuthError) Error() string {
	var errs []string
	for _, err := range l.Errors {
		errs = append(errs, err.Error())
	}
	return "[" + strings.Join(errs, ", ") + "]"
}

// ErrNoAuth is the error value returned if no
// authentication method has been passed yet. This happens as a normal
// part of the authentication loop, since the client first tries
// 'none' authentication to discover available methods.
// It is returned in ServerAuthError.Errors from NewServerConn.
var ErrNoAuth = errors.New("ssh: no auth passed yet")

func (s *connection) serverAuthenticate(config *ServerConfig) (*Permissions, error) {
	sessionID := s.transport.getSessionID()
	var cache pubKeyCache
	var perms *Permissions

	authFailures := 0
	var authErrs []error
	var displayedBanner bool

userAuthLoop:
	for {
		if authFailures >= config.MaxAuthTries && config.MaxAuthTries > 0 {
			discMsg := &disconnectMsg{
				Reason:  2,
				Message: "too many authentication failures",
			}

			if err := s.transport.writePacket(Marshal(discMsg)); err != nil {
				return nil, err
			}

			return nil, discMsg
		}

		var userAuthReq userAuthRequestMsg
		if packet, err := s.transport.readPacket(); err != nil {
			if err == io.EOF {
				return nil, &ServerAuthError{Errors: authErrs}
			}
			return nil, err
		} else if err = Unmarshal(packet, &userAuthReq); err != nil {
			return nil, err
		}

		if userAuthReq.Service != serviceSSH {
			return nil, errors.New("ssh: client attempted to negotiate for unknown service: " + userAuthReq.Service)
		}

		s.user = userAuthReq.User

		if !displayedBanner && config.BannerCallback != nil {
			displayedBanner = true
			msg := config.BannerCallback(s)
			if msg != "" {
				bannerMsg := &userAuthBannerMsg{
					Message: msg,
				}
				if err := s.transport.writePacket(Marshal(bannerMsg)); err != nil {
					return nil, err
				}
			}
		}

		perms = nil
		authErr := ErrNoAuth

		switch userAuthReq.Method {
		case "none":
			if config.NoClientAuth {
				authErr = nil
			}

			// allow initial attempt of 'none' without penalty
			if authFailures == 0 {
				authFailures--
			}
		case "password":
			if config.PasswordCallback == nil {
				authErr = errors.New("ssh: password auth not configured")
				break
			}
			payload := userAuthReq.Payload
			if len(payload) < 1 || payload[0] != 0 {
				return nil, parseError(msgUserAuthRequest)
			}
			payload = payload[1:]
			password, payload, ok := parseString(payload)
			if !ok || len(payload) > 0 {
				return nil, parseError(msgUserAuthRequest)
			}

			perms, authErr = config.PasswordCallback(s, password)
		case "keyboard-interactive":
			if config.KeyboardInteractiveCallback == nil {
				authErr = errors.New("ssh: keyboard-interactive auth not configured")
				break
			}

			prompter := &sshClientKeyboardInteractive{s}
			perms, authErr = config.KeyboardInteractiveCallback(s, prompter.Challenge)
		case "publickey":
			if config.PublicKeyCallback == nil {
				authErr = errors.New("ssh: publickey auth not configured")
				break
			}
			payload := userAuthReq.Payload
			if len(payload) < 1 {
				return nil, parseError(msgUserAuthRequest)
			}
			isQuery := payload[0] == 0
			payload = payload[1:]
			algoBytes, payload, ok := parseString(payload)
			if !ok {
				return nil, parseError(msgUserAuthRequest)
			}
			algo := string(algoBytes)
			if !isAcceptableAlgo(algo) {
				authErr = fmt.Errorf("ssh: algorithm %q not accepted", algo)
				break
			}

			pubKeyData, payload, ok := parseString(payload)
			if !ok {
				return nil, parseError(msgUserAuthRequest)
			}

			pubKey, err := ParsePublicKey(pubKeyData)
			if err != nil {
				return nil, err
			}

			candidate, ok := cache.get(s.user, pubKeyData)
			if !ok {
				candidate.user = s.user
				candidate.pubKeyData = pubKeyData
				candidate.perms, candidate.result = config.PublicKeyCallback(s, pubKey)
				if candidate.result == nil && candidate.perms != nil && candidate.perms.CriticalOptions != nil && candidate.perms.CriticalOptions[sourceAddressCriticalOption] != "" {
					candidate.result = checkSourceAddress(
						s.RemoteAddr(),
						candidate.perms.CriticalOptions[sourceAddressCriticalOption])
				}
				cache.add(candidate)
			}

			if isQuery {
				// The client can query if the given public key
				// would be okay.

				if len(payload) > 0 {
					return nil, parseError(msgUserAuthRequest)
				}

				if candidate.result == nil {
					okMsg := userAuthPubKeyOkMsg{
						Algo:   algo,
						PubKey: pubKeyData,
					}
					if err = s.transport.writePacket(Marshal(&okMsg)); err != nil {
						return nil, err
					}
					continue userAuthLoop
				}
				authErr = candidate.result
			} else {
				sig, payload, ok := parseSignature(payload)
				if !ok || len(payload) > 0 {
					return nil, parseError(msgUserAuthRequest)
				}
				// Ensure the public key algo and signature algo
				// are supported.  Compare the private key
				// algorithm name that corresponds to algo with
				// sig.Format.  This is usually the same, but
				// for certs, the names differ.
				if !isAcceptableAlgo(sig.Format) {
					authErr = fmt.Errorf("ssh: algorithm %q not accepted", sig.Format)
					break
				}
				signedData := buildDataSignedForAuth(sessionID, userAuthReq, algoBytes, pubKeyData)

				if err := pubKey.Verify(signedData, sig); err != nil {
					return nil, err
				}

				authErr = candidate.result
				perms = candidate.perms
			}
		case "gssapi-with-mic":
			gssapiConfig := config.GSSAPIWithMICConfig
			userAuthRequestGSSAPI, err := parseGSSAPIPayload(userAuthReq.Payload)
			if err != nil {
				return nil, parseError(msgUserAuthRequest)
			}
			// OpenSSH supports Kerberos V5 mechanism only for GSS-API authentication.
			if userAuthRequestGSSAPI.N == 0 {
				authErr = fmt.Errorf("ssh: Mechanism negotiation is not supported")
				break
			}
			var i uint32
			present := false
			for i = 0; i < userAuthRequestGSSAPI.N; i++ {
				if userAuthRequestGSSAPI.OIDS[i].Equal(krb5Mesh) {
					present = true
					break
				}
			}
			if !present {
				authErr = fmt.Errorf("ssh: GSSAPI authentication must use the Kerberos V5 mechanism")
				break
			}
			// Initial server response, see RFC 4462 section 3.3.
			if err := s.transport.writePacket(Marshal(&userAuthGSSAPIResponse{
				SupportMech: krb5OID,
			})); err != nil {
				return nil, err
			}
			// Exchange token, see RFC 4462 section 3.4.
			packet, err := s.transport.readPacket()
			if err != nil {
				return nil, err
			}
			userAuthGSSAPITokenReq := &userAuthGSSAPIToken{}
			if err := Unmarshal(packet, userAuthGSSAPITokenReq); err != nil {
				return nil, err
			}
			authErr, perms, err = gssExchangeToken(gssapiConfig, userAuthGSSAPITokenReq.Token, s, sessionID,
				userAuthReq)
			if err != nil {
				return nil, err
			}
		default:
			authErr = fmt.Errorf("ssh: unknown method %q", userAuthReq.Method)
		}

		authErrs = append(authErrs, authErr)

		if config.AuthLogCallback != nil {
			config.AuthLogCallback(s, userAuthReq.Method, authErr)
		}

		if authErr == nil {
			break userAuthLoop
		}

		authFailures++

		var failureMsg userAuthFailureMsg
		if config.PasswordCallback != nil {
			failureMsg.Methods = append(failureMsg.Methods, "password")
		}
		if config.PublicKeyCallback != nil {
			failureMsg.Methods = append(failureMsg.Methods, "publickey")
		}
		if config.KeyboardInteractiveCallback != nil {
			failureMsg.Methods = append(failureMsg.Methods, "keyboard-interactive")
		}
		if config.GSSAPIWithMICConfig != nil && config.GSSAPIWithMICConfig.Server != nil &&
			config.GSSAPIWithMICConfig.AllowLogin != nil {
			failureMsg.Methods = append(failureMsg.Methods, "gssapi-with-mic")
		}

		if len(failureMsg.Methods) == 0 {
			return nil, errors.New("ssh: no authentication methods configured but NoClientAuth is also false")
		}

		if err := s.transport.writePacket(Marshal(&failureMsg)); err != nil {
			return nil, err
		}
	}

	if err := s.transport.writePacket([]byte{msgUserAuthSuccess}); err != nil {
		return nil, err
	}
	return perms, nil
}

// sshClientKeyboardInteractive implements a ClientKeyboardInteractive by
// asking the client on the other side of a ServerConn.
type sshClientKeyboardInteractive struct {
	*connection
}

func (c *sshClientKeyboardInteractive) Challenge(user, instruction string, questions []string, echos []bool) (answers []string, err error) {
	if len(questions) != len(echos) {
		return nil, errors.New("ssh: echos and questions must have equal length")
	}

	var prompts []byte
	for i := range questions {
		prompts = appendString(prompts, questions[i])
		prompts = appendBool(prompts, echos[i])
	}

	if err := c.transport.writePacket(Marshal(&userAuthInfoRequestMsg{
		Instruction: instruction,
		NumPrompts:  uint32(len(questions)),
		Prompts:     prompts,
	})); err != nil {
		return nil, err
	}

	packet, err := c.transport.readPacket()
	if err != nil {
		return nil, err
	}
	if packet[0] != msgUserAuthInfoResponse {
		return nil, unexpectedMessageError(msgUserAuthInfoResponse, packet[0])
	}
	packet = packet[1:]

	n, packet, ok := parseUint32(packet)
	if !ok || int(n) != len(questions) {
		return nil, parseError(msgUserAuthInfoResponse)
	}

	for i := uint32(0); i < n; i++ {
		ans, rest, ok := parseString(packet)
		if !ok {
			return nil, parseError(msgUserAuthInfoResponse)
		}

		answers = append(answers, string(ans))
		packet = rest
	}
	if len(packet) != 0 {
		return nil, errors.New("ssh: junk at end of message")
	}

	return answers, nil
}
